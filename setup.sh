#!/bin/sh
# Offline build of the framework from files on disk: Lean library + driver, Rust harness.
set -e
cd "$(dirname "$0")"
export CARGO_NET_OFFLINE=true
(cd lean && lake build Iox2 iox2driver)
cp /repo/Cargo.lock harness/Cargo.lock 2>/dev/null || true
(cd harness && cargo build --release --offline)
(cd harness && ./build_trace.sh)
