#!/bin/sh
# Offline build of the framework from files on disk: Lean library + driver, Rust harness.
set -e
cd "$(dirname "$0")"
export CARGO_NET_OFFLINE=true
python3 extract/reloc_layout.py >/dev/null 2>&1 || true
[ -f extract/ffi_errors.py ] && (python3 extract/ffi_errors.py >/dev/null 2>&1 || true)
[ -f extract/api_order.py ] && (python3 extract/api_order.py >/dev/null 2>&1 || true)
(cd lean && lake build Iox2 iox2driver)
# pre-build every property module in one go (each check builds its own modules again, incrementally;
# a module that does not build is reported by the check of its property, not here)
(cd lean && lake build $(ls Iox2/Props/*.lean | sed 's/\.lean$//; s#/#.#g') >/dev/null 2>&1 || true)
cp /repo/Cargo.lock harness/Cargo.lock 2>/dev/null || true
(cd harness && cargo build --release --offline)
(cd harness && ./build_trace.sh)
