"""C04, SERVICE level part: the creator (and the opener) of a publish-subscribe service is killed at any system call of
`create` (`open`); a survivor runs the dead-node clean-up (Node::list + DeadNodeView::try_remove_stale_resources, which calls
Service::__internal_remove_node_from_service for every service tag of the dead node); then a live node creates the same service
name again.  To be called from pC04.run (after core.prove, which builds Iox2/Props/C04Service.lean with the other C04 modules):

    import pC04svc
    pC04svc.svc_part(ctx)

Model: lean/Iox2/Model/ServiceCrash.lean, driver component `svccrash`; theorems lean/Iox2/Props/C04Service.lean.  The strace machinery
(own iceoryx2 domain per scenario, canonicaliser of strace lines, kill injection on entering the N-th invocation of a system call,
single-stepping scheduler) is that of pC07.py; this module adds the roles of the service's files and the service-level harness
commands (harness/src/life/svc.rs, bin `lifecycle`).

 (i)   step lists: canonicalised system calls on service tag / static config / dynamic config / type-definition resource of the real
       creator, opener, cleaner (after several kill points) and re-creator = the model's step lists (memory-only steps `mem:…` and the
       node-level steps `node:…`, which are atomic abstractions of the C07 model, carry no system call of these roles);
 (ii)  SIGKILL on entering EVERY such system call of the creator (and of the opener); then the real survivors: files by kind, clean-up
       result, files by kind, result of the re-creation = the model's prediction for that crash point;
 (iii) the witnesses of the refuted statements replayed (FINDINGS); witnesses of repaired defects replayed against the model (REGRESSIONS)."""
import core, os, re, subprocess, time, shutil, glob, stat, signal
import pC07
from pC07 import LINE, report

# the harness binary; the override exists for runs against a scratch build (seeded-fault validation), never set by ./check
LIFE = os.environ.get("VERIF_LIFECYCLE_BIN", pC07.LIFE)

COMP = "svccrash"
SET = pC07.SET.replace(",getdents64", "") + ",ftruncate,mmap"
SVC = "verif/svccrash"
HANG_S = 4.0          # a survivor that has not returned after this many seconds is reported as `hang` (and killed); the model has no such outcome
INIT_MODE = {"stag": "0600", "static": "0600", "dyn": "0200"}


class SvcCase(pC07.Case):
    """own iceoryx2 domain; roles = the files of the SERVICE (the node's own files are the business of pC07 and invisible here)"""

    def role_of(self, path):
        path = path.rstrip("/")
        b = os.path.basename(path)
        if b.endswith(".service_tag"):
            return "stag"
        if b.endswith(".service"):
            return "static"
        if b.endswith(".dynamic") and b.startswith(self.prefix):
            return "dyn"
        if b.endswith(".type_definition"):
            return "typedef"
        if path == self.root + "/services":
            return "services"
        if os.path.dirname(path) == self.root + "/services" and b.isdigit():
            return "typedir"
        return None

    def run(self, cmd, *args, timeout=60):
        try:
            p = subprocess.run([LIFE, cmd, self.cfg] + [str(a) for a in args], capture_output=True, text=True, timeout=timeout)
        except subprocess.TimeoutExpired:
            return ["hang"]
        return p.stdout.strip().split("\n")

    # --- what exists, by kind (the model's `ls`) -----------------------------------------------
    hide = ()                # node ids of living helper processes (the holder of the opener scenario): their node files are not shown

    def ls(self):
        out = []
        shown = lambda f: not any(h in f for h in self.hide)      # noqa
        for f in sorted(glob.glob(f"{self.root}/services/*.service")):
            out.append("static=" + ("locked" if stat.S_IMODE(os.stat(f).st_mode) == 0o600 else "final"))
        for f in sorted(glob.glob(f"/dev/shm/{self.prefix}*.dynamic")):
            s = os.stat(f)
            out.append("dyn=" + ("final" if stat.S_IMODE(s.st_mode) & 0o400 else ("created" if s.st_size == 0 else "sized")))
        for f in sorted(filter(shown, glob.glob(f"{self.root}/nodes/*/*.service_tag"))):
            out.append("stag=" + ("init" if stat.S_IMODE(os.stat(f).st_mode) == 0o600 else "final"))
        if list(filter(shown, glob.glob(f"{self.root}/nodes/*.node_monitor"))):
            out.append("node")
        if [d for d in filter(shown, glob.glob(f"{self.root}/nodes/*")) if os.path.isdir(d)]:
            out.append("nodedir")
        if glob.glob(f"{self.root}/services/*/"):
            out.append("typedir")
        return " ".join(out) or "-"

    # --- survivors ------------------------------------------------------------------------------
    def clean(self):
        out = self.run("clean", timeout=HANG_S)
        if out == ["hang"]:
            return "hang"
        r = [x for x in [l for l in out if l.startswith("clean")][0].split(" ")[1:] if x]
        return r[0].split(":", 1)[1] if r else "none"

    def recreate(self):
        out = self.run("svc-recreate", SVC, timeout=30)
        r = [l for l in out if l.startswith("recreate ")]
        return r[0].split(" ", 1)[1] if r else "?" + " ".join(out)[:80]

    def exists(self):
        out = self.run("svc-exists", SVC, timeout=HANG_S)
        return " ".join(out)


class SvcCanon(pC07.Canon):
    """pC07.Canon + the system calls that only occur on the service's files (ftruncate / mmap of the dynamic config, read / fstat of
    static and dynamic config, mkdir of the services directory, access of the static config) and the result marker on stdout"""

    ROLES = ("stag", "static", "dyn")      # roles whose fd-based calls are canonicalised here
    INIT = INIT_MODE
    MARK = r'"(created|opened|recreate) '  # result lines on stdout

    def __init__(self, case):
        super().__init__(case, closes=False)
        self.mark = None            # number of events when the process printed its (first) result line
        self.marks = []             # … every result line

    def _count(self, sc):
        self.cnt[sc] = self.cnt.get(sc, 0) + 1
        self.cur = (sc, self.cnt[sc])

    def feed(self, line):
        m = LINE.match(line.strip())
        if not m:
            return super().feed(line)
        _, sc, args, ret, rest = m.groups()
        done = ret != "?"
        name = None
        first = args.split(",")[0].strip()
        if sc in ("fchmod", "write", "read", "newfstatat", "ftruncate", "mmap"):
            if sc == "mmap":
                parts = [a.strip() for a in args.split(",")]
                first = parts[4] if len(parts) > 4 else ""
                if "MAP_SHARED" not in args:
                    first = ""
            if sc == "write" and first == "1" and re.search(self.MARK, args):
                self._count(sc)
                self.marks.append(len(self.events))
                self.mark = self.marks[0]
                return
            f = self.fd.get(int(first)) if first.isdigit() else None
            if f and not f[3] and f[0] in self.ROLES:
                role = f[0]
                if sc == "fchmod":
                    mode = args.split(",")[1].strip()
                    name = f"fchmod {role} {'init' if mode == self.INIT[role] else 'final'}"
                elif sc == "newfstatat":
                    name = f"fstat {role}"
                elif sc == "mmap":
                    name = f"mmap {role}"
                else:
                    name = f"{sc} {role}"
                self._count(sc)
                if done:
                    self.emit(name, int(first))
                else:
                    self.pending = name
                return
            if sc in ("ftruncate", "mmap"):
                self._count(sc)
                return
        elif sc == "mkdir":
            pm = re.search(r'"([^"]*)"', args)
            if pm and self.case.role_of(pm.group(1)) == "services":
                name = "mkdir services"
        elif sc in ("access", "faccessat", "faccessat2"):
            pm = re.search(r'"([^"]*)"', args)
            if pm and self.case.role_of(pm.group(1)) == "static":
                name = "access static"
        if name is not None:
            self._count(sc)
            if done:
                self.emit(name)
            else:
                self.pending = name
            return
        return super().feed(line)

    def steps(self):
        """events up to the result line"""
        return self.events if self.mark is None else self.events[:self.mark]


def canon_file(case, path):
    c = SvcCanon(case)
    for l in open(path):
        c.feed(l)
    return c


def strace(case, out, args, inject=None, stdin=None, timeout=60):
    """pC07.strace with the service-level set of system calls; inject = (system call, n): SIGKILL on entering its n-th invocation"""
    cmd = ["strace", "-f", "-o", out, "-e", f"trace={SET}"]
    if inject:
        cmd += ["-e", f"inject={inject[0]}:signal=SIGKILL:when={inject[1]}"]
    cmd += [LIFE, args[0], case.cfg] + [str(a) for a in args[1:]]
    p = subprocess.Popen(cmd, stdout=subprocess.PIPE, stderr=subprocess.PIPE, stdin=subprocess.PIPE if stdin is not None else subprocess.DEVNULL, text=True,
                         start_new_session=True)
    try:
        p.stdout_text, p.stderr_text = p.communicate(stdin, timeout=timeout)
    except subprocess.TimeoutExpired:
        # a spinning survivor: strace AND the traced process have to go (the traced process holds the clean-up lock)
        try:
            os.killpg(p.pid, signal.SIGKILL)
        except ProcessLookupError:
            pass
        p.communicate()
        return None
    p.stdout = p.stdout_text
    return p


# ------------------------------------------------------------------------------------------------
# model side

def model(lines):
    out = core.run_model(COMP, "\n".join(lines) + "\n")
    return [o for o in out if o != ""]


def mismatch(ctx, key, what, obj):
    ctx.violation(key, what, dict(obj, engine="svccrash"))


def visible(steps):
    """model steps that are system calls on the service's files"""
    return [x for x in steps if x and x != "-" and not x.startswith(("mem:", "node:"))]


def fuse_of(msteps, j):
    """fuse (= number of completed model steps) of the crash point `killed on entering the j-th system call`"""
    idx = [i for i, x in enumerate(msteps) if not x.startswith(("mem:", "node:"))]
    return idx[j] if j < len(idx) else len(msteps)


def parse_kv(line):
    return dict(x.split("=", 1) for x in line.split(" ") if "=" in x)


VICTIMS = {
    # kind: (harness command, model reset line, model spawn line, holder needed)
    "creator": ("svc-create", "reset", "spawn v creator 0", False),
    "opener": ("svc-open", "reset held", "spawn v opener", True),
}


class Holder:
    """a living process that created the service and holds it (opener scenario)"""

    def __init__(self, case):
        self.p = subprocess.Popen([LIFE, "svc-create", case.cfg, SVC, "hold"], stdin=subprocess.PIPE, stdout=subprocess.PIPE, text=True)
        self.first = self.p.stdout.readline().strip()
        case.hide = (self.first.split(" ")[1],) if self.first.startswith("created ") else ()

    def drop(self):
        try:
            self.p.stdin.write("drop\n"); self.p.stdin.flush()
            self.p.stdout.readline()
            self.p.wait(timeout=20)
        except Exception:      # noqa
            self.p.kill()


def experiment(case, kind, rec, k, nsteps):
    """the real experiment for the crash point `on entering the k-th traced system call of the victim's call` (k = nsteps: after the call)"""
    cmd = VICTIMS[kind][0]
    holder = Holder(case) if VICTIMS[kind][3] else None
    try:
        tr = case.dir + "/kill.txt"
        strace(case, tr, [cmd, SVC], inject=rec.at[k] if k < nsteps else None)
        kc = canon_file(case, tr)
        want = rec.steps()
        okpos = (kc.events == want[:k] and kc.pending == want[k]) if k < nsteps else kc.steps() == want
        before = case.ls()
        res, csteps = [], []
        for i in (1, 2):
            trc = f"{case.dir}/clean{i}.txt"
            p = strace(case, trc, ["clean"], timeout=HANG_S)
            if p is None:
                res.append("hang")
            else:
                r = [x for x in [l for l in p.stdout.split("\n") if l.startswith("clean")][0].split(" ")[1:] if x]
                res.append(r[0].split(":", 1)[1] if r else "none")
            csteps.append(canon_file(case, trc).events)
        after = case.ls()
        if holder:
            holder.drop()
            holder = None
        after_drop = case.ls()
        trr = case.dir + "/re.txt"
        p = strace(case, trr, ["svc-recreate", SVC])
        rr = [l for l in (p.stdout if p else "").split("\n") if l.startswith("recreate ")]
        recreate = rr[0].split(" ", 1)[1] if rr else "hang"
        rsteps = canon_file(case, trr).steps()
        return dict(okpos=okpos, trace=kc.events, pending=kc.pending, before=before, clean1=res[0], clean2=res[1], csteps=csteps, after=after,
                    after_drop=after_drop, recreate=recreate, rsteps=rsteps)
    finally:
        if holder:
            holder.drop()


def prediction(kind, fuse):
    """the model's prediction for the crash point `fuse`: outcome + the step lists of survivor 1 and of the re-creator"""
    reset, spawn = VICTIMS[kind][1], VICTIMS[kind][2]
    ls = [reset, spawn, f"step v {fuse}", "kill v", "ls", "spawn c cleaner 7", "run c", "show c", "kill c", "spawn d cleaner 8", "run d", "show d", "kill d", "ls"]
    if VICTIMS[kind][3]:
        ls += ["holderdrop"]
    ls += ["ls", "spawn r creator 1", "run r", "show r"]
    m = model(ls)
    c1, c2, r = parse_kv(m[7]), parse_kv(m[11]), parse_kv(m[-1])
    base = 14 if VICTIMS[kind][3] else 13
    return dict(before=m[4], clean1=c1["clean"], clean2=c2["clean"], csteps=[visible(m[6].split(";")), visible(m[10].split(";"))], after=m[13], after_drop=m[base + 1],
                recreate=r["result"], rsteps=visible(m[-2].split(";")))


def agree(impl, mod):
    bad = []
    for f in ("before", "clean1", "clean2", "after", "after_drop", "recreate", "rsteps"):
        if impl[f] != mod[f]:
            bad.append(f)
    for i in (0, 1):
        a, b = impl["csteps"][i], mod["csteps"][i]
        n = min(len(a), len(b))
        if (a[:n] != b[:n]) if impl[f"clean{i+1}"] == "hang" else (a != b):      # a spinning survivor: the common prefix (both were cut somewhere)
            bad.append(f"csteps{i+1}")
    if not impl["okpos"]:
        bad.append("kill-position")
    return bad


def kill_table(ctx, kind, points=None):
    """(i) the victim's step list and (ii) every kill point of it"""
    t0 = time.time()
    cmd, reset, spawn, held = VICTIMS[kind]
    c = SvcCase()
    try:
        holder = Holder(c) if held else None
        tr = c.dir + "/rec.txt"
        strace(c, tr, [cmd, SVC])
        rec = canon_file(c, tr)
        if holder:
            holder.drop()
    finally:
        c.cleanup()
    msteps = model([reset, spawn, "trace v"])[-1].split(";")
    ctx.evaluations += 1
    ctx.count("svc.steplist.scenarios")
    same = rec.steps() == visible(msteps)
    ctx.log(f"[svccrash] step list `{kind}`: {len(msteps)} model steps ({len(visible(msteps))} system calls), implementation {'identical' if same else 'DIFFERS'}")
    ctx.extra.setdefault("svc_step_lists", {})[kind] = msteps
    if not same:
        mismatch(ctx, f"svc:steplist:{kind}", f"system-call sequence of the real `{cmd}` differs from the model's step list", dict(impl=rec.steps(), model=visible(msteps)))
        # the kill points are run all the same (positions from the real trace, prediction = the model's crash point with the same number of system calls)
    n = len(rec.steps())
    rows, bad = [], 0
    for k in (range(n + 1) if points is None else points):
        c = SvcCase()
        try:
            impl = experiment(c, kind, rec, k, n)
        finally:
            c.cleanup()
        fuse = fuse_of(msteps, k)
        mod = prediction(kind, fuse)
        diff = agree(impl, mod)
        ctx.evaluations += 1
        ctx.count(f"svc.kill.{kind}")
        ctx.distinct.add((kind, impl["before"], impl["clean1"], impl["after"], impl["recreate"]))
        nxt = rec.steps()[k] if k < n else "(returned)"
        rows.append(dict(k=k, fuse=fuse, next=nxt, before=impl["before"], clean1=impl["clean1"], clean2=impl["clean2"], after=impl["after"],
                         after_drop=impl["after_drop"], recreate=impl["recreate"], agrees=not diff))
        if diff:
            bad += 1
            mismatch(ctx, f"svc:kill:{kind}:survivors",
                     f"{kind} killed on entering system call {k} (`{nxt}`, model crash point {fuse}): survivors see `{impl['before']}`, clean-up `{impl['clean1']}` / `{impl['clean2']}`, "
                     f"left `{impl['after']}`, re-creation `{impl['recreate']}`; the model predicts `{mod['before']}`, `{mod['clean1']}` / `{mod['clean2']}`, `{mod['after']}`, `{mod['recreate']}` "
                     f"(differing: {', '.join(diff)})", dict(kind=kind, k=k, fuse=fuse, step=nxt, impl=impl, model=mod))
    ctx.extra.setdefault("svc_kill_tables", {})[kind] = rows
    report(ctx, f"service-level kill points `{kind}`", len(rows), bad, t0)
    return rows


# ------------------------------------------------------------------------------------------------
# (iii) witnesses of the refuted statements, replayed on the real code

def replay_point(step_name, occurrence=0, kind="creator"):
    """kills the victim on entering the given system call of its call, then the survivors; returns the experiment record"""
    cmd, reset, spawn, held = VICTIMS[kind]
    c = SvcCase()
    try:
        holder = Holder(c) if held else None
        tr = c.dir + "/rec.txt"
        strace(c, tr, [cmd, SVC])
        rec = canon_file(c, tr)
        if holder:
            holder.drop()
    finally:
        c.cleanup()
    ks = [i for i, x in enumerate(rec.steps()) if x == step_name]
    if len(ks) <= occurrence:
        return None
    c = SvcCase()
    try:
        return experiment(c, kind, rec, ks[occurrence], len(rec.steps()))
    finally:
        c.cleanup()


def describe(e):
    return (f"after the kill `{e['before']}`; clean-up `{e['clean1']}`, again `{e['clean2']}`; left `{e['after']}`; re-creation `{e['recreate']}`")


def finding_tag_init(ctx):
    e = replay_point("write stag")
    if e is None:
        return False, "kill point not found"
    return (e["clean1"] == "err:InternalError" and e["clean2"] == "err:InternalError" and "stag=init" in e["after"] and "node" in e["after"].split(" ")), describe(e)


def finding_static_locked(ctx):
    e = replay_point("fsync static")
    if e is None:
        return False, "kill point not found"
    return (e["clean1"] == "ok" and e["after"] == "static=locked" and e["recreate"] == "err:AlreadyExists"), describe(e)


FINDINGS = [
    ("finding:svc-kill-in-service-tag-creation-node-uncollectable",
     "a process killed inside create_service_tag of `create` / `open` (node/mod.rs:1083-1103: static storage `create` = open(O_CREAT|O_EXCL, 0600) … fchmod(0400)) leaves a service tag "
     "with its creation permission; the static-storage listing skips it (file.rs list_cfg), remove_node's rmdir fails with ENOTEMPTY, the cleaner abandons: every dead-node clean-up "
     "returns InternalError and the dead node (token, directory, details, tag) stays for ever; the service name itself stays usable "
     "(theorem C04Service.crash_in_service_tag_creation_not_restored; the service-tag sibling of finding D26)",
     finding_tag_init),
    ("finding:svc-kill-with-locked-static-config-name-lost",
     "a creator killed between open(O_CREAT|O_EXCL, 0600) and fchmod(0400) of the static config (builder/mod.rs create: create_locked … unlock) leaves a LOCKED static config; "
     "__internal_remove_node_from_service reads it with timeout 0, gets InitializationNotYetFinalized, treats the service as non-existing (service/mod.rs:1155-1156, :803-809) and removes only "
     "the tag; the clean-up reports success, the 0600 file stays and no API removes it: create ⇒ AlreadyExists, open ⇒ HangsInCreation for ever "
     "(theorem C04Service.crash_with_locked_static_config_not_restored)",
     finding_static_locked),
]


REGRESSIONS = [
    # (violation key, victim kind, system call the victim is killed in, what the defect was)
    ("regress:svc-dynamic-config-unsized-spin", "creator", "ftruncate dyn",
     "repaired defect (fix 150ae1b; formerly finding:svc-kill-before-dynamic-config-sized-cleanup-spins): a creator killed between shm_open(O_CREAT|O_EXCL, 0200) and ftruncate of the "
     "dynamic config leaves a 0-byte shm object; uid 0 can open it, and posix_shared_memory.rs open_impl retried MappingSizeIsZero without a time-out check, so every dead-node clean-up "
     "of that node (and every `open` of the service) span for ever and the name stayed taken"),
]


def replay_regressions(ctx):
    """repaired defects: the witness scenario stays as a regression replay; it is compared with the model (which follows the repaired code), a return of the old
    behaviour is a violation under a `regress:` key"""
    for key, kind, step, what in REGRESSIONS:
        ctx.count("findings.replayed")
        ctx.evaluations += 1
        err = "kill point not found"
        try:
            e = replay_point(step, kind=kind)
        except Exception as ex:      # noqa
            e, err = None, repr(ex)
        if e is None:
            ctx.violation(key, f"regression replay could not be run (kill point `{step}` of the {kind}: {err}): {what}", dict(engine="svccrash", kind=kind, step=step), nfi=True)
            continue
        msteps = model([VICTIMS[kind][1], VICTIMS[kind][2], "trace v"])[-1].split(";")
        fuse = [i for i, x in enumerate(msteps) if x == step][0]
        mod = prediction(kind, fuse)
        diff = agree(e, mod)
        if diff or "hang" in (e["clean1"], e["clean2"], e["recreate"]):
            ctx.violation(key, f"{kind} killed on entering `{step}`: {describe(e)}; the model (repaired code) predicts clean-up `{mod['clean1']}`, left `{mod['after']}`, "
                               f"re-creation `{mod['recreate']}` (differing: {', '.join(diff)}). {what}", dict(engine="svccrash", kind=kind, step=step, fuse=fuse, impl=e, model=mod))
        else:
            ctx.log(f"[regress] {key}: repaired behaviour confirmed ({describe(e)})")


def replay_findings(ctx):
    """the same protocol as pC07.replay_findings: registered ⇒ known finding; not registered ⇒ only logged until registered"""
    saved = pC07.FINDINGS
    pC07.FINDINGS = FINDINGS
    try:
        pC07.replay_findings(ctx)
    finally:
        pC07.FINDINGS = saved
    replay_regressions(ctx)


RULE = ("service level: real `create` of a publish-subscribe ipc service by a process with a node (harness bin `lifecycle svc-create`), killed with SIGKILL on entering EVERY system call "
        "that touches the service tag, the services directory, the static config or the dynamic config (17 kill points + `after the call returned`; the three memory-only steps of the dynamic-config "
        "initialisation lie between two system calls and are covered by the model only); afterwards the real survivors: two complete Node::list + try_remove_stale_resources runs "
        "(`lifecycle clean`, traced; a survivor without result after 4 s counts as `hang`), files left by kind (static config locked/final, dynamic config created/sized/final, service tag init/final, "
        "node token, node directory), then `create` of the same name by a fresh node (`lifecycle svc-recreate`): results, leftovers and the canonicalised system-call sequences of survivors and "
        "re-creator = the prediction of the model Iox2/Model/ServiceCrash.lean for that crash point (theorem C04Service.creator_kill_table); the same for `open` of a service held by a living "
        "process (kill at every system call of the opener; after the clean-up the holder drops the service, which must then be gone and creatable); witnesses of the two refuted statements replayed; "
        "regression replay of the repaired zero-sized-dynamic-config spin (kill on entering ftruncate of the dynamic config) against the model")

ASSUMPTIONS = [
    "service level: publish-subscribe, ipc, fixed-size payload (no type-definition resource); one service name, one victim node; the node-level halves of the clean-up (Node::list + state() + "
    "ProcessCleaner::new; port tags + remove_node + drop/abandon of the cleaner) are ATOMIC steps in the service model — their own system-call level model, theorems and kill points are C07 / C04Fs; "
    "kill points inside node creation are covered there, not here",
    "survivors run one after the other (the clean-up lock makes concurrent cleaners exclusive: C07.cleaners_mutually_exclusive); the re-creator starts after the clean-up attempts; "
    "a creator racing with a cleaner of another dead node that holds a tag of the same service (notes/lifecycle-protocol.md D.B race) is not modelled",
    "the survivors run with uid 0 (sandbox): open of a 0200 shm object succeeds and fstat decides; an ordinary user gets EACCES from that open and reaches the same "
    "InitializationNotYetFinalized ⇒ Ok(None) branch earlier (by reading posix_shared_memory.rs open_impl; same outcomes since fix 150ae1b, hence no uid parameter in the model; not executed)",
    "the stores of the dynamic-config initialisation (version := 0, containers, register_node_id, version) are invisible to strace: their position between mmap and the final fchmod is by reading "
    "(posix_shared_memory.rs:337-396); a kill between them is the model's crash points 16‥18, observably equal to 15 and 19",
    "time-outs: creation_timeout plays no role for the survivors (read_static_service_config and open_dynamic_config use timeout 0); the opener's wait loop is not modelled (it reports HangsInCreation at once)",
]


def svc_part(ctx):
    """returns the kill-point rows by victim kind; violations / findings are registered on ctx"""
    ok, err = core.build_harness(ctx)
    if not ok:
        ctx.violation("harness-build", "harness does not build against the current tree", dict(engine="cargo", stderr=err[-3000:]), nfi=True)
        return None
    if not core.build_driver(ctx):
        return None
    rows = {}
    try:
        for kind in KINDS:
            rows[kind] = kill_table(ctx, kind)
        replay_findings(ctx)
    finally:
        for d in glob.glob(f"/tmp/vl{os.getpid()}x*"):
            shutil.rmtree(d, ignore_errors=True)
        for f in glob.glob(f"/dev/shm/vl{os.getpid()}x*"):
            try:
                os.unlink(f)
            except OSError:
                pass
    ctx.extra["svc_rule"] = RULE
    return rows


KINDS = ["creator", "opener"]


if __name__ == "__main__":
    # stand-alone: `python3 checklib/pC04svc.py [table|replay <finding key>|part]` (no evidence is written)
    import sys

    class _Ctx:
        prop, tier, known, evaluations, distinct, extra = "C04", "quick", [], 0, set(), {}

        def log(self, *a):
            print(*a, flush=True)

        def count(self, *a):
            pass

        def violation(self, key, what, obj, nfi=False):
            print(f"VIOLATION {key}: {what}", flush=True)

    ctx = _Ctx()
    mode = sys.argv[1] if len(sys.argv) > 1 else "table"
    t0 = time.time()
    try:
        if mode == "replay":
            for key, what, fn in FINDINGS:
                if len(sys.argv) < 3 or sys.argv[2] == key:
                    print(key, fn(ctx))
            if len(sys.argv) < 3 or sys.argv[2].startswith("regress:"):
                replay_regressions(ctx)
        else:
            for kind in (sys.argv[2:] or KINDS):
                for r in kill_table(ctx, kind):
                    print(r)
            if mode == "part":
                replay_findings(ctx)
    finally:
        for d in glob.glob(f"/tmp/vl{os.getpid()}x*"):
            shutil.rmtree(d, ignore_errors=True)
        for f in glob.glob(f"/dev/shm/vl{os.getpid()}x*"):
            os.unlink(f)
    print(f"{time.time()-t0:.1f}s")
