"""C04, file-system level part: a process killed at any system call while creating / dropping a NODE or while cleaning up
a dead node; survivors' `Node::list` + dead-node clean-up.  To be called from pC04.run (after core.prove, which builds
Iox2/Props/C04Fs.lean together with the other C04 modules):

    import pC04fs
    pC04fs.fs_part(ctx)

Compares the real binaries (harness bin `lifecycle`, SIGKILL injected with strace on entering the system call of every
model step) with the kill-point tables proved in Iox2/Props/C04Fs.lean (`owner_kill_table`, `cleaner_kill_table`) via the
model driver, and replays the witnesses of the refuted statements.  Shares all machinery with pC07."""
import core, glob, os, shutil
import pC07

FINDINGS = [f for f in pC07.FINDINGS if f[0].split(":")[1].split("-")[0] in ("D4", "D24", "D25", "D26", "D28")]

RULE_FS = ("file-system level: real NodeBuilder::create + node drop and Node::list + DeadNodeView::try_remove_stale_resources, one process each (harness bin `lifecycle`), "
           "killed with SIGKILL on entering the system call of every model step (31 kill points of creation + orderly drop, 40 of the clean-up of a dead node with a tag); "
           "afterwards survivors: Node::list verdict, raw ProcessState, clean-up result, files left by role = the proved kill-point tables (Iox2/Props/C04Fs.lean)")

ASSUME_FS = pC07.ASSUME


def fs_part(ctx):
    """returns the kill-point rows; violations / findings are registered on ctx"""
    ok, err = core.build_harness(ctx)
    if not ok:
        ctx.violation("harness-build", "harness does not build against the current tree", dict(engine="cargo", stderr=err[-3000:]), nfi=True)
        return None
    if not core.build_driver(ctx):
        return None
    quick = ctx.tier == "quick"
    try:
        rows = pC07.check_kill_points(ctx, quick)
        saved = pC07.FINDINGS
        pC07.FINDINGS = FINDINGS
        try:
            pC07.replay_findings(ctx)
        finally:
            pC07.FINDINGS = saved
    finally:
        for d in glob.glob(f"/tmp/vl{os.getpid()}x*"):
            shutil.rmtree(d, ignore_errors=True)
        for f in glob.glob(f"/dev/shm/vl{os.getpid()}x*"):
            try:
                os.unlink(f)
            except OSError:
                pass
    ctx.extra["fs_rule"] = RULE_FS
    return rows
