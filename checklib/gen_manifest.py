#!/usr/bin/env python3
"""Writes MANIFEST.json from the table below (kept in one place so it stays valid)."""
import json, os
V = os.path.dirname(os.path.dirname(os.path.abspath(__file__)))

CLAIMED = {
 "C16": dict(
    level="proof",
    text="Lean 4 theorems over executable models of Vector/Queue/SlotMap/FlatMap/String transcribed from the Rust code: refinement to the unbounded "
         "standard container, capacity invariants, failing operations change nothing, conservation of every element (drop exactly once) — for all "
         "capacities and all operation sequences. The models are tied to /repo on every run by a differential run (exhaustive short histories + "
         "PRNG histories, three storage flavours) against the real containers.",
    note="Trusted: Lean kernel; axioms propext/Classical.choice/Quot.sound; the hand-written models' fidelity rests on the differential run (testing); "
         "harness and canonicaliser. Vector and String models are list-based (the code's raw-buffer moves are memmove), Queue and SlotMap models keep the ring / "
         "free-list representation of the code.",
    technique="Lean 4 proof (refinement + invariants by induction over op lists) + differential correspondence model vs implementation",
    design="DESIGN.md §5 C16"),
}
CLAIMED["C15"] = dict(
    level="proof",
    text="Lean 4 theorems over arithmetic models of math::align, PoolAllocator (construction, bucket count, bucket address, index recovery), BumpAllocator, "
         "PointerOffset packing and resize_hint: for every base address, memory size and bucket layout each bucket is in bounds, aligned and disjoint from every other; "
         "for every alloc/dealloc history live allocations stay pairwise disjoint; errors are exactly the documented ones and change nothing; offset/segment packing "
         "round-trips. Tied to /repo on every run by a differential layout sweep + random histories against bb/memory, bb/elementary and cal/shm_allocator, with an "
         "independent pointer oracle in the harness.",
    note="Trusted: Lean kernel + 3 standard axioms; hand-written arithmetic model (tie = differential testing); usize as Nat; single-threaded index order. "
         "Dynamic growth of data segments is covered at port level by other checks only.",
    technique="Lean 4 proof (arithmetic lemmas + bookkeeping invariant by induction over op lists) + differential correspondence with pointer oracle",
    design="DESIGN.md §5 C15")
CLAIMED["C19"] = dict(
    level="proof",
    text="Lean 4 theorems over an executable model of SemanticString (FileName, Path, FilePath, RestrictedFileName), ServiceName, NodeName and the named-concept "
         "naming scheme (path_for / extract_name_from_file / _from_path): a byte string is accepted iff it satisfies the documented rules and then round-trips; an accepted "
         "file name has no separator, NUL, control character, '.' or '..'; every edit keeps the value valid and errors change nothing; path_for adds exactly one component "
         "under the path hint; name extraction inverts path_for; domains with different roots, or with prefixes neither of which extends the other, never attribute each "
         "other's files — for all byte strings and all configurations. The unrestricted isolation claim is refuted by a proved counter-theorem (prefix extension, known "
         "finding). Tied to /repo by an exhaustive (all strings of length <= 2/3 over 256 byte values) and random differential run against the real types.",
    note="Trusted: Lean kernel + 3 standard axioms; hand-written model (tie = differential testing, exhaustive for short strings); Linux constants (separator '/', lengths 255); "
         "which files exist in a directory is outside the model (isolation is decided per file name).",
    technique="Lean 4 proof (decidable validity predicates, round-trip and isolation theorems for all byte strings) + exhaustive/random differential correspondence",
    design="DESIGN.md §5 C19")
CLAIMED["C03"] = dict(
    level="proof",
    text="Lean 4 theorems over small-step interleaving models (one step per atomic operation / plain cell access, transcribed from the Rust code) of IndexQueue / spsc::Queue and "
         "SafelyOverflowingIndexQueue, for ANY number of threads, ANY programs, ALL capacities and EVERY schedule: role exclusivity (producer/consumer hand-over), cursor bounds, "
         "slot integrity, exactly-once / FIFO accounting (popped = log.take rp; for the overflowing queue every taken position has exactly one owner, popped and evicted values are "
         "exactly those positions, a torn slot read never escapes), conservation, and forward simulation to the atomic (overflowing) bounded FIFO. Tied to /repo by steptrace: the "
         "instrumented implementation (drop-in regenerated from the working tree) is run under a deterministic scheduler and every atomic event, memory ordering, value and return "
         "value is compared with the model.",
    note="Trusted: Lean kernel + 3 standard axioms; hand-written L2 models (tie = trace comparison on the explored programs/schedules); sequential consistency (the view-based RA model of "
         "DESIGN §4.2 is not mechanised: weak-memory stale reads are NOT covered by a theorem, orderings are only compared between model and code); drop-in generator, scheduler, "
         "pthread-mutex interposition. The zero-copy connection clause (offsets conserved, release never fails) is proved at L1 in the port-level model, see C08/C02.",
    technique="Lean 4 proof (inductive invariants over an interleaving semantics, forward simulation) + atomic-step trace correspondence under a deterministic scheduler",
    design="DESIGN.md §5 C03")
CLAIMED["C12"] = dict(
    level="proof",
    text="Lean 4 theorems over a small-step interleaving model of UnrestrictedAtomic (sequence counter + two cells written and read WORD BY WORD) for ANY number of readers, ANY "
         "value width, ANY programs and EVERY schedule including preemption between two words: a load returns exactly one of the completely stored values (never a mixture), "
         "at least as new as the value current when it began, successive loads of a reader never go back, at most one producer token; plus arithmetic theorems that the two cells are "
         "aligned, disjoint and inside the reserved size for every size/alignment/aligned address (and a counter-theorem for unaligned addresses). Tied to /repo by steptrace on "
         "UnrestrictedAtomic<[u64;W]> (copy-style and loan-style stores) and a differential run of the layout functions. PORT LEVEL (Iox2/Props/C12Ports.lean, 38 theorems over all API histories of "
         "an L1 model of Writer / Reader / EntryHandleMut / EntryValueUninit / EntryHandle): at most one writer port; per key at most one write handle including outstanding loans; a second request "
         "is refused with the documented error and changes nothing; every value a reader obtains is the latest completed update of its key and reads are monotone per handle; wrong key/type refused; "
         "reader limit. One natural statement is false and proved false (a dropped Writer keeps the writer slot while one of its handles lives); tied to /repo by a differential run of the real ports through the generic API and through the custom-key API of the language bindings. "
         "COMPOSITION LEVEL (Iox2/Props/C12Compose.lean over Model/Compose.lean): the ORDER in which the three loan-style update paths of writer.rs (loan_uninit + update_with_copy / value_mut + "
         "assume_init_and_update / the bindings' __InternalEntryValueUninit) compose capture-spare-cell, write (two words, not atomic) and publish is regenerated from /repo by the translator "
         "extract/api_order.py (Iox2/Gen/ApiOrder.lean); for the programs built from the generated lists, interleaved step by step with any number of readers: a read is in one piece, was published, reads are monotone "
         "(contrast theorem: with the two calls exchanged a reader returns a mixture).",
    note="Trusted: Lean kernel + 3 standard axioms; hand-written L2 model (tie = trace comparison; word-level preemption is not observable in traces, only in the theorem); sequential "
         "consistency; port level: hand-written L1 model (tie = differential run, exhaustive 3/4-call suffixes + random, local + ipc; API calls atomic; one node); composition level: the call-order translator "
         "(text of the function bodies, fails closed; control flow between the tracked calls is not translated), canonical values; a changed order breaks the theorem and a schedule of the model built from the changed source is the replay (not replayed on real threads).",
    technique="Lean 4 proof (seqlock invariant over an interleaving semantics with word-granular copies; composition invariant over programs regenerated from the source) + atomic-step trace correspondence + call-order translator + differential port / layout check",
    design="DESIGN.md §5 C12")
CLAIMED["C13"] = dict(
    level="proof",
    text="Lean 4 theorems over a small-step interleaving model of create_or_open_shm / reserve_port / remove_state / cleanup_shared_memory / Drop / remove_port on a storage with "
         "ownership semantics (every incarnation's memory stays alive while handles exist; removal is by name), for ANY number of threads, ANY contract-respecting programs and "
         "EVERY schedule: at most one occupant per role and incarnation; an occupied role has its bit set on the incarnation that is linked and not destroyed (never destroyed "
         "while attached, never attached to a destroyed resource); each incarnation destroyed at most once and only in state MarkedForDestruction; the mark is final; a refused "
         "attach changes nothing; plus a proved counterexample for forced removals outside the contract. Tied to /repo by steptrace on the process-local connection.",
    note="Trusted: Lean kernel + 3 standard axioms; hand-written L2 model (tie = trace comparison); pthread-mutex interposition makes storage operations atomic steps; the compared "
         "parameter is the buffer size only (the other five settings are checked by the same code path); POSIX shared-memory flavour not traced.",
    technique="Lean 4 proof (bit-ownership / destroy-token accounting invariant over an interleaving semantics) + atomic-step trace correspondence",
    design="DESIGN.md §5 C13")
CLAIMED["C09"] = dict(
    level="proof",
    text="Lean 4 theorems over small-step interleaving models (one step per atomic operation) of UniqueIndexSet (free list with ABA-tagged head) and RobustUniqueIndexSet "
         "(owner cells + generation counter, lock, recovery of dead owners) for ANY number of threads, ANY programs and EVERY schedule: an index is held by at most one "
         "thread and lies within the capacity; an acquire reports OutOfIndices only when every cell is taken or being released/recovered; the lock is final; recovery "
         "returns exactly the dead owner's indices, each once; the generation only grows. Two edge statements are false and proved false (capacity >= 2^24-1 for the plain "
         "set, a generation counter of 2^64-1 for the robust set). Tied to /repo by atomic-step traces. Pool allocator: C15's arithmetic theorems + differential histories.",
    note="Trusted: Lean kernel + 3 standard axioms; hand-written L2 models (tie = trace comparison under a serialising scheduler: SC interleavings only — the Relaxed/Acquire/Release "
         "annotations are compared textually but weak-memory executions are neither modelled nor exhibited); pool allocator concurrency reduced to the index set.",
    technique="Lean 4 proof (ownership invariant over an interleaving semantics, by induction over schedules) + atomic-step trace correspondence",
    design="DESIGN.md §5 C09")
CLAIMED["C05"] = dict(
    level="proof",
    text="Lean 4 theorems over a small-step interleaving model of the event hand-shake (Notifier::notify: activate id, IDLE->PENDING, trigger, PENDING->NOTIFIED; Waiter::drain_events: "
         "NOTIFIED->IDLE or wait, store IDLE, empty trigger, drain) over both event states (bit set with 8-bit words, counting set) for ANY number of notifiers, ANY programs, EVERY "
         "schedule: no phantom ids, never more occurrences than sent, merged but never dropped, conservation for the counting set, and the wake-up invariant. The full no-lost-wake-up "
         "statement is FALSE: a machine-checked reachable deadlock (listener asleep, NOTIFIED state, empty trigger, undelivered id) that replays on the real code (known finding); "
         "the partial theorems state exactly which step loses the signal. Tied to /repo by atomic-step traces including blocking waits. Above the hand-shake, an L1 model of the "
         "Notifier / Listener PORTS (registries, connections refreshed inside notify, lifecycle events, node death and cleanup) for EVERY reachable history: a notify reaches exactly the "
         "attached listeners, an id stays pending until the listener's next wait whatever happens in between, waits report only what was sent, each id once; a single-listener "
         "notification reaches exactly the keyed listener, a stale key (listener gone, slot possibly re-used) is refused and delivers nothing.",
    note="Trusted: Lean kernel + 3 standard axioms; hand-written L2 model (tie = trace comparison under a serialising scheduler, SC interleavings; all hand-shake operations are SeqCst "
         "in the source); the trigger back-ends are represented by a counter (trace trigger composed with the real EventImpl); time-outs are not modelled. The port-level L1 model is tied by a "
         "differential run of the real ports (local and ipc, 1..4 nodes), where every call is one atomic step.",
    technique="Lean 4 proof (wake-up invariant over an interleaving semantics + machine-checked counterexample) + atomic-step trace correspondence",
    design="DESIGN.md §5 C05")
CLAIMED["C14"] = dict(
    level="proof",
    text="Lean 4: (1) the field table of every structure iceoryx2 places in shared memory is regenerated from /repo on every run by a translator; a theorem decided over the whole "
         "table states that no field of any of them, transitively, is a raw pointer, reference, owning pointer or heap container — pointers are self-relative; (2) theorems on the "
         "self-relative pointer arithmetic for every pair of mapping addresses (unbounded integers and wrapping 64-bit words): init in one mapping, resolve in another = image of the "
         "target; contrast theorem for absolute pointers. (3) The container / lock-free models are address-free; relocation runs (byte-wise block moves, per-thread alias mappings) "
         "compare the real structures against them.",
    note="Trusted: Lean kernel + axioms propext/Quot.sound; the translator's parser (fails closed); whitelisted: the pool allocator's base address kept as a number. Behaviour under relocation "
         "is established by differential/metamorphic runs (testing), the theorem part covers the layout table and the pointer arithmetic.",
    technique="Lean 4 proof over a table translated from the source on every run (decide) + pointer-arithmetic theorems + relocation correspondence runs",
    design="DESIGN.md §5 C14")
CLAIMED["C10"] = dict(
    level="proof",
    text="Lean 4 theorems over a small-step interleaving model of mpmc::Container (add: acquire slot, write words, bump generation to odd, bump change counter; remove: bump generation to even, "
         "release slot, bump change counter; update_state: change-counter check, per-slot generation/word copy/generation validation; recovery of dead owners through the robust index set) "
         "for ANY number of threads, programs and EVERY schedule: every entry of a snapshot was really added with exactly those words (no tearing, no phantom); no entry whose removal "
         "completed before the refresh began; a refresh that runs while nothing changes reports exactly the registered set and the next one reports nothing changed; every completed "
         "add/remove is noticed by the next refresh; the change counter is monotone. Tied to /repo by atomic-step traces.",
    note="Trusted: Lean kernel + 3 standard axioms; hand-written L2 model (tie = trace comparison under a serialising scheduler: SC interleavings only); deaths happen between operations only.",
    technique="Lean 4 proof (abstract phase machine + refinement + one inductive invariant over an interleaving semantics) + atomic-step trace correspondence",
    design="DESIGN.md §5 C10")
CLAIMED["C04"] = dict(
    level="proof",
    text="PARTIAL (a process killed INSIDE a port's creation / removal and the service files of the other messaging patterns are not modelled). SERVICE level: Lean kill tables over the "
         "step-level ServiceCrash model (creator 20 steps, opener 23 steps, cleaner, re-creator; `Sys.withCrash`) for EVERY crash point: after the survivors' clean-up the system is restored "
         "(nothing left, the name can be created again) exactly when the decidable predicate `cleanPoint` holds; the three windows where it is not (service tag / static config still at creation "
         "permission, dynamic config not yet sized) are refutations with concrete witnesses = known findings; a second crash of the cleaner changes nothing. PORT CREATION (Publisher / Subscriber of such a service, PortCrash model): the same kill tables for every fuse — restored except in "
         "the port-tag window (known finding D26) and between the connection's final fchmod and reserve_port (connection leaked); a cleaner killed between the removal of the port tag and "
         "the release of the registry slot leaks the slot (refutations = known findings). PORT level (publish-subscribe): the "
         "death of a node between two API calls followed by the clean-up is observationally an orderly drop of its objects, expressed with the proved L1 model's own operations (all C01/C02/C08 "
         "theorems apply to the survivors). File-system level of the NODE: Lean kill tables and theorems over the step-level Lifecycle model "
         "(see C07): a process killed between the commit of its monitoring token and the removal of its state file is collected completely by a survivor; killed earlier or later it is "
         "NOT (details file / token files / owner-lock + context orphaned for ever; a tag still at creation permission makes the node uncollectable; a failed cleanup drops the token and "
         "leaves the resources) — each proved as a refutation and replayed with a kill at the exact system call (known findings). Shared-memory level: Lean 4 theorems over the crash-extended interleaving models (`Sys.withCrash`: every thread = process carries a fuse and dies at ANY atomic step, frozen in the middle "
         "of whatever operation it was in) of the two shared-memory structures every lifecycle operation goes through — RobustUniqueIndexSet and the registry Container: survivors keep "
         "exclusive ownership; recovery acts only for dead owners, returns exactly their cells and is complete wherever they died; generations/lock monotone; every snapshot entry a "
         "survivor ever sees was genuinely published (no phantom, no torn entry) and odd generation <=> published for every slot in every reachable state; after recovery the dead owner "
         "is gone from the registry. One statement (no orphaned cell) is false in locked sets and proved false.",
    note="Trusted: Lean kernel + 3 standard axioms; hand-written L2 models + generic crash wrapper (tie = atomic-step traces with a logical thread killed at its k-th step, compared step by "
         "step; real processes killed with strace at every system call of node / service creation, opening, drop and clean-up, survivors' verdicts, leftovers and the re-creation compared with "
         "the proved kill tables; a real child process SIGKILLed between API calls for the port level); SC interleavings; the model includes the repair af4ba06 of the defect this check found "
         "(phantom registry entry after a death inside Container::add).",
    technique="Lean 4 proof (crash-closed inductive invariants over an interleaving semantics with arbitrary death points; kill tables decided in the kernel and lifted to every fuse) + atomic-step / system-call trace correspondence with crash injection",
    design="DESIGN.md §5 C04")
CLAIMED["C02"] = dict(
    level="proof",
    text="Lean 4 theorems over the L1 publish-subscribe model (every API call atomic; registries, snapshots, zero-copy connections with submission/completion queues and used-chunk "
         "bits, reference counters, LIFO pool, history, subscriber connection slot-map and expired-connection list) for EVERY reachable state of EVERY configuration: a free chunk is "
         "referenced by nothing (no unsent loan, no history entry, no undelivered entry or held sample of a live subscriber), so a loan never hands out a referenced chunk; the bytes seen "
         "through a sample held by a live subscriber never change; the reference counter is exact (loans + history + connection bits) and a chunk is loanable iff it is zero (no leak); "
         "a connection's used bits are exactly what is in flight on it. The same statement for samples that outlive their subscriber is FALSE (machine-checked history = known finding D16).",
    note="Trusted: Lean kernel + 3 standard axioms; hand-written L1 model (tie = differential run of the real ports, local and ipc, > 300k calls per run incl. exhaustive short histories "
         "and saturation histories, loan-exhaustion probe, canary re-read of every held sample); API calls are atomic in the model (concurrency below is C03/C09/C13); u64 payloads, "
         "one segment; request/response payloads use the same Sender/Receiver code (C11).",
    technique="Lean 4 proof (global inductive invariant over API histories: topology + reference accounting) + differential correspondence model vs implementation",
    design="DESIGN.md §5 C02")
CLAIMED["C01"] = dict(
    level="proof",
    text="Lean 4 theorems over the L1 publish-subscribe model, with ghost send numbers, for EVERY reachable state of EVERY configuration and every publisher/subscriber pair: what was "
         "pushed into a connection is strictly increasing in send order and splits into a consumed prefix (an interleaving of received and overflow-evicted samples) and the pending "
         "suffix — hence in order, at most once, nothing invented, the buffer always holds the newest delivered samples; eviction only with safe overflow and only from a full buffer, "
         "skipping only without it (and then the send call does not count the subscriber); every sample sent while connected is delivered or skipped, nothing else is lost; the newest "
         "min(history request, buffer) history samples come first; pending samples of a live subscriber still carry the payload written for their send number, and `receive` returns it; "
         "the subscriber's own per-publisher log is the connection's log. COMPOSITION LEVEL (Iox2/Props/C01Compose.lean): the order of refresh-connections / add-to-history / deliver in PublisherSharedState::send_sample is regenerated from /repo (extract/api_order.py); for the regenerated program, interleaved step by step with a subscriber that registers at any moment, a late joiner receives every sample at most once and in send order (one subscriber, unbounded history and buffer).",
    note="Trusted: Lean kernel + 3 standard axioms; hand-written L1 model (tie = differential run of the real ports, local and ipc: exhaustive short histories, random, saturation); "
         "API calls atomic; DiscardData strategy; u64 payload; ghost fields are written but never read by the transitions.",
    technique="Lean 4 proof (three-layer inductive invariant: structure, reference accounting / non-reuse, send numbering) + differential correspondence model vs implementation",
    design="DESIGN.md §5 C01")
CLAIMED["C20"] = dict(
    level="proof",
    text="Lean 4 theorems over an executable model of WaitSet + reactor + deadline queue + listener readiness (transcribed from waitset.rs, reactor/epoll.rs, posix_select.rs, "
         "deadline_queue.rs) for EVERY reachable state (any capacity, number of listeners and services): one processing call reports exactly the live guards whose object has a pending "
         "event, every expired interval and every missed deadline — never a dropped guard, never a foreign listener, nothing twice; a pending event persists until drained and is reported "
         "by the next call; refused attaches (same object twice, beyond capacity) report the documented error and leave the observable state unchanged; detach frees the object for "
         "re-attachment with a fresh index; len/capacity invariants. Two natural statements are false and proved false with replays on the real code (wrong error when the REACTOR is "
         "full — reachable only through a capacity test double; a refused attach_deadline leaves a map entry behind — known finding).",
    note="Trusted: Lean kernel + 3 standard axioms; hand-written model (tie = differential run of the real WaitSet over real epoll and select reactors, exhaustive short histories + random); "
         "kernel behaviour of epoll/select and real time are outside the model (logical clock, 10 ms units with overrun detection); single-threaded; callback always continues.",
    technique="Lean 4 proof (inductive invariant reactor list = guards, deadline indices = guards; exact dispatch by case analysis) + differential correspondence model vs implementation",
    design="DESIGN.md §5 C20, notes/C20-design.md")
CLAIMED["C08"] = dict(
    level="proof",
    text="Lean 4 theorems over the L1 publish-subscribe model for EVERY reachable state of EVERY sane configuration: a loan is never refused for lack of memory (the closed formula "
         "max_subscribers*(buffer+borrowed)+history+loans covers every reachable distribution of samples) and the exhaustion probe is always stopped by the loan limit; a loan succeeds "
         "iff fewer than max_loaned_samples loans are out, a refused loan changes nothing; the completion queue never fills (sub+borrow+comp <= cap+max_borrowed), so a release always "
         "returns the chunk; creating a publisher/subscriber succeeds iff a registry slot is free and a refused creation leaves the world exactly as it was; registries never exceed the "
         "limits; no API call panics as long as the application holds at most max_borrowed samples per subscriber. Without that discipline a fatal panic is reachable and the borrow limit "
         "is per connection, not per subscriber: both machine-checked with concrete histories (known findings D19/D20). With `override_sample_preallocation` (outside `Cfg.Sane`) "
         "the model says exactly when a loan runs out of memory. EVENT pattern (L1 model of the real Notifier / Listener ports): creating a notifier / listener / opening from a further "
         "node succeeds iff a slot is free, with the documented error otherwise and no effect; limits never exceeded; a dropped port's slot is usable again; an event id above "
         "event_id_max_value is refused and delivered to nobody.",
    note="Trusted: Lean kernel + 3 standard axioms; hand-written L1 model (tie = differential run of the real ports: exhaustive short histories, random, saturation histories that keep buffers, "
         "borrows, history and loans full; oracles on the implementation alone: OOM, panic, per-subscriber borrow count). Publish-subscribe and event; request-response limits are exercised by C11, "
         "blackboard limits are not covered.",
    technique="Lean 4 proof (five-part inductive invariant: registries, connections, publisher memory accounting, subscriber storage) + differential correspondence model vs implementation",
    design="DESIGN.md §5 C08")
CLAIMED["C06"] = dict(
    level="proof",
    text="Lean 4 theorems (a) over an L1 model of service create / open / open_or_create / drop for all four messaging patterns (static config = settings, dynamic config = registered nodes "
         "and ports, per-node reference counts, tags; verify_service_configuration transcribed per pattern in code order) for ALL histories: one incarnation per name, a second create is refused "
         "and changes nothing, a successful open returns exactly the creator's settings, open succeeds iff the service exists and every stated requirement is met — otherwise the FIRST failing "
         "check in code order names the error and nothing changes, the service's resources exist iff it has a user (never removed earlier, never later), re-creation with other settings is seen by "
         "later openers; (b) over a step-level interleaving model of concurrent creators / openers (tag, O_EXCL static config in locked state, unlock, dynamic config create + init + version, "
         "registration; wait budgets for time-outs) for ANY number of processes and EVERY schedule: at most one creator succeeds, a successful opener has read a complete static config and a "
         "fully initialised dynamic config, every run terminates with success or a documented error. Two statements are false and proved false with replays on the real code (known findings).",
    note="Trusted: Lean kernel + 3 standard axioms; hand-written models (tie: differential run of the real builders, 1..3 nodes in one process, ipc: random, pairwise requirement matrices, "
         "exhaustive short histories; strace step-list equality for create/open; multi-process stress as support only); no refinement theorem between the two models; dead-node cleanup "
         "interfering with a live creator and the drop role of the step-level system are not modelled.",
    technique="Lean 4 proof (history invariants for the L1 model; interleaving invariant + termination measure for the step-level model) + differential and strace correspondence",
    design="DESIGN.md §5 C06, notes/C06-design.md")
CLAIMED["C18"] = dict(
    level="proof",
    text="Lean 4 theorems decided in the kernel over error tables that a translator REGENERATES FROM THE C BINDING'S SOURCES ON EVERY RUN (61 C enums, 263 variants, 45 Rust->C mappings with "
         "344 rows, printable names, *_string functions): for every enum codes are pairwise distinct; and — with the offending entries of the current sources excluded BY NAME and proved to be "
         "exactly the offenders — codes are non-zero, names non-empty and distinct, every Rust error variant has a C value (total), distinct Rust variants get distinct C values (injective), every "
         "C value is used (onto), every error enum has its *_string function. The full statements are false for the current sources and proved false (7 refutations = known findings). "
         "Behavioural equivalence of C and Rust API (publish-subscribe fixed/slice payloads, events; C-only, Rust-only and mixed worlds) is established by differential runs (testing).",
    note="Trusted: Lean kernel + axioms propext/Quot.sound; the translator's parser (regular expressions over the binding's sources, fails closed on unknown constructs; a catch-all arm replacing "
         "the last explicit arm is NOT noticed); Part B is testing: ipc only, request-response / blackboard / waitset functions of the C API are covered by the tables only.",
    technique="Lean 4 proof over tables translated from the source on every run (decide +kernel, exception lists proved exact) + four-world differential run C API vs Rust API",
    design="DESIGN.md §5 C18, notes/C18-design.md")
CLAIMED["C11"] = dict(
    level="proof",
    text="Lean 4 theorems over an L1 model of request-response through the real port machinery (registries, request connections client->server, response connections server->client "
         "with one channel per active request, channel states and disconnect hints, data segments with reference counts, active request / pending response lifecycles; ghost request "
         "and send numbers) for EVERY reachable state: every response handed out by a pending response carries that request's id and was sent for a request of the same client OR that "
         "client was already gone when it was sent (the unconditional routing statement is FALSE: cross-client mis-routing after slot reuse, machine-checked history replayed on the real "
         "ports = known finding); per (request, server) stream responses arrive in send order, at most once, loss only by the documented full-buffer / overflow rule; each request is handed "
         "to a server at most once, in send order; dropping a pending response / active request disconnects the stream (no stored connection carries the id, is_connected false, a later owner "
         "of the channel only hands out responses with its own id); active-request limit, buffer size and per-connection borrow limit are never exceeded and a refused send changes nothing. "
         "COMPOSITION LEVEL (Iox2/Props/C11Compose.lean over Model/Compose.lean): the order in which ClientSharedState::send_request refreshes the connections, opens the response channel, counts and delivers "
         "is regenerated from /repo (extract/api_order.py -> Iox2/Gen/ApiOrder.lean); for the program built from the generated list, interleaved step by step with a server that pops and judges "
         "requests and with the user dropping pending responses: a server never drops a request silently while its pending response lives, a living pending response is connected, every request in flight is answerable "
         "(contrast theorem: delivering before opening loses a request).",
    note="Trusted: Lean kernel + 3 standard axioms; hand-written L1 model (tie = differential run of the real Client/Server ports, local + ipc: exhaustive short histories, random, "
         "saturation, churn; ≈3M calls in the reference run; 15 of 18 single-branch model mutants are killed by the run); API calls atomic; persistence of a closed channel word across "
         "re-attachment is checked by an executable predicate in the driver only (testing); chunk contents travel with the queue entry (content stability is C02's subject); composition level: the call-order translator (text of the function body, fails closed), one client / one server; "
         "a changed order breaks the theorem and a schedule of the model built from the changed source is the replay.",
    technique="Lean 4 proof (inductive invariants over API histories; refutation + partial theorem for routing; composition invariant over the program regenerated from the source) + differential correspondence model vs implementation + call-order translator",
    design="DESIGN.md §5 C11, notes/C11-design.md")
CLAIMED["C07"] = dict(
    level="proof",
    text="Lean 4 theorems over a step-level model (one step per system call) of the monitoring token protocol — owner (node creation: details file, context / state / owner-lock files, "
         "fcntl lock, permission commits; orderly drop), monitor (Node::list / ProcessMonitor::state) and cleaner (ProcessCleaner::new + dead-node cleanup) as processes of an interleaving "
         "system closed under death at ANY step (locks of a dead process vanish), for ANY number of monitors and cleaners and EVERY schedule: a running owner is not reported dead while "
         "starting or running and nothing is reclaimed from it; a successful cleanup only ever happens for a dead owner; a dead owner is never reported alive; concurrent cleaners are mutually "
         "exclusive and a contended cleaner is told so; the token stays intact while the state file exists. Four natural statements are FALSE and proved false with the exact interleaving / "
         "kill point, each replayed on the real code (known findings): a live node is reported Dead during its own orderly shutdown (two variants), a dead owner can stay uncollectable for ever, "
         "a second cleaner can acquire after the first finished.",
    note="Trusted: Lean kernel + 3 standard axioms; hand-written model (tie: strace step-list equality for 6 scenarios; kill at every system call of owner create/drop (31 points) and of the cleaner "
         "(40 points) with survivor verdict + leftover files compared with the model; owner stopped after each step with a full Node::list; monitor stepped against a finishing owner; 2..4 "
         "concurrent cleaners under a SIGSTOP/SIGCONT scheduler); uid 0 only (no EACCES paths); single-threaded processes; one node; descriptors represented by program counters.",
    technique="Lean 4 proof (rely/guarantee invariant over an interleaving semantics with arbitrary death points; refutations with concrete schedules) + system-call-level correspondence (strace equality, kill/stop injection)",
    design="DESIGN.md §5 C07, notes/C07-design.md")
CLAIMED["C17"] = dict(
    level="proof",
    text="Lean 4 theorems over the Shutdown model (the L1 publish-subscribe world plus the node handle and the service handle as droppable objects; reference-counted cores: node <- service "
         "core <- port cores <- loans / samples; `resources` = what exists in the file system / shared-memory namespace by kind) for EVERY reachable history: no drop ever panics, whatever "
         "else is still alive; once every object is dropped — in ANY order, whatever happened in between — nothing the application created remains except possibly the node's empty directory, "
         "and that remains only when a port-side object released the last reference to the node (the full `nothing remains` statement is FALSE: machine-checked history = known finding D22); "
         "while a port (or one of its loans / samples) lives, its data segment, port tag, the service's files and the node's files all exist, even after node and service handle were dropped; "
         "a connection never outlives both of its ports; every theorem of C01/C02/C08 applies to the survivors (`reach_pubsub`). The same for the event pattern (L1 event-ports model): "
         "what is left after everything was dropped is exactly the directories of the nodes whose last owner was a port; dropping a handle leaves every port alone.",
    note="Trusted: Lean kernel + 3 standard axioms; hand-written model (tie = the real ipc service: all 720 permutations of the drop order of a 6-object graph x 2 configurations + random graphs, "
         "the set of existing resources by kind compared after every single drop; local variant for behaviour/panics); publish-subscribe (one node) and event (1..2 nodes); request-response object graphs "
         "(ports, loaned requests, pending responses, active requests, responses dropped in random orders with the survivors used in between) are compared with the proved ReqRes model for behaviour (not for the file-system footprint, not all permutations); "
         "blackboard object graphs and wait-set guards are not enumerated.",
    technique="Lean 4 proof (life-cycle view invariant on top of the C02 invariant; refutation by a concrete history) + differential correspondence over all drop-order permutations",
    design="DESIGN.md §5 C17")
NOT_YET = {}

ENGINE_OF = {"C03": "lean+steptrace", "C04": "lean+steptrace+lifecycle+seqdiff", "C05": "lean+steptrace+seqdiff", "C07": "lean+lifecycle", "C09": "lean+steptrace+seqdiff",
             "C10": "lean+steptrace", "C12": "lean+steptrace+translator+seqdiff", "C13": "lean+steptrace", "C14": "lean+translator+seqdiff+steptrace", "C15": "lean+seqdiff+steptrace",
             "C06": "lean+svclife", "C18": "lean+translator+seqdiff", "C11": "lean+translator+seqdiff"}


def main():
    props = [json.loads(l)["id"] for l in open(os.path.join(V, "properties.jsonl"))]
    checks = []
    for pid in props:
        if pid in CLAIMED:
            c = CLAIMED[pid]
            checks.append(dict(
                property_id=pid,
                quick_cmd=f"./check {pid} --tier quick",
                thorough_cmd=f"./check {pid} --tier thorough",
                evidence_file=f"/verif/evidence/{pid}.json",
                replay_cmd_template=f"./check {pid} --replay {{path}}",
                engine=ENGINE_OF.get(pid, "lean+seqdiff"),
                level_claimed=dict(category=c["level"], text=c["text"], design_ref=c["design"]),
                level_note=c["note"],
                technique=c["technique"]))
    na = [dict(property_id=p, reason=NOT_YET.get(p, "check under construction in this round (model + theorems + correspondence not committed yet); not claimed until it runs green"))
          for p in props if p not in CLAIMED]
    m = dict(
        version=1,
        setup_cmd="./setup.sh",
        hooks=dict(guard="iox2_verif_dropin (cfg used only inside the generated copy of iceoryx2-pal-concurrency-sync under /verif/harness; /repo carries no hooks)",
                   enable="harness builds /repo crates by path; instrumented atomics are injected with a cargo `paths` override, no source change in /repo",
                   baseline_off_cmd="cd /repo && cargo nextest run --workspace --no-fail-fast --test-threads 8 --offline || cargo test --workspace --no-fail-fast --offline",
                   source_commits=[], add_only=True),
        engines=[dict(name="lean", path="/verif/lean", serves_properties=sorted(CLAIMED), kind_free_text="Lean 4 models + theorems (lake build of Iox2/Props/<id>*.lean), axiom audit, compiled line-protocol driver iox2driver"),
                 dict(name="seqdiff", path="/verif/harness", serves_properties=["C01", "C02", "C04", "C05", "C08", "C09", "C11", "C12", "C14", "C15", "C16", "C17", "C18", "C19", "C20"],
                      kind_free_text="Rust harness calling the real code in-process, one operation per line; differential vs the Lean driver, shrinking, oracles on the implementation alone"),
                 dict(name="steptrace", path="/verif/harness/src/trace", serves_properties=["C03", "C04", "C05", "C09", "C10", "C12", "C13", "C14", "C15"],
                      kind_free_text="instrumented drop-in of iceoryx2-pal-concurrency-sync regenerated from /repo (cargo paths override), baton scheduler: random and bounded-preemption exhaustive schedules, blocking, alias mappings, crash fuse; atomic-step traces compared with the L2 models"),
                 dict(name="lifecycle", path="/verif/harness/src/life", serves_properties=["C04", "C07"],
                      kind_free_text="process-level scenarios under strace: system-call step-list equality, kill / stop injection at every system call, survivor verdict and leftover files vs the Lifecycle model"),
                 dict(name="svclife", path="/verif/harness/src/svc", serves_properties=["C06"],
                      kind_free_text="service create/open/drop histories with several nodes, requirement matrices, strace step lists, multi-process stress"),
                 dict(name="translators", path="/verif/extract", serves_properties=["C14", "C18"] + sorted(ENGINE_OF),
                      kind_free_text="dropin_gen.py (instrumentation), reloc_layout.py (C14 field table -> Iox2/Gen/RelocLayout.lean), ffi_errors.py (C18 error tables -> Iox2/Gen/FfiErrors.lean), api_order.py (C11 / C12: order of the tracked lower-layer calls in the port functions -> Iox2/Gen/ApiOrder.lean); all fail closed")],
        checks=checks,
        notes="fix: commits in /repo (genuine defects found by these checks) are listed in known_findings.json with status fixed.",
        not_applicable=na)
    json.dump(m, open(os.path.join(V, "MANIFEST.json"), "w"), indent=1)

if __name__ == "__main__":
    main()
