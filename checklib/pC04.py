"""C04 — crash at any instant: survivor cleanup restores a clean, usable system."""
import core, re
import pC09, pC10, pC04fs, pC04ports, pC04svc, pC04port


def run(ctx):
    core.prove(ctx)
    drv = core.build_driver(ctx)
    ok, log = core.build_trace(ctx)
    if not ok:
        ctx.violation("harness-build", "instrumented build failed (drop-in generator or harness)", dict(engine="cargo", log=log[-3000:]), nfi=True)
        return core.finish(ctx)
    if drv:
        quick = ctx.tier == "quick"
        # shared-memory level: a logical thread (process) dies at its k-th atomic step, wherever that is;
        # survivors recover it; traces against the crash-extended L2 models + oracles on the trace alone
        core.trace_component(ctx, "ruisx", ["random", "--seed", ctx.seed, "--cases", 6 if quick else 60, "--progs", 150 if quick else 1500],
                             label="ruisx.random", oracle=pC09.index_oracle)
        core.trace_component(ctx, "containerx", ["random", "--seed", ctx.seed + 1, "--cases", 6 if quick else 60, "--progs", 150 if quick else 1500],
                             label="containerx.random", oracle=pC10.registry_oracle)
        core.trace_component(ctx, "containerx", ["exhaustive", "--seed", ctx.seed + 2, "--cases", 1500 if quick else 40000, "--progs", 4 if quick else 14,
                                                 "--preempt", 2 if quick else 3], label="containerx.exhaustive", oracle=pC10.registry_oracle)
        # file-system level: node creation / orderly drop / dead-node cleanup killed at every system call
        # (strace injection), survivor verdict and leftover files against the step-level Lifecycle model
        pC04fs.fs_part(ctx)
        # port level: a process with a node and ports dies between two API calls; a survivor cleans up and works on
        pC04ports.ports_part(ctx)
        # service level: the creator / opener of a service killed at every system call; survivors' clean-up, then the name is created again
        pC04svc.svc_part(ctx)
        # port creation: a process killed at every system call of Publisher / Subscriber creation; clean-up; the living holder works on
        pC04port.port_part(ctx)
    return core.finish(
        ctx, level="proof",
        rule="shared-memory level: RobustUniqueIndexSet and the registry Container with one logical thread (a process) killed after k atomic steps (k random in 0..44, i.e. at any "
             "point inside acquire / release / add / remove / recover / update_state), survivors recovering the dead owner and refreshing; each thread through its own mapping; every "
             "atomic step compared with the crash-extended L2 model (Sys.withCrash); ownership / registry oracles on the implementation's trace alone. distinct = distinct (program, interleaving). " + pC04fs.RULE_FS + ". " + pC04svc.RULE + ". " + pC04port.RULE + ". " + pC04ports.RULE,
        extra_assumptions=["PARTIAL: theorems cover (i) the shared-memory structures of the lifecycle (port/node registries = Container over RobustUniqueIndexSet) with a crash at any atomic step, "
                           "(ii) the node's files with a kill at every system call of creation / drop / clean-up, (iii) publish-subscribe ports with the death of a node BETWEEN API calls (death + clean-up "
                           "= orderly drop, expressed with the proved L1 model's own operations); (iv) the creator / opener of a publish-subscribe service killed at every system call, then clean-up and re-creation; "
                           "(v) a process killed at every system call of the creation of a Publisher / Subscriber of such a service, clean-up, the living holder works on; a process killed inside a port's "
                           "REMOVAL, the other port kinds and the other messaging patterns' files are not modelled",
                           "a death never runs destructors: the harness unwinds the logical thread; the traced components have no destructor with shared-memory effects",
                           "sequentially consistent interleavings only"] + pC04svc.ASSUMPTIONS + pC04port.ASSUMPTIONS + pC04ports.ASSUMPTIONS)
