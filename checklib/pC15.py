"""C15 — shm allocators: disjoint, aligned, in-bounds memory; offsets; resize hints."""
import core
import pC15resize


def classify(case, idx, impl_out, model_out):
    op = case[idx][0].split(" ")
    kind = case[0][0].split(" ")[1] if case[0][0].startswith("new") else "?"
    if "ORACLE[" in impl_out:
        return f"{kind}:oracle:" + impl_out.split("ORACLE[", 1)[1].split(":")[0].replace(" ", "-")
    if impl_out == "PANIC":
        return f"{kind}:panic:{op[0]}"
    return f"{kind}:result:{op[0]}"


def bump_oracle(e):
    """on the implementation's trace alone: every returned chunk is inside the memory, aligned, and no two overlap"""
    hdr = e["prog"].split(" | ")[0]
    import re
    size = int(re.search(r"size=(\d+)", hdr).group(1)); start = int(re.search(r"start=(\d+)", hdr).group(1))
    threads = [[o.split(" ") for o in t.split(",") if o] for t in e["prog"].split(" | ")[1:]]
    ptr = [0] * len(threads)
    got = []
    for l in e["lines"]:
        tk = l.split(" ")
        if tk[1] == "PANIC":
            return "panic"
        if tk[1] == "ret":
            t = int(tk[0][1:]); op = threads[t][ptr[t]]; ptr[t] += 1
            if tk[3].startswith("ok:"):
                off = int(tk[3][3:]); sz, al = int(op[1]), int(op[2])
                if off + sz > size:
                    return "out-of-bounds"
                if (start + off) % al != 0:
                    return "misaligned"
                for (o2, s2) in got:
                    if off < o2 + s2 and o2 < off + sz:
                        return "overlap"
                got.append((off, sz))
    return None


def run(ctx):
    core.prove(ctx)
    drv = core.build_driver(ctx)
    ok, err = core.build_harness(ctx)
    if not ok:
        ctx.violation("harness-build", "harness does not build against the current tree", dict(engine="cargo", stderr=err[-3000:]), nfi=True)
        return core.finish(ctx)
    if drv:
        quick = ctx.tier == "quick"
        core.diff_component(ctx, "alloc", ["gen", "--exhaustive", 24 if quick else 64], classify, label="alloc.layout-sweep")
        core.diff_component(ctx, "alloc", ["gen", "--seed", ctx.seed, "--cases", 3000 if quick else 40000, "--len", 30 if quick else 80], classify, label="alloc.random")
        # dynamically growing segments (memory owner + views): real DynamicMemory / DynamicView vs the ResizeMem model
        pC15resize.resize_part(ctx)
        # the bump allocator's CAS loop under concurrency: atomic-step traces against the L2 model
        okt, log = core.build_trace(ctx)
        if not okt:
            ctx.violation("harness-build", "instrumented build failed", dict(engine="cargo", log=log[-3000:]), nfi=True)
        else:
            core.trace_component(ctx, "bump", ["random", "--seed", ctx.seed, "--cases", 8 if quick else 40, "--progs", 150 if quick else 1000], label="bump.random", oracle=bump_oracle)
            core.trace_component(ctx, "bump", ["exhaustive", "--seed", ctx.seed + 1, "--cases", 1500 if quick else 40000, "--progs", 4 if quick else 14, "--preempt", 2 if quick else 3],
                                 label="bump.exhaustive", oracle=bump_oracle)
    return core.finish(
        ctx, level="proof",
        rule="layout sweep: every bucket size 1..N x bucket alignment {1,2,4,8,16} x base shift {0,1,3,8} x {bb PoolAllocator, cal shm PoolAllocator}, 14 random "
             "alloc/dealloc/resize-hint ops each; random: bucket sizes that are / are not multiples of alignments 1..4096, unaligned bases 0..4096, partial last "
             "buckets, memory smaller than the alignment padding, requests with size 0..3*bucket and alignment up to 4096; bump allocator and PointerOffset packing "
             "cases. Every returned address is compared with the Lean model and independently checked by the harness (aligned to the request, inside the managed "
             "memory, not overlapping a live allocation, writable). distinct = distinct output vectors of cases with > 2 ops",
        extra_assumptions=list(getattr(pC15resize, "ASSUMPTIONS", [])) + ["dynamically growing segments: " + str(getattr(pC15resize, "RULE", ""))[:600], "usize arithmetic modelled in Nat (no overflow for the sizes iceoryx2 can map)",
                           "the free-index order of UniqueIndexSet under a single thread is a stack (its concurrent behaviour is C09)",
                           "growth of dynamic data segments at PORT level (slice loans through publishers) is not driven; the cal-level DynamicMemory/DynamicView are"])
