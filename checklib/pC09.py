"""C09 — unique index sets / pool allocator: exclusive ownership of acquired slots."""
import core, re
import pC15


def index_oracle(e):
    """on the implementation's trace alone.  Conservative (never a false alarm): an index counts as
    possibly free from the first step of its holder's release (or of a recovery of its dead holder)."""
    prog = e["prog"].split(" | ")
    cap = int(re.search(r"cap=(\d+)", prog[0]).group(1))
    threads = [[o.split(" ") for o in t.split(",") if o] for t in prog[1:]]
    n = len(threads)
    ptr = [0] * n
    held = [[] for _ in range(n)]
    started = [False] * n          # current op of the thread has produced an event
    owner = {}                     # idx -> (thread, "held" | "releasing")
    ever = set()
    locked_at = None               # line number of a `locked` result
    op_start_line = [None] * n

    def skip_silent(t):
        while ptr[t] < len(threads[t]):
            op = threads[t][ptr[t]]
            if op[0] in ("release", "release_lock") and int(op[1]) >= len(held[t]):
                ptr[t] += 1
            elif op[0] in ("die", "die_in"):
                ptr[t] += 1
            else:
                break

    for ln, l in enumerate(e["lines"]):
        tk = l.split(" ")
        t = int(tk[0][1:])
        if tk[1] == "PANIC":
            return "panic"
        if t >= n:
            continue
        if not started[t]:
            skip_silent(t)
        if ptr[t] >= len(threads[t]):
            continue
        op = threads[t][ptr[t]]
        if not started[t]:
            started[t] = True
            op_start_line[t] = ln
            if op[0] in ("release", "release_lock"):
                idx = held[t].pop(int(op[1]))
                if owner.get(idx, (None,))[0] == t:
                    owner[idx] = (t, "releasing")
        if op[0] in ("recover", "recover_lock") and tk[1] != "ret" and not (tk[1] == "cell" and tk[2] == "gate"):
            victim = int(op[1]) - 100
            for idx, (o, st) in list(owner.items()):
                if o == victim:
                    owner[idx] = (o, "releasing")
        if tk[1] == "ret":
            res = tk[3] if len(tk) > 3 else ""
            if op[0] == "acquire":
                if res.startswith("ok:"):
                    idx = int(res[3:])
                    if idx >= cap:
                        return "index-out-of-range"
                    if idx in owner and owner[idx][1] == "held" and owner[idx][0] != t:
                        return "double-ownership"
                    if locked_at is not None and op_start_line[t] is not None and op_start_line[t] > locked_at:
                        return "acquired-after-lock"
                    owner[idx] = (t, "held")
                    ever.add(idx)
                    held[t].append(idx)
                elif res == "err:OutOfIndices":
                    # an acquire in flight in another thread may already own an index it has not returned yet
                    inflight = sum(1 for u in range(n) if u != t and started[u] and ptr[u] < len(threads[u]) and threads[u][ptr[u]][0] == "acquire")
                    if len(ever) + inflight < cap and locked_at is None:
                        return "spurious-out-of-indices"
            elif res == "locked":
                locked_at = ln
            ptr[t] += 1
            started[t] = False
    return None


def run(ctx):
    core.prove(ctx)
    drv = core.build_driver(ctx)
    ok, log = core.build_trace(ctx)
    okh, err = core.build_harness(ctx)
    if not ok or not okh:
        ctx.violation("harness-build", "instrumented build failed (drop-in generator or harness)", dict(engine="cargo", log=(log + err)[-3000:]), nfi=True)
        return core.finish(ctx)
    if drv:
        quick = ctx.tier == "quick"
        for comp in ["uis", "ruis"]:
            core.trace_component(ctx, comp, ["random", "--seed", ctx.seed, "--cases", 20 if quick else 100, "--progs", 120 if quick else 400],
                                 label=f"{comp}.random", oracle=index_oracle)
            core.trace_component(ctx, comp, ["exhaustive", "--seed", ctx.seed + 1, "--cases", 2500 if quick else 20000, "--progs", 4 if quick else 14,
                                             "--preempt", 2 if quick else 3], label=f"{comp}.exhaustive", oracle=index_oracle)
        # pool allocator: bucket arithmetic + alloc/free histories over the same index set (sequential; C15's component)
        core.diff_component(ctx, "alloc", ["gen", "--seed", ctx.seed, "--cases", 1500 if quick else 20000, "--len", 30], pC15.classify, label="pool")
    return core.finish(
        ctx, level="proof",
        rule="steptrace on UniqueIndexSet (capacity 1..3, acquire / release / release with LockIfLastIndex / borrowed_indices) and RobustUniqueIndexSet (owner ids, a dying "
             "owner, recover / recover with lock by the others) with 2..3 threads: PRNG schedules and all schedules with a bounded number of preemptions; every atomic "
             "operation (head CAS with ABA counter, next-cell accesses, owner-cell CAS, generation counter) and every result compared with the L2 models; ownership oracle "
             "on the implementation's trace alone. Pool allocator alloc/free histories and bucket arithmetic against the arithmetic model (sequential). "
             "distinct = distinct (program, interleaving)",
        extra_assumptions=["sequentially consistent interleavings only; weak-memory stale reads are not exhibited by the serialising scheduler nor by x86 (limit, see DESIGN.md)",
                           "UniqueIndexSet: the 2^24 capacity edge (`uis_lock_final` is false for capacity >= 0xffffff) is out of the traced range; proved as a refutation in Lean",
                           "RobustUniqueIndexSet: the generation counter reaching 2^64-1 is indistinguishable from the lock (refuted in Lean, needs 2^64 operations)",
                           "pool allocator concurrency = UniqueIndexSet concurrency + the sequential bucket arithmetic of C15"])
