"""Composition level (C11, C12): the order in which a port function composes the shared-memory steps of one API call.

`extract/api_order.py` regenerates lean/Iox2/Gen/ApiOrder.lean from /repo's working tree; the theorems of
Props/C12Compose.lean / Props/C11Compose.lean are stated about the programs built from the generated lists (they are
built and audited by core.prove with the property's other theorem modules).  This part (1) runs the translator,
(2) runs the failing-schedule search of Driver/ComposeSearch.lean over the generated programs: on the unchanged tree it
finds nothing (support only); when an edit changed an order so that the theorem no longer checks, the first violating
schedule of the model is the replay of the violation.
"""
import core, os, sys, json, subprocess

RULE = ("composition level: the ordered list of the tracked lower-layer calls in the body of each port function is regenerated from /repo "
        "(translator extract/api_order.py, fails closed), the theorems are about the per-call programs built from the generated lists, "
        "interleaved step by step with the peer port; a bounded schedule enumeration of the same executable model (depth {d1} / {d2}) looks for a witness "
        "when an order changed")
ASSUMPTIONS = [
    "composition level: the translator sees the ORDER of the tracked calls in the function body (text, comments and literals removed, braces matched); "
    "control flow between them (early returns, loops) is not translated — the port-level differential runs cover the sequential behaviour of the same functions",
    "composition level: each tracked call is one atomic step of the composition model; its own atomicity is what the L2 theorems (SeqLock, ConnState, queues) and their traces establish",
    "composition level: a witness found for a changed order is a schedule of the MODEL built from the changed source; it is not replayed on real threads",
]

PROGS = {"C12": ("bb.",), "C11": ("rr.",), "C01": ("ps.",)}


def compose_part(ctx):
    quick = ctx.tier == "quick"
    d1, d2 = (10, 7) if quick else (13, 8)
    p = subprocess.run([sys.executable, os.path.join(core.VERIF, "extract", "api_order.py")], capture_output=True, text=True)
    if p.returncode != 0:
        ctx.violation("compose:translator", "the call-order translator cannot account for the current source: " + p.stderr.strip()[-400:],
                      dict(engine="translator", translator="extract/api_order.py", stderr=p.stderr[-3000:],
                           broken=["Iox2.Gen.ApiOrder (cannot be regenerated)", "Iox2.Props.%sCompose" % ctx.prop]), nfi=True)
        return False
    summary = json.loads(p.stdout.strip().split("\n")[-1])
    ctx.extra["api_order"] = summary["orders"]
    ok, log = core.lake_build(["Iox2.Gen.ApiOrder", "Iox2.Proof.ComposePS"])   # everything Driver/ComposeSearch.lean imports
    if not ok:
        ctx.violation("compose:generated-model", "the regenerated Gen/ApiOrder.lean does not build", dict(engine="lean", log=log[-3000:]), nfi=True)
        return False
    rc, out, err = core.sh(["lake", "env", "lean", "--run", "Driver/ComposeSearch.lean", str(d1), str(d2)], cwd=core.LEAN, timeout=3000)
    lines = [l for l in out.split("\n") if l.strip()]
    mine = [l for l in lines if l.startswith(PROGS[ctx.prop])]
    if not mine:
        ctx.violation("compose:search", "the composition search produced no line for this property", dict(engine="lean", out=(out + err)[-3000:]), nfi=True)
        return False
    searched = 0
    for l in mine:
        name = l.split(" ")[0]
        if " FAIL " in l:
            head, obs = l.split(" => ", 1)
            prog, sched = head.split(" FAIL ")
            prog = prog[len(name) + 1:].replace("Iox2.Compose.BB.WOp.", "").replace("Iox2.Compose.RR.COp.", "").replace("Iox2.Compose.PS.POp.", "")
            fn = {"bb.update_with_copy": "entryValueUninit_updateWithCopy", "bb.assume_init_and_update": "entryValueUninit_assumeInitAndUpdate",
                  "bb.internal_update": "internalEntryValueUninit_update", "rr.send_request": "client_sendRequest", "ps.send_sample": "publisher_sendSample"}[name]
            ctx.violation("compose:" + name, f"with the call order of the current source ({fn} = {summary['orders'].get(fn)}) the composition model violates the property: "
                          f"schedule [{sched}] — {obs}",
                          dict(engine="compose", program=prog, schedule=sched.split(" "), observation=obs, source_order=summary["orders"],
                               theorem="Iox2.Props.%sCompose (no longer checks for this program)" % ctx.prop,
                               how="cd /verif/lean && python3 ../extract/api_order.py && lake build Iox2.Gen.ApiOrder && lake env lean --run Driver/ComposeSearch.lean"))
        else:
            try:
                searched += int(l.rsplit(" ", 1)[1])
            except ValueError:
                pass
    ctx.extra["compose_schedules_enumerated"] = searched
    ctx.log(f"[compose] call orders regenerated ({summary['functions']} functions), {searched} schedule prefixes enumerated, "
            f"{sum(1 for l in mine if ' FAIL ' in l)} failing program(s)")
    return True


def rule(ctx):
    quick = ctx.tier == "quick"
    return RULE.format(d1=10 if quick else 13, d2=7 if quick else 8)


def regen_only(ctx):
    """properties whose composition theorems have no witness search yet (C01): regenerate the call orders so that the theorems are re-checked against the current source"""
    p = subprocess.run([sys.executable, os.path.join(core.VERIF, "extract", "api_order.py")], capture_output=True, text=True)
    if p.returncode != 0:
        ctx.violation("compose:translator", "the call-order translator cannot account for the current source: " + p.stderr.strip()[-400:],
                      dict(engine="translator", translator="extract/api_order.py", stderr=p.stderr[-3000:],
                           broken=["Iox2.Gen.ApiOrder (cannot be regenerated)", "Iox2.Props.%sCompose" % ctx.prop]), nfi=True)
        return False
    ctx.extra["api_order"] = json.loads(p.stdout.strip().split("\n")[-1])["orders"]
    return True
