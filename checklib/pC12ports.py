"""C12 (port level) — Writer / Reader / EntryHandleMut / EntryValueUninit / EntryHandle of the blackboard through the
public API against the Lean model Iox2.Blackboard (theorems: Iox2/Props/C12Ports.lean, picked up by core.prove of C12).
Called from pC12.run(ctx) as `pC12ports.ports_part(ctx)` (after the driver and the harness are built).
see notes/C12-ports-design.md."""
import core

ORACLE_KEYS = {
    "two live writers": "two-live-writers",
    "two registered writers": "two-registered-writers",
    "two live write handles for one key": "two-write-handles-for-one-key",
    "torn value": "torn-read",
    "value read was never written": "value-never-written",
    "read handle went back to an older value": "read-went-back",
    "live writer is not registered": "live-writer-not-registered",
    "registered readers differ from live readers": "reader-registration-differs",
    "handle of a type that no key has": "handle-of-foreign-type",
}


def classify(case, idx, impl_out, model_out):
    op = case[idx][0].split(" ")
    if "ORACLE[" in impl_out:
        msg = impl_out.split("ORACLE[", 1)[1].rstrip("]").split(";")[0].strip()
        return "blackboard:oracle:" + ORACLE_KEYS.get(msg, msg.replace(" ", "-")[:40])
    if impl_out == "PANIC":
        return f"blackboard:panic:{op[0]}"
    if op[0] == "new":
        return "blackboard:service-create"
    return f"blackboard:result:{op[0]}"


def read_oracle(case, idx, out):
    """on the implementation's answers alone (whatever the model says): a read is never torn, a call never panics,
    `count` never reports more than one writer"""
    op = case[idx][0].split(" ")[0]
    if op == "get" and out == "torn":
        return "blackboard:torn-read"
    if out == "PANIC":
        return f"blackboard:panic:{op}"
    if op == "count" and out.startswith("w=") and int(out[2:].split(",")[0]) > 1:
        return "blackboard:two-registered-writers"
    return None


def ports_part(ctx):
    quick = ctx.tier == "quick"
    n = 0
    n += core.diff_component(ctx, "blackboard", ["gen", "--exhaustive", 3 if quick else 4], classify,
                             label="blackboard.exhaustive", shrink=False, line_oracle=read_oracle)
    n += core.diff_component(ctx, "blackboard", ["gen", "--seed", ctx.seed, "--cases", 2500 if quick else 40000, "--len", 80 if quick else 120],
                             classify, label="blackboard.random", line_oracle=read_oracle)
    n += core.diff_component(ctx, "blackboard", ["gen", "--seed", ctx.seed + 5, "--cases", 150 if quick else 4000, "--len", 60 if quick else 100, "ipc"],
                             classify, label="blackboard.ipc", line_oracle=read_oracle)
    # the same histories through the custom-key path of the language bindings (generator word `custom`: service created with
    # CustomKeyMarker + __internal_add, every handle through __internal_entry, values written / read through raw pointers);
    # the Lean driver reads `hmutx` / `hx` as the model calls `hmut` / `hget`
    n += core.diff_component(ctx, "blackboard", ["gen", "--exhaustive", 3 if quick else 4, "custom"], classify,
                             label="blackboard.custom.exhaustive", shrink=False, line_oracle=read_oracle)
    n += core.diff_component(ctx, "blackboard", ["gen", "--seed", ctx.seed, "--cases", 1500 if quick else 40000, "--len", 80 if quick else 120, "custom"],
                             classify, label="blackboard.custom.random", line_oracle=read_oracle)
    n += core.diff_component(ctx, "blackboard", ["gen", "--seed", ctx.seed + 5, "--cases", 60 if quick else 1500, "--len", 60 if quick else 100, "ipc", "custom"],
                             classify, label="blackboard.custom.ipc", line_oracle=read_oracle)
    return n


RULE = ("blackboard ports: real Writer / Reader ports of a blackboard service (u64 keys 0..n-1, n <= 4, value types u64, [u64; 3] (24 bytes), [u32; 5] "
        "(20 bytes, align 4), self-checking values word k = 100 v + k; max_readers 0..3) driven through the public API, one call per line: "
        "create/drop writer and reader, Writer::entry (right type, wrong type incl. i64 for a u64 entry, unknown key, second handle), drop handle, "
        "update_with_copy, loan_uninit, value_mut().write, assume_init_and_update, EntryValueUninit::update_with_copy, discard, drop of the loan, "
        "Reader::entry (same mistakes), EntryHandle::get / is_up_to_date, drop of the service handle, number_of_writers/readers; objects outliving "
        "their ports (handles and loans after the Writer, read handles after the Reader, everything after the PortFactory), stale and reused labels. "
        "exhaustive: every sequence of 3 (quick) / 4 (thorough) calls from a 20-call alphabet after a fixed prefix, 2 configurations; random: "
        "mostly-valid histories with about 7 % deliberately invalid calls; local and ipc service variants. The same exhaustive and random histories "
        "are run a second time through the custom-key path of the C / C++ / Python bindings (service created with CustomKeyMarker, u64 key details, own "
        "key comparison and __internal_add; Writer::__internal_entry -> __InternalEntryHandleMut with its own Drop, __internal_get_ptr_to_write_cell / "
        "__internal_update_write_cell, __InternalEntryValueUninit write_cell / update / discard / drop, Reader::__internal_entry -> "
        "__InternalEntryHandle::get / is_up_to_date, values as raw bytes with the type's size and alignment) against the same model calls. Every answer (values, error kinds) is "
        "compared with the L1 model Iox2.Blackboard; harness oracles independent of the model after every call: at most one live Writer, at most one "
        "registered writer, at most one live write handle or loan per key, registered readers = live readers, every live read handle re-read: "
        "value self-consistent, was written to that key by a completed update, not older than what this handle saw before")
ASSUMPTIONS = ["every API call is one atomic step of the L1 model; concurrent access to one entry is covered by the UnrestrictedAtomic theorems and traces (C12, seqlock), "
               "concurrent creation of ports by the container / index-set theorems (C09, C13)",
               "one node, one service handle: ports created through a second PortFactory (opener) use the same dynamic config and entry cells and are not driven separately",
               "assume_init_and_update without a preceding write in the same loan violates the API's safety contract; the harness refuses it (`unwritten`), the model does the same",
               "the custom-key (language binding) path is driven from Rust through the __internal_* functions the way iceoryx2-ffi/c calls them (u64 keys, "
               "the three value layouts above); the C / C++ / Python wrappers above these functions (handle structs, move / drop glue) are not part of this check"]
