"""C20 — WaitSet dispatch is exact: every ready attachment reported, nothing else."""
import core, re

# witnesses of the two refuted statements (Iox2/Props/C20.lean); replayed on the implementation in every run
FINDINGS = [
    ("finding:D7-full-reactor-reported-as-AlreadyAttached",
     "WaitSet::attach_to_reactor maps ReactorAttachError::CapacityExceeded to WaitSetAttachmentError::AlreadyAttached "
     "(waitset.rs:1004): attaching a not-attached object to a wait set whose reactor is full is refused with AlreadyAttached "
     "instead of InsufficientCapacity (theorem attach_notification_beyond_capacity_false; reachable through a reactor with a small "
     "capacity (test double), with epoll when the per-user watch limit is hit)",
     ["new cap 1 2 1", "attach_n 0 0", "attach_n 1 1"], 2, "err:AlreadyAttached"),
    ("finding:D21-refused-attach_deadline-leaves-map-entries",
     "WaitSet::attach_deadline inserts into attachment_to_deadline / deadline_to_attachment before WaitSet::attach() checks the "
     "capacity; on InsufficientCapacity the two entries stay (waitset.rs:685-691), deadline_to_attachment grows by one entry per "
     "refused attempt (theorem attach_deadline_refusal_unchanged_false; no effect on dispatch: refused_attach_deadline_same_reports)",
     ["new sel 1024 1 1", "fill 1000 1024 1000000", "maps", "attach_d 1 0 1000000", "maps"], 4, "a2d=1 d2a=1"),
]


def classify(case, idx, impl_out, model_out):
    op = case[idx][0].split(" ")[0]
    if "CLOCK-OVERRUN" in impl_out:
        return "clock-overrun"
    if "ORACLE[" in impl_out:
        tail = impl_out.split("ORACLE[", 1)[1].rstrip("]")
        return f"oracle:{op}:" + re.sub(r"[^a-z]+", "-", tail.lower())[:50]
    if impl_out == "PANIC":
        return f"panic:{op}"
    if op == "run_once":
        if "+foreign" in impl_out:
            return "run_once:callback-for-foreign-id"
        return "run_once:reports"
    return f"result:{op}"


def dispatch_oracle(case, idx, out):
    """The property evaluated on the implementation's own answers, without the Lean model: replays the
    accepted attach / drop / notify / drain calls of the case and checks at every processing call that
    (i) only live guards are reported, (ii) every live notification/deadline guard whose listener has an
    undrained notification is reported with a notification, (iii) no notification is reported for a
    listener without one, (iv) kinds fit the guard type, (v) NoAttachments iff nothing is attached."""
    op = case[idx][0].split(" ")
    if op[0] != "run_once":
        return None
    new = case[0][0].split(" ")
    nl, ns = int(new[3]), int(new[4])
    guards, pending = {}, [0] * (nl + 1)
    for (o, r) in case[1:idx]:
        t = o.split(" ")
        r = r.split(" ORACLE[", 1)[0]
        if t[0] == "attach_n" and r == "ok":
            guards[int(t[1])] = ("n", int(t[2]))
        elif t[0] == "attach_d" and r == "ok":
            guards[int(t[1])] = ("d", int(t[2]))
        elif t[0] == "attach_i" and r == "ok":
            guards[int(t[1])] = ("t", None)
        elif t[0] == "fill":
            head = r.split(":")[0]
            # while a failing case is shrunk an operation may have no answer (the harness stopped earlier): nothing was attached
            for k in range(int(head) if head.isdigit() else 0):
                guards[int(t[1]) + k] = ("t", None)
        elif t[0] == "drop_guard" and r == "ok":
            guards.pop(int(t[1]), None)
        elif t[0] == "notify" and r == "ok":
            pending[int(t[1])] += 1
        elif t[0] == "notify_all" and r.startswith("ok:"):
            for l in range(nl):
                if l % ns == int(t[1]):
                    pending[l] += 1
        elif t[0] == "drain" and r.startswith("["):
            pending[int(t[1])] = 0
    if out.startswith("err:NoAttachments"):
        return None if not guards else "oracle:NoAttachments-with-attachments"
    if not out.startswith("ok:AllEventsHandled:["):
        return "oracle:run-failed"
    if not guards:
        return "oracle:processed-empty-waitset"
    if "+foreign" in out:
        return "oracle:callback-for-foreign-id"
    body = out[len("ok:AllEventsHandled:["):].split("]")[0]
    reps = [(int(x.split(":")[0]), x.split(":")[1]) for x in body.split(",") if x]
    for (g, k) in reps:
        if g not in guards:
            return "oracle:reported-guard-not-attached"
        kind, l = guards[g]
        if k == "n" and (kind == "t" or pending[l] == 0):
            return "oracle:spurious-notification"
        if (k == "t") != (kind == "t") or (k == "d" and kind != "d"):
            return "oracle:kind-does-not-fit-guard"
    if len(set(reps)) != len(reps):
        return "oracle:reported-twice"
    for g, (kind, l) in guards.items():
        if kind != "t" and pending[l] > 0 and (g, "n") not in reps:
            return "oracle:lost-notification"
    return None


def replay_findings(ctx):
    registered = {kf["key"] for kf in ctx.known if kf.get("property") == ctx.prop}
    for key, what, ops, at, expect in FINDINGS:
        impl, model = core.replay_case("waitset", ops)
        got = impl[at] if at < len(impl) else "<none>"
        ctx.count("findings.replayed")
        if got == expect:
            if any(re.fullmatch(k.replace("*", ".*"), key) for k in registered):
                ctx.violation(key, what, dict(engine="seqdiff", component="waitset", ops=ops, impl=impl, model=model))
            else:
                ctx.log(f"[finding] {key}: reproduced on the implementation ({ops[at]} => {got}); not registered in known_findings.json")
            ctx.extra.setdefault("findings_reproduced", []).append(key)
        else:
            ctx.log(f"[finding] {key}: no longer reproduces ({ops[at]} => {got}); the refutation theorem in Iox2/Props/C20.lean is about the old behaviour")
            ctx.extra.setdefault("findings_gone", []).append(key)


def run(ctx):
    core.prove(ctx)
    drv = core.build_driver(ctx)
    ok, err = core.build_harness(ctx)
    if not ok:
        ctx.violation("harness-build", "harness does not build against the current tree", dict(engine="cargo", stderr=err[-3000:]), nfi=True)
        return core.finish(ctx)
    if drv:
        quick = ctx.tier == "quick"
        d = lambda args, label, shrink=True: core.diff_component(ctx, "waitset", ["gen"] + args, classify, label=label,
                                                                 shrink=shrink, line_oracle=dispatch_oracle)
        # all histories of a fixed length over 12 calls (2 listeners, capacity 1 / 2 reached, real epoll and select reactors)
        ex = 3 if quick else 4
        d(["--exhaustive", ex, "cap"], "waitset.exhaustive.cap", shrink=False)
        d(["--exhaustive", ex, "ipc"], "waitset.exhaustive.epoll", shrink=False)
        d(["--exhaustive", ex, "sel"], "waitset.exhaustive.select", shrink=False)
        if not quick:
            d(["--exhaustive", 5, "cap"], "waitset.exhaustive5.cap", shrink=False)
        # random histories: 1..4 listeners on 1..2 services, all three wait-set variants
        d(["--seed", ctx.seed, "--cases", 2500 if quick else 20000, "--len", 40], "waitset.random")
        for v in ("ipc", "sel", "cap"):
            d(["--seed", ctx.seed + 1, "--cases", 500 if quick else 6000, "--len", 70, v], f"waitset.random.{v}")
        # the select reactor filled up to its real capacity (1024) with interval attachments
        d(["--seed", ctx.seed + 2, "--cases", 40 if quick else 400, "--len", 40, "sel", "full"], "waitset.capacity.select")
        # finite deadlines / intervals under the logical clock (real sleeps)
        d(["--seed", ctx.seed + 3, "--cases", 100 if quick else 1500, "--len", 30 if quick else 40, "timed"], "waitset.timed")
        d(["--exhaustive", 3, "timed", "cap", "one"] if quick else ["--exhaustive", 4, "timed", "cap"], "waitset.exhaustive.timed", shrink=False)
        replay_findings(ctx)
    return core.finish(
        ctx, level="proof",
        rule="real iceoryx2::waitset::WaitSet through its public API (attach_notification / attach_deadline / attach_interval, guard drop, "
             "wait_and_process_once_with_timeout(_, 0), len / capacity / is_empty) with Listener<ipc::Service> ports (1..4 listeners on 1..2 event "
             "services, Notifier::notify to one or to all listeners, Listener::try_wait) for three reactors: epoll (ipc::Service), posix_select "
             "(own Service type), epoll behind a small-capacity wrapper (test double; capacity 1..5). exhaustive: all histories of length L over "
             "12 calls (attach n/d/i on 2 listeners with zero and never-expiring periods, drop oldest/newest guard, notify, drain, process) and "
             "over 9 calls with 2-unit periods and clock advances; random: mostly-valid histories with invalid calls (label in use, listener "
             "that does not exist, unknown guard, event id out of bounds, same object twice, beyond capacity; select reactor filled to 1021..1024 "
             "of 1024). Every output is compared with the Lean model (callback reports as sorted (guard, kind) lists, sizes of the two private "
             "maps via Debug); harness oracle: callback id that matches no live guard; python oracle on the implementation's answers alone: "
             "soundness / completeness / kinds / NoAttachments of every processing call. distinct = distinct output vectors of cases with > 2 ops",
        extra_assumptions=[
            "kernel: epoll_ctl/epoll_wait and select are level-triggered and report exactly the readable attached descriptors; "
            "a listener's descriptor is readable iff a notification arrived since its last try_wait (sequential use, one process)",
            "time: the model's clock is a logical counter; the harness maps one unit to 10 ms of the real monotonic clock and keeps the clock "
            "reads of a case at non-decreasing offsets inside their units (cases that overrun 3/4 unit are re-executed with a doubled unit)",
            "the callback always returns CallbackProgression::Continue; signals are disabled (SignalHandlingMode::Disabled); single thread",
            "reactor capacity refusals are reachable only through the small-capacity wrapper (epoll: 14.6 M watches, select: all 1024 "
            "descriptors of one process), WaitSet-level refusals (len == capacity) also with the real select reactor",
        ])
