"""C05 — event notifications are not lost, not invented."""
import core, re
import pC05ports


def event_oracle(e):
    """on the implementation's trace alone (independent of the model):
    - a wait reports only ids whose notify had started, and for the counting set never more
      occurrences than notify calls that had started;
    - when the scheduler finds the listener asleep for good (`deadlock`), no notify that returned ok
      may be undelivered: a notification certainly is undelivered when no wait reported its id
      after the notify call began."""
    prog = e["prog"].split(" | ")
    counting = "counting=1" in prog[0]
    threads = [[o.split(" ") for o in t.split(",") if o] for t in prog[1:]]
    opidx = {}          # thread -> index of the op in progress
    started = {}        # id -> number of notify calls that executed their first step
    begun = set()       # (thread, opidx) seen
    ok_notifies = []    # (id, line index of first step)
    first_line = {}
    reported_after = {} # id -> last line index of a report
    reported_total = {}
    for n, l in enumerate(e["lines"]):
        t = l.split(" ")
        tid = int(t[0][1:])
        k = opidx.get(tid, 0)
        if tid >= len(threads) or k >= len(threads[tid]):
            continue
        op = threads[tid][k]
        if (tid, k) not in begun and t[1] not in ("ret", "deadlock"):
            begun.add((tid, k))
            first_line[(tid, k)] = n
            if op[0] == "notify":
                started[int(op[1])] = started.get(int(op[1]), 0) + 1
        if t[1] == "ret":
            if op[0] == "notify" and t[2:4] == ["notify", "ok"]:
                ok_notifies.append((int(op[1]), first_line.get((tid, k), n)))
            if t[2] == "wait" and len(t) > 3:
                for item in t[3].split(","):
                    i, c = [int(x) for x in item.split(":")]
                    if started.get(i, 0) == 0:
                        return "phantom-id"
                    reported_total[i] = reported_total.get(i, 0) + c
                    if counting and reported_total[i] > started.get(i, 0):
                        return "more-occurrences-than-sent"
                    reported_after[i] = n
            opidx[tid] = k + 1
        if t[1] == "deadlock":
            for (i, at) in ok_notifies:
                if reported_after.get(i, -1) < at:
                    return "blocking-wait-sleeps-with-undelivered-notification"
        if t[1] == "PANIC":
            return "panic"
    return None


def run(ctx):
    core.prove(ctx)
    drv = core.build_driver(ctx)
    ok, log = core.build_trace(ctx)
    if not ok:
        ctx.violation("harness-build", "instrumented build failed (drop-in generator or harness)", dict(engine="cargo", log=log[-3000:]), nfi=True)
        return core.finish(ctx)
    if drv:
        quick = ctx.tier == "quick"
        core.trace_component(ctx, "event", ["random", "--seed", ctx.seed, "--cases", 20 if quick else 100, "--progs", 150 if quick else 500],
                             label="event.random", oracle=event_oracle)
        core.trace_component(ctx, "event", ["exhaustive", "--seed", ctx.seed + 1, "--cases", 2500 if quick else 20000, "--progs", 5 if quick else 16,
                                            "--preempt", 2 if quick else 3], label="event.exhaustive", oracle=event_oracle)
        # the real trigger back-ends (unix datagram socket, socket pair, semaphore) x both event states, sequentially:
        # the step-level model run to completion per call must answer like the real Event concepts
        okh, err = core.build_harness(ctx)
        if okh:
            core.diff_component(ctx, "eventseq", ["gen", "--seed", ctx.seed, "--cases", 3000 if quick else 40000, "--len", 12 if quick else 24],
                                lambda case, idx, io, mo: "eventseq:" + case[0][0].split(" ")[1] + ":" + case[idx][0].split(" ")[0], label="eventseq")
        else:
            ctx.violation("harness-build", "harness does not build against the current tree", dict(engine="cargo", stderr=err[-3000:]), nfi=True)
        # the ports above the hand-shake: real Notifier / Listener ports of an event service against the L1 model
        pC05ports.ports_part(ctx, "C05")
    return core.finish(
        ctx, level="proof",
        rule="steptrace on the real EventImpl hand-shake (cal/event/common.rs: Notifier::notify, Waiter::drain_events through try_wait and blocking_wait) over the real "
             "RelocatableBitSet and RelocatableCountingBitSet with a trace trigger (bounded counter of instrumented atomics): 1..2 notifier threads with 1..2 notifies each, "
             "one listener with 1..2 try/blocking waits, ids from 1, 3 or 9, trigger bound 0/1/2 with and without fail_when_buffer_is_full; PRNG schedules and all schedules "
             "with a bounded number of preemptions; every atomic operation and returned value compared with the L2 model; a blocked listener is unschedulable until the "
             "trigger counter is positive, a listener blocked for good is reported by the scheduler and must be disabled in the model too. distinct = distinct (program, interleaving). "
             + pC05ports.RULE,
        extra_assumptions=["in the traces the real trigger back-ends (semaphore, unix datagram socket, socket pair) are represented by the counter `notify adds one signal or reports BufferIsFull, "
                           "wait consumes, empty_buffer discards all`; the six real back-end x event-state combinations are compared with the same model sequentially (component eventseq: notify / try_wait), "
                           "not under concurrency",
                           "sequentially consistent interleavings only (all hand-shake operations are SeqCst in the source; the bit-set operations are Relaxed RMWs on single words)",
                           "timed_wait is try_wait after the timeout elapsed; time itself is not modelled"] + pC05ports.ASSUMPTIONS)
