"""C07 — liveness verdicts are sound and stale cleanup is exclusive (and the file-system part of C04).

Correspondence of the Lean model `Iox2/Model/Lifecycle.lean` with the real code at system-call granularity:
the real binaries (`harness/src/life/main.rs`, bin `lifecycle`) run as separate processes under `strace`;
 (i)   the sequence of state-changing / state-reading system calls on the node's files, canonicalised to roles,
       is compared with the model's step lists;
 (ii)  every kill point (strace `inject=…:signal=SIGKILL:when=N`: the process dies on entering its N-th call) of node
       creation, orderly drop and dead-node clean-up is followed by survivors (`monitor`, `clean`, `ls`) whose verdicts,
       results and leftovers are compared with the model's prediction for that crash point;
 (iii) interleavings at system-call granularity: processes are single-stepped (`inject=…:signal=SIGSTOP:when=1+`, SIGCONT
       per step) by this driver, which acts as the scheduler; the same schedule is run on the model.
"""
import core, os, re, subprocess, time, shutil, signal, glob, itertools, random

LIFE = os.path.join(core.HARNESS, "target", "release", "lifecycle")
# system calls that carry model steps (kill / stop points are counted over this set)
SET = "openat,mkdir,fchmod,write,fsync,fcntl,unlink,rmdir,close,read,newfstatat,access,faccessat,faccessat2,getdents64"
# single-stepping stops after each of these (getdents64 left out: the clean-up scans /dev/shm with thousands of them; a listing is
# one model step, observed at the next stop)
STOP_SET = SET.replace(",getdents64", "")
_counter = itertools.count()


class Case:
    """own iceoryx2 domain: root directory and prefix of its own"""

    def __init__(self):
        self.name = f"vl{os.getpid()}x{next(_counter)}"
        self.dir = f"/tmp/{self.name}"
        self.root = self.dir + "/r"
        self.prefix = self.name + "_"
        os.makedirs(self.dir, exist_ok=True)
        self.cfg = self.dir + "/cfg.toml"
        with open(self.cfg, "w") as f:
            f.write(f'[global]\nroot-path = "{self.root}"\nprefix = "{self.prefix}"\n[global.node]\n'
                    'cleanup-dead-nodes-on-creation = false\ncleanup-dead-nodes-on-destruction = false\n')
        self.procs = []

    def cleanup(self):
        for p in self.procs:
            p.destroy()
        shutil.rmtree(self.dir, ignore_errors=True)
        for f in glob.glob(f"/dev/shm/{self.prefix}*"):
            try:
                os.unlink(f)
            except OSError:
                pass

    def run(self, cmd, *args, timeout=60):
        p = subprocess.run([LIFE, cmd, self.cfg] + [str(a) for a in args], capture_output=True, text=True, timeout=timeout)
        return p.stdout.strip().split("\n")

    def role_of(self, path):
        path = path.rstrip("/")
        b = os.path.basename(path)
        nodes = self.root + "/nodes"
        if path == nodes:
            return "nodes"
        if b.endswith(".node_monitor_context"):
            return "ctx"
        if b.endswith(".node_monitor_owner_lock"):
            return "ol"
        if b.endswith(".node_monitor"):
            return "st"
        if b.endswith("node.details"):
            return "det"
        if b.endswith(".port_tag") or b.endswith(".service_tag"):
            return "tag"
        if os.path.dirname(path) == nodes and b.isdigit():
            return "dir"
        return None

    def ls(self):
        """roles of the files of the node that exist"""
        roles = set()
        for dp, dns, fns in os.walk(self.root):
            for n in dns + fns:
                r = self.role_of(os.path.join(dp, n))
                if r and r != "nodes":
                    roles.add(r)
        order = ["ctx", "st", "ol", "det", "dir", "tag"]
        return ",".join(r for r in order if r in roles) or "-"

    def node_id(self):
        ids = set()
        nodes = self.root + "/nodes"
        if os.path.isdir(nodes):
            for n in os.listdir(nodes):
                m = re.search(r"(\d{6,})", n)
                if m:
                    ids.add(m.group(1))
        return sorted(ids)[0] if ids else "0"

    def add_tag(self, mode):
        d = f"{self.root}/nodes/{self.node_id()}"
        p = f"{d}/{self.prefix}{4242 + len(os.listdir(d))}.port_tag"
        open(p, "w").close()
        os.chmod(p, mode)

    # --- survivors -------------------------------------------------------------------------
    def monitor(self):
        """(Node::list verdict with details flag, raw ProcessState, cal State)"""
        out = self.run("monitor", self.node_id())
        lst = [x for x in [l for l in out if l.startswith("list")][0].split(" ")[1:] if x]
        raw = [l for l in out if l.startswith("raw")][0].split(" ")
        lv = lst[0].split(":", 1)[1] if lst else "-"
        return lv, raw[1], raw[3]

    def clean(self):
        out = self.run("clean")
        r = [x for x in [l for l in out if l.startswith("clean")][0].split(" ")[1:] if x]
        return r[0].split(":", 1)[1] if r else "none"

    def survey(self):
        lv, raw, cal = self.monitor()
        cl = self.clean()
        return f"list={lv.split(':')[0] if lv != '-' else '-'} raw={raw} clean={cl} left={self.ls()}"


# ------------------------------------------------------------------------------------------------
# strace output -> canonical step names

READ_ONLY = ("open", "stat", "readdir", "getlk", "fstat", "read", "access")
LINE = re.compile(r"^(\d+)\s+(\w+)\((.*)\)\s+=\s+(-?\d+|\?)(.*)$")
INIT_MODE = {"ctx": "0200", "st": "0200", "ol": "0200", "det": "0600", "tag": "0600"}


class Canon:
    """incremental canonicaliser of one process's strace output"""

    def __init__(self, case, closes=True):
        self.case, self.closes = case, closes
        self.fd = {}            # fd -> (role, index of its open event, events on it, is directory, listed)
        self.events = []        # canonical names of completed calls
        self.pending = None     # name of the call the process was killed in (printed with `= ?`)
        self.stops = 0
        self.exited = False
        self.cnt = {}           # per system call: invocations seen (= strace's `when` counter, kept per system call)
        self.at = []            # (system call, its invocation number) of events[i]
        self.cur = None

    def emit(self, name, fd=None):
        self.events.append(name)
        self.at.append(self.cur)
        if fd is not None and fd in self.fd:
            self.fd[fd][2] += 1

    def feed(self, line):
        if "--- stopped by SIGSTOP" in line:
            self.stops += 1
            return
        if "+++ exited" in line or "+++ killed" in line:
            self.exited = True
            return
        m = LINE.match(line.strip())
        if not m:
            return
        _, sc, args, ret, rest = m.groups()
        self.cnt[sc] = self.cnt.get(sc, 0) + 1
        self.cur = (sc, self.cnt[sc])
        done = ret != "?"
        ok = done and int(ret) >= 0
        c = self.case
        name = None
        fdn = None
        if sc == "openat":
            pm = re.search(r'"([^"]*)"', args)
            if not pm:
                return
            role = c.role_of(pm.group(1))
            if role is None:
                return
            if "O_CREAT" in args:
                name = f"creat {role}"
            elif "O_DIRECTORY" in args:
                if ok:
                    self.fd[int(ret)] = [role, len(self.events), 0, True, False, self.cur]
                    return
                if role not in ("dir", "nodes"):
                    return
                name = f"readdir {role}"              # killed in it / listing a directory that does not exist (any more)
            else:
                name = f"open {role}"
            if ok and "O_DIRECTORY" not in args:
                self.fd[int(ret)] = [role, len(self.events) + 1, 0, False, False]
        elif sc == "getdents64":
            f = self.fd.get(int(args.split(",")[0]))
            if f and f[3] and not f[4]:
                f[4] = True
                name = f"readdir {f[0]}"
                self.cur = f[5]                       # kill point of a listing: the openat of its descriptor (getdents64 counts vary with /dev/shm)
        elif sc == "mkdir":
            role = c.role_of(re.search(r'"([^"]*)"', args).group(1))
            if role == "dir":
                name = "mkdir dir"
        elif sc in ("unlink", "rmdir"):
            role = c.role_of(re.search(r'"([^"]*)"', args).group(1))
            if role and role != "nodes":
                name = f"{sc} {role}"
        elif sc in ("access", "faccessat", "faccessat2"):
            pm = re.search(r'"([^"]*)"', args)
            role = c.role_of(pm.group(1)) if pm else None
            if role in ("st",):
                name = f"access {role}"
        elif sc == "newfstatat" and args.startswith("AT_FDCWD"):
            pm = re.search(r'"([^"]*)"', args)
            if pm and c.role_of(pm.group(1)) == "st":
                name = "stat st"                      # Directory::contents: one stat per listed entry
        elif sc in ("fchmod", "write", "fsync", "fcntl", "read", "newfstatat", "close"):
            try:
                fdn = int(args.split(",")[0])
            except ValueError:
                return
            f = self.fd.get(fdn)
            if not f or f[3]:
                if sc == "close" and f:
                    del self.fd[fdn]
                return
            role = f[0]
            if sc == "fchmod":
                mode = args.split(",")[1].strip()
                name = f"fchmod {role} {'init' if mode == INIT_MODE.get(role) else 'final'}"
            elif sc == "write" and role in ("ctx", "det"):
                name = f"write {role}"
            elif sc == "fsync":
                name = f"fsync {role}"
            elif sc == "fcntl":
                if "F_SETLK" in args:
                    name = f"setlk {role}" if "F_WRLCK" in args else f"unlk {role}"
                elif "F_GETLK" in args:
                    name = f"getlk {role}"
            elif sc == "read" and role == "ctx":
                name = "read ctx"
            elif sc == "newfstatat" and role in ("ctx", "ol"):
                name = f"fstat {role}"
            elif sc == "close":
                foreign = len(self.events) - f[1] - f[2]
                del self.fd[fdn]
                if self.closes and foreign > 0:
                    name = f"close {role}"
                fdn = None
        if name is None:
            return
        if done:
            self.emit(name, fdn)
        else:
            self.pending = name


def canon_file(case, path, closes=True):
    c = Canon(case, closes)
    for l in open(path):
        c.feed(l)
    return c


def strace(case, out, args, inject=None, stdin=None, timeout=60):
    """inject = (system call, n): SIGKILL on entering the n-th invocation of that system call"""
    cmd = ["strace", "-f", "-o", out, "-e", f"trace={SET}"]
    if inject:
        cmd += ["-e", f"inject={inject[0]}:signal=SIGKILL:when={inject[1]}"]
    cmd += [LIFE, args[0], case.cfg] + [str(a) for a in args[1:]]
    return subprocess.run(cmd, capture_output=True, text=True, timeout=timeout, input=stdin)


class Stepper:
    """a process under strace that stops after every system call of SET; `advance` = one scheduling decision"""

    def __init__(self, case, args, closes=True, stdin_text=None):
        self.case = case
        self.out = f"{case.dir}/st{next(_counter)}.txt"
        open(self.out, "w").close()
        self.stdout = open(self.out + ".o", "w+")
        self.stdin = None
        if stdin_text is not None:
            with open(self.out + ".i", "w") as f:
                f.write(stdin_text)
            self.stdin = open(self.out + ".i")
        self.p = subprocess.Popen(["strace", "-f", "-o", self.out, "-e", f"trace={SET}", "-e", f"inject={STOP_SET}:signal=SIGSTOP:when=1+",
                                   LIFE, args[0], case.cfg] + [str(a) for a in args[1:]], stdout=self.stdout, stderr=subprocess.DEVNULL,
                                  stdin=self.stdin if self.stdin else subprocess.DEVNULL, start_new_session=True)
        self.canon = Canon(case, closes)
        self.f = open(self.out)
        self.buf = ""
        self.pid = None
        self.acked = 0
        case.procs.append(self)
        self._wait()

    def _pump(self):
        data = self.f.read()
        if data:
            self.buf += data
            while "\n" in self.buf:
                line, self.buf = self.buf.split("\n", 1)
                if self.pid is None:
                    m = re.match(r"^(\d+)\s", line)
                    if m:
                        self.pid = int(m.group(1))
                self.canon.feed(line)

    def _wait(self, timeout=20.0):
        """until the process has stopped once more (or is gone)"""
        t0 = time.time()
        while True:
            self._pump()
            if self.canon.exited or self.canon.stops > self.acked:
                break
            if self.p.poll() is not None:
                self._pump()
                self.canon.exited = True
                break
            if time.time() - t0 > timeout:
                raise RuntimeError(f"stepper: no progress ({self.out})")
            time.sleep(0.0005)
        self.acked = self.canon.stops

    def alive(self):
        return not self.canon.exited

    def cont(self):
        """lets the process execute one more system call of SET"""
        if not self.alive():
            return False
        try:
            os.kill(self.pid, signal.SIGCONT)
        except ProcessLookupError:
            self.canon.exited = True
            return False
        self._wait()
        return True

    def advance(self, n=1):
        """until n more model steps have been executed (or the process ended); returns their names"""
        start = len(self.canon.events)
        while len(self.canon.events) < start + n and self.alive():
            self.cont()
        return self.canon.events[start:]

    def finish(self):
        start = len(self.canon.events)
        while self.alive():
            self.cont()
        self.p.wait(timeout=20)
        return self.canon.events[start:]

    def kill(self):
        if self.pid is not None and self.alive():
            try:
                os.kill(self.pid, signal.SIGKILL)
            except ProcessLookupError:
                pass
            try:
                os.kill(self.pid, signal.SIGCONT)
            except ProcessLookupError:
                pass
        try:
            self.p.wait(timeout=20)
        except subprocess.TimeoutExpired:
            self.p.kill()
        self._pump()
        self.canon.exited = True

    def output(self):
        self.stdout.flush()
        self.stdout.seek(0)
        return self.stdout.read().strip().split("\n")

    def destroy(self):
        if self.p.poll() is None:
            self.kill()
        for h in (self.f, self.stdout, self.stdin):
            try:
                h.close()
            except Exception:
                pass


# ------------------------------------------------------------------------------------------------
# model side

def model(lines):
    out = core.run_model("lifecycle", "\n".join(lines) + "\n")
    return [o for o in out if o != ""]


def mismatch(ctx, key, what, obj):
    ctx.violation(key, what, dict(obj, engine="lifecycle"))


def report(ctx, label, n, bad, t0):
    ctx.log(f"[lifecycle] {label}: {n} scenario(s), {bad} mismatch(es) ({time.time()-t0:.1f}s)")


# ------------------------------------------------------------------------------------------------
# (i) step lists

def check_step_lists(ctx):
    t0 = time.time()
    bad = 0
    res = {}
    # owner: create + orderly drop
    c = Case()
    try:
        tr = c.dir + "/t.txt"
        strace(c, tr, ["owner-create-drop"])
        impl = canon_file(c, tr).events
        mod = model(["reset", "spawn o owner 0 1", "trace o"])[2].split(";")
        res["owner create+drop"] = (impl, mod)
    finally:
        c.cleanup()
    # monitor of a live node, of a dead node, of nothing; cleaner of a dead node with one tag; second cleaner
    c = Case()
    try:
        o = subprocess.Popen([LIFE, "owner-create", c.cfg], stdin=subprocess.PIPE, stdout=subprocess.PIPE, text=True)
        nid = o.stdout.readline().split(" ")[1].strip()
        tr = c.dir + "/m1.txt"
        strace(c, tr, ["monitor"])
        res["monitor, live node"] = (canon_file(c, tr, closes=False).events,
                                     model(["reset", "spawn o owner 0 0", "run o", "spawn m monitor 1", "trace m"])[4].split(";"))
        o.stdin.write("exit\n"); o.stdin.flush(); o.wait(timeout=20)
        tr = c.dir + "/m2.txt"
        strace(c, tr, ["monitor"])
        res["monitor, dead node"] = (canon_file(c, tr, closes=False).events,
                                     model(["reset", "spawn o owner 0 0", "run o", "kill o", "spawn m monitor 1", "trace m"])[5].split(";"))
        c.add_tag(0o400)
        tr = c.dir + "/c1.txt"
        strace(c, tr, ["clean"])
        res["cleaner, dead node with a tag"] = (canon_file(c, tr).events,
                                                model(["reset", "spawn o owner 0 0", "run o", "kill o", "tag final", "spawn c cleaner 2", "trace c"])[6].split(";"))
        tr = c.dir + "/m3.txt"
        strace(c, tr, ["monitor"])
        res["monitor, no node"] = (canon_file(c, tr, closes=False).events, model(["reset", "spawn m monitor 1", "trace m"])[2].split(";"))
        tr = c.dir + "/c2.txt"
        strace(c, tr, ["cleaner", nid])
        res["cleaner acquisition, no node"] = (canon_file(c, tr, closes=False).events, model(["reset", "spawn c cleaner 2 11", "trace c"])[2].split(";"))
    finally:
        c.cleanup()
    for k, (impl, mod) in res.items():
        ctx.evaluations += 1
        ctx.count("steplist.scenarios")
        ctx.count("steplist.steps", len(mod))
        same = impl == mod
        ctx.log(f"[lifecycle] step list `{k}`: {len(mod)} model steps, implementation {'identical' if same else 'DIFFERS'}")
        if not same:
            bad += 1
            mismatch(ctx, "steplist:" + re.sub(r"[^a-z]+", "-", k.lower()), f"system-call sequence of `{k}` differs from the model's step list",
                     dict(scenario=k, impl=impl, model=mod))
    ctx.extra["step_lists"] = {k: v[1] for k, v in res.items()}
    report(ctx, "step lists", len(res), bad, t0)


# ------------------------------------------------------------------------------------------------
# (ii) kill points

def kill_points(ctx, label, setup_impl, victim_args, setup_model, victim_model, ks=None):
    """kills the victim on entering the system call of its (k+1)-th model step, for every k; then survivors.
    Returns the table rows (k, next step, impl survey, model survey)."""
    t0 = time.time()
    # recording run: which invocation numbers (over SET) carry the model steps
    c = Case()
    try:
        setup_impl(c)
        tr = c.dir + "/rec.txt"
        strace(c, tr, victim_args)
        rec = canon_file(c, tr)
    finally:
        c.cleanup()
    msteps = model(setup_model + [victim_model, "trace v"])[-1].split(";")
    rows, bad = [], 0
    if rec.events != msteps:
        mismatch(ctx, f"kill:{label}:steplist", f"{label}: recorded system-call sequence differs from the model's step list", dict(impl=rec.events, model=msteps))
        return rows
    points = list(range(len(msteps) + 1)) if ks is None else ks
    for k in points:
        c = Case()
        try:
            setup_impl(c)
            tr = c.dir + "/kill.txt"
            if k < len(msteps):
                strace(c, tr, victim_args, inject=rec.at[k])
                kc = canon_file(c, tr)
                okpos = kc.events == msteps[:k] and kc.pending == msteps[k]
                if not okpos:
                    # the directory entries are stat'ed in directory order, which varies: the kill may land one read-only step off
                    n = len(kc.events)
                    okpos = kc.events == msteps[:n] and all(msteps[x].split(" ")[0] in READ_ONLY for x in range(min(n, k), max(n, k) + 1) if x < len(msteps))
            else:
                strace(c, tr, victim_args)
                kc = canon_file(c, tr)
                okpos = kc.events == msteps
            before = c.ls()
            impl = c.survey()
            m = model(setup_model + [victim_model, f"step v {k}", "kill v", "ls", "survey"])
            mls = ",".join(sorted({re.split(r"[:=]", x)[0].replace("taginit", "tag") for x in m[-2].split(" ") if not x.startswith("(")} - {"-"},
                                  key=["ctx", "st", "ol", "det", "dir", "tag"].index)) or "-"
            mod = m[-1]
            ctx.evaluations += 1
            ctx.count(f"kill.{label}")
            ctx.distinct.add((label, impl))
            good = okpos and impl == mod and before == mls
            rows.append((k, msteps[k] if k < len(msteps) else "(end)", before, impl, mod, good))
            if not good:
                bad += 1
                mismatch(ctx, f"kill:{label}:survivors", f"{label}: killed before step {k} (`{rows[-1][1]}`): survivors see `{before} | {impl}`, model predicts `{mls} | {mod}`"
                         + ("" if okpos else " (kill position not as recorded)"),
                         dict(k=k, step=rows[-1][1], impl=impl, model=mod, impl_ls=before, model_ls=mls, trace=kc.events, pending=kc.pending))
        finally:
            c.cleanup()
    ctx.extra.setdefault("kill_tables", {})[label] = [dict(k=r[0], next=r[1], files=r[2], survivors=r[3], agrees=r[5]) for r in rows]
    report(ctx, f"kill points {label}", len(rows), bad, t0)
    return rows


def dead_node_with_tag(c, mode=0o400):
    o = subprocess.run([LIFE, "owner-create", c.cfg], input="exit\n", capture_output=True, text=True, timeout=30)
    if mode is not None:
        c.add_tag(mode)


def check_kill_points(ctx, quick):
    rows = {}
    rows["owner"] = kill_points(ctx, "owner", lambda c: None, ["owner-create-drop"], ["reset"], "spawn v owner 0 1")
    rows["cleaner"] = kill_points(ctx, "cleaner", dead_node_with_tag, ["clean"],
                                  ["reset", "spawn o owner 0 0", "run o", "kill o", "tag final"], "spawn v cleaner 3")
    return rows


# ------------------------------------------------------------------------------------------------
# (iii) interleavings

def mshow(line):
    d = dict(x.split("=", 1) for x in line.split(" "))
    return d


def impl_monitor_out(lines):
    lst = [l for l in lines if l.startswith("list")]
    if not lst:
        return "?"
    xs = [x for x in lst[0].split(" ")[1:] if x]
    return xs[0].split(":")[1] if xs else "-"


def sched_owner_monitor(ctx, k, j, finish_owner=True):
    """owner takes k steps; monitor takes j steps; owner runs to its end; monitor runs to its end.
    Returns (impl verdict, model verdict, owner alive at verdict)"""
    c = Case()
    try:
        o = Stepper(c, ["owner-create-drop"])
        eo = o.advance(k)
        m = Stepper(c, ["monitor"], closes=False)
        em = m.advance(j)
        if finish_owner:
            eo += o.finish()
        em += m.finish()
        iv = impl_monitor_out(m.output())
        if not finish_owner:
            eo += o.finish()
        ml = model(["reset", "spawn o owner 0 1", f"step o {k}", "spawn m monitor 1", f"step m {j}"] +
                   (["run o"] if finish_owner else []) + ["run m", "show m"] + ([] if finish_owner else ["run o"]))
        mv = mshow(ml[-1] if finish_owner else ml[-2])["list"]
        mv = {"notListed": "-", "skipped": "-"}.get(mv, mv)
        msteps_m = (ml[4] + ";" + ml[-2 if finish_owner else -3]).strip(";").replace("-;", "").replace(";-", "")
        return iv, mv, em, [x for x in msteps_m.split(";") if x and x != "-"]
    finally:
        c.cleanup()


def check_interleavings(ctx, quick):
    t0 = time.time()
    n = bad = 0
    nsteps = len(model(["reset", "spawn o owner 0 1", "trace o"])[2].split(";"))
    table = []
    # owner stopped after k steps of creation / orderly drop, a whole Node::list query in between
    for k in range(nsteps + 1):
        iv, mv, em, mm = sched_owner_monitor(ctx, k, 0, finish_owner=False)
        n += 1
        ctx.evaluations += 1
        ctx.count("interleave.owner-stopped")
        ctx.distinct.add(("stop", k, iv))
        table.append((k, iv, mv))
        if iv != mv or em != mm:
            bad += 1
            mismatch(ctx, "interleave:owner-stopped", f"owner stopped after {k} steps, monitor queries: implementation `{iv}`, model `{mv}`",
                     dict(k=k, impl=iv, model=mv, impl_steps=em, model_steps=mm))
    ctx.extra["owner_stopped_table"] = [dict(k=k, impl=a, model=b) for (k, a, b) in table]
    report(ctx, "owner stopped after k steps ∥ monitor", n, bad, t0)
    # monitor stopped after j steps, owner goes on to its end, monitor continues
    t0 = time.time()
    n = bad = 0
    ks = [17] if quick else [9, 13, 16, 17, 20, 23, 24, 25]
    for k in ks:
        for j in range(1, 12):
            iv, mv, em, mm = sched_owner_monitor(ctx, k, j, finish_owner=True)
            n += 1
            ctx.evaluations += 1
            ctx.count("interleave.monitor-stopped")
            ctx.distinct.add(("mstop", k, j, iv))
            if iv != mv or em != mm:
                bad += 1
                mismatch(ctx, "interleave:monitor-stopped", f"owner after {k} steps, monitor stopped after {j} steps, owner runs to its end: implementation `{iv}`, model `{mv}`",
                         dict(k=k, j=j, impl=iv, model=mv, impl_steps=em, model_steps=mm))
    report(ctx, "monitor stopped after j steps ∥ owner finishes", n, bad, t0)


def sched_cleaners(ctx, sched, ncl, tag=True):
    """dead node (with a tag); `sched` = list of cleaner indices, one model step each; afterwards all run to their end in index order"""
    c = Case()
    try:
        dead_node_with_tag(c, 0o400 if tag else None)
        cl = [Stepper(c, ["clean"]) for _ in range(ncl)]
        for i in sched:
            cl[i].advance(1)
        for s in cl:
            s.finish()
        impl = []
        for s in cl:
            r = [l for l in s.output() if l.startswith("clean")]
            xs = [x for x in r[0].split(" ")[1:] if x] if r else ["?"]
            impl.append(xs[0].split(":", 1)[1] if xs else "none")
        left = c.ls()
        ml = ["reset", "spawn o owner 0 0", "run o", "kill o"] + (["tag final"] if tag else []) + [f"spawn c{i} cleaner {i+2}" for i in range(ncl)]
        ml += [f"step c{i}" for i in sched] + [f"run c{i}" for i in range(ncl)]
        nshow = len(ml)
        ml += [f"show c{i}" for i in range(ncl)] + ["ls"]
        out = model(ml)
        mod = [mshow(l)["clean"] for l in out[nshow:nshow + ncl]]
        mleft = ",".join(sorted({re.split(r"[:=]", x)[0] for x in out[-1].split(" ") if not x.startswith("(")} - {"-"})) or "-"
        return impl, mod, ",".join(sorted(left.split(","))) if left != "-" else "-", mleft
    finally:
        c.cleanup()


def check_cleaners(ctx, quick):
    t0 = time.time()
    n = bad = 0
    rng = random.Random(ctx.seed)
    scheds = []
    nsteps = 24          # steps of a cleaner up to and including `setlk ol`
    for ncl in (2, 3, 4):
        # all at the lock at once: everybody is taken to just before `setlk ol`, then they try in turn
        scheds.append((ncl, [i for i in range(ncl) for _ in range(nsteps - 1)]))
    # the second cleaner waits just before `setlk ol` while the first one cleans up completely (double acquisition)
    scheds.append((2, [1] * (nsteps - 1) + [0] * 60))
    # the second cleaner's F_SETLK has failed (EAGAIN) and it waits before the link-count check while the first one finishes
    scheds.append((2, [0] * nsteps + [1] * nsteps))
    for _ in range(3 if quick else 40):
        ncl = rng.choice([2, 3, 4])
        scheds.append((ncl, [rng.randrange(ncl) for _ in range(rng.randrange(10, 45 * ncl))]))
    for ncl, sched in scheds:
        impl, mod, left, mleft = sched_cleaners(ctx, sched, ncl)
        n += 1
        ctx.evaluations += 1
        ctx.count("interleave.cleaners")
        ctx.distinct.add(("cleaners", ncl, tuple(impl)))
        oks = sum(1 for r in impl if r == "ok")
        if impl != mod or left != mleft:
            bad += 1
            mismatch(ctx, "interleave:cleaners", f"{ncl} concurrent cleaners: implementation {impl} left {left}, model {mod} left {mleft}",
                     dict(ncl=ncl, sched=sched, impl=impl, model=mod, impl_left=left, model_left=mleft))
        if left != "-":
            bad += 1
            mismatch(ctx, "interleave:cleaners:leftover", f"{ncl} concurrent cleaners of a dead node all ran to their end, files left: {left}", dict(ncl=ncl, sched=sched, impl=impl))
        if oks == 0:
            bad += 1
            mismatch(ctx, "interleave:cleaners:nobody", f"{ncl} concurrent cleaners: nobody performed the clean-up: {impl}", dict(ncl=ncl, sched=sched, impl=impl))
    report(ctx, "2..4 concurrent cleaners", n, bad, t0)


def retry_after_dead_cleaner(ctx, kl, kw):
    """dead node; process L (which will try twice) is taken kl model steps into its first clean-up attempt, then cleaner W is taken kw steps into its
    own and stopped; L finishes its first attempt, W is killed, the SAME process L tries again. The model knows no process-local memory: L's second
    attempt is a fresh cleaner (ProcessCleaner / ProcessMonitor keep a process-local cache of states; it must be transparent)."""
    c = Case()
    try:
        dead_node_with_tag(c)
        l = Stepper(c, ["clean-twice"], stdin_text="go\n")
        w = Stepper(c, ["clean"])
        l.advance(kl)
        w.advance(kw)
        for _ in range(400):
            if any(x.startswith("clean0") for x in l.output()) or not l.alive():
                break
            l.cont()
        w.kill()
        l.finish()

        def res(lines, tag):
            r = [x for x in lines if x.startswith(tag)]
            if not r:
                return "?"
            xs = [x for x in r[0].split(" ")[1:] if x]
            if not xs:
                return "none"
            v = xs[0].split(":", 1)[1]
            return "none" if v.startswith("not-dead") else v
        o = l.output()
        impl = [res(o, "clean0"), res(o, "clean1")]
        left = c.ls()
        ml = ["reset", "spawn o owner 0 0", "run o", "kill o", "tag final", "spawn c1 cleaner 2", "spawn c0 cleaner 3"]
        ml += ["step c1"] * kl + ["step c0"] * kw + ["run c1"]
        n1 = len(ml)
        ml += ["show c1", "kill c0", "spawn c2 cleaner 4", "run c2"]
        n2 = len(ml)
        ml += ["show c2", "ls"]
        out = model(ml)
        mod = [mshow(out[n1])["clean"], mshow(out[n2])["clean"]]
        mleft = ",".join(sorted({re.split(r"[:=]", x)[0] for x in out[-1].split(" ") if not x.startswith("(")} - {"-"})) or "-"
        return impl, mod, ",".join(sorted(left.split(","))) if left != "-" else "-", mleft
    finally:
        c.cleanup()


def check_retries(ctx, quick):
    t0 = time.time()
    n = bad = 0
    rng = random.Random(ctx.seed + 5)
    # (steps of the retrying process before the other cleaner starts, steps of the other cleaner before it is killed); 24 = `setlk ol` done
    pairs = [(0, 24), (0, 30), (23, 24), (23, 27), (23, 31), (12, 24)]
    if not quick:
        pairs += [(kl, kw) for kl in (0, 5, 18, 20, 22, 23) for kw in range(20, 40, 2)]
        pairs += [(rng.randrange(0, 24), rng.randrange(1, 40)) for _ in range(30)]
    for kl, kw in pairs:
        impl, mod, left, mleft = retry_after_dead_cleaner(ctx, kl, kw)
        n += 1
        ctx.evaluations += 1
        ctx.count("interleave.retry")
        ctx.distinct.add(("retry", kl, kw, tuple(impl)))
        if impl != mod or left != mleft:
            bad += 1
            mismatch(ctx, "interleave:retry-after-dead-cleaner", f"process L {kl} steps into its clean-up, cleaner W killed after {kw} steps, L finishes and tries again: "
                     f"implementation {impl} left {left}, model {mod} left {mleft}", dict(kl=kl, kw=kw, impl=impl, model=mod, impl_left=left, model_left=mleft))
    report(ctx, "clean-up retried by the same process after the other cleaner died", n, bad, t0)


# ------------------------------------------------------------------------------------------------
# refuted statements: witnesses replayed on the implementation in every run

def finding_unsound_dead(ctx):
    """owner after commit; monitor opens the state file; owner drops the node orderly and goes on living; monitor asks F_GETLK"""
    c = Case()
    try:
        o = subprocess.Popen([LIFE, "owner-create", c.cfg], stdin=subprocess.PIPE, stdout=subprocess.PIPE, text=True)
        o.stdout.readline()
        m = Stepper(c, ["monitor"], closes=False)
        m.advance(10)                      # … open st
        o.stdin.write("drop\n"); o.stdin.flush()
        o.stdout.readline()                # `dropped`: the process is still running
        alive = o.poll() is None
        m.finish()
        v = impl_monitor_out(m.output())
        o.stdin.close(); o.wait(timeout=20)
        return (v == "Dead" and alive), f"Node::list => {v}, owner process running: {alive}"
    finally:
        c.cleanup()


def finding_dead_during_drop(ctx):
    """owner stopped right after unlink(state file) of its own orderly drop; a monitor that had listed the node before queries"""
    c = Case()
    try:
        o = Stepper(c, ["owner-create-drop"])
        o.advance(17)
        m = Stepper(c, ["monitor"], closes=False)
        m.advance(2)                        # readdir + stat: the node is listed
        o.advance(4)                        # readdir, unlink det, rmdir, fchmod st
        o.advance(1)                        # unlink st   (state file lock still held)
        m.finish()
        v = impl_monitor_out(m.output())
        alive = o.alive()
        o.finish()
        return (v == "Dead" and alive), f"Node::list => {v} while the owner is between unlink(state) and close(state)"
    finally:
        c.cleanup()


def finding_kill(ctx, k, expect_left, victim="owner"):
    c = Case()
    try:
        if victim == "owner":
            s = Stepper(c, ["owner-create-drop"])
        else:
            dead_node_with_tag(c)
            s = Stepper(c, ["clean"])
        s.advance(k)
        s.kill()
        s1 = c.survey()
        s2 = c.survey()
        left = c.ls()
        return (left == expect_left and s1.split(" left=")[1] == expect_left), f"survivors: {s1}; again: {s2}"
    finally:
        c.cleanup()


def finding_locked_tag(ctx):
    c = Case()
    try:
        dead_node_with_tag(c, 0o600)
        s1 = c.survey()
        s2 = c.survey()
        m = model(["reset", "spawn o owner 0 0", "run o", "kill o", "tag init", "survey", "spawn c cleaner 2", "run c", "survey"])
        agrees = m[5] == s1 and m[8] == s2
        return ("clean=err:InternalError" in s1 and "clean=err:InternalError" in s2 and "list=Dead" in s2), \
            f"survivors: {s1}; again: {s2}; model {'agrees' if agrees else 'DIFFERS: ' + m[5] + ' / ' + m[8]}"
    finally:
        c.cleanup()


def finding_locked_tag_real(ctx):
    """the real thing: a process that creates a node, a service and a publisher is killed on entering the final fchmod(0400) of
    the publisher's port tag"""
    c = Case()
    try:
        tr = c.dir + "/rec.txt"
        strace(c, tr, ["owner-port"])
        rec = canon_file(c, tr)
        idx = [i for i, e in enumerate(rec.events) if e == "fchmod tag final"]
    finally:
        c.cleanup()
    if len(idx) < 2:
        return False, f"no port tag in the trace ({rec.events[-8:]})"
    c = Case()
    try:
        strace(c, c.dir + "/kill.txt", ["owner-port"], inject=rec.at[idx[1]])
        tags = sorted(oct(os.stat(p).st_mode & 0o777) for p in glob.glob(f"{c.root}/nodes/*/*.port_tag"))
        s1 = c.survey()
        s2 = c.survey()
        return (tags == ["0o600"] and "clean=err:InternalError" in s1 and "clean=err:InternalError" in s2 and "list=Dead" in s2), \
            f"port tag modes after the kill: {tags}; survivors: {s1}; again: {s2}"
    finally:
        c.cleanup()


def finding_cleanup_failure(ctx):
    """a dead node that used a service whose static config carries another iceoryx2 version: removing the node from the service fails"""
    c = Case()
    try:
        subprocess.run([LIFE, "owner-port", c.cfg], capture_output=True, text=True, timeout=30)
        for f in glob.glob(f"{c.root}/services/*.service"):
            os.chmod(f, 0o600)
            txt = open(f).read()
            open(f, "w").write(re.sub(r"(?m)^minor = (\d+)$", lambda m: f"minor = {int(m.group(1)) + 1}", txt, count=1))
            os.chmod(f, 0o400)
        s1 = c.survey()
        s2 = c.survey()
        left = c.ls()
        m = model(["reset", "spawn o owner 0 0", "run o", "kill o", "tag final", "spawn c cleaner 2 svcfails", "run c", "show c", "survey"])
        agrees = mshow(m[-2])["clean"] == s1.split("clean=")[1].split(" ")[0] and m[-1] == s2
        return ("list=Dead" in s1 and "clean=err:" in s1 and "list=-" in s2 and left == "det,dir,tag"), \
            f"survivors: {s1}; again: {s2}; model (cleaner whose service-level removal fails) {'agrees' if agrees else 'DIFFERS: ' + m[-2] + ' / ' + m[-1]}"
    finally:
        c.cleanup()


def finding_double_acquire(ctx):
    impl, mod, left, mleft = sched_cleaners(ctx, [1] * 23 + [0] * 60, 2)
    return (impl == ["ok", "ok"]), f"two cleaners: {impl}"


FINDINGS = [
    ("finding:D2-live-node-reported-dead-state-file-toctou",
     "ProcessMonitor::state() opens the state file and asks F_GETLK in two system calls; when the monitored process drops its node orderly in between "
     "(unlink + close of the state file release the lock) the query answers ProcessState::Dead, and Node::list reports NodeState::Dead for a node whose "
     "process is running (process_state.rs:1075-1083; theorem live_owner_never_reported_dead_false)",
     finding_unsound_dead),
    ("finding:D2b-cleaning-up-mapped-to-dead-during-orderly-drop",
     "file_lock.rs:215 maps ProcessState::CleaningUp to State::Dead; a node in its own orderly drop (state file unlinked, owner-lock / context not yet) is "
     "CleaningUp for a monitor that listed it just before: Node::list reports a live, orderly shutting-down node as Dead (theorem live_owner_never_reported_dead_false, "
     "second witness); the clean-up attempt that follows is refused (no_reclaim_from_live_owner), so nothing is reclaimed",
     finding_dead_during_drop),
    ("finding:D4-kill-before-token-leaves-details-for-ever",
     "NodeBuilder::create writes nodes/<id>/<prefix>node.details before the monitoring token exists (node/mod.rs:1579-1581); a process killed in between leaves "
     "the directory and the details file; Node::list only looks for state files, so no survivor ever removes them (theorem crash_in_creation_before_state_file_not_clean)",
     lambda ctx: finding_kill(ctx, 6, "det,dir")),
    ("finding:D24-kill-during-token-creation-never-collected",
     "a process killed between the creation of the state file and the final chmod of the context file (process_state.rs:496-545) leaves context (0200), state, "
     "owner-lock, details and directory; ProcessMonitor::state() answers Starting for ever, the cal layer maps it to DoesNotExist, Node::list skips the node and "
     "ProcessCleaner::new refuses it: never reported dead, never collected (theorem crash_in_token_creation_not_clean)",
     lambda ctx: finding_kill(ctx, 13, "ctx,st,ol,det,dir")),
    ("finding:D25-kill-after-state-file-removal-orphans-owner-lock-and-context",
     "StateFiles::drop removes the state file first (process_state.rs:725-743); an owner (orderly drop) or a cleaner killed after unlink(state) leaves owner-lock and "
     "context files that no Node::list shows and no clean-up reaches (state() = CleaningUp for ever; theorems crash_in_drop_after_state_unlink_not_clean, "
     "cleaner_crash_after_state_unlink_not_clean)",
     lambda ctx: finding_kill(ctx, 33, "ctx,ol", victim="cleaner")),
    ("finding:D26-locked-tag-makes-dead-node-uncollectable",
     "a tag file still carrying its creation permission 0600 (owner killed between open(O_CREAT) and fchmod(0400) of a port / service tag) is invisible to the "
     "static-storage listing; the cleaner removes the details, fails at rmdir (ENOTEMPTY), abandons, and every later clean-up ends the same way: the node stays "
     "Dead for ever with token, directory and tag left (theorem locked_tag_uncollectable; replay with a hand-made 0600 tag)",
     finding_locked_tag),
    ("finding:D26-publisher-killed-in-port-tag-creation-uncollectable",
     "the same defect end to end: a process with a node, a publish-subscribe service and a publisher, killed on entering the final fchmod(0400) of the publisher's "
     "port tag (static storage `create`: open(O_CREAT|O_EXCL, 0600) … fchmod(0400), node/mod.rs:1059-1081) leaves a 0600 port tag; every dead-node clean-up returns "
     "InternalError, the node stays Dead for ever with its token, directory and tag (theorem locked_tag_uncollectable)",
     finding_locked_tag_real),
    ("finding:D28-failed-cleanup-removes-token-leaves-node-resources",
     "DeadNodeView::remove_stale_resources_impl returns through `cleanup_failure?` (node/mod.rs:661, :707) with the Cleaner still a live local: it is dropped normally, "
     "StateFiles::drop removes context / state / owner-lock, although tags, details, directory and the node's service registration and data segments were not removed. "
     "Afterwards Node::list no longer shows the node and nothing ever collects the rest (replay: dead node with a publisher; the service's static config edited to another "
     "iceoryx2 minor version so that removing the node from the service fails; theorem C04Fs.failed_service_removal_drops_token)",
     finding_cleanup_failure),
    ("finding:D27-second-cleaner-acquires-after-first-finished",
     "ProcessCleaner::new does not re-check the link count after a successful F_SETLK on the owner-lock file (process_state.rs:1258-1262): a cleaner that opened the "
     "three files before another cleaner removed them acquires the lock on the unlinked inode and reports a successful clean-up as well (benign: nothing is left to "
     "remove; theorem at_most_one_cleaner_ever_acquires_false, true part cleaners_mutually_exclusive)",
     finding_double_acquire),
]


def replay_findings(ctx):
    registered = [kf["key"] for kf in ctx.known if kf.get("property") == ctx.prop]
    for key, what, fn in FINDINGS:
        try:
            hit, detail = fn(ctx)
        except Exception as e:            # noqa
            hit, detail = False, f"replay failed: {e!r}"
        ctx.count("findings.replayed")
        ctx.evaluations += 1
        if hit:
            if any(re.fullmatch(k.replace("*", ".*"), key) for k in registered):
                ctx.violation(key, what, dict(engine="lifecycle", detail=detail))
            else:
                ctx.log(f"[finding] {key}: reproduced on the implementation ({detail}); not registered in known_findings.json")
            ctx.extra.setdefault("findings_reproduced", []).append(key)
        else:
            ctx.log(f"[finding] {key}: no longer reproduces ({detail}); the refutation theorem is about the old behaviour")
            ctx.extra.setdefault("findings_gone", []).append(key)


RULE = ("real NodeBuilder::create / Node drop / Node::list / DeadNodeView::try_remove_stale_resources of ipc::Service, one process per role "
        "(harness bin `lifecycle`), own root directory and prefix per scenario, traced with strace. (i) canonicalised system-call sequences "
        "(creat/mkdir/fchmod/write/fsync/F_SETLK/unlink/rmdir/close and the monitor's open/fstat/read/F_GETLK/access/readdir) of node creation + orderly drop, "
        "Node::list of a live / dead / absent node, dead-node clean-up (with a tag), cleaner acquisition of an absent node = the model's step lists; "
        "(ii) every kill point (SIGKILL injected on entering the N-th system call) of node creation + orderly drop and of the dead-node clean-up, followed by survivors "
        "(Node::list verdict, raw ProcessState, clean-up result, files left by role) = the model's prediction; (iii) this driver as scheduler (SIGSTOP after every "
        "system call, SIGCONT per step): owner stopped after each of its steps ∥ complete Node::list; monitor stopped after each of its steps ∥ owner finishing; "
        "2..4 concurrent cleaners (all at the lock at once, one waiting at the lock while another finishes, random schedules) — verdicts, results and leftovers = model; "
        "witnesses of the refuted statements replayed (among them two end-to-end ones with a real service and publisher: a publisher killed inside create_port_tag, "
        "a dead node whose service-level removal fails)")

ASSUME = [
    "uid 0 (sandbox): open() never fails with EACCES; the monitor's open(ctx, O_WRONLY) succeeds also on a 0400 file and the decision is taken by fstat. "
    "For a non-root user with the owner's uid EACCES arises exactly when fstat would show a final permission (same verdicts, by reading process_state.rs:1001-1022); other users are not modelled",
    "one node; its id is unique (names are never reused, O_EXCL creations cannot collide); the global management segment (persistent by design) and the root / nodes directories are not the node's",
    "processes are single-threaded: the process-local PROCESS_STATE_TRACKING map and the IN_CLEANUP_SECTION flag (intra-process exclusion) are not modelled; "
    "a monitor or cleaner never runs inside the owner's process",
    "tags stand for port / service tags; their creation by ports and the service-level clean-up they trigger (registry, data segments, connections) belong to the service / port lifecycle models; "
    "a tag here is a file in the node directory that the cleaner must unlink before rmdir (synthetic tag files in the runs)",
    "kernel: POSIX record locks (per process and inode, released by closing any descriptor of the file and by death), unlink keeps the inode while descriptors are open, "
    "rmdir fails on a non-empty directory; file-system calls are atomic and sequentially consistent",
    "cleanup-dead-nodes-on-creation / -destruction are switched off in the owner (they only add read-only Node::list scans of other nodes to its system-call sequence)",
]


def run(ctx):
    core.prove(ctx)
    drv = core.build_driver(ctx)
    ok, err = core.build_harness(ctx)
    if not ok:
        ctx.violation("harness-build", "harness does not build against the current tree", dict(engine="cargo", stderr=err[-3000:]), nfi=True)
        return core.finish(ctx)
    if drv:
        quick = ctx.tier == "quick"
        try:
            check_step_lists(ctx)
            check_kill_points(ctx, quick)
            check_interleavings(ctx, quick)
            check_cleaners(ctx, quick)
            check_retries(ctx, quick)
            replay_findings(ctx)
        finally:
            for d in glob.glob(f"/tmp/vl{os.getpid()}x*"):
                shutil.rmtree(d, ignore_errors=True)
            for f in glob.glob(f"/dev/shm/vl{os.getpid()}x*"):
                try:
                    os.unlink(f)
                except OSError:
                    pass
    return core.finish(ctx, level="proof", rule=RULE, extra_assumptions=ASSUME)
