"""C03 — lock-free SPSC channels are linearizable FIFOs conserving every element."""
import core, re


def queue_oracle(e):
    """property evaluated on the implementation's trace alone: every pushed value is obtained at
    most once (popped or evicted), nothing is invented, pops come in push order"""
    pushed, popped, evicted = [], [], []
    cur_push = {}
    for l in e["lines"]:
        t = l.split(" ")
        if len(t) < 3 or t[1] != "ret":
            if len(t) >= 2 and t[1] == "PANIC":
                return "panic"
            continue
        if t[2] == "push":
            pass
    # values pushed are in the program text
    for th in e["prog"].split(" | ")[1:]:
        for op in th.split(","):
            if op.startswith("push "):
                pushed.append(int(op.split(" ")[1]))
    for l in e["lines"]:
        t = l.split(" ")
        if len(t) >= 4 and t[1] == "ret" and t[2] == "pop" and t[3].startswith("some:"):
            popped.append(int(t[3][5:]))
        if len(t) >= 4 and t[1] == "ret" and t[2] == "push" and t[3].startswith("some:"):
            evicted.append(int(t[3][5:]))
    got = popped + evicted
    if len(set(got)) != len(got):
        return "duplicate"
    if any(v not in pushed for v in got):
        return "invented"
    return None


def run(ctx):
    core.prove(ctx)
    drv = core.build_driver(ctx)
    ok, log = core.build_trace(ctx)
    if not ok:
        ctx.violation("steptrace-build", "instrumented build failed (drop-in generator or harness)", dict(engine="cargo", log=log[-3000:]), nfi=True)
        return core.finish(ctx)
    if drv:
        quick = ctx.tier == "quick"
        for comp in ["spsc", "overflow"]:
            core.trace_component(ctx, comp, ["random", "--seed", ctx.seed, "--cases", 20 if quick else 100, "--progs", 100 if quick else 300],
                                 label=f"{comp}.random", oracle=queue_oracle)
            core.trace_component(ctx, comp, ["exhaustive", "--seed", ctx.seed + 1, "--cases", 2500 if quick else 20000, "--progs", 4 if quick else 12,
                                             "--preempt", 2 if quick else 3], label=f"{comp}.exhaustive", oracle=queue_oracle)
    return core.finish(
        ctx, level="proof",
        rule="programs: 2..3 logical threads (producer, consumer, optional role competitor) with 1..5 push/pop/len/is_full/is_empty/acquire/release ops on capacities "
             "0..3; schedules: PRNG with continuation bias, and all schedules with a bounded number of preemptions (2 quick / 3 thorough). Every atomic operation and "
             "plain cell access of the real queue code (instrumented drop-in regenerated from /repo) is compared with the L2 model's step: operation kind, variable "
             "(modulo a consistent bijection), memory ordering, values read/written, CAS outcome, and every return value. distinct = distinct (program, interleaving)",
        extra_assumptions=["executions are sequentially consistent interleavings at atomic-operation granularity (serialising scheduler); weak-memory behaviours are not observable on x86",
                           "a weak CAS never fails spuriously under the serialising scheduler"])
