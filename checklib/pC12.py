"""C12 — blackboard reads are atomic and monotone; one writer at a time."""
import core, compose, re
import pC12ports


def seqlock_oracle(e):
    """on the implementation's trace alone: every loaded value is one of the stored values in one
    piece (word k = 100 v + k), and one reader never goes back"""
    last = {}
    for l in e["lines"]:
        t = l.split(" ")
        if len(t) >= 4 and t[1] == "ret" and t[2] == "load":
            ws = [int(x) for x in t[3].split(",")]
            v = ws[0] // 100
            if ws != [100 * v + k for k in range(len(ws))]:
                return "torn-read"
            if v < last.get(t[0], 0):
                return "went-back"
            last[t[0]] = v
        if len(t) >= 2 and t[1] == "PANIC":
            return "panic"
    return None


def classify(case, idx, impl_out, model_out):
    return "layout:" + case[idx][0].split(" ")[0]


def run(ctx):
    # composition level: call orders regenerated from /repo, witness search (the theorems are built by core.prove below)
    compose.compose_part(ctx)
    core.prove(ctx)
    drv = core.build_driver(ctx)
    ok, log = core.build_trace(ctx)
    okh, err = core.build_harness(ctx)
    if not ok or not okh:
        ctx.violation("harness-build", "instrumented build failed (drop-in generator or harness)", dict(engine="cargo", log=(log + err)[-3000:]), nfi=True)
        return core.finish(ctx)
    if drv:
        quick = ctx.tier == "quick"
        core.trace_component(ctx, "seqlock", ["random", "--seed", ctx.seed, "--cases", 20 if quick else 100, "--progs", 120 if quick else 400],
                             label="seqlock.random", oracle=seqlock_oracle)
        core.trace_component(ctx, "seqlock", ["exhaustive", "--seed", ctx.seed + 1, "--cases", 2500 if quick else 20000, "--progs", 4 if quick else 14,
                                              "--preempt", 2 if quick else 3], label="seqlock.exhaustive", oracle=seqlock_oracle)
        # port level: Writer / Reader / entry handles / loans through the public API vs the Blackboard model
        pC12ports.ports_part(ctx)
        # cell layout functions (sizes 1..300, alignments 1..256, aligned and unaligned payload addresses): part of the alloc component
        core.diff_component(ctx, "alloc", ["gen", "--seed", ctx.seed, "--cases", 1200 if quick else 20000, "--len", 4], classify, label="layout")
    return core.finish(
        ctx, level="proof",
        rule="steptrace on UnrestrictedAtomic<[u64; W]>, W in {1,2,5}: one writer thread (copy-style store and loan-style two-step update), 1..2 readers, optional "
             "hand-over of the producer token; PRNG schedules and all schedules with a bounded number of preemptions; every atomic operation / cell access and every "
             "returned value compared with the L2 model; self-checking values (word k = 100 v + k) let the harness detect a torn or stale read on its own. Cell layout "
             "functions compared with the arithmetic model for random sizes / alignments / payload addresses. distinct = distinct (program, interleaving); " + compose.rule(ctx),
        extra_assumptions=["the instrumented implementation cannot be preempted inside a plain memcpy: word-level interleavings are covered by the theorem (the model steps word by word), not by the traces",
                           "sequentially consistent interleavings only; the RA argument (acquire load / release fetch_add / acq-rel validating CAS) is not mechanised",
                           "port level: " + str(getattr(pC12ports, "RULE", ""))[:500]] + list(getattr(pC12ports, "ASSUMPTIONS", [])) + compose.ASSUMPTIONS)
