"""C02 — zero-copy sample lifetime: no reuse while referenced, no leak after."""
import core, pubsub_common as ps


def run(ctx):
    core.prove(ctx)
    drv = core.build_driver(ctx)
    ok, err = core.build_harness(ctx)
    if not ok:
        ctx.violation("harness-build", "harness does not build against the current tree", dict(engine="cargo", stderr=err[-3000:]), nfi=True)
        return core.finish(ctx)
    if drv:
        ps.run_pubsub(ctx, {ps.CANARY_DROPPED, ps.CANARY_LIVE}, line_oracle=ps.oom_oracle)
    return core.finish(ctx, level="proof", rule=ps.RULE, extra_assumptions=ps.ASSUME)
