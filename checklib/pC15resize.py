"""C15 (resize part) — the dynamically growing data segment: DynamicMemory / DynamicView of
iceoryx2-cal/src/resizable_shared_memory/dynamic.rs against the Lean model Iox2.ResizeMem.
Called from pC15.run(ctx) as `pC15resize.resize_part(ctx)` (after the driver and the harness are built).
Known findings of this part (fnmatch keys for known_findings.json, property C15):
  resize.*:resize:oracle:grow:grow-alias          grow of a chunk of an older segment returns a bucket of the current segment
  resize.*:resize:alloc-refused-with-ids-left     one bucket lost to alignment padding; with one chunk allocate() burns all ids and fails
see notes/C15-resize-design.md."""
import core


def classify(case, idx, impl_out, model_out):
    op = case[idx][0].split(" ")
    if "ORACLE[" in impl_out:
        # the first word of the first oracle message names the family (grow-alias, overlap, misaligned, out-of-bounds,
        # bucket, owner-canary, view-canary, grow-content, segment-missing)
        return "resize:oracle:" + op[0] + ":" + impl_out.split("ORACLE[", 1)[1].split(":")[0].replace(" ", "-")[:40]
    if impl_out == "PANIC":
        return f"resize:panic:{op[0]}"
    return f"resize:result:{op[0]}"


def segment_ids_oracle(case, idx, out):
    """on the implementation's answers alone (whatever the model says):
    * offsets carry a segment id below 256, an allocation is only ever refused with OutOfMemory;
    * one call of allocate / grow needs at most ONE new segment, so in a growing (non-static) segment an allocation with a
      supported alignment can only be refused after at least 255 earlier allocate / grow calls"""
    op = case[idx][0].split(" ")
    if op[0] in ("alloc", "grow") and out.startswith("ok:"):
        seg = int(out.split(":")[1])
        if seg > 255:
            return "resize:segment-id-out-of-range"
    if op[0] == "alloc" and out.startswith("err:") and out != "err:oom":
        return "resize:undocumented-allocation-error"
    if op[0] == "alloc" and out == "err:oom" and case[0][0].split(" ")[1] != "static" and int(op[3]) <= 4096:
        calls = sum(1 for (o, _) in case[:idx] if o.split(" ")[0] in ("alloc", "grow"))
        if calls < 255:
            return "resize:alloc-refused-with-ids-left"
    return None


def resize_part(ctx):
    quick = ctx.tier == "quick"
    n = 0
    n += core.diff_component(ctx, "resize", ["gen", "--exhaustive", 2 if quick else 3], classify,
                             label="resize.exhaustive", line_oracle=segment_ids_oracle)
    n += core.diff_component(ctx, "resize", ["gen", "--seed", ctx.seed, "--cases", 1200 if quick else 30000, "--len", 50 if quick else 70],
                             classify, label="resize.random", line_oracle=segment_ids_oracle)
    return n


RULE = ("resize: one DynamicMemory (posix shared memory, pool allocator) with two DynamicViews; exhaustive: all op sequences of length L "
        "(quick 2, thorough 3) over {alloc x3 (one forcing growth), dealloc x2, grow, view_register x2, view_unregister x2} for the three strategies "
        "and initial segments of 1 and 2 buckets; random: initial layouts (size 0..24 or multiples of the alignment, alignment 1..4096 and 8192, "
        "0..6 chunks), histories of alloc (sizes below / above the current bucket, alignments up to 8192), write, dealloc, grow (front/back), "
        "view_register / read / unregister on both views incl. stale and unknown labels, segment counts; fixed scenarios: two growths under a held "
        "sample, all 256 segment ids used up (released at once / all kept and mapped / lost bucket). Every answer is compared with the Lean model; "
        "harness oracles after every op: fresh chunks aligned (owner and view address), inside the payload of their segment, on a bucket boundary, "
        "not overlapping any live chunk; written chunks keep their bytes for the owner and for every view that registered them")
ASSUMPTIONS = ["the payload of a posix segment starts 136 bytes behind a page boundary (measured by the harness at start-up and compared with the model constant)",
               "page size 4096 (largest supported bucket alignment)",
               "chunk_count / number_of_used_buckets are modelled in Nat: the contract (unregister/deallocate only what was registered/allocated) keeps them from wrapping"]
