"""C13 — connection lifecycle: one sender, one receiver, removed once by the last."""
import core, re


def oracle(e):
    """the resource is only ever destroyed in state MarkedForDestruction (model ghost replayed on the
    implementation's own trace), and no thread panics"""
    for l in e["lines"]:
        if l.split(" ")[1:2] == ["PANIC"]:
            return "panic"
    m = re.search(r"stateAtDestroy=\[([^\]]*)\]", e.get("model_end", ""))
    if m:
        bad = [x.strip() for x in m.group(1).split(",") if x.strip() and x.strip() != "128"]
        if bad:
            return "destroyed-while-attached"
    return None


def run(ctx):
    core.prove(ctx)
    drv = core.build_driver(ctx)
    ok, log = core.build_trace(ctx)
    if not ok:
        ctx.violation("harness-build", "instrumented build failed (drop-in generator or harness)", dict(engine="cargo", log=log[-3000:]), nfi=True)
        return core.finish(ctx)
    if drv:
        quick = ctx.tier == "quick"
        core.trace_component(ctx, "conn", ["random", "--seed", ctx.seed, "--cases", 10 if quick else 60, "--progs", 300 if quick else 2000],
                             label="conn.random", oracle=oracle)
        core.trace_component(ctx, "conn", ["exhaustive", "--seed", ctx.seed + 1, "--cases", 2500 if quick else 20000, "--progs", 6 if quick else 16,
                                           "--preempt", 2 if quick else 3], label="conn.exhaustive", oracle=oracle)
        # outside the contract: forced removal of a role that is not attached (known finding)
        core.trace_component(ctx, "conn-misuse", ["random", "--seed", ctx.seed, "--cases", 10, "--progs", 150 if quick else 800],
                             label="conn-misuse", oracle=oracle, driver_component="conn")
    return core.finish(
        ctx, level="proof",
        rule="programs: 2..3 logical threads attaching / detaching / abandoning+forcibly removing the sender and receiver role of one process-local zero-copy connection "
             "(matching and mismatching buffer sizes, two threads competing for one role); schedules: PRNG and all schedules with a bounded number of preemptions. Every "
             "access to the state byte and to the storage handles' ownership flags, every storage operation under the global mutex (one `crit` step reporting whether the "
             "connection exists) and every return value is compared with the L2 model; oracle: the resource is destroyed only in state MarkedForDestruction. distinct = distinct (program, interleaving)",
        extra_assumptions=["storage operations under the process-local storage's pthread mutex are atomic (mutex interposed in the harness)",
                           "the POSIX shared-memory storage flavour has the same ownership semantics (create = O_EXCL, unlink by name); it is exercised sequentially by the port-level checks only",
                           "forced removal is only performed on behalf of a port that died while attached (contract); the violation outside it is a known finding"])
