"""C04, PORT level part: a process killed inside the creation of a Publisher / Subscriber of a service held by a living process; the survivors' dead-node
clean-up; the holder goes on (registry slot free again, traffic with a fresh peer, orderly drop, nothing left).  To be called from pC04.run:

    import pC04port
    pC04port.port_part(ctx)

Model lean/Iox2/Model/PortCrash.lean (driver component `portcrash`), theorems lean/Iox2/Props/C04Port.lean; machinery of pC07 / pC04svc
(own domain per scenario, strace canonicaliser, kill injection); harness commands harness/src/life/port.rs.  See notes/C04-service-design.md, section "Port level"."""
import core, os, re, subprocess, time, shutil, glob, stat, signal
import pC07, pC04svc
from pC04svc import LIFE, strace, HANG_S

COMP = "portcrash"
SVC = "verif/portcrash"


class PortCase(pC04svc.SvcCase):
    """roles of the service's files + port tag, data segment, connection"""

    def role_of(self, path):
        b = os.path.basename(path.rstrip("/"))
        if b.endswith(".port_tag"):
            return "ptag"
        if b.startswith(self.prefix) and b.endswith(".data"):
            return "data"
        if b.startswith(self.prefix) and b.endswith(".connection"):
            return "conn"
        return super().role_of(path)


class PortCanon(pC04svc.SvcCanon):
    ROLES = ("stag", "static", "dyn", "ptag", "data", "conn")
    INIT = dict(pC04svc.INIT_MODE, ptag="0600", data="0200", conn="0200")
    MARK = r'"(opened|ported|holding) '

    def steps(self):
        """events between `opened` and `ported`"""
        a = self.marks[0] if self.marks else 0
        b = self.marks[1] if len(self.marks) > 1 else len(self.events)
        return self.events[a:b]


def canon_file(case, path):
    c = PortCanon(case)
    for l in open(path):
        c.feed(l)
    return c


def _shm_state(f):
    s = os.stat(f)
    return "final" if stat.S_IMODE(s.st_mode) & 0o400 else ("created" if s.st_size == 0 else "sized")


def port_ls(case):
    base = pC04svc.SvcCase.ls(case)
    out = [] if base == "-" else base.split(" ")
    shown = lambda f: not any(h in f for h in case.hide)      # noqa
    for f in sorted(filter(shown, glob.glob(f"{case.root}/nodes/*/*.port_tag"))):
        out.append("ptag=" + ("init" if stat.S_IMODE(os.stat(f).st_mode) == 0o600 else "final"))
    for kind, suffix in (("data", ".data"), ("conn", ".connection")):
        xs = []
        for f in glob.glob(f"/dev/shm/{case.prefix}*{suffix}"):
            try:
                xs.append(f"{kind}={_shm_state(f)}")
            except OSError:
                pass
        out += sorted(xs)
    return " ".join(out) or "-"


PortCase.ls = port_ls


class Holder:
    """H: the living process that created the service and holds one subscriber / one publisher / two publishers"""

    def __init__(self, case, kind):
        self.p = subprocess.Popen([LIFE, "port-holder", case.cfg, SVC, kind], stdin=subprocess.PIPE, stdout=subprocess.PIPE, text=True)
        self.first = self.p.stdout.readline().strip()
        case.hide = (self.first.split(" ")[1],) if self.first.startswith("holding ") else ()

    def ask(self, cmd, timeout=20):
        try:
            self.p.stdin.write(cmd + "\n"); self.p.stdin.flush()
            return self.p.stdout.readline().strip() or "PANIC"
        except Exception:      # noqa
            return "PANIC"

    def drop(self):
        r = self.ask("drop")
        try:
            self.p.wait(timeout=20)
        except Exception:      # noqa
            self.p.kill()
        return r

    def kill(self):
        if self.p.poll() is None:
            self.p.kill()
            self.p.wait()


# scenario: (victim's port kind, holder's ports)
SCENARIOS = {"pub": ("pub", "sub"), "sub": ("sub", "pub"), "sub2": ("sub", "pub2")}


def record(scn):
    vk, hk = SCENARIOS[scn]
    c = PortCase()
    try:
        h = Holder(c, hk)
        tr = c.dir + "/rec.txt"
        strace(c, tr, ["port-create", SVC, vk])
        rec = canon_file(c, tr)
        h.drop()
        return rec
    finally:
        c.cleanup()


def experiment(case, scn, rec, k, nsteps):
    vk, hk = SCENARIOS[scn]
    h = Holder(case, hk)
    try:
        count0 = h.ask("count")
        tr = case.dir + "/kill.txt"
        base = rec.marks[0]
        strace(case, tr, ["port-create", SVC, vk], inject=rec.at[base + k] if k < nsteps else None)
        kc = canon_file(case, tr)
        want = rec.steps()
        okpos = (kc.steps() == want[:k] and kc.pending == want[k]) if k < nsteps else kc.steps() == want
        before = case.ls()
        count1 = h.ask("count")
        res, csteps = [], []
        for i in (1, 2):
            trc = f"{case.dir}/clean{i}.txt"
            p = strace(case, trc, ["clean"], timeout=HANG_S)
            if p is None:
                res.append("hang")
            else:
                r = [x for x in [l for l in p.stdout.split("\n") if l.startswith("clean")][0].split(" ")[1:] if x]
                res.append(r[0].split(":", 1)[1] if r else "none")
            csteps.append(canon_file(case, trc).events)
        after = case.ls()
        count2 = h.ask("count")
        ports = h.ask(f"ports {vk}")
        talk = h.ask("talk")
        dropped = h.drop()
        case.hide = ()          # H is gone: whatever is left now — A's or H's — is a leftover
        end = case.ls()
        return dict(okpos=okpos, trace=kc.steps(), pending=kc.pending, count0=count0, before=before, count1=count1, clean1=res[0], clean2=res[1], csteps=csteps,
                    after=after, count2=count2, ports=ports, talk=talk, dropped=dropped, end=end)
    finally:
        h.kill()



# ------------------------------------------------------------------------------------------------
# model side

def model(lines):
    out = core.run_model(COMP, "\n".join(lines) + "\n")
    return [o for o in out if o != ""]


def mismatch(ctx, key, what, obj):
    ctx.violation(key, what, dict(obj, engine="portcrash"))


visible = pC04svc.visible
fuse_of = pC04svc.fuse_of
parse_kv = pC04svc.parse_kv


def norm_blocks(steps):
    """the clean-up handles the connections in directory order of /dev/shm, which varies: the blocks `open conn … unlink conn` are sorted"""
    out, blocks, cur = [], [], None
    for x in steps + ["<end>"]:
        if x == "open conn":
            if cur is not None:
                blocks.append(cur)
            cur = [x]
        elif cur is not None and " conn" in x:
            cur.append(x)
        else:
            if cur is not None:
                blocks.append(cur)
                cur = None
            if blocks:
                for b in sorted(blocks):
                    out += b
                blocks = []
            out.append(x)
    return out[:-1]


def prediction(scn, fuse, cfuse=None):
    ls = [f"reset {scn}", "spawn v victim", f"step v {fuse}", "kill v", "ls", "holder", "spawn c cleaner 7"]
    ls += ["run c"] if cfuse is None else [f"step c {cfuse}"]
    ls += ["show c", "kill c", "spawn d cleaner 8", "run d", "show d", "kill d", "ls", "holder", "end"]
    m = model(ls)
    c1, c2 = parse_kv(m[8]), parse_kv(m[12])
    h1, h2 = parse_kv(m[5]), parse_kv(m[15])
    return dict(before=m[4], count1=f"count pubs={h1['pubs']} subs={h1['subs']}", clean1=c1["clean"], clean2=c2["clean"],
                csteps=[norm_blocks(visible(m[7].split(";"))), norm_blocks(visible(m[11].split(";")))], after=m[14],
                count2=f"count pubs={h2['pubs']} subs={h2['subs']}", ports=int(h2["ports"]), end=m[16])


def ports_text(n, vk):
    return "ports " + " ".join(["ok"] * n) + (" err:ExceedsMaxSupportedPublishers" if vk == "pub" else " err:ExceedsMaxSupportedSubscribers")


def agree(impl, mod, vk, second=False):
    bad = []
    for f in ("before", "count1", "clean2", "after", "count2", "end"):
        if impl[f] != mod[f]:
            bad.append(f)
    if not second and impl["clean1"] != mod["clean1"]:
        bad.append("clean1")
    if impl["ports"] != ports_text(mod["ports"], vk):
        bad.append("ports")
    if impl["talk"] != "talk ok":
        bad.append("talk")
    if impl["dropped"] != "dropped":
        bad.append("holder-drop")
    for i in (0, 1):
        a, b = norm_blocks(impl["csteps"][i]), mod["csteps"][i]
        if second and i == 0:
            continue
        if a != b:
            bad.append(f"csteps{i+1}")
    if not impl["okpos"]:
        bad.append("kill-position")
    return bad


def kill_table(ctx, scn, points=None):
    """(i) the victim's step list and (ii) every kill point of it"""
    t0 = time.time()
    vk = SCENARIOS[scn][0]
    rec = record(scn)
    msteps = model([f"reset {scn}", "spawn v victim", "trace v"])[-1].split(";")
    ctx.evaluations += 1
    ctx.count("port.steplist.scenarios")
    same = rec.steps() == visible(msteps)
    ctx.log(f"[portcrash] step list `{scn}`: {len(msteps)} model steps ({len(visible(msteps))} system calls), implementation {'identical' if same else 'DIFFERS'}")
    ctx.extra.setdefault("port_step_lists", {})[scn] = msteps
    if not same:
        mismatch(ctx, f"port:steplist:{scn}", f"system-call sequence of the real port creation (scenario {scn}) differs from the model's step list", dict(impl=rec.steps(), model=visible(msteps)))
    n = len(rec.steps())
    rows, bad = [], 0
    for k in (range(n + 1) if points is None else points):
        c = PortCase()
        try:
            impl = experiment(c, scn, rec, k, n)
        finally:
            c.cleanup()
        fuse = fuse_of(msteps, k)
        mod = prediction(scn, fuse)
        diff = agree(impl, mod, vk)
        ctx.evaluations += 1
        ctx.count(f"port.kill.{scn}")
        ctx.distinct.add((scn, impl["before"], impl["clean1"], impl["after"], impl["ports"], impl["end"]))
        nxt = rec.steps()[k] if k < n else "(returned)"
        rows.append(dict(k=k, fuse=fuse, next=nxt, before=impl["before"], clean1=impl["clean1"], clean2=impl["clean2"], after=impl["after"], count=impl["count2"],
                         ports=impl["ports"], talk=impl["talk"], end=impl["end"], agrees=not diff))
        if diff:
            bad += 1
            mismatch(ctx, f"port:kill:{scn}:survivors",
                     f"scenario {scn}: victim killed on entering system call {k} (`{nxt}`, model crash point {fuse}): survivors see `{impl['before']}`, clean-up `{impl['clean1']}` / `{impl['clean2']}`, "
                     f"left `{impl['after']}`, holder: `{impl['count2']}`, `{impl['ports']}`, `{impl['talk']}`, after its drop `{impl['end']}`; the model predicts `{mod['before']}`, `{mod['clean1']}` / "
                     f"`{mod['clean2']}`, `{mod['after']}`, `{mod['count2']}`, {mod['ports']} creatable port(s), `{mod['end']}` (differing: {', '.join(diff)})",
                     dict(scenario=scn, k=k, fuse=fuse, step=nxt, impl=impl, model=mod))
    ctx.extra.setdefault("port_kill_tables", {})[scn] = rows
    pC07.report(ctx, f"port-level kill points `{scn}`", len(rows), bad, t0)
    return rows




# ------------------------------------------------------------------------------------------------
# crash points that lie between a system call and the memory-only steps after it: the process is stopped right AFTER the call
# (strace `inject=<call>:signal=SIGSTOP:when=N`: the call is executed, the signal is delivered on its return), then killed

def kill_after(case, out, args, at, timeout=20.0):
    cmd = ["strace", "-f", "-o", out, "-e", f"trace={pC04svc.SET}", "-e", f"inject={at[0]}:signal=SIGSTOP:when={at[1]}", LIFE, args[0], case.cfg] + [str(a) for a in args[1:]]
    p = subprocess.Popen(cmd, stdout=subprocess.DEVNULL, stderr=subprocess.DEVNULL, stdin=subprocess.DEVNULL, start_new_session=True)
    t0, pid = time.time(), None
    while time.time() - t0 < timeout and p.poll() is None:
        txt = open(out).read() if os.path.exists(out) else ""
        if "--- stopped by SIGSTOP" in txt:
            pid = int(re.match(r"^(\d+)\s", txt).group(1))
            break
        time.sleep(0.002)
    if pid is not None:
        for sig in (signal.SIGKILL, signal.SIGCONT):
            try:
                os.kill(pid, sig)
            except ProcessLookupError:
                pass
    try:
        p.wait(timeout=10)
    except subprocess.TimeoutExpired:
        os.killpg(p.pid, signal.SIGKILL)
    return pid is not None


def survivors(case, h, vk):
    res = []
    for i in (1, 2):
        p = strace(case, f"{case.dir}/cl{i}.txt", ["clean"], timeout=HANG_S)
        r = [x for x in [l for l in (p.stdout if p else "clean hang").split("\n") if l.startswith("clean")][0].split(" ")[1:] if x]
        res.append(r[0].split(":", 1)[-1] if r else "none")
    after, count, ports, talk = case.ls(), h.ask("count"), h.ask(f"ports {vk}"), h.ask("talk")
    h.drop()
    case.hide = ()
    return dict(clean1=res[0], clean2=res[1], after=after, count=count, ports=ports, talk=talk, end=case.ls())


def describe(e):
    return f"clean-up `{e['clean1']}`, again `{e['clean2']}`; left `{e['after']}`; holder `{e['count']}`, `{e['ports']}`, `{e['talk']}`; after its drop `{e['end']}`"


def finding_ptag_init(ctx):
    rec = record("pub")
    k = rec.steps().index("write ptag")
    c = PortCase()
    try:
        e = experiment(c, "pub", rec, k, len(rec.steps()))
    finally:
        c.cleanup()
    e = dict(e, count=e["count2"])
    return (e["clean1"] == "err:InternalError" and e["clean2"] == "err:InternalError" and "ptag=init" in e["end"] and "node" in e["end"].split(" ")), describe(e)


def finding_unreserved_conn(ctx):
    """A is stopped right after `fchmod conn final` (the connection is finalised, reserve_port has not run) and killed there"""
    rec = record("pub")
    k = rec.steps().index("fchmod conn final")
    c = PortCase()
    h = Holder(c, "sub")
    try:
        if not kill_after(c, c.dir + "/kill.txt", ["port-create", SVC, "pub"], rec.at[rec.marks[0] + k]):
            return False, "the victim could not be stopped after `fchmod conn final`"
        before = c.ls()
        e = survivors(c, h, "pub")
        mod = prediction("pub", 18)
        return (e["clean1"] == "ok" and e["end"] == "conn=final"), f"after the kill `{before}`; " + describe(e) + f"; model (crash point 18): left `{mod['after']}`, after the holder's drop `{mod['end']}`"
    finally:
        h.kill()
        c.cleanup()


def finding_slot_leak(ctx):
    """A died after `create` returned; the first cleaner is stopped right after `unlink ptag` (port tag removed, slot not yet released) and killed there"""
    c = PortCase()
    try:
        h0 = Holder(c, "sub")
        strace(c, c.dir + "/v.txt", ["port-create", SVC, "pub"])
        tr = c.dir + "/rec.txt"
        strace(c, tr, ["clean"])
        rec = canon_file(c, tr)
        h0.drop()
    finally:
        c.cleanup()
    if "unlink ptag" not in rec.events:
        return False, "no `unlink ptag` in the clean-up"
    at = rec.at[rec.events.index("unlink ptag")]
    c = PortCase()
    h = Holder(c, "sub")
    try:
        strace(c, c.dir + "/v.txt", ["port-create", SVC, "pub"])
        if not kill_after(c, c.dir + "/kill.txt", ["clean"], at):
            return False, "the cleaner could not be stopped after `unlink ptag`"
        e = survivors(c, h, "pub")
        return (e["clean1"] == "ok" and e["count"] == "count pubs=1 subs=1" and e["ports"] == "ports ok err:ExceedsMaxSupportedPublishers"), \
            "first cleaner killed after `unlink ptag`; then " + describe(e)
    finally:
        h.kill()
        c.cleanup()


FINDINGS = [
    ("finding:D26-publisher-killed-in-port-tag-creation-uncollectable",
     "(the registered finding D26, replayed at port level) a process killed inside create_port_tag (node/mod.rs:1059-1081) leaves a 0600 port tag: every dead-node clean-up returns InternalError, "
     "the dead node stays for ever; the holder is not affected (theorem C04Port.crash_in_port_tag_creation_not_restored)",
     finding_ptag_init),
    ("finding:port-kill-before-reserve-port-leaks-connection",
     "a Publisher / Subscriber creator killed after its new connection was finalised (zero_copy_connection/common.rs create_or_open_shm: final fchmod of the shm object) and before reserve_port "
     "set its role bit in the connection's state byte: the dead-node clean-up (remove_stale_port_resources ⇒ Connection::remove_sender / remove_receiver ⇒ remove_state, common.rs:247-277) finds state None, "
     "marks nothing and takes no ownership; the clean-up reports success, node and port tag are gone, the `.connection` shm object stays for ever — the peer never attaches to it because the dead port "
     "was never registered (theorem C04Port.crash_before_reserve_port_leaks_connection; replay: victim stopped right after `fchmod conn final`, then SIGKILL)",
     finding_unreserved_conn),
    ("finding:port-cleaner-killed-after-port-tag-removal-leaks-registry-slot",
     "second crash: the port callback of __internal_remove_node_from_service (service/mod.rs:845-910) removes the port tag BEFORE the registry slot is released; a cleaner killed in between leaves a registered "
     "port without tag; for every later cleaner remove_port_tag answers AlreadyRemoved ⇒ SkipPort (:904-907): the clean-up succeeds, the node is gone, the dead port occupies its slot for ever "
     "(number_of_publishers one too high, one port less can be created) (theorem C04Port.second_crash_after_port_tag_removal_leaks_slot; replay: cleaner stopped right after `unlink ptag`, then SIGKILL)",
     finding_slot_leak),
]


def replay_findings(ctx):
    saved = pC07.FINDINGS
    pC07.FINDINGS = FINDINGS
    try:
        pC07.replay_findings(ctx)
    finally:
        pC07.FINDINGS = saved


RULE = ("port level: a process A with a node opens a publish-subscribe ipc service held by a living process H (max_publishers = max_subscribers = 2; harness bin `lifecycle port-holder` / `port-create`) and "
        "creates a Publisher (H: one subscriber) resp. a Subscriber (H: one publisher; H: two publishers); A is killed with SIGKILL on entering EVERY system call of the creation that touches the port tag, "
        "the data segment or a connection (16 / 15 / 25 kill points + `after create returned`; the memory-only steps — initialisers, reserve_port, registration in the dynamic config — lie between system calls "
        "and are covered by the model, two of those windows additionally by stop-after-the-call replays); afterwards two complete Node::list + try_remove_stale_resources runs (traced), files left by kind "
        "(port tag init/final, data segments, connections by state, service tag, node token / directory, service files), then H: number of publishers / subscribers in the dynamic config, ports of A's kind "
        "creatable up to the limit (a leaked registry slot shows), one sample through every port of H with a fresh peer, orderly drop of everything, files left: all values and the survivors' canonicalised "
        "system-call sequences (connection blocks sorted: /dev/shm directory order varies) = the prediction of Iox2/Model/PortCrash.lean for that crash point (theorems C04Port.port_kill_table, …_partial)")

ASSUMPTIONS = [
    "port level: publish-subscribe, ipc, static data segment, fixed-size payload; H is idle while A is created and cleaned up (it never updates its connections, so the peer's role bit is never set in A's "
    "connections); one victim port; the node-level halves of the clean-up are atomic steps (C07 / C04Fs), the service-level part is the fixed sequence of an intact, held service (C04Service)",
    "memory-only steps (data-segment / connection initialisers, reserve_port, add_publisher_id / add_subscriber_id, remove_state, slot release) are placed by reading between the surrounding system calls; "
    "a kill between two of them (e.g. reserved but not registered) is a model crash point, observably equal to a neighbouring one",
    "the second crash (first cleaner killed) is proved for every step of the cleaner in the model; on the real code only the refuted window is replayed",
]


def port_part(ctx):
    """returns the kill-point rows by scenario; violations / findings are registered on ctx"""
    ok, err = core.build_harness(ctx)
    if not ok:
        ctx.violation("harness-build", "harness does not build against the current tree", dict(engine="cargo", stderr=err[-3000:]), nfi=True)
        return None
    if not core.build_driver(ctx):
        return None
    rows = {}
    try:
        for scn in SCENARIOS:
            rows[scn] = kill_table(ctx, scn)
        replay_findings(ctx)
    finally:
        for d in glob.glob(f"/tmp/vl{os.getpid()}x*"):
            shutil.rmtree(d, ignore_errors=True)
        for f in glob.glob(f"/dev/shm/vl{os.getpid()}x*"):
            try:
                os.unlink(f)
            except OSError:
                pass
    ctx.extra["port_rule"] = RULE
    return rows


if __name__ == "__main__":
    import sys

    class _Ctx:
        prop, tier, known, evaluations, distinct, extra = "C04", "quick", [], 0, set(), {}

        def log(self, *a):
            print(*a, flush=True)

        def count(self, *a):
            pass

        def violation(self, key, what, obj, nfi=False):
            print(f"VIOLATION {key}: {what}", flush=True)

    ctx = _Ctx()
    mode = sys.argv[1] if len(sys.argv) > 1 else "table"
    t0 = time.time()
    try:
        if mode == "table":
            for scn in (sys.argv[2:] or list(SCENARIOS)):
                for r in kill_table(ctx, scn):
                    print(r)
        elif mode == "replay":
            for key, what, fn in FINDINGS:
                if len(sys.argv) < 3 or sys.argv[2] == key:
                    print(key, fn(ctx))
        else:
            port_part(ctx)
    finally:
        for d in glob.glob(f"/tmp/vl{os.getpid()}x*"):
            shutil.rmtree(d, ignore_errors=True)
        for f in glob.glob(f"/dev/shm/vl{os.getpid()}x*"):
            os.unlink(f)
    print(f"{time.time()-t0:.1f}s")
