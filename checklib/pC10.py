"""C10 — the port registry snapshot is consistent."""
import core, re


def registry_oracle(e):
    """on the implementation's trace alone: entries reported by a refresh are genuine (really added, all
    words of one add), none whose removal completed before the refresh began; once the writers are done the
    next refresh reports exactly the registered set and the one after it reports `nothing changed`."""
    prog = e["prog"].split(" | ")
    threads = [[o.split(" ") for o in t.split(",") if o] for t in prog[1:]]
    n = len(threads)
    crash = any(op[0] in ("die", "die_in", "recover", "recover_lock") for th in threads for op in th)
    ptr = [0] * n
    started = [False] * n
    op_start = [None] * n
    mine = [[] for _ in range(n)]
    add_started, add_ok, remove_done = {}, {}, {}
    removing = [None] * n
    view = [set() for _ in range(n)]
    quiet_updates = [0] * n

    def skip_silent(t):
        while ptr[t] < len(threads[t]):
            op = threads[t][ptr[t]]
            if op[0] in ("remove", "remove_lock") and int(op[1]) >= len(mine[t]):
                ptr[t] += 1
            elif op[0] in ("die", "die_in"):
                ptr[t] += 1
            else:
                break

    def writers_done():
        for u in range(n):
            if any(op[0] != "update" for op in threads[u]):
                p = ptr[u]
                # remaining ops that can still do something
                rest = threads[u][p:]
                if started[u] or any(op[0] in ("add", "recover", "recover_lock") or (op[0] in ("remove", "remove_lock")) for op in rest):
                    # a remaining remove may be silent; be conservative: not done
                    return False
        return True

    for ln, l in enumerate(e["lines"]):
        tk = l.split(" ")
        t = int(tk[0][1:])
        if tk[1] == "PANIC":
            return "panic"
        if t >= n:
            continue
        if not started[t]:
            skip_silent(t)
        if ptr[t] >= len(threads[t]):
            continue
        op = threads[t][ptr[t]]
        if not started[t]:
            started[t] = True
            op_start[t] = ln
            if op[0] == "add":
                add_started[int(op[1])] = ln
            if op[0] in ("remove", "remove_lock"):
                removing[t] = mine[t].pop(int(op[1]))
            if op[0] == "update":
                quiet = (not crash) and writers_done()
                started[t] = "quiet" if quiet else True
        if tk[1] == "ret":
            res = tk[3:] if len(tk) > 3 else []
            if op[0] == "add" and res and res[0].startswith("ok:"):
                add_ok[int(op[1])] = int(res[0][3:])
                mine[t].append(int(op[1]))
            if op[0] in ("remove", "remove_lock"):
                remove_done[removing[t]] = ln
            if op[0] == "update":
                if res and res[0] == "true":
                    cur = set()
                    for item in (res[1].split(";") if len(res) > 1 else []):
                        slot, ws = item.split("=")
                        ws = [int(x) for x in ws.split(",")]
                        v = ws[0] // 100
                        if ws != [100 * v + k for k in range(len(ws))]:
                            return "torn-entry"
                        if v not in add_started:
                            return "phantom-entry"
                        if v in remove_done and remove_done[v] < op_start[t]:
                            return "removed-entry-reported"
                        cur.add(v)
                    view[t] = cur
                if started[t] == "quiet":
                    truth = set(v for v in add_ok if v not in remove_done)
                    if view[t] != truth:
                        return "quiet-refresh-not-exact"
                    quiet_updates[t] += 1
                    if quiet_updates[t] >= 2 and res and res[0] == "true":
                        return "quiet-refresh-reports-change-twice"
            ptr[t] += 1
            started[t] = False
    return None


def run(ctx):
    core.prove(ctx)
    drv = core.build_driver(ctx)
    ok, log = core.build_trace(ctx)
    if not ok:
        ctx.violation("harness-build", "instrumented build failed (drop-in generator or harness)", dict(engine="cargo", log=log[-3000:]), nfi=True)
        return core.finish(ctx)
    if drv:
        quick = ctx.tier == "quick"
        core.trace_component(ctx, "container", ["random", "--seed", ctx.seed, "--cases", 20 if quick else 100, "--progs", 150 if quick else 500],
                             label="container.random", oracle=registry_oracle)
        core.trace_component(ctx, "container", ["exhaustive", "--seed", ctx.seed + 1, "--cases", 2500 if quick else 20000, "--progs", 5 if quick else 16,
                                                "--preempt", 2 if quick else 3], label="container.exhaustive", oracle=registry_oracle)
    return core.finish(
        ctx, level="proof",
        rule="steptrace on mpmc::Container<[u64; W]> (W = 1, 2; capacity 1..3): 1..2 writer threads (add with tear-detecting words 100 v + k, remove, remove with LockIfLastIndex, "
             "a dying owner, recover by the others or by the reader) and a refreshing reader (update_state), each thread through its own mapping of the block; PRNG schedules and "
             "all schedules with a bounded number of preemptions; every atomic operation, cell access and result compared with the L2 model; registry oracle on the implementation's "
             "trace alone. distinct = distinct (program, interleaving)",
        extra_assumptions=["sequentially consistent interleavings only (the generation counter protocol is Acquire/Release in the source; weak-memory executions are not exhibited)",
                           "an owner dies only between operations: a death in the middle of `add` (index acquired, generation not yet published) is not expressible in the model (candidate defect noted in DESIGN.md)",
                           "plain data words are read/written as single steps per word (UnsafeCell hooks)"])
