"""C19 — names are validated and domains are isolated."""
import core, re


def unhex(s):
    return b"" if s == "-" else bytes.fromhex(s)


def classify(case, idx, impl_out, model_out):
    op = case[idx][0].split(" ")
    if "ORACLE[" in impl_out:
        return "oracle:" + op[0] + ":" + impl_out.split("ORACLE[", 1)[1].split("]")[0].split(":")[0].replace(" ", "-")[:40]
    if impl_out == "PANIC":
        return f"panic:{op[0]}"
    if op[0] == "new":
        return f"accept:{op[1]}"
    return f"result:{op[0]}"


def isolation_oracle(ctx, lines):
    """independent of the model: `extract <hint> <p1> <s1> <file>` where file = p2 ++ name ++ s2 was
    built by the generator from another prefix; a `some:` answer for a file that does not even
    start with p1 ++ <non-empty> … is impossible; a `some:` answer when p1 != p2 is a breach of
    isolation, classified by the relation of the two prefixes"""
    prefixes = [b"iox2_", b"iox2", b"a", b"ab", b"dom_", b"dom_1"]
    n = 0
    for l in lines:
        if not l.startswith("extract ") or " => some:" not in l:
            continue
        op, out = l.split(" => ", 1)
        t = op.split(" ")
        p1, f = unhex(t[2]), unhex(t[4])
        # the generator's own prefix of this file: the longest candidate that is a prefix of f
        cands = [p for p in prefixes if f.startswith(p)]
        own = [p for p in cands if p != p1]
        n += 1
        if not f.startswith(p1):
            ctx.violation("isolation:foreign-file-attributed", f"extract with prefix {p1!r} accepted file {f!r}",
                          dict(engine="seqdiff", component="names", ops=["new filename 61", op], impl=[out]))
        elif own and any(p.startswith(p1) and p != p1 for p in own):
            # finding D5: domain prefix p1 is a proper prefix of another domain's prefix
            ctx.violation("isolation:prefix-extends-prefix",
                          f"domain with prefix {p1!r} attributes file {f!r} of a domain whose prefix extends it",
                          dict(engine="seqdiff", component="names", ops=["new filename 61", op], impl=[out]))
    ctx.count("isolation.cross-prefix-attributions", n)


def run(ctx):
    core.prove(ctx)
    drv = core.build_driver(ctx)
    ok, err = core.build_harness(ctx)
    if not ok:
        ctx.violation("harness-build", "harness does not build against the current tree", dict(engine="cargo", stderr=err[-3000:]), nfi=True)
        return core.finish(ctx)
    if drv:
        quick = ctx.tier == "quick"
        core.diff_component(ctx, "names", ["gen", "--exhaustive", 2 if quick else 3], classify, label="names.exhaustive", shrink=False)
        args = ["gen", "--seed", ctx.seed, "--cases", 4000 if quick else 60000, "--len", 20 if quick else 40]
        core.diff_component(ctx, "names", args, classify, label="names.random")
        rc, out, _ = core.run_impl("names", args)
        isolation_oracle(ctx, out.split("\n"))
    return core.finish(
        ctx, level="proof",
        rule="exhaustive: every byte string of length <= 2 (quick) / <= 3 (thorough) over all 256 byte values through the constructors of FileName, Path, FilePath, "
             "RestrictedFileName<8>, and (UTF-8 ones) ServiceName, NodeName; random: structured strings (separators, dots, forbidden characters, NUL, non-ASCII, "
             "length 250..258) with every editing op of SemanticString, Path/FilePath accessors, and path_for / extract_name for configuration pairs whose prefixes "
             "are equal, unrelated, or prefixes of one another. Compared with the Lean model line by line; harness oracles: accepted values round-trip, every value "
             "stays valid for its type, path_for stays inside the path hint, isolation oracle on extract. distinct = distinct output vectors of cases with > 2 ops",
        extra_assumptions=["directory listing semantics of the OS (which files exist) are outside the model; the model decides per file name",
                           "stored bytes are < 128, so the UTF-8 check of does_contain_invalid_characters is vacuous on stored content"])
