"""C06 — Service creation is atomic and its lifetime follows its users."""
import core, os, re, subprocess, hashlib, time, tempfile, shutil
from concurrent.futures import ThreadPoolExecutor

SVCLIFE = os.path.join(core.HARNESS, "target", "release", "svclife")
COMP = "svclife"

# genuine mismatches between the property and the code: replayed on the implementation in every run
FINDINGS = {
    "finding:same-node-concurrent-create-removes-service-tag":
        "Node::create_service_tag treats AlreadyExists as `this node already uses the service` (node/mod.rs:1083-1103) and returns None; when two "
        "threads of one node call create (or create / open) for the same service concurrently (builders are Send), the thread that made the tag "
        "can lose the O_EXCL race on the static config and removes the tag on rollback (builder/mod.rs:684-693 drop of the owned tag) while the other "
        "thread, which got None, completes: the node is registered in the service but has no service tag, so the tag-driven dead-node cleanup "
        "will never deregister it (theorem user_has_tag_false, Iox2/Props/C06Conc.lean; user_has_tag_partial holds for distinct nodes)",
}


# ------------------------------------------------------------------------------------------
# differential runs with the own harness binary (core.diff_component is tied to `seqdiff`)

def run_impl(args, stdin=None, timeout=3000):
    p = subprocess.run([SVCLIFE, COMP] + [str(a) for a in args], input=stdin, capture_output=True, text=True, timeout=timeout)
    return p.returncode, p.stdout, p.stderr


def replay_case(ops):
    rc, out, err = run_impl(["replay"], stdin="\n".join(ops) + "\n")
    impl = [l.split(" => ", 1)[1] for l in out.split("\n") if " => " in l and not l.startswith("#")]
    model = [m for m in core.run_model(COMP, "\n".join(ops) + "\n") if m != ""]
    return impl, model


def classify(case, idx, impl_out, model_out):
    op = case[idx][0].split(" ")
    if "ORACLE[" in impl_out:
        tail = impl_out.split("ORACLE[", 1)[1].rstrip("]")
        return "oracle:" + re.sub(r"[^a-z]+", "-", re.sub(r"s\d+:", "", tail.lower()))[:60].strip("-")
    if impl_out == "PANIC":
        return "panic-not-in-model:" + op[0]
    if op[0] in ("create", "open", "ooc"):
        return f"result:{op[0]}:{op[4] if len(op) > 4 else '?'}"
    return "result:" + op[0]


def line_oracle(case, idx, base):
    """property (e) on the implementation's answer alone: a call never ends in a panic (the former finding
    slice-payload-zero-limit-panics, fixed by 0c61d51, would show up here as a violation; the matrix generator
    keeps producing zero limits with slice / custom payloads)"""
    if base == "PANIC":
        return "panic:" + case[idx][0].split(" ")[0]
    return None


class Users:
    """the property's lifetime / atomicity clauses on the implementation's answers alone: which port factories and ports the
    history holds (from the accepted calls), and what the next answers therefore have to be"""

    def __init__(self):
        self.h, self.p = {}, {}

    def users(self, key):
        return sum(1 for k in self.h.values() if k == key) + sum(1 for k in self.p.values() if k == key)

    def check(self, op, base):
        t = op.split(" ")
        if t[0] == "exists":
            if (base == "true") != (self.users((t[1], t[2])) > 0) and base in ("true", "false"):
                return "oracle:exists-without-users" if base == "true" else "oracle:vanished-although-users"
        elif t[0] in ("create", "open", "ooc") and len(t) > 4 and base not in ("dup", "no-node"):
            u = self.users((t[2], t[4]))
            if t[0] == "create" and u == 0 and base == "err:AlreadyExists":
                return "oracle:create-AlreadyExists-without-users"
            if t[0] == "open" and u == 0 and base != "err:DoesNotExist":
                return "oracle:open-of-unused-name-is-not-DoesNotExist"
            if t[0] == "open" and u > 0 and base == "err:DoesNotExist":
                return "oracle:open-DoesNotExist-although-users"
            if t[0] == "ooc" and u == 0 and "OpenError(" in base:
                return "oracle:open_or_create-of-unused-name-open-error"
        elif t[0] == "ls" and not self.h and not self.p and base != "-":
            return "oracle:files-without-users:" + "+".join(sorted(k.split("=")[0] for k in base.split(",")))
        elif t[0] == "end" and base != "-":
            return "oracle:leftover-after-everything-dropped:" + "+".join(sorted(k.split("=")[0] for k in base.split(",")))
        return None

    def update(self, op, base):
        t = op.split(" ")
        if t[0] in ("create", "open", "ooc") and base.startswith("ok:"):
            self.h[t[3]] = (t[2], t[4])
        elif t[0] == "drop" and base == "ok":
            self.h.pop(t[1], None)
        elif t[0] == "port" and base == "ok" and t[1] in self.h:
            self.p[t[2]] = self.h[t[1]]
        elif t[0] == "dport" and base == "ok":
            self.p.pop(t[1], None)
        elif t[0] == "end":
            self.h, self.p = {}, {}


def report_finding(ctx, key, replay_obj, how):
    registered = [kf["key"] for kf in ctx.known if kf.get("property") == ctx.prop]
    if key not in ctx.extra.setdefault("findings_reproduced", []):
        ctx.extra["findings_reproduced"].append(key)
    if any(re.fullmatch(k.replace("*", ".*"), key) for k in registered):
        ctx.violation(key, FINDINGS[key], replay_obj)
    elif key not in ctx.extra.setdefault("findings_logged", []):
        ctx.extra["findings_logged"].append(key)
        ctx.log(f"[finding] {key}: reproduced on the implementation ({how}); not registered in known_findings.json")


def mismatch_at(ops, want):
    impl, model = replay_case(ops)
    case = [(o, "") for o in ops]
    trk = Users()
    for i in range(len(ops)):
        io = impl[i] if i < len(impl) else "<none>"
        mo = model[i] if i < len(model) else "<none>"
        base = io.split(" ORACLE[", 1)[0]
        if base != io and classify(case, i, io, mo) == want:
            return i
        k2 = line_oracle(case, i, base) or trk.check(ops[i], base)
        trk.update(ops[i], base)
        if k2 == want:
            return i
        if base != mo:
            return i if classify(case, i, base, mo) == want else None
        if io == "PANIC":
            return None
    return None


def shrink(ops, key, budget=60):
    cur, n, tries = list(ops), 2, 0
    while len(cur) > 3 and tries < budget:
        body = cur[1:]
        chunk = max(1, len(body) // n)
        reduced = False
        for s in range(0, len(body), chunk):
            cand = [cur[0]] + body[:s] + body[s + chunk:]
            tries += 1
            at = mismatch_at(cand, key) if len(cand) >= 2 else None
            if at is not None:
                cur, n, reduced = cand[: at + 1], max(n - 1, 2), True
                break
        if not reduced:
            if chunk == 1:
                break
            n = min(n * 2, len(body))
    return cur


def diff(ctx, jobs):
    """jobs: list of (label, gen_args). Generation on the implementation in parallel, replay on the model, compare."""
    t = time.time()
    def gen(job):
        label, args = job
        rc, out, err = run_impl(["gen"] + args)
        return label, args, rc, out, err
    with ThreadPoolExecutor(max_workers=min(len(jobs), max(2, core.NCPU - 2))) as ex:
        results = list(ex.map(gen, jobs))
    per_label = {}
    bad = {}
    for label, args, rc, out, err in results:
        if rc != 0:
            ctx.violation(f"{label}:harness-crash", f"svclife harness exited {rc}: {err[-300:]}",
                          dict(engine="svclife", component=COMP, args=args, stderr=err[-2000:]), nfi=True)
            continue
        cases = core.split_cases(out.split("\n"))
        ops_text = "\n".join(op for c in cases for (op, _) in c) + "\n"
        model = core.run_model(COMP, ops_text)
        k = 0
        st = per_label.setdefault(label, [0, 0])
        for c in cases:
            trk = Users()
            ctx.evaluations += 1
            st[0] += 1
            st[1] += len(c)
            if len(c) > 4:
                ctx.distinct.add((label, hashlib.md5("|".join(o for (_, o) in c).encode()).hexdigest()))
            for i, (op, iout) in enumerate(c):
                mout = model[k + i] if k + i < len(model) else "<no model output>"
                w = op.split(" ")
                base = iout.split(" ORACLE[", 1)[0]
                ctx.count(f"{label}.{w[0]}")
                if w[0] in ("create", "open", "ooc", "port"):
                    res = base.split(":")[0] if not base.startswith("err") else re.sub(r"^err:(\w+Error\()?", "err:", base).rstrip(")")
                    ctx.count(f"out.{w[0]}.{res}")
                if base != iout:
                    key = classify(c, i, iout, mout)
                    if key and key not in bad:
                        bad[key] = (label, c, i, iout, mout)
                key = line_oracle(c, i, base) or trk.check(op, base)
                trk.update(op, base)
                if key and key not in bad:
                    bad[key] = (label, c, i, base + " ORACLE[" + key + "]", mout)
                if w[0] in ("create", "ooc") and base.startswith("err:") and not any(x in base for x in ("AlreadyExists", "OpenError(")):
                    ctx.count("refused-create." + re.sub(r"^err:(\w+Error\()?", "", base).rstrip(")"))
                if base != mout:
                    key = classify(c, i, base, mout)
                    if key and key not in bad:
                        bad[key] = (label, c, i, base, mout)
                    break
            k += len(c)
        if cases and len(ctx.samples) < 6:
            sc = cases[len(cases) // 2]
            ctx.samples.append({"component": label, "ops": [f"{o} => {r}" for (o, r) in sc[3:15]]})
    for label, (nc, no) in per_label.items():
        ctx.log(f"[svclife] {label}: {nc} cases, {no} ops")
    ctx.log(f"[svclife] {sum(v[1] for v in per_label.values())} ops compared, {len(bad)} mismatch / oracle class(es) ({time.time()-t:.1f}s)")
    for key, (label, c, i, iout, mout) in list(bad.items())[:6]:
        ops = [op for (op, _) in c[: i + 1]]
        small = shrink(ops, key)
        impl_lines, model_lines = replay_case(small)
        if "ORACLE[" in iout:
            what = f"svclife: the implementation fails the property oracle after `{small[-1]}`: {iout.split('ORACLE[', 1)[1].rstrip(']')}"
        else:
            what = (f"svclife: implementation and proved model differ after `{small[-1]}`: impl `{impl_lines[-1] if impl_lines else '?'}` "
                    f"vs model `{model_lines[-1] if model_lines else '?'}`")
        ctx.violation(f"{label}:{key}", what, dict(engine="svclife", component=COMP, ops=small, impl=impl_lines, model=model_lines))


# ------------------------------------------------------------------------------------------
# Part B tie (i): system calls of the real create / open vs the step lists of the model

STEP_CALLS = {
    "tag:create": ["X:tag:ok", "M:tag:600", "W:tag", "S:tag", "M:tag:400"],
    "static:create_excl": ["X:static:ok", "M:static:600"],
    "static:write": ["W:static", "S:static"],
    "static:unlock": ["M:static:400"],
    "dynamic:create_excl": ["X:dynamic:ok"],
    "dynamic:size": ["T:dynamic", "MM:dynamic"],
    "dynamic:init+register": [], "dynamic:version": [],      # stores into the mapping
    "dynamic:finalize": ["M:dynamic:600"],
    "node:add": [], "node:add_or": [], "tag:release": [],    # process-local
    "static:read": ["O:static:ok", "R:static"],
    "dynamic:open": ["O:dynamic:ok", "MM:dynamic"],
}
EXISTING = {"static:exists?:creator": ["A:static:ok", "O:static:ok", "O:static:ok", "R:static"],
            "static:exists?:opener": ["A:static:ok", "O:static:ok"],
            "deadnodes:scan:opener": ["O:static:ok", "R:static", "O:dynamic:ok", "MM:dynamic"]}
MISSING = {"static:exists?:creator": ["A:static:ENOENT"], "static:exists?:opener": ["A:static:ENOENT"],
           "deadnodes:scan:opener": ["O:static:ENOENT"]}
SCENARIOS = {"create": ("creator", MISSING), "open": ("opener", EXISTING), "open-missing": ("opener", MISSING),
             "create-existing": ("creator", EXISTING)}


def role_of(path):
    if path.endswith(".service_tag"):
        return "tag"
    if path.endswith(".service"):
        return "static"
    if path.endswith(".dynamic"):
        return "dynamic"
    return None


def canonical_syscalls(trace_text):
    toks, fds, on = [], {}, False
    for line in trace_text.split("\n"):
        m = re.match(r"^\d+\s+(\w+)\((.*)\)\s+=\s+(-?\d+|\?)(?:\s+(\w+))?", line)
        if not m:
            continue
        name, args, ret, errno = m.group(1), m.group(2), m.group(3), m.group(4)
        if name == "write" and "C06-MARK" in args:
            on = "begin" in args
            fds = {} if on else fds
            continue
        if not on:
            continue
        res = "ok" if not ret.startswith("-") else (errno or "ERR")
        pm = re.search(r'"([^"]*)"', args)
        if name in ("openat", "open"):
            role = role_of(pm.group(1)) if pm else None
            if ret.isdigit():
                fds[int(ret)] = role
            if role and "O_DIRECTORY" not in args:
                toks.append(("X" if "O_EXCL" in args else "O") + f":{role}:{res}")
        elif name in ("access", "faccessat", "faccessat2"):
            role = role_of(pm.group(1)) if pm else None
            if role:
                toks.append(f"A:{role}:{res}")
        elif name in ("unlink", "unlinkat"):
            role = role_of(pm.group(1)) if pm else None
            if role:
                toks.append(f"U:{role}")
        elif name == "close":
            fds.pop(int(args.split(",")[0]), None) if args.split(",")[0].strip().isdigit() else None
        elif name in ("fchmod", "write", "fsync", "ftruncate", "read"):
            fd = args.split(",")[0].strip()
            role = fds.get(int(fd)) if fd.isdigit() else None
            if role:
                code = {"fchmod": "M", "write": "W", "fsync": "S", "ftruncate": "T", "read": "R"}[name]
                toks.append(f"{code}:{role}" + (":" + args.split(",")[1].strip().lstrip("0") if name == "fchmod" else ""))
        elif name == "mmap" and "MAP_SHARED" in args:
            parts = [a.strip() for a in args.split(",")]
            role = fds.get(int(parts[4])) if len(parts) > 4 and parts[4].isdigit() else None
            if role:
                toks.append(f"MM:{role}")
    return toks


def syscall_tie(ctx, patterns):
    if shutil.which("strace") is None:
        ctx.notes.append("strace not available: syscall tie skipped")
        return
    model = core.run_model(COMP, "".join(f"conc steps {s}\n" for s in SCENARIOS))
    ok_all = 0
    for si, (scn, (role, table)) in enumerate(SCENARIOS.items()):
        steps, result = model[si].split(" => ")
        expected = []
        for st in steps.split(" "):
            expected += STEP_CALLS[st] if st in STEP_CALLS else table[f"{st}:{role}"]
        for pat in patterns:
            with tempfile.NamedTemporaryFile("r", suffix=".strace") as tf:
                p = subprocess.run(["strace", "-f", "-o", tf.name, "-e",
                                    "trace=openat,open,fchmod,write,ftruncate,unlink,unlinkat,fsync,access,faccessat2,read,mmap,close",
                                    SVCLIFE, "syscalls", scn, pat], capture_output=True, text=True, timeout=120)
                got = canonical_syscalls(tf.read())
            real_result = next((l.split(" ", 1)[1] for l in p.stdout.split("\n") if l.startswith("result ")), "?")
            kind = "created" if result == "created" else ("opened" if result.startswith("opened") else result)
            real_kind = ("created" if scn.startswith("create") else "opened") if real_result.startswith("ok:") else real_result
            ctx.evaluations += 1
            ctx.count(f"syscalls.{scn}")
            if got != expected or kind != real_kind:
                ctx.violation(f"syscalls:{scn}", f"the system calls of the real `{scn}` ({pat}) on the service's files differ from the model's step list: "
                              f"real {got} / {real_result} vs model {expected} / {result}",
                              dict(engine="strace", scenario=scn, pattern=pat, real=got, model_steps=steps.split(" "), expected=expected))
            else:
                ok_all += 1
    ctx.extra["syscall_tie"] = {s: core.run_model(COMP, f"conc steps {s}\n")[0] for s in SCENARIOS}
    ctx.log(f"[strace] {ok_all} real create/open calls: system calls on tag / static config / dynamic config = model step lists")


def stress(ctx, rounds, creators, openers):
    """support only: real processes released together; the Part-A oracle on the outcomes"""
    t = time.time()
    p = subprocess.run([SVCLIFE, "stress", str(rounds), str(creators), str(openers), str(ctx.seed)], capture_output=True, text=True, timeout=1200)
    bad = [l for l in p.stdout.split("\n") if l.startswith("BAD ")]
    stats = {l.split(" ")[1]: int(l.split(" ")[2]) for l in p.stdout.split("\n") if l.startswith("stat ")}
    ctx.extra["stress"] = dict(rounds=rounds, creators=creators, openers=openers, outcomes=stats)
    ctx.evaluations += rounds
    if p.returncode != 0 or "bad " not in p.stdout:
        ctx.violation("stress:crash", f"stress run failed: {p.stderr[-300:]}", dict(engine="svclife-stress", stdout=p.stdout[-2000:], stderr=p.stderr[-2000:]), nfi=True)
    elif bad:
        ctx.violation("stress:" + re.sub(r"[^a-z]+", "-", re.sub(r"round \d+: ", "", bad[0][4:]).lower())[:50], "multi-process create/open stress: " + bad[0][4:],
                      dict(engine="svclife-stress", args=[rounds, creators, openers, ctx.seed], bad=bad[:10]))
    ctx.log(f"[stress] {rounds} rounds of {creators} creators + {openers} openers (processes): {stats}, {len(bad)} oracle failure(s) ({time.time()-t:.1f}s)")


RR_SLICE_CASE = ["new ipc", "node 0", "create 0 0 0 rr sv=0 qt=xu64_8_8"]


def replay_findings(ctx, samenode_rounds):
    # fixed defect (request-response builders of slice payloads did not adjust zero limits): the case stays as a regression replay;
    # it is compared with the model (which adjusts), so a return of the panic is a violation
    impl, model = replay_case(RR_SLICE_CASE)
    ctx.count("findings.replayed")
    if impl != model or not impl or impl[-1] == "PANIC":
        ctx.violation("regress:reqres-slice-zero-limit", f"`{RR_SLICE_CASE[-1]}` => {impl[-1] if impl else '?'} (model: {model[-1] if model else '?'})",
                      dict(engine="svclife", component=COMP, ops=RR_SLICE_CASE, impl=impl, model=model))
    p = subprocess.run([SVCLIFE, "stress", str(samenode_rounds), "0", "0", str(ctx.seed), "samenode"], capture_output=True, text=True, timeout=1200)
    m = re.search(r"winner-without-tag (\d+)", p.stdout)
    ctx.count("findings.replayed")
    if m and int(m.group(1)) > 0:
        wit = next((l for l in p.stdout.split("\n") if l.startswith("witness")), "")
        # consequence: the process dies while it holds the service; with the tag the dead-node cleanup removes the service, without it never
        q = subprocess.run([SVCLIFE, "stress", "300", "0", "0", str(ctx.seed), "samenode-crash"], capture_output=True, text=True, timeout=600)
        crash = [l for l in q.stdout.split("\n") if l.startswith(("lost-tag:", "control:"))]
        ctx.extra["lost_tag_after_crash"] = crash
        leak = any(l.startswith("lost-tag:") and "exists after cleanup Ok(true)" in l for l in crash)
        report_finding(ctx, "finding:same-node-concurrent-create-removes-service-tag",
                       dict(engine="svclife-stress", args=["stress", samenode_rounds, 0, 0, ctx.seed, "samenode"], stdout=p.stdout[-1500:], after_crash=crash,
                            model_schedule="conc run 2 c1 c0 o0 : 1 1 0 0 0 0 0 0 0 0 0 0 2 2 2 2 2 2 2 1 1"),
                       f"{m.group(1)} of {samenode_rounds} rounds; {wit}" + ("; a process that dies in this state leaves the service behind for ever "
                       "(dead-node cleanup ran, Service::does_exist still true, create => AlreadyExists; control with tag: service removed)" if leak else ""))
    else:
        ctx.log(f"[finding] same-node-concurrent-create-removes-service-tag not reproduced in {samenode_rounds} rounds (timing dependent): {p.stdout.strip()[-200:]}")
        ctx.extra.setdefault("findings_not_reproduced", []).append("finding:same-node-concurrent-create-removes-service-tag")


def replay(ctx, obj):
    """./check C06 --replay replays/C06-….json"""
    if obj.get("engine") == "svclife" and obj.get("ops"):
        core.build_harness(ctx)
        core.build_driver(ctx)
        impl, model = replay_case(obj["ops"])
        for i, op in enumerate(obj["ops"]):
            io = impl[i] if i < len(impl) else "<none>"
            mo = model[i] if i < len(model) else "<none>"
            print(f"{op}\n    impl : {io}\n    model: {mo}{'   <== differs' if io.split(' ORACLE[')[0] != mo else ''}")
        return 0
    if obj.get("engine") == "svclife-stress":
        core.build_harness(ctx)
        p = subprocess.run([SVCLIFE] + [str(a) for a in obj.get("args", [])], capture_output=True, text=True, timeout=1200)
        print(p.stdout[-3000:])
        return 0
    return core.generic_replay(ctx, obj)


def run(ctx):
    core.prove(ctx)
    drv = core.build_driver(ctx)
    ok, err = core.build_harness(ctx)
    if not ok:
        ctx.violation("harness-build", "harness does not build against the current tree", dict(engine="cargo", stderr=err[-3000:]), nfi=True)
        return core.finish(ctx)
    if drv:
        quick = ctx.tier == "quick"
        jobs = []
        # random mostly-valid histories, 1..3 nodes, all four patterns
        for i in range(8 if quick else 16):
            jobs.append(("random", ["--seed", ctx.seed + 101 * i, "--cases", 45 if quick else 420, "--len", 60 if quick else 80]))
        for i, p in enumerate(("ps", "ev", "rr", "bb")):
            jobs.append((f"random.{p}", ["--seed", ctx.seed + 7 + i, "--cases", 25 if quick else 300, "--len", 60, p]))
        # creator settings x opener requirements: every dimension exhaustively; pairs of dimensions (sampled in the quick tier)
        for p in ("ps", "ev", "rr", "bb"):
            jobs.append((f"matrix.{p}", ["matrix", p, "single"]))
            jobs.append((f"matrix.pairs.{p}", ["--seed", ctx.seed, "--cases", 250, "matrix", p, "sample"] if quick else ["matrix", p]))
        for p in ("ps", "ev", "rr"):
            jobs.append((f"matrix.ooc.{p}", ["matrix", p, "ooc", "single"] if quick else ["matrix", p, "ooc"]))
        # all histories of length L over 19 calls (2 nodes, one name, two patterns)
        jobs.append(("exhaustive", ["--exhaustive", 2]))
        if not quick:
            for k in range(10):
                jobs.append(("exhaustive3", ["--exhaustive", 3, f"part={k}/10"]))
        diff(ctx, jobs)
        replay_findings(ctx, 150 if quick else 1500)
        syscall_tie(ctx, ["ps", "ev"] if quick else ["ps", "ev", "rr", "bb"])
        stress(ctx, 12 if quick else 150, 3, 3)
    return core.finish(
        ctx, level="proof",
        rule="Part A: real service builders (create / open / open_or_create with attributes), port factories and ports of all four messaging patterns, ipc "
             "variant, 1..3 nodes in one process, one call per line; settings / requirements per call: publish-subscribe (max publishers / subscribers / "
             "nodes, buffer, history, borrowed samples, safe overflow, payload type u64 / u32 / [u8] / custom details incl. size and alignment variants, payload "
             "alignment, user header type, attributes defined / required / required keys), event (max notifiers / listeners / nodes, event id max, deadline, "
             "notifier created / dropped / dead events), request-response (overflow flags, fire-and-forget, active requests, loans, borrowed responses, response "
             "buffer, servers, clients, nodes, request / response types and alignments), blackboard (readers, nodes, key type, entries). Every answer (settings "
             "read back from the port factory, error enum names, Service::does_exist, Service::list incl. registered nodes, files by kind, nodes of a service) "
             "compared with the L1 Lean model. random: mostly-valid histories with invalid calls; matrix: creator value x opener requirement for every "
             "dimension exhaustively over small domains, and pairs of dimensions (which failing check is reported first), open and open_or_create; the same "
             "name is re-created with other settings ~40 times per case; exhaustive: all histories of length L over a 19-call alphabet. Harness oracles on the "
             "implementation alone: opener's settings == creator's of the same unique service id, does_exist == (a port factory or port is held), no panic. "
             "Part B: step-level Lean model of create / open (Iox2/Model/ServiceLifeConc.lean, theorems in Iox2/Props/C06Conc.lean for any number of calls and "
             "every interleaving); ties: (i) strace of the real create / open / open of a missing service / create of an existing service: state-changing and "
             "opening system calls on service tag, static config, dynamic config canonicalised to roles == the model's step lists (table STEP_CALLS in "
             "checklib/pC06.py), (ii) support only: k creator + m opener processes released together, many rounds, oracle `one creator wins, every opener sees "
             "the winner's settings, nothing left after all dropped`; two threads of one node creating the same service (finding). "
             "distinct = distinct output vectors of cases with > 4 ops",
        extra_assumptions=[
            "every API call is one atomic step of the L1 model (Part A); the step-level model (Part B) covers concurrent create / open on one service without "
            "concurrent removal, dead-node cleanup or crashes; removal racing with creation (IsMarkedForDestruction window) is exercised only by the stress run",
            "Part B is tied to the code by reading plus the system-call comparison of single calls; stores into the mapped dynamic config (initialisation, version) "
            "are invisible to strace and placed by reading (posix_shared_memory.rs:337-396); timeouts are abstracted as an arbitrary wait budget",
            "the node-local reference count (`registered_services`) is modelled explicitly; dead nodes, Node::force_remove_service and version / corruption errors "
            "(Corrupted, VersionMismatch, InsufficientPermissions, Interrupt) are not modelled: they need foreign files or signals",
            "static config of the local (non-ipc) service variant and the flatbuffer type-definition resource are not exercised",
        ])
