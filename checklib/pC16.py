"""C16 — fixed-capacity containers match reference models, drop elements once."""
import core

COMPONENTS = ["vec", "queue", "slotmap", "flatmap", "string"]


def classify(case, idx, impl_out, model_out):
    op = case[idx][0].split(" ")[0]
    if "ORACLE[" in impl_out:
        return f"oracle:{op}:" + impl_out.split("ORACLE[", 1)[1].split("]")[0].split(" of element")[0].replace(" ", "-")
    if impl_out == "PANIC":
        return f"panic:{op}"
    if model_out == "PANIC":
        return f"no-panic:{op}"
    i, m = impl_out.split(" d=")[0], model_out.split(" d=")[0]
    if i == m:
        return f"drops:{op}"
    return f"result:{op}"


def run(ctx):
    proofs_ok = core.prove(ctx)
    drv = core.build_driver(ctx)
    ok, err = core.build_harness(ctx)
    if not ok:
        ctx.violation("harness-build", "harness does not build against the current tree",
                      dict(engine="cargo", stderr=err[-3000:]), nfi=True)
        return core.finish(ctx)
    if drv:
        quick = ctx.tier == "quick"
        for comp in COMPONENTS:
            # exhaustive short histories over the small domain, then structured random long ones
            ex = {"vec": 3, "queue": 5, "slotmap": 4, "flatmap": 4, "string": 3}[comp]
            if not quick:
                ex += 1 if comp in ("vec", "string") else 2
            core.diff_component(ctx, comp, ["gen", "--exhaustive", ex], lambda c, i, a, b, comp=comp: f"{comp}:" + classify(c, i, a, b),
                                label=f"{comp}.exhaustive")
            core.diff_component(ctx, comp, ["gen", "--seed", ctx.seed, "--cases", 1500 if quick else 20000, "--len", 40 if quick else 120],
                                lambda c, i, a, b, comp=comp: f"{comp}:" + classify(c, i, a, b), label=f"{comp}.random")
            if not quick:
                core.diff_component(ctx, comp, ["gen", "--seed", ctx.seed + 1, "--cases", 40, "--len", 10000],
                                    lambda c, i, a, b, comp=comp: f"{comp}:" + classify(c, i, a, b), label=f"{comp}.long")
    return core.finish(
        ctx, level="proof",
        rule="per container (vec, queue, slotmap, flatmap, string) x storage flavour (heap/polymorphic, inline fixed-size, relocatable in dirty memory): "
             "all op sequences of a fixed length over a small op alphabet for capacities 0..4 (exhaustive) plus PRNG sequences (ids unique, ~85% in-range "
             "indices/keys, boundary keys == capacity, invalid bytes); every op's result, the ids dropped during the op and periodic content dumps are "
             "compared with the Lean model; harness-side oracles: double drop, use after drop, missing NUL terminator. A case counts as distinct & "
             "non-trivial if it has > 2 ops and its output vector differs from all others",
        extra_assumptions=["storage flavour does not influence behaviour (one model for three flavours; checked by running all three)",
                           "element drop order inside one call is not compared (sorted ids)"])
