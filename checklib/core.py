"""Core of the check driver: Lean build + axiom audit, harness build, differential runs,
shrinking, known findings, verdicts, evidence."""
import os, sys, json, time, subprocess, re, importlib, hashlib, shutil, fnmatch

VERIF = os.path.dirname(os.path.dirname(os.path.abspath(__file__)))
REPO = os.environ.get("VERIF_REPO", "/repo")
LEAN = os.path.join(VERIF, "lean")
HARNESS = os.path.join(VERIF, "harness")
EVID = os.path.join(VERIF, "evidence")
RUN = os.path.join(VERIF, "run")
ALLOWED_AXIOMS = {"propext", "Classical.choice", "Quot.sound"}
ENV = dict(os.environ, CARGO_NET_OFFLINE="true")
NCPU = os.cpu_count() or 4

TRUSTED_BASE = [
    "Lean 4.33.0 kernel (lake build; thorough tier: leanchecker replay)",
    "axioms allowed: propext, Classical.choice, Quot.sound (audited with #print axioms per theorem)",
    "hand-written Lean model of the anchored Rust code; tie = differential run model vs implementation (testing)",
    "harness, canonicaliser, check script",
]


def sh(cmd, cwd=None, timeout=None, env=None, input=None):
    p = subprocess.run(cmd, cwd=cwd, shell=isinstance(cmd, str), capture_output=True, text=True,
                       timeout=timeout, env=env or ENV, input=input)
    return p.returncode, p.stdout, p.stderr


class Ctx:
    def __init__(self, prop, tier, seed, replay):
        self.prop, self.tier, self.seed, self.replay = prop, tier, seed, replay
        self.t0 = time.time()
        self.violations = []      # list of dict(key, what, replay_path, nfi(bool))
        self.known_hits = []      # list of (key, what)
        self.obligations = []     # theorem names
        self.discharged = []
        self.proof_errors = []    # (theorem/module, text)
        self.evaluations = 0
        self.distinct = set()
        self.samples = []
        self.hist = {}
        self.notes = []
        self.assumptions = []
        self.extra = {}
        os.makedirs(RUN, exist_ok=True)
        os.makedirs(EVID, exist_ok=True)
        self.rundir = os.path.join(RUN, f"{prop}-{os.getpid()}")
        os.makedirs(self.rundir, exist_ok=True)
        self.replaydir = os.path.join(VERIF, "replays")
        os.makedirs(self.replaydir, exist_ok=True)
        self.known = load_known()

    def log(self, *a):
        print(*a, flush=True)

    def count(self, k, n=1):
        self.hist[k] = self.hist.get(k, 0) + n

    def violation(self, key, what, replay_obj, nfi=False):
        """register a violation; known findings are matched by key"""
        for kf in self.known:
            if kf.get("property") == self.prop and kf.get("status", "open") == "open" and fnmatch.fnmatchcase(key, kf["key"]):
                if (key, kf["what"]) not in self.known_hits:
                    self.known_hits.append((key, kf["what"]))
                return
        for v in self.violations:
            if v["key"] == key:
                return
        path = os.path.join(self.replaydir, f"{self.prop}-{safe(key)}.json")
        replay_obj = dict(replay_obj, property=self.prop, key=key, what=what, seed=self.seed, tier=self.tier)
        with open(path, "w") as f:
            json.dump(replay_obj, f, indent=1)
        self.violations.append(dict(key=key, what=what, replay=path, nfi=nfi))


def safe(s):
    return re.sub(r"[^A-Za-z0-9_.-]+", "_", s)[:80]


def load_known():
    p = os.path.join(VERIF, "known_findings.json")
    if not os.path.exists(p):
        return []
    return json.load(open(p)).get("findings", [])


# ------------------------------------------------------------------------------------------
# Lean side

_lean_built = {}


def lake_build(targets, timeout=3000):
    key = tuple(targets)
    if key in _lean_built:
        return _lean_built[key]
    rc, out, err = sh(["lake", "build"] + list(targets), cwd=LEAN, timeout=timeout)
    _lean_built[key] = (rc == 0, out + err)
    return _lean_built[key]


FORBIDDEN = re.compile(r"\b(sorry|admit|native_decide|bv_decide|implemented_by)\b|^\s*axiom\s|\bunsafe\s|maxHeartbeats\s+0\b")


def strip_lean_comments(src):
    out, i, depth, n = [], 0, 0, len(src)
    while i < n:
        if src.startswith("/-", i):
            depth += 1; i += 2; continue
        if depth > 0 and src.startswith("-/", i):
            depth -= 1; i += 2; continue
        if depth > 0:
            if src[i] == "\n":
                out.append("\n")
            i += 1; continue
        if src.startswith("--", i):
            while i < n and src[i] != "\n":
                i += 1
            continue
        if src[i] == '"':
            j = i + 1
            while j < n and src[j] != '"':
                j += 2 if src[j] == "\\" else 1
            out.append('""'); i = j + 1; continue
        out.append(src[i]); i += 1
    return "".join(out)


def import_closure(modules):
    """files of the given modules and of everything of this package they import, transitively"""
    seen, todo = {}, list(modules)
    while todo:
        m = todo.pop()
        if m in seen:
            continue
        p = os.path.join(LEAN, m.replace(".", "/") + ".lean")
        if not os.path.exists(p):
            continue
        seen[m] = p
        for im in re.findall(r"^\s*import\s+((?:Iox2|Driver)[\w.]*)", open(p).read(), flags=re.M):
            todo.append(im)
    return seen


def forbidden_scan(modules=None):
    """no `sorry`, axiom, native_decide … in the property's modules and in anything they import
    (the driver's closure included: the models the correspondence runs are the models the theorems are about)"""
    hits = []
    files = sorted(import_closure(list(modules or []) + ["Driver.Main"]).values()) if modules else None
    if files is None:
        files = []
        for root, _, fs in os.walk(LEAN):
            if ".lake" in root or "/WIP" in root:
                continue
            files += [os.path.join(root, fn) for fn in fs if fn.endswith(".lean")]
    for p in files:
        src = strip_lean_comments(open(p).read())
        for ln, line in enumerate(src.split("\n"), 1):
            if FORBIDDEN.search(line):
                hits.append(f"{os.path.relpath(p, LEAN)}:{ln}: {line.strip()}")
    return hits


def theorems_of(module_file):
    """names of the theorems declared in a Props file (with namespace prefix)"""
    src = strip_lean_comments(open(module_file).read())
    ns, names = [], []
    for line in src.split("\n"):
        m = re.match(r"\s*namespace\s+(\S+)", line)
        if m:
            ns.append(m.group(1)); continue
        m = re.match(r"\s*end\s+(\S+)", line)
        if m and ns and ns[-1] == m.group(1):
            ns.pop(); continue
        m = re.match(r"\s*(?:@\[[^\]]*\]\s*)?(?:protected\s+)?theorem\s+([^\s:({\[]+)", line)
        if m:
            names.append(".".join(ns + [m.group(1)]))
    return names


def prop_modules(prop):
    """Iox2.Props.<prop> and every Iox2.Props.<prop><Suffix> module file"""
    d = os.path.join(LEAN, "Iox2", "Props")
    mods = sorted(f[:-5] for f in os.listdir(d) if f.endswith(".lean") and f.startswith(prop))
    return ["Iox2.Props." + m for m in mods]


def prove(ctx, prop_module=None, leanchecker=None):
    """build the property's theorem modules, audit axioms. Fills ctx.obligations/discharged."""
    t = time.time()
    modules = [prop_module] if prop_module else prop_modules(ctx.prop)
    names = []
    for m in modules:
        names += theorems_of(os.path.join(LEAN, m.replace(".", "/") + ".lean"))
    ctx.obligations += names
    ctx.extra["lean_modules"] = modules
    ok, log = lake_build(modules)
    if not ok:
        errs = [l for l in log.split("\n") if "error" in l]
        ctx.proof_errors.append((",".join(modules), "\n".join(errs[:40]) or log[-3000:]))
        ctx.log(f"[lean] build of {modules} FAILED")
        return False
    hits = forbidden_scan(modules)
    if hits:
        ctx.proof_errors.append(("forbidden-construct", "\n".join(hits[:20])))
        return False
    audit = os.path.join(ctx.rundir, "Audit.lean")
    with open(audit, "w") as f:
        for m in modules:
            f.write(f"import {m}\n")
        for n in names:
            f.write(f"#print axioms {n}\n")
    rc, out, err = sh(["lake", "env", "lean", audit], cwd=LEAN, timeout=1200)
    if rc != 0:
        ctx.proof_errors.append(("axiom-audit", (out + err)[-3000:]))
        return False
    text = out.replace("\n  ", " ").replace("\n ", " ")
    good = True
    seen = {}
    for m in re.finditer(r"'(\S+)' (does not depend on any axioms|depends on axioms: \[([^\]]*)\])", text):
        axs = set(a.strip() for a in (m.group(3) or "").split(",") if a.strip())
        seen[m.group(1)] = axs
    for n in names:
        if n not in seen:
            ctx.proof_errors.append((n, "axiom audit produced no line")); good = False
        elif not seen[n] <= ALLOWED_AXIOMS:
            ctx.proof_errors.append((n, f"depends on disallowed axioms {sorted(seen[n] - ALLOWED_AXIOMS)}")); good = False
        else:
            ctx.discharged.append(n)
    used = sorted(set().union(*seen.values())) if seen else []
    ctx.extra["axioms_used"] = used
    if good and (leanchecker if leanchecker is not None else ctx.tier == "thorough"):
        for m in modules:
            rc, out, err = sh(["lake", "env", "leanchecker", m], cwd=LEAN, timeout=3000)
            ctx.extra.setdefault("leanchecker", {})[m] = "ok" if rc == 0 else (out + err)[-500:]
            if rc != 0:
                ctx.proof_errors.append(("leanchecker:" + m, (out + err)[-2000:])); good = False
    ctx.log(f"[lean] {modules}: {len(ctx.discharged)}/{len(ctx.obligations)} theorems checked, axioms ⊆ {used} ({time.time()-t:.1f}s)")
    return good


def build_driver(ctx):
    ok, log = lake_build(["iox2driver"])
    tries = 0
    while not ok and tries < 4 and os.environ.get("VERIF_DRIVER_RETRY", "1") == "1":
        # another job may be rewriting a component's source at this very moment: try again shortly
        time.sleep(30)
        tries += 1
        ok, log = lake_build(["iox2driver"])
    if not ok:
        ctx.proof_errors.append(("iox2driver", log[-3000:]))
    return ok


DRIVER = os.path.join(LEAN, ".lake", "build", "bin", "iox2driver")


def run_model(component, ops_text):
    for _ in range(120):           # the binary is replaced while another build relinks it
        if os.path.exists(DRIVER):
            break
        time.sleep(0.5)
    p = subprocess.run([DRIVER, component], input=ops_text, capture_output=True, text=True)
    if p.returncode != 0:
        raise RuntimeError(f"driver failed: {p.stderr[-500:]}")
    return p.stdout.split("\n")


# ------------------------------------------------------------------------------------------
# Harness side

_harness_built = {}


def build_harness(ctx, variant="plain"):
    if variant in _harness_built:
        return _harness_built[variant]
    t = time.time()
    lock_src = os.path.join(REPO, "Cargo.lock")
    cmd = ["cargo", "build", "--release", "--offline"]
    rc, out, err = sh(cmd, cwd=HARNESS, timeout=3000)
    for _ in range(3):
        if rc == 0:
            break
        # somebody may be saving a harness source file right now (helpers work in the same tree): try again before giving up
        time.sleep(40)
        rc, out, err = sh(cmd, cwd=HARNESS, timeout=3000)
    ok = rc == 0
    if not ok:
        ctx.log("[harness] build failed:\n" + err[-3000:])
    else:
        ctx.log(f"[harness] built against {REPO} working tree ({time.time()-t:.1f}s)")
    _harness_built[variant] = (ok, err)
    return _harness_built[variant]


SEQDIFF = os.path.join(HARNESS, "target", "release", "seqdiff")


def run_impl(component, args, stdin=None, timeout=3000, binary=None):
    p = subprocess.run([binary or SEQDIFF, component] + [str(a) for a in args], input=stdin,
                       capture_output=True, text=True, timeout=timeout)
    return p.returncode, p.stdout, p.stderr


def split_cases(lines):
    """lines 'op => out' -> list of cases [(op,out)...]; a case starts at an op beginning with 'new'"""
    cases, cur = [], None
    for l in lines:
        if not l or l.startswith("#"):
            continue
        if " => " not in l:
            continue
        op, out = l.split(" => ", 1)
        if op.startswith("new") or cur is None:
            cur = []
            cases.append(cur)
        cur.append((op, out))
    return cases


def diff_component(ctx, component, gen_args, classify, label=None, shrink=True, max_report=6,
                   mismatch_is_violation=True, sample_every=None, line_oracle=None):
    """Generate on the implementation, replay on the model, compare.  `classify(case, idx, impl_out,
    model_out)` returns a finding key for a mismatch at op idx.  Returns number of mismatching cases."""
    label = label or component
    t = time.time()
    rc, out, err = run_impl(component, gen_args)
    if rc != 0:
        ctx.violation(f"{label}:harness-crash", f"harness for {component} exited {rc}: {err[-300:]}",
                      dict(engine="seqdiff", component=component, args=gen_args, stderr=err[-2000:]), nfi=True)
        return 1
    cases = split_cases(out.split("\n"))
    ops_text = "\n".join(op for c in cases for (op, _) in c) + "\n"
    model = run_model(component, ops_text)
    k = 0
    bad = {}
    for ci, c in enumerate(cases):
        ctx.evaluations += 1
        sig = hashlib.md5("|".join(o for (_, o) in c).encode()).hexdigest()
        if len(c) > 2:
            ctx.distinct.add((label, sig))
        for i, (op, iout) in enumerate(c):
            mout = model[k + i] if k + i < len(model) else "<no model output>"
            ctx.count(f"{label}.{op.split(' ')[0]}")
            if "err" in iout.split(" ")[0]:
                ctx.count(f"{label}.errors")
            base = iout.split(" ORACLE[", 1)[0]
            if base != iout:
                # an independent oracle of the harness fired: reported on its own, the comparison goes on
                ctx.count(f"{label}.oracle-hits")
                key = classify(c, i, iout, mout)
                if key is not None and key not in bad:
                    bad[key] = (c, i, iout, mout)
            if line_oracle is not None:
                # property evaluated on the implementation's answer alone (whatever the model says)
                key = line_oracle(c, i, base)
                if key is not None and key not in bad:
                    bad[key] = (c, i, base + " ORACLE[" + key + "]", mout)
            if base != mout:
                key = classify(c, i, base, mout)
                if key not in bad:
                    bad[key] = (c, i, base, mout)
                break
        k += len(c)
    if cases and len(ctx.samples) < 6:
        sc = cases[len(cases) // 2]
        ctx.samples.append({"component": label, "ops": [f"{o} => {r}" for (o, r) in sc[:14]]})
    ctx.log(f"[seqdiff] {label}: {len(cases)} cases, {k} ops, {len(bad)} mismatch class(es) ({time.time()-t:.1f}s)")
    for key, (c, i, iout, mout) in list(bad.items())[:max_report]:
        ops = [op for (op, _) in c[: i + 1]]
        if shrink:
            # a line where implementation and model agree and no oracle fired is not a finding of any class
            ops = shrink_case(component, ops, lambda c2, i2, io, mo: ((io != mo) and classify(c2, i2, io, mo) == key) or
                              (line_oracle is not None and _safe_oracle(line_oracle, c2, i2, io.split(" ORACLE[", 1)[0]) == key), every_line=line_oracle is not None)
        impl_lines, model_lines = replay_case(component, ops)
        if "ORACLE[" in iout:
            # implementation-vs-oracle failure: reported apart from model disagreements
            what = f"{component}: the implementation fails the harness oracle after `{ops[-1]}`: {iout.split('ORACLE[', 1)[1].rstrip(']')}"
        else:
            what = f"{component}: implementation and proved model differ after `{ops[-1]}`: impl `{impl_lines[-1] if impl_lines else '?'}` vs model `{model_lines[-1] if model_lines else '?'}`"
        ctx.violation(f"{label}:{key}", what, dict(engine="seqdiff", component=component, ops=ops,
                      impl=impl_lines, model=model_lines))
    return len(bad)


def replay_case(component, ops):
    rc, out, err = run_impl(component, ["replay"], stdin="\n".join(ops) + "\n")
    impl = [l.split(" => ", 1)[1] for l in out.split("\n") if " => " in l and not l.startswith("#")]
    model = run_model(component, "\n".join(ops) + "\n")
    model = [m for m in model if m != ""]
    return impl, model


def mismatches(component, ops, every_line=False):
    """all points of a replay where something is reported: oracle hits (the comparison goes on) and
    the first line where implementation and model differ (the comparison stops)"""
    impl, model = replay_case(component, ops)
    res = []
    for i in range(len(ops)):
        io = impl[i] if i < len(impl) else "<none>"
        mo = model[i] if i < len(model) else "<none>"
        base = io.split(" ORACLE[", 1)[0]
        if base != io or every_line:
            res.append((i, io, mo))
        if base != mo:
            res.append((i, base, mo))
            break
        if io == "PANIC":
            break
    return res


def first_mismatch(component, ops):
    r = mismatches(component, ops)
    return r[0] if r else None


def shrink_case(component, ops, same_class, budget=150, every_line=False):
    """delta debugging on the op list (first line, the `new`, is kept)"""
    cur = list(ops)
    n = 2
    tries = 0
    def fails(cand):
        nonlocal tries
        tries += 1
        c = [(o, "") for o in cand]
        for (i, io, mo) in mismatches(component, cand, every_line):
            if same_class(c, i, io, mo):
                return i
        return None
    while len(cur) > 2 and tries < budget:
        body = cur[1:]
        chunk = max(1, len(body) // n)
        reduced = False
        for s in range(0, len(body), chunk):
            cand = [cur[0]] + body[:s] + body[s + chunk:]
            at = fails(cand) if len(cand) >= 2 else None
            if at is not None:
                # cut after the mismatch
                cur = cand[: at + 1]
                n = max(n - 1, 2)
                reduced = True
                break
        if not reduced:
            if chunk == 1:
                break
            n = min(n * 2, len(body))
    return cur


# ------------------------------------------------------------------------------------------
# Verdict + evidence

def cleanup_leftovers():
    """files of harness processes that no longer run (cases that end in a modelled panic or in a killed node forget
    their objects): every harness uses a config prefix `v<letters><pid>…`. Removed: such files / sockets in /dev/shm, in the
    iceoryx2 root and its `services` directory, inside the per-node directories `nodes/<node id>/`, and node
    directories that are empty afterwards (or empty and older than a few minutes)."""
    n = 0
    pat = re.compile(r"v[a-z]{1,4}(\d+)")
    alive = {}

    def dead(pid):
        if pid not in alive:
            alive[pid] = os.path.exists(f"/proc/{pid}")
        return not alive[pid]

    def sweep(d):
        k = 0
        try:
            names = os.listdir(d)
        except OSError:
            return 0
        for fn in names:
            m = pat.match(fn)
            if m and dead(m.group(1)):
                pth = os.path.join(d, fn)
                try:
                    if os.path.isdir(pth) and not os.path.islink(pth):
                        shutil.rmtree(pth, ignore_errors=True)
                    else:
                        os.unlink(pth)
                    k += 1
                except OSError:
                    pass
        return k

    for d in ["/dev/shm", "/tmp/iceoryx2", "/tmp/iceoryx2/nodes", "/tmp/iceoryx2/services"]:
        n += sweep(d)
    now = time.time()
    for top in ["/tmp/iceoryx2/nodes", "/tmp/iceoryx2/services"]:    # per-node directories, per-service type-definition directories
        try:
            subs = os.listdir(top)
        except OSError:
            continue
        for fn in subs:
            pth = os.path.join(top, fn)
            if not (fn.isdigit() and os.path.isdir(pth)):
                continue
            removed = sweep(pth)
            n += removed
            try:
                # an empty node directory is what finding D22 leaves behind; a node that is being created right now has one
                # for an instant (mkdir, then the details file): leave the very young ones alone
                if removed or now - os.path.getmtime(pth) > 3:
                    os.rmdir(pth)          # only succeeds when nothing else is left in it
                    n += 1
            except OSError:
                pass
    return n


def finish(ctx, level="proof", rule="", checker_cmd="", extra_assumptions=()):
    try:
        ctx.extra["leftover_files_removed"] = cleanup_leftovers()
    except Exception:
        pass
    proofs_ok = not ctx.proof_errors and len(ctx.discharged) == len(ctx.obligations) and ctx.obligations
    if not proofs_ok and not [v for v in ctx.violations if not v["nfi"]]:
        # a proof obligation broke and no failing input was found by the search
        names = [n for (n, _) in ctx.proof_errors] or ["<no theorems>"]
        ctx.violation("proof-broken:" + ",".join(names)[:60],
                      "proof obligation(s) no longer check: " + ", ".join(names),
                      dict(engine="lean", broken=[dict(name=n, error=e) for (n, e) in ctx.proof_errors]), nfi=True)
    wall = time.time() - ctx.t0
    cov = dict(
        obligations=len(ctx.obligations), discharged=len(ctx.discharged),
        checker_cmd=checker_cmd or f"cd /verif/lean && lake build {' '.join(ctx.extra.get('lean_modules', []))} ; lake env lean <generated #print axioms file>",
        trusted_base=TRUSTED_BASE,
        theorems=ctx.obligations,
        evaluations=ctx.evaluations, distinct_nontrivial=len(ctx.distinct),
        rule=rule, samples=ctx.samples[:8] or [{"note": "no differential cases in this run"}],
        histogram=dict(sorted(ctx.hist.items())),
        known_findings_hit=[k for (k, _) in ctx.known_hits],
        traces_validated_against_impl=ctx.evaluations,
    )
    cov.update(ctx.extra)
    ev = dict(property_id=ctx.prop, tier=ctx.tier, seed=ctx.seed, level=level, coverage=cov,
              assumptions=list(extra_assumptions) + ctx.assumptions, wall_s=round(wall, 2),
              violations=len(ctx.violations))
    with open(os.path.join(EVID, f"{ctx.prop}.json"), "w") as f:
        json.dump(ev, f, indent=1)
    for key, what in ctx.known_hits:
        print(f"KNOWN-FINDING: property={ctx.prop} {key}: {what}")
    for v in ctx.violations:
        tail = " no-failing-input-found" if v["nfi"] else ""
        print(f"[violation] {v['key']}: {v['what']}")
        print(f"VIOLATION property={ctx.prop} replay={v['replay']}{tail}")
    shutil.rmtree(ctx.rundir, ignore_errors=True)
    ok = not ctx.violations
    print(f"[{ctx.prop}] {'PASS' if ok else 'FAIL'} tier={ctx.tier} seed={ctx.seed} theorems={len(ctx.discharged)}/{len(ctx.obligations)} cases={ctx.evaluations} wall={wall:.1f}s")
    return 0 if ok else 1


def run_property(prop, tier, seed, replay):
    try:
        mod = importlib.import_module("p" + prop)
    except ModuleNotFoundError:
        print(f"no check for {prop}")
        return 2
    ctx = Ctx(prop, tier, seed, replay)
    if replay:
        return mod.replay(ctx, json.load(open(replay))) if hasattr(mod, "replay") else generic_replay(ctx, json.load(open(replay)))
    return mod.run(ctx)


def _safe_oracle(oracle, case, idx, out):
    """a candidate produced while shrinking can be malformed (operations without an answer): an oracle that cannot parse it says: not this class"""
    try:
        return oracle(case, idx, out)
    except Exception:
        return None


def generic_replay(ctx, obj):
    if obj.get("engine") == "seqdiff":
        ok, _ = build_harness(ctx)
        build_driver(ctx)
        impl, model = replay_case(obj["component"], obj["ops"])
        for i, op in enumerate(obj["ops"]):
            io = impl[i] if i < len(impl) else "<none>"
            mo = model[i] if i < len(model) else "<none>"
            print(f"{op}\n    impl : {io}\n    model: {mo}{'   <== differs' if io != mo else ''}")
        return 0
    print(json.dumps(obj, indent=1))
    return 0


# ------------------------------------------------------------------------------------------
# steptrace: atomic-step traces of the instrumented implementation vs the L2 model

STEPTRACE = os.path.join(HARNESS, "target-trace", "release", "steptrace")
_trace_built = None


def build_trace(ctx):
    """regenerates the instrumented drop-in from /repo's working tree and builds steptrace with it"""
    global _trace_built
    if _trace_built is not None:
        return _trace_built
    t = time.time()
    rc, out, err = sh(["./build_trace.sh"], cwd=HARNESS, timeout=3000)
    _trace_built = (rc == 0, (out + err))
    if rc != 0:
        errs = [l for l in (out + err).split("\n") if l.startswith("error") or "dropin_gen" in l]
        ctx.log("[steptrace] build failed:\n" + "\n".join(errs[:20]))
    else:
        ctx.log(f"[steptrace] drop-in regenerated from {REPO}, built ({time.time()-t:.1f}s)")
    return _trace_built


def split_execs(lines):
    execs, cur = [], None
    for l in lines:
        if l.startswith("prog "):
            cur = {"prog": l, "lines": [], "sched": ""}
        elif cur is None:
            continue
        elif l.startswith("sched"):
            cur["sched"] = l
        elif l.startswith("end"):
            cur["end"] = l
            execs.append(cur)
            cur = None
        else:
            cur["lines"].append(l)
    return execs


def compare_exec(impl_lines, model_lines):
    """line by line; the variable (3rd token) is compared modulo a bijection impl address <-> model name.
    Pointer-distance loads (`dist*`) carry a layout constant: value not compared."""
    fwd, bwd = {}, {}
    n = max(len(impl_lines), len(model_lines))
    for i in range(n):
        a = (impl_lines[i] if i < len(impl_lines) else "<none>").rstrip()
        b = (model_lines[i] if i < len(model_lines) else "<none>").rstrip()
        ta, tb = a.split(" "), b.split(" ")
        if len(ta) >= 3 and len(tb) >= 3 and ta[1] == tb[1] and ta[1] not in ("ret", "fence", "crit", "PANIC"):
            va, vb = ta[2], tb[2]
            # `own*`: flags of short-lived storage handles; their addresses are reused by the allocator
            # `state[k]`: memory of a destroyed incarnation may be reused for a later one (one address, several names)
            reuse_ok = vb.startswith("state[")
            if not vb.startswith("own") and ((not reuse_ok and fwd.setdefault(va, vb) != vb) or bwd.setdefault(vb, va) != va):
                return i, a, b + f"   (variable mapping inconsistent: {va} was {fwd.get(va)}, {vb} was {bwd.get(vb)})"
            ra, rb = ta[:2] + ta[3:], tb[:2] + tb[3:]
            if "dist" in vb.split("[")[0]:
                ra, rb = [x for x in ra if not x.startswith("v=")], [x for x in rb if not x.startswith("v=")]
            if ra != rb:
                return i, a, b
        elif a != b:
            return i, a, b
    return None


def trace_component(ctx, component, args, label=None, driver_component=None, oracle=None):
    """runs steptrace, replays every execution on the L2 model, compares the event streams.
    `oracle(exec)` may evaluate the property directly on the implementation's trace and return a
    finding key or None."""
    label = label or component
    t = time.time()
    p = subprocess.run([STEPTRACE, component] + [str(a) for a in args], capture_output=True, text=True, timeout=3000)
    if p.returncode != 0:
        ctx.violation(f"{label}:steptrace-crash", f"steptrace {component} exited {p.returncode}: {p.stderr[-300:]}",
                      dict(engine="steptrace", component=component, args=[str(a) for a in args], stderr=p.stderr[-2000:]), nfi=True)
        return
    execs = split_execs(p.stdout.split("\n"))
    feed = []
    for e in execs:
        feed.append(e["prog"]); feed += e["lines"]; feed.append("end")
    model_out = run_model(driver_component or component, "\n".join(feed) + "\n")
    mexecs = split_execs(model_out)
    bad = {}
    sigs = set()
    for k, e in enumerate(execs):
        ctx.evaluations += 1
        tids = "".join(l.split(" ")[0][1:] for l in e["lines"] if " ret " not in l)
        ctx.distinct.add((label, e["prog"], tids))
        for l in e["lines"]:
            tk = l.split(" ")
            ctx.count(f"{label}.ev.{tk[1]}")
        m = mexecs[k]["lines"] if k < len(mexecs) else []
        for l in m:
            tk = l.split(" ")
            if len(tk) > 3 and tk[1] != "ret":
                sigs.add(f"{tk[1]} {tk[2].split('[')[0]} {tk[3] if tk[1] != 'cell' else ''}".strip())
        r = compare_exec(e["lines"], m)
        key = None
        if r is not None:
            i, a, b = r
            key = f"{label}:trace:{(b.split(' ') + ['?', '?'])[1]}"
            what = f"{component}: implementation trace and L2 model differ at event {i}: impl `{a}` vs model `{b}`"
        elif oracle is not None:
            e["model_end"] = mexecs[k].get("end", "") if k < len(mexecs) else ""
            okey = oracle(e)
            if okey:
                key = f"{label}:oracle:{okey}"
                what = f"{component}: property oracle failed on the implementation's trace: {okey}"
        if key and key not in bad:
            bad[key] = (e, m, what)
    ctx.extra.setdefault("model_step_kinds_covered", {})[label] = sorted(sigs)
    if execs and len(ctx.samples) < 8:
        e = execs[len(execs) // 2]
        ctx.samples.append({"component": label, "prog": e["prog"], "trace": e["lines"][:16], "sched": e["sched"]})
    ctx.log(f"[steptrace] {label}: {len(execs)} executions, {sum(len(e['lines']) for e in execs)} events, {len(sigs)} model step kinds, {len(bad)} mismatch class(es) ({time.time()-t:.1f}s)")
    for key, (e, m, what) in list(bad.items())[:6]:
        ctx.violation(key, what, dict(engine="steptrace", component=component, prog=e["prog"], sched=e["sched"], impl=e["lines"], model=m))
    return execs
