"""shared by C01 / C02 / C08: the publish-subscribe component (real ports vs the L1 model)."""
import core

CANARY_DROPPED = "held sample of dropped subscriber changed"
CANARY_LIVE = "held sample of live subscriber changed"
BORROW = "subscriber holds more samples than max borrowed samples"

KEYS = {CANARY_DROPPED: "held-sample-of-dropped-subscriber-changed",
        CANARY_LIVE: "held-sample-of-live-subscriber-changed",
        BORROW: "borrow-limit-exceeded"}


def make_classify(relevant):
    """`relevant`: harness oracle messages this property is about (others belong to another property)"""
    def classify(case, idx, impl_out, model_out):
        op = case[idx][0].split(" ")
        if "ORACLE[" in impl_out:
            msgs = [m.strip() for m in impl_out.split("ORACLE[", 1)[1].rstrip("]").split(";")]
            for m in msgs:
                if m in relevant:
                    return "oracle:" + KEYS.get(m, m.replace(" ", "-")[:50])
                if m not in KEYS:
                    return "oracle:" + m.replace(" ", "-")[:50]
            return None
        if impl_out == "PANIC":
            return "panic-not-in-model:" + op[0]
        if model_out == "PANIC":
            return "model-panic-only:" + op[0]
        if op[0] == "new":
            return "service-create"
        return "result:" + op[0]
    return classify


def panic_oracle(case, idx, base):
    """C08/C17: no API call may end in a fatal panic inside the limits"""
    if base == "PANIC":
        op = case[idx][0].split(" ")[0]
        return "panic:" + ("update-connections" if op in ("recv", "has", "upd", "csub", "cpub", "send") else op)
    return None


def oom_oracle(case, idx, base):
    """C08: a loan is never refused for lack of memory; the exhaustion probe always ends at the loan limit"""
    op = case[idx][0].split(" ")[0]
    if op == "loan" and base == "err:OutOfMemory":
        return "loan-out-of-memory"
    if op == "probe" and ":" in base and not base.endswith(":ExceedsMaxLoans"):
        return "probe-ended-by-" + base.split(":", 1)[1]
    if op == "probe" and base.startswith("1001"):
        return "probe-unbounded"
    return None


def both(*fs):
    def f(case, idx, base):
        for g in fs:
            k = g(case, idx, base)
            if k:
                return k
        return None
    return f


def run_pubsub(ctx, relevant, line_oracle=None, sat_share=1):
    quick = ctx.tier == "quick"
    cl = make_classify(relevant)
    core.diff_component(ctx, "pubsub", ["gen", "--exhaustive", 3 if quick else 5], cl, label="pubsub.exhaustive", shrink=False, line_oracle=line_oracle)
    core.diff_component(ctx, "pubsub", ["gen", "--seed", ctx.seed, "--cases", 2500 if quick else 40000, "--len", 80 if quick else 120], cl,
                        label="pubsub.random", line_oracle=line_oracle)
    core.diff_component(ctx, "pubsub", ["gen", "--seed", ctx.seed + 7, "--cases", 1500 * sat_share if quick else 30000, "--len", 120 if quick else 200, "sat"], cl,
                        label="pubsub.saturation", line_oracle=line_oracle)
    core.diff_component(ctx, "pubsub", ["gen", "--seed", ctx.seed + 13, "--cases", 300 if quick else 6000, "--len", 60 if quick else 100, "ipc"], cl,
                        label="pubsub.ipc", line_oracle=line_oracle)
    # publishers with `override_sample_preallocation` (1..5 chunks instead of the worst case): a loan may now be refused for lack of memory,
    # the model says exactly when; outside `Cfg.Sane`, so the C08 memory theorems (and the out-of-memory oracle) do not apply, all others do
    def no_oom(case, idx, base):
        k = line_oracle(case, idx, base) if line_oracle else None
        return None if k in ("loan-out-of-memory", "probe-ended-by-OutOfMemory") else k
    core.diff_component(ctx, "pubsub", ["gen", "--seed", ctx.seed + 23, "--cases", 800 * sat_share if quick else 15000, "--len", 100 if quick else 160, "oom"], cl,
                        label="pubsub.prealloc-override", line_oracle=no_oom)
    # publishers with a backpressure handler that answers DiscardDataAndFail (no safe overflow → the handler is asked for every full buffer of a
    # connected subscriber): same state transitions as the proved `send`, the call reports UnableToDeliver; the partially failed send is the
    # early-return path of Sender::deliver_offset
    core.diff_component(ctx, "pubsub", ["gen", "--seed", ctx.seed + 37, "--cases", 600 * sat_share if quick else 12000, "--len", 100 if quick else 160, "bph"], cl,
                        label="pubsub.backpressure-handler", line_oracle=line_oracle)
    # slice payloads on a dynamically growing data segment (PowerOfTwo strategy, initial slice length 1, loan lengths that mostly grow):
    # the same model — the length is not observable in it; publishers are not dropped in this mode (lost-chunk limitation of dynamic segments)
    core.diff_component(ctx, "pubsub", ["gen", "--seed", ctx.seed + 17, "--cases", 1200 if quick else 20000, "--len", 70 if quick else 120, "slice"], cl,
                        label="pubsub.slice", line_oracle=line_oracle)
    core.diff_component(ctx, "pubsub", ["gen", "--seed", ctx.seed + 19, "--cases", 150 if quick else 3000, "--len", 60 if quick else 100, "slice", "ipc"], cl,
                        label="pubsub.slice-ipc", line_oracle=line_oracle)
    # flatbuffer payloads (Flatbuffer<UnboundedData>, dynamic data segment, PowerOfTwo strategy, initial reserved memory = a sample with one
    # entry): `loanf p l n` builds a title and n entries inside the loan, the builder outgrows the chunk and the loan is relocated into a new
    # segment (Sender::grow) while other samples are loaned / in flight / held; the same model — a relocating grow is invisible in it.
    # Publishers are not dropped (as in slice mode); `overtake`: loans grow whether or not a later loan of their publisher is sent first (after fix ca11a2f)
    core.diff_component(ctx, "pubsub", ["gen", "--seed", ctx.seed + 29, "--cases", 600 if quick else 10000, "--len", 60 if quick else 100, "fb", "overtake"], cl,
                        label="pubsub.flatbuffer", line_oracle=line_oracle)
    core.diff_component(ctx, "pubsub", ["gen", "--seed", ctx.seed + 31, "--cases", 100 if quick else 2000, "--len", 60 if quick else 100, "fb", "overtake", "ipc"], cl,
                        label="pubsub.flatbuffer-ipc", line_oracle=line_oracle)


RULE = ("real Publisher / Subscriber ports of a publish-subscribe service driven through the public API, one call per line: create/drop publisher (max loans 0..3) and subscriber "
        "(buffer size, history request, defaults), loan, write+send, drop loan, receive, drop sample (also after its subscriber was dropped), update_connections, has_samples, "
        "loan-to-exhaustion probe; services with max publishers/subscribers 0..3, buffer 0..3, history 0..3, max borrowed 0..3, safe overflow on/off, expired-connection buffer 1..3, "
        "discard strategy; local and ipc variants. exhaustive: every sequence of 3 (quick) / 5 (thorough) calls from a 12-call alphabet after a fixed prefix, for 4 small "
        "configurations; random: mostly-valid histories; saturation: histories that keep buffers, borrows, history and loans full. Every result (values, recipients counts, "
        "error kinds) compared with the L1 model; flatbuffer: the same histories with Flatbuffer<UnboundedData> payloads built inside the loan (title + 1..64 entries "
        "that all carry the tag), so that the loan outgrows its chunk and is relocated into a new data segment (Sender::grow) while other samples are loaned, in flight or held; "
        "a received flatbuffer must verify and all entries must carry the sent tag (else `corrupt`). Harness oracles independent of the model: canary re-read of every held sample after every call, per-subscriber borrow count. "
        "distinct = distinct output vectors of cases with > 2 ops")

ASSUME = ["every API call is one atomic step of the L1 model: concurrency between ports is covered below this level by the queue / index-set / connection theorems (C03, C09, C13), not here",
          "payloads: fixed-size u64, and [u64] slices on a dynamically growing data segment (segment ids are not part of the model: observable results are the same); in slice mode publishers "
          "are not dropped while their samples are in flight (a vanished publisher's not-yet-mapped segments are lost: documented limitation of dynamic segments, outside the model)",
          "flatbuffer payloads: the whole content is built inside the `loanf` call (a loan only grows while its chunk lies in the newest segment of its publisher: growing a loan of an "
          "OLDER segment hits the open C15 finding `DynamicMemory::grow` aliases a bucket of the current segment; port-level replay in DESIGN.md) and no table field carries its default value "
          "(the builder is handed non-zeroed memory: observation outside the 20 properties, DESIGN.md); publishers are not dropped (as in slice mode)",
          "backpressure strategy DiscardData; the blocking strategies spin on the same try_send (retry loop not modelled); mode backpressure-handler: every publisher carries a handler that "
          "answers DiscardDataAndFail (asked when the buffer of a connected subscriber is full and safe overflow is off) — the state transition is the proved `send`, the result UnableToDeliver "
          "is derived by the driver from the step's ghost log (not covered by a theorem); handlers answering Retry are not driven",
          "request-response uses the same Sender/Receiver machinery (port/details); it is exercised by the C11 check"]
