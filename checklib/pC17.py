"""C17 — orderly shutdown in any order leaves nothing behind."""
import core, json, pubsub_common as ps
import pC05ports


def shutdown_oracle(case, idx, base):
    """on the implementation's answers alone: no drop panics; after the last drop (the generator ends every
    case with everything dropped and a final `ls`) nothing of the case exists any more"""
    op = case[idx][0].split(" ")[0]
    if base == "PANIC":
        return "oracle:panic-in-shutdown:" + op
    if op == "ls" and idx == len(case) - 1 and base != "-":
        kinds = sorted(k.split("=")[0] for k in base.split(","))
        return "oracle:leftover-after-shutdown:" + "+".join(kinds)
    return None


def run(ctx):
    core.prove(ctx)
    drv = core.build_driver(ctx)
    ok, err = core.build_harness(ctx)
    if not ok:
        ctx.violation("harness-build", "harness does not build against the current tree", dict(engine="cargo", stderr=err[-3000:]), nfi=True)
        return core.finish(ctx)
    if drv:
        quick = ctx.tier == "quick"
        cl = ps.make_classify(set())
        core.diff_component(ctx, "pubsub", ["gen", "--exhaustive", 1, "shutdown", "ipc"], cl, label="pubsub.shutdown-permutations", shrink=False, line_oracle=shutdown_oracle)
        core.diff_component(ctx, "pubsub", ["gen", "--exhaustive", 1, "shutdown"], cl, label="pubsub.shutdown-permutations-local", shrink=False, line_oracle=shutdown_oracle)
        core.diff_component(ctx, "pubsub", ["gen", "--seed", ctx.seed, "--cases", 400 if quick else 8000, "shutdown", "ipc"], cl, label="pubsub.shutdown-random",
                            line_oracle=shutdown_oracle)
        # the same for the event pattern: node handle, service handle, notifiers, listeners
        pC05ports.ports_part(ctx, "C17")
        # request-response object graphs: clients / servers / loaned requests / pending responses / active requests / responses dropped in any
        # order while the survivors are used (generator modes `churn` and `loans` of the reqres component, model ReqRes.lean). The component is
        # run under a shadow context of C11 so that C11's open findings (routing, limits) stay that check's business; every OTHER disagreement
        # is a survivor that stopped working or a drop that misbehaved, and is reported here
        import pC11
        sh = core.Ctx("C11", ctx.tier, ctx.seed, None)
        lo = pC11.make_line_oracle()
        core.diff_component(sh, "reqres", ["gen", "--seed", ctx.seed + 41, "--cases", 500 if quick else 5000, "--len", 100 if quick else 140, "churn"],
                            pC11.classify, label="reqres.churn", line_oracle=lo, shrink=False)
        core.diff_component(sh, "reqres", ["gen", "--seed", ctx.seed + 43, "--cases", 300 if quick else 3000, "--len", 100 if quick else 160, "loans"],
                            pC11.classify, label="reqres.loans", line_oracle=lo, shrink=False)
        ctx.evaluations += sh.evaluations
        ctx.distinct |= sh.distinct
        for k, v in sh.hist.items():
            ctx.hist["reqres." + str(k)] = ctx.hist.get("reqres." + str(k), 0) + v
        for v in sh.violations:
            try:
                obj = json.load(open(v["replay"]))
            except Exception:
                obj = dict(engine="seqdiff", component="reqres")
            ctx.violation("reqres-graph:" + v["key"], v["what"], obj, nfi=v["nfi"])
        import shutil
        shutil.rmtree(sh.rundir, ignore_errors=True)
    return core.finish(
        ctx, level="proof",
        rule="object graphs of a publish-subscribe service in one node: node handle, service handle (port factory), publishers, subscribers, unsent loans, received samples; "
             "every permutation of the drop order of a 6-object graph (720) for two configurations, ipc and local variants, plus random graphs (1..2 publishers / subscribers, 0..2 loans, "
             "0..2 samples) with random drop orders and survivors exercised between drops (loan+send, has_samples); the same for an event service (node handle, service handle, "
             "2 notifiers, 2 listeners: 720 orders x 2 configurations, plus random graphs on 1..2 nodes; survivors notify / wait between drops); after every drop the set of existing resources by kind (node "
             "monitor files, node details, node directory, service tag, static config, dynamic config, port tags, data segments, connections: files of the case's own config prefix "
             "under the iceoryx2 root and /dev/shm) is compared with the model's `resources`; oracle on the implementation alone: no panic, nothing left after the last drop",
        extra_assumptions=["file-system footprint after every drop: publish-subscribe and event only; request-response object graphs (ports, loaned requests, pending responses, active requests, responses dropped in any order, survivors used in between) are compared with the ReqRes model for behaviour only (random orders, not all permutations); blackboard object graphs and wait-set guards are not enumerated",
                           "one node per case; several nodes sharing the service are covered by the registry theorems (C10) only",
                           "the local variant has no file-system footprint: only behaviour and panics are compared there"])
