"""C08 — QoS limits suffice and are enforced."""
import core, pubsub_common as ps


def run(ctx):
    core.prove(ctx)
    drv = core.build_driver(ctx)
    ok, err = core.build_harness(ctx)
    if not ok:
        ctx.violation("harness-build", "harness does not build against the current tree", dict(engine="cargo", stderr=err[-3000:]), nfi=True)
        return core.finish(ctx)
    if drv:
        ps.run_pubsub(ctx, {ps.BORROW}, line_oracle=ps.both(ps.panic_oracle, ps.oom_oracle), sat_share=2)
    return core.finish(ctx, level="proof", rule=ps.RULE, extra_assumptions=ps.ASSUME)
