"""C08 — QoS limits suffice and are enforced."""
import core, pubsub_common as ps
import pC05ports


def run(ctx):
    core.prove(ctx)
    drv = core.build_driver(ctx)
    ok, err = core.build_harness(ctx)
    if not ok:
        ctx.violation("harness-build", "harness does not build against the current tree", dict(engine="cargo", stderr=err[-3000:]), nfi=True)
        return core.finish(ctx)
    if drv:
        ps.run_pubsub(ctx, {ps.BORROW}, line_oracle=ps.both(ps.panic_oracle, ps.oom_oracle), sat_share=2)
        # one channel of the real zero-copy connection, sender and receiver calls interleaved call by call
        # (the level at which the completion queue size is decided): a refused release inside the protocol is a violation
        quick = ctx.tier == "quick"
        core.diff_component(ctx, "zcc", ["gen", "--seed", ctx.seed, "--cases", 6000 if quick else 80000, "--len", 40 if quick else 60],
                            lambda case, idx, io, mo: "zcc:" + case[idx][0].split(" ")[0], label="zcc")
        # the limits of the event pattern: max notifiers / listeners / nodes, event id max value
        pC05ports.ports_part(ctx, "C08")
    return core.finish(ctx, level="proof", rule=ps.RULE + " " + pC05ports.RULE, extra_assumptions=ps.ASSUME + pC05ports.ASSUMPTIONS)
