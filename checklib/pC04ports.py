"""API-call-level part of C04 (crash at any instant: survivor cleanup restores a clean, usable system) for the
PUBLISH-SUBSCRIBE component `pubsub`: node A (a process of its own, `spawn 1`) and node B (the harness process) share the
service with traffic in both directions; A is killed (SIGKILL) between two API calls; B or a third node runs
`try_cleanup_dead_nodes` and goes on.  Claim checked against the real code: death + cleanup of A is observationally an
orderly drop of everything A owned (the Lean driver replays `dsample … dsub … dloan … dpub` of A's objects on the proved
publish-subscribe model at the `cleanup` line; nothing is added to the proved models).

Called from pC04.py:  `import pC04ports; pC04ports.ports_part(ctx)`."""
import core
import pubsub_common as ps

# update-connections calls: a panic there is the known consequence of the per-connection borrow limit (D19/D20, property C08)
_D20_OPS = ("recv", "has", "upd", "csub", "cpub", "send")
NODE_KINDS = ("details", "node_monitor", "node_monitor_context", "node_monitor_owner_lock", "nodedir", "service_tag")

_state = {}


def _track(case):
    """per case, from the implementation's own answers: nodes alive before every line, whether a death happened and was
    cleaned up, max loans and open loans of every publisher, owner node of every port"""
    key = id(case)
    st = _state.get(key)
    if st is not None and st["case"] is case:
        return st["before"]
    alive, dead, cleaned = {0}, set(), set()
    maxl, open_loans, owner = {}, {}, {}
    before = []
    for (op, out) in case:
        o = op.split(" ")
        base = out.split(" ORACLE[", 1)[0]
        before.append(dict(alive=len(alive), dead=set(dead), cleaned=set(cleaned), maxl=dict(maxl),
                           open={k: len(v) for k, v in open_loans.items()}, owner=dict(owner)))
        k = int(o[-1][1:]) if o[-1].startswith("@") else 0
        if o[0] in ("open", "spawn") and base == "ok":
            alive.add(int(o[1]))
        elif o[0] == "kill" and base == "ok":
            alive.discard(int(o[1])); dead.add(int(o[1]))
        elif o[0] == "cleanup" and base.startswith("c="):
            cleaned |= dead
        elif o[0] == "dnode" and base == "ok":
            alive.discard(int(o[1]) if len(o) > 1 else 0)
        elif o[0] == "cpub" and base == "ok":
            maxl[int(o[1])] = int(o[2]); open_loans[int(o[1])] = set(); owner[("p", int(o[1]))] = k
        elif o[0] == "csub" and base == "ok":
            owner[("s", int(o[1]))] = k
        elif o[0] == "loan" and base == "ok":
            open_loans.setdefault(int(o[1]), set()).add(int(o[2]))
        elif o[0] in ("send", "dloan") and base != "none":
            open_loans.get(int(o[1]), set()).discard(int(o[2]))
    _state.clear()
    _state[key] = dict(case=case, before=before)
    return before


def death_oracle(case, idx, base):
    """on the implementation's answers alone:
    - kill / cleanup / open / spawn / ls / probe and the drop calls never panic; the cleanup reports no failure and cleans every dead node;
    - the `ls` after a cleanup shows node files, node directories and service tags of the living nodes only;
    - a `probe` of a surviving publisher after the cleanup ends at its loan limit (a leaked chunk would end it early with OutOfMemory)
      and grants exactly max loans - open loans;
    - after the survivors shut down in an orderly way (the generator ends every case like that) nothing at all is left."""
    o = case[idx][0].split(" ")
    if base == "PANIC":
        return None if o[0] in _D20_OPS else "oracle:panic:" + o[0]
    if base == "child-died":
        return "oracle:child-process-died:" + o[0]
    b = _track(case)[idx]
    if o[0] == "cleanup" and base.startswith("c="):
        c, f = [int(x.split("=")[1]) for x in base.split(",")]
        if f != 0:
            return "oracle:cleanup-failed"
        if c != len(b["dead"] - b["cleaned"]):
            return "oracle:cleanup-count"
    if o[0] == "ls":
        counts = dict((k.split("=")[0], int(k.split("=")[1])) for k in base.split(",")) if base != "-" else {}
        if idx == len(case) - 1 and base != "-":
            return "oracle:leftover-after-death-and-teardown:" + "+".join(sorted(counts))
        if b["dead"] and b["dead"] <= b["cleaned"]:
            for kind in NODE_KINDS:
                if counts.get(kind, 0) > b["alive"]:
                    return "oracle:leftover-of-dead-node:" + kind
    if o[0] == "probe" and ":" in base and b["dead"] and b["dead"] <= b["cleaned"]:
        n, why = base.split(":", 1)
        p = int(o[1])
        if b["owner"].get(("p", p), 0) not in b["dead"]:
            if why != "ExceedsMaxLoans":
                return "oracle:probe-after-cleanup-ended-by-" + why
            if p in b["maxl"] and int(n) != b["maxl"][p] - b["open"].get(p, 0):
                return "oracle:loan-budget-after-cleanup"
    return None


def classify(case, idx, impl_out, model_out):
    op = case[idx][0].split(" ")
    if "ORACLE[" in impl_out:
        msgs = [m.strip() for m in impl_out.split("ORACLE[", 1)[1].rstrip("]").split(";")]
        for m in msgs:
            if m not in ps.KEYS:          # the pub-sub canaries belong to C01 / C08 (known findings there)
                return "oracle:" + m.replace(" ", "-")[:60]
        return None
    if impl_out == "PANIC":
        return "panic-not-in-model:" + op[0]
    if model_out == "PANIC":
        return "model-panic-only:" + op[0]
    if op[0] in ("kill", "cleanup", "spawn", "open", "ls"):
        return "death:" + op[0]
    return "result-after-death:" + op[0]


def ports_part(ctx):
    drv = core.build_driver(ctx)
    ok, err = core.build_harness(ctx)
    if not ok:
        ctx.violation("harness-build", "harness does not build against the current tree", dict(engine="cargo", stderr=err[-3000:]), nfi=True)
        return False
    if not drv:
        return False
    quick = ctx.tier == "quick"
    core.diff_component(ctx, "pubsub", ["gen", "--seed", ctx.seed, "--cases", 300 if quick else 5000, "--len", 40 if quick else 50, "death", "ipc"],
                        classify, label="pubsub.death", line_oracle=death_oracle)
    return True


RULE = ("pubsub.death: real publish-subscribe ports (ipc), node B in the harness process (creator of the service), node A in a process of its own (same binary, driven call by call "
        "over a pipe), in a quarter of the cases a third node C; services with max publishers / subscribers 2..4, buffer 1..3, history 0..2, max borrowed 1..3, safe overflow on/off; "
        "shapes: random traffic in both directions (create/drop ports on both nodes, loan, send, unsent loans, receive, held samples, drop sample, update_connections, probe, has_samples), "
        "'dead subscriber with 2..4 live publishers' (holding samples of each, more queued), 'dead publisher with 2..4 live subscribers holding its samples' (plus an unsent loan); then "
        "A's process is killed with SIGKILL between two calls; in half of the cases B goes on for 1..8 calls (also new ports) while A's remains are still registered; B or C calls "
        "try_cleanup_dead_nodes; `ls`; B (and C) continue: update + loan-to-exhaustion probe of every publisher, new ports (which take the freed registry slots), more traffic, probes, "
        "`ls`; finally the survivors drop everything in an orderly way and `ls` must be empty. Every answer (recipient counts, received origin:tag, error kinds, probe results, cleanup "
        "count, files by kind) is compared with the proved L1 model, where the cleanup line is replayed as the orderly drop of A's objects; oracle on the implementation alone: no "
        "panic outside the known update-connections class, cleanup count / no failed cleanups, no node file / node directory / service tag of the dead node after the cleanup, probes of "
        "survivors end at the loan limit with the full budget, nothing left after the final teardown")

ASSUMPTIONS = [
    "the crash hits between two API calls of the dying process (a crash inside a call is the subject of the step-level C04 checks)",
    "fixed-size u64 payload, ipc variant (the process-local variant cannot span processes); backpressure strategy DiscardData",
    "dead nodes are cleaned up by the explicit try_cleanup_dead_nodes call only (cleanup_dead_nodes_on_creation / _on_destruction / _on_open are switched off in the harness config)",
    "the proved models are not extended: node bookkeeping (which port belongs to which node, node files) lives in the Lean driver; between kill and cleanup the model keeps A's ports "
    "alive and untouched, which is what the survivors observe; calls on A's own objects are impossible after the kill",
    "the dying node is never the creator of the service; the cleaning node is a survivor's live node handle",
]
