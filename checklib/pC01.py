"""C01 — pub-sub delivery: ordered, at most once, loss only as documented."""
import core, pubsub_common as ps


def run(ctx):
    # composition level: the call order of send_sample is regenerated from /repo (Props/C01Compose.lean is about the regenerated program)
    import compose
    compose.compose_part(ctx)
    core.prove(ctx)
    drv = core.build_driver(ctx)
    ok, err = core.build_harness(ctx)
    if not ok:
        ctx.violation("harness-build", "harness does not build against the current tree", dict(engine="cargo", stderr=err[-3000:]), nfi=True)
        return core.finish(ctx)
    if drv:
        ps.run_pubsub(ctx, set())
    return core.finish(ctx, level="proof", rule=ps.RULE + "; " + compose.rule(ctx), extra_assumptions=list(ps.ASSUME) + compose.ASSUMPTIONS + ["composition level (send_sample): one publisher, one subscriber, unbounded history and buffer"])
