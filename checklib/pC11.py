"""C11 — request-response: responses reach exactly the request they answer.

Lean theorems over all reachable states of the L1 model `Iox2.ReqRes` (Props/C11.lean) + the
differential run real Client / Server ports vs the model (component `reqres`), with the harness's own
routing / ordering / limit oracles evaluated on the implementation."""
import core, compose

# harness oracle messages -> stable keys
ORACLES = {
    "response delivered to a request of another client": "response-delivered-to-a-request-of-another-client",
    "response delivered to another request of the same client": "response-delivered-to-another-request-of-the-same-client",
    "response received twice": "response-received-twice",
    "responses of one server received out of order": "responses-out-of-order",
    "response origin is not the server that sent it": "response-origin-mismatch",
    "client received a response that was never sent": "response-never-sent",
    "response of unknown origin delivered": "response-of-unknown-origin",
    "server received a request that was never sent": "request-never-sent",
    "request received from another client than the one that sent it": "request-origin-mismatch",
    "request header names another client than the connection it came over": "request-header-mismatch",
    "request received twice by the same server": "request-received-twice",
    "requests of one client received out of order": "requests-out-of-order",
    "request held by a pending response changed": "held-request-of-pending-response-changed",
    "request held by an active request changed": "held-request-of-active-request-changed",
    "held response changed": "held-response-changed",
    "client has more pending responses than max active requests": "active-request-limit-exceeded",
    "more responses of one server borrowed through one pending response than max borrowed responses": "borrow-limit-per-connection-exceeded",
    "pending response holds more responses than max borrowed responses": "borrow-limit-per-pending-response-exceeded",
}

# Candidate defects found by this check, replayed on the real code (see notes/C11-design.md).  They are
# treated like entries of known_findings.json (printed as KNOWN-FINDING, do not fail the check) until
# they are moved there; nothing is written at run time.
LOCAL_KNOWN = [
    dict(property="C11", status="open", key="reqres*:oracle:response-delivered-to-a-request-of-another-client",
         what="cross-client mis-routing (Lean: C11.response_routed_refuted): an ActiveRequest addresses its response "
              "connection by the client's registry slot (server.rs receive -> get_connection_id_of; response_mut.rs send "
              "-> deliver_offset_to_connection(connection_id)); when the client is gone and a new client inherits the slot, "
              "a response sent through the old ActiveRequest lands in the new client's channel with the same channel id and "
              "request id (both restart at 0 per client) and PendingResponse::receive accepts it; ActiveRequest::is_connected "
              "turns true again. History: new local 2 1 1 1 1 0 0 0 1 1 1; cserver 0 -; cclient 0 -; send 0 0 1; recvreq 0 0; "
              "dpending 0 0; dclient 0; cclient 1 -; send 1 1 2; respond 0 0 100; recvresp 1 1 => some:0:100"),
    dict(property="C11", status="open", key="reqres*:oracle:borrow-limit-per-pending-response-exceeded",
         what="max_borrowed_responses_per_pending_response is documented per pending response but enforced per connection "
              "(receiver.rs / zero_copy_connection borrow counter per channel): with two servers a pending response with "
              "limit 1 holds two responses at once (same nature as the publish-subscribe finding D19). History: new local 1 2 2 1 1 0 0 "
              "1 1 3 1; cserver 0 2; cserver 1 0; cclient 0 -; send 0 0 1; recvreq 1 0; recvreq 0 1; respond 1 0 4; respond 0 1 5; "
              "recvresp 0 0; recvresp 0 0 -> 2 responses held"),
    dict(property="C11", status="open", key="reqres*:line:loan-out-of-memory-within-limits",
         what="Client::loan fails with LoanError::OutOfMemory although the client is below max_active_requests and holds no loan: "
              "the client data segment (max_servers*2*max_active_requests + max_loaned_requests chunks) does not count the chunk "
              "kept by a pending response whose request was not delivered (server buffer full, no safe overflow) while the server "
              "still holds / queues 2*max_active_requests older requests. History: new local 1 1 2 1 1 0 0 1 1 1 1; cclient 0 -; "
              "cserver 0 -; send x2; recvreq x2; dpending x2; send x2; dpending x2; send (ok:0); send => err:loan:OutOfMemory"),
]

CEX_ROUTING = ["new local 2 1 1 1 1 0 0 0 1 1 1", "cserver 0 -", "cclient 0 -", "send 0 0 1", "recvreq 0 0", "dpending 0 0",
               "dclient 0", "cclient 1 -", "send 1 1 2", "respond 0 0 100", "recvresp 1 1"]
CEX_LEAK = ["new local 2 1 1 1 1 0 0 0 1 1 1", "cserver 0 -", "cclient 0 -", "send 0 0 1", "upd s 0", "dpending 0 0", "dclient 0",
            "recvreq 0 0", "cclient 1 -", "send 1 1 2", "recvreq 0 1", "dpending 1 1", "dclient 1", "upd s 0"]


CEX_LOAN = (["new local 1 2 1 2 1 0 1 0 0 2 1", "cserver 0 1", "cclient 0 -"] +
            [l for i in (1, 2, 3, 4) for l in (f"send 0 {i} {i}0", f"recvreq 0 {i}", f"respond 0 {i} {i}1", f"respond 0 {i} {i}2",
                                               f"dpending 0 {i}", f"dactive 0 {i}")] +
            ["send 0 5 50", "recvreq 0 5", "respond 0 5 51", "respond 0 5 52"])


def classify(case, idx, impl_out, model_out):
    op = case[idx][0].split(" ")
    if "ORACLE[" in impl_out:
        msgs = [m.strip() for m in impl_out.split("ORACLE[", 1)[1].rstrip("]").split(";")]
        for m in msgs:
            return "oracle:" + ORACLES.get(m, m.replace(" ", "-")[:60])
        return None
    if impl_out == "PANIC":
        return "panic-not-in-model:" + op[0]
    if model_out == "PANIC":
        return "model-panic-only:" + op[0]
    if op[0] == "new":
        return "service-create"
    return "result:" + op[0]


def make_line_oracle():
    """evaluated on the implementation's answers alone (per case: the pending responses and the outstanding
    loans the implementation confirmed): a loan refused for lack of memory while the client is inside its
    limits; a loan refused with ExceedsMaxLoans while fewer loans than the limit are outstanding"""
    state = {}

    def f(case, idx, base):
        op = case[idx][0].split(" ")
        if op[0] == "new":
            state.clear()
            state["max"] = max(1, int(op[4]))
            state["mc"] = max(1, int(op[2]))
            state["L"] = max(1, int(op[10]))
            state["pend"] = {}
            state["cmax"] = {}
            state["ml"] = {}          # server -> max_loaned_responses_per_request
            state["rl"] = {}          # (server, loan label) -> active request label
            state["ql"] = {}          # client -> outstanding request loans
            return None
        if "pend" not in state:
            return None
        if op[0] == "cclient" and base == "ok":
            state["cmax"][op[1]] = state["max"] if op[2] == "-" else max(1, int(op[2]))
        if op[0] == "cserver" and base == "ok":
            state["ml"][op[1]] = 2 if op[2] == "-" else max(1, int(op[2]))
        if op[0] in ("send", "qsend") and base.startswith("ok:"):
            state["pend"].setdefault(op[1], set()).add(op[2] if op[0] == "send" else op[3])
        if op[0] == "dpending" and base == "ok":
            state["pend"].get(op[1], set()).discard(op[2])
        if op[0] == "qloan" and base == "ok":
            state["ql"].setdefault(op[1], set()).add(op[2])
        if op[0] == "qsend" and base not in ("none", "dup") or op[0] == "qdrop" and base == "ok":
            state["ql"].get(op[1], set()).discard(op[2])
        if op[0] == "rloan" and base == "ok":
            state["rl"][(op[1], op[3])] = op[2]
        if op[0] in ("rsend", "rdrop") and base != "none":
            state["rl"].pop((op[1], op[2]), None)
        if op[0] in ("respond", "rloan") and base == "err:loan:ExceedsMaxLoans":
            # fewer response loans of this active request outstanding than the server allows per request, and fewer
            # loans of the whole server outstanding than its sender allows (per-request limit x max active requests x
            # max clients; loans kept beyond the drop of their active request still count): a loan counter got stuck
            # (fixed by 1fb407e: must not come back)
            ml = state["ml"].get(op[1], 2)
            out = sum(1 for (s, _), a in state["rl"].items() if s == op[1] and a == op[2])
            total = sum(1 for (s, _) in state["rl"] if s == op[1])
            if out < ml and total < ml * state["max"] * state["mc"]:
                return "line:loan-counter-stuck-after-failed-allocation"
        if op[0] in ("send", "qloan") and base == "err:loan:ExceedsMaxLoans":
            if len(state["ql"].get(op[1], ())) < state["L"]:
                return "line:request-loan-refused-below-max-loaned-requests"
        if op[0] in ("send", "qloan") and base == "err:loan:OutOfMemory":
            if len(state["pend"].get(op[1], ())) < state["cmax"].get(op[1], state["max"]):
                return "line:loan-out-of-memory-within-limits"
        return None
    return f


def replay_known(ctx, name, ops, expect_line, expect_text, key, what):
    """replays a recorded history on the real code and on the model; both must still show the behaviour"""
    impl, model = core.replay_case("reqres", ops)
    ctx.evaluations += 1
    shown = len(impl) > expect_line and expect_text in impl[expect_line]
    agree = [i.split(" ORACLE[", 1)[0] for i in impl] == model[: len(impl)]
    ctx.extra.setdefault("replayed_histories", {})[name] = dict(ops=ops, impl=impl, model=model, shows=shown, model_agrees=agree)
    if not agree:
        ctx.violation(f"reqres.replay:{name}:model-differs", f"recorded history `{name}`: implementation and model differ",
                      dict(engine="seqdiff", component="reqres", ops=ops, impl=impl, model=model))
    if shown:
        ctx.violation(key, what, dict(engine="seqdiff", component="reqres", ops=ops, impl=impl, model=model))
    else:
        ctx.notes.append(f"recorded history `{name}` no longer shows `{expect_text}` (fixed upstream?)")
    ctx.log(f"[replay] {name}: behaviour {'reproduced' if shown else 'NOT reproduced'} on the implementation, model {'agrees' if agree else 'DIFFERS'}")


def regression_case(ctx, name, ops, expect, key, what):
    """a history that used to show a (since repaired) defect: implementation and model must agree and the
    lines in `expect` (index -> output) must read as given; otherwise the defect is back: VIOLATION"""
    impl, model = core.replay_case("reqres", ops)
    ctx.evaluations += 1
    base = [i.split(" ORACLE[", 1)[0] for i in impl]
    agree = base == model[: len(impl)] and len(impl) == len(ops)
    good = all(len(base) > (i % len(ops)) and base[i] == o for i, o in expect.items())
    ctx.extra.setdefault("regression_histories", {})[name] = dict(ops=ops, impl=impl, model=model, as_repaired=good, model_agrees=agree)
    if not agree:
        ctx.violation(f"reqres.regression:{name}:model-differs", f"regression history `{name}`: implementation and model differ",
                      dict(engine="seqdiff", component="reqres", ops=ops, impl=impl, model=model))
    if not good:
        ctx.violation(key, what, dict(engine="seqdiff", component="reqres", ops=ops, impl=impl, model=model))
    ctx.log(f"[regression] {name}: {'as repaired' if good else 'DEFECT IS BACK'} on the implementation, model {'agrees' if agree else 'DIFFERS'}")


def wrap_history(ms, act, cmax, loans, answer, probe_first):
    """channel-id wrap-around with the first active request still held (see `wrap` generator): the request sent
    last reuses channel 0 of the client; returns (ops, expectations)"""
    channels = ms * 2 * cmax + loans
    ops = [f"new local 1 {ms} {act} 1 1 0 0 0 {loans} 1 1", "cserver 0 -", f"cclient 0 {'-' if cmax == act else cmax}",
           "send 0 0 1", "recvreq 0 0", "dpending 0 0"]
    drain = act >= 2          # with max active requests 1 the server cannot receive while it holds the first request
    for r in range(1, channels):
        ops += [f"send 0 {r} {r + 1}"] + ([f"recvreq 0 {r}", f"dactive 0 {r}"] if drain else []) + [f"dpending 0 {r}"]
    rn = channels
    ops.append(f"send 0 {rn} {rn + 1}")
    exp = {}
    if probe_first:
        exp[len(ops)] = "true"; ops.append(f"connected 0 {rn}")
    if answer:
        # the old active request answers: its pending response is gone, nothing may arrive at the new request
        exp[len(ops)] = "ok"; ops.append("respond 0 0 100")
        exp[len(ops)] = "none"; ops.append(f"recvresp 0 {rn}")
        exp[len(ops)] = "false"; ops.append("aconnected 0 0")
    exp[len(ops)] = "ok"; ops.append("dactive 0 0")
    exp[len(ops)] = "true"; ops.append(f"connected 0 {rn}")
    if drain:
        ops += [f"recvreq 0 {rn}", f"respond 0 {rn} 200"]
        exp[len(ops)] = "some:0:200"; ops.append(f"recvresp 0 {rn}")
    return ops, exp


def preloan_resp_history(buf, bor, k):
    """k responses loaned up front for one active request, sent one by one, each received and released"""
    ops = [f"new local 1 1 1 {buf} {bor} 0 0 0 1 2 2", f"cserver 0 {k}", "cclient 0 -", "send 0 0 1", "recvreq 0 0"]
    ops += [f"rloan 0 0 {l}" for l in range(k)]
    exp = {}
    for l in range(k):
        ops.append(f"rsend 0 {l} {10 + l}")
        exp[len(ops)] = f"some:0:{10 + l}"; ops.append("recvresp 0 0")
        exp[len(ops)] = "ok"; ops.append("dresp 0 0")
    exp[len(ops)] = "none"; ops.append("recvresp 0 0")
    ops.append("respond 0 0 99")
    exp[len(ops)] = "some:0:99"; ops.append("recvresp 0 0")
    return ops, exp


def preloan_req_history(act, k):
    """k requests loaned up front, sent one by one, each received, released and its pending response dropped"""
    ops = [f"new local 1 1 {act} 1 1 0 0 0 {k} 2 2", "cserver 0 -", "cclient 0 -"]
    ops += [f"qloan 0 {l}" for l in range(k)]
    exp = {}
    for l in range(k):
        exp[len(ops)] = "ok:1"; ops.append(f"qsend 0 {l} {l} {10 + l}")
        exp[len(ops)] = f"some:0:{10 + l}"; ops.append(f"recvreq 0 {l}")
        ops += [f"dactive 0 {l}", f"dpending 0 {l}"]
    exp[len(ops)] = "none"; ops.append(f"recvreq 0 {k}")
    exp[len(ops)] = "ok:1"; ops.append("send 0 90 99")
    exp[len(ops)] = "some:0:99"; ops.append("recvreq 0 90")
    return ops, exp


FIXED = (
    [(f"channel-wrap-ms{ms}-a{act}-c{cmax}-l{loans}{'-answered' if ans else ''}{'-probed' if pf else ''}", wrap_history(ms, act, cmax, loans, ans, pf))
     for (ms, act, cmax, loans) in ((1, 1, 1, 1), (1, 1, 1, 2), (2, 1, 1, 1), (1, 2, 1, 1), (1, 2, 2, 1)) for ans in (False, True) for pf in (True,)] +
    [(f"responses-loaned-up-front-b{b}-r{r}-k{k}", preloan_resp_history(b, r, k)) for (b, r, k) in ((1, 1, 4), (1, 1, 5), (2, 1, 5), (1, 2, 5))] +
    [(f"requests-loaned-up-front-a{a}-k{k}", preloan_req_history(a, k)) for (a, k) in ((1, 4), (1, 5), (2, 6))])


def fixed_histories(ctx):
    """fixed scenarios of history classes that random generation reaches rarely; every line is compared with the
    model and the lines that carry the point of the scenario with the expected answer"""
    for name, (ops, exp) in FIXED:
        regression_case(ctx, name, ops, exp, f"reqres.fixed:{name}", f"fixed scenario `{name}`: a line does not read as expected "
                        + "; ".join(f"[{i}] {ops[i]} => {o}" for i, o in sorted(exp.items())))


def cleanup_leftovers():
    """cases that end in a (modelled) fatal panic leak their node / service / connection files: the harness
    forgets the poisoned objects.  Everything this component creates is prefixed `vr<pid>_`; entries of
    processes that no longer exist are removed."""
    import os, re, shutil
    pat = re.compile(r"^vr([0-9]+)_")
    n = 0
    for root in ("/dev/shm", "/tmp/iceoryx2"):
        for d, dirs, files in os.walk(root, topdown=False):
            for name in files + dirs:
                m = pat.match(name)
                if m and not os.path.exists(f"/proc/{m.group(1)}"):
                    p = os.path.join(d, name)
                    try:
                        shutil.rmtree(p) if os.path.isdir(p) and not os.path.islink(p) else os.remove(p)
                        n += 1
                    except OSError:
                        pass
    return n


def shrink_new(ctx):
    """delta-debugs the recorded case of every violation that is not a known finding (the differential runs
    themselves do not shrink: most mismatch classes of this check are known findings)"""
    import json
    for v in ctx.violations:
        if v.get("nfi") or not v["key"].startswith("reqres."):
            continue
        try:
            obj = json.load(open(v["replay"]))
            suffix = v["key"].split(":", 1)[1]
            lo = make_line_oracle()

            def same(c2, i2, io, mo):
                base = io.split(" ORACLE[", 1)[0]
                if lo(c2, i2, base) == suffix:
                    return True
                if base != io:
                    return classify(c2, i2, io, mo) == suffix
                return base != mo and classify(c2, i2, base, mo) == suffix
            ops = core.shrink_case("reqres", obj["ops"], same, every_line=True)
            obj["ops"] = ops
            obj["impl"], obj["model"] = core.replay_case("reqres", ops)
            json.dump(obj, open(v["replay"], "w"), indent=1)
        except Exception as e:   # shrinking is a convenience
            ctx.notes.append(f"shrinking of {v['key']} failed: {e}")


def run(ctx):
    # the findings of this check are registered in /verif/known_findings.json (property C11)
    # composition level: call orders regenerated from /repo, witness search (the theorems are built by core.prove below)
    compose.compose_part(ctx)
    core.prove(ctx)
    drv = core.build_driver(ctx)
    ok, err = core.build_harness(ctx)
    if not ok:
        ctx.violation("harness-build", "harness does not build against the current tree", dict(engine="cargo", stderr=err[-3000:]), nfi=True)
        return core.finish(ctx)
    if drv:
        quick = ctx.tier == "quick"
        lo = make_line_oracle()
        core.diff_component(ctx, "reqres", ["gen", "--exhaustive", 3 if quick else 4], classify, label="reqres.exhaustive", shrink=False, line_oracle=lo)
        shrink = False       # classes that are known findings are not worth shrinking; new ones are shrunk below
        core.diff_component(ctx, "reqres", ["gen", "--seed", ctx.seed, "--cases", 1200 if quick else 6000, "--len", 80 if quick else 120],
                            classify, label="reqres.random", line_oracle=lo, shrink=shrink)
        core.diff_component(ctx, "reqres", ["gen", "--seed", ctx.seed + 7, "--cases", 500 if quick else 6000, "--len", 120 if quick else 200, "sat"],
                            classify, label="reqres.saturation", line_oracle=lo, shrink=shrink)
        core.diff_component(ctx, "reqres", ["gen", "--seed", ctx.seed + 11, "--cases", 800 if quick else 4000, "--len", 100 if quick else 140, "churn"],
                            classify, label="reqres.churn", line_oracle=lo, shrink=shrink)
        core.diff_component(ctx, "reqres", ["gen", "--seed", ctx.seed + 13, "--cases", 100 if quick else 400, "--len", 60 if quick else 100, "ipc"],
                            classify, label="reqres.ipc", line_oracle=lo, shrink=shrink)
        # samples loaned up front and sent later (two-step calls), channel-id wrap-around under a held active request
        core.diff_component(ctx, "reqres", ["gen", "--seed", ctx.seed + 17, "--cases", 400 if quick else 4000, "--len", 100 if quick else 160, "loans"],
                            classify, label="reqres.loans", line_oracle=lo, shrink=shrink)
        core.diff_component(ctx, "reqres", ["gen", "--seed", ctx.seed + 19, "--cases", 300 if quick else 3000, "preloan"],
                            classify, label="reqres.preloan", line_oracle=lo, shrink=shrink)
        core.diff_component(ctx, "reqres", ["gen", "--seed", ctx.seed + 23, "--cases", 400 if quick else 4000, "wrap"],
                            classify, label="reqres.wrap", line_oracle=lo, shrink=shrink)
        core.diff_component(ctx, "reqres", ["gen", "--seed", ctx.seed + 29, "--cases", 60 if quick else 400, "wrap", "ipc"],
                            classify, label="reqres.wrap-ipc", line_oracle=lo, shrink=shrink)
        fixed_histories(ctx)
        shrink_new(ctx)
        replay_known(ctx, "cross-client-routing", CEX_ROUTING, 10, "response delivered to a request of another client",
                     "reqres.replay:oracle:response-delivered-to-a-request-of-another-client", LOCAL_KNOWN[0]["what"])
        # repaired in /repo (901028c, 1fb407e): the histories stay as regression cases
        regression_case(ctx, "non-fire-and-forget-borrow-leak", CEX_LEAK, {7: "none", -1: "ok"}, "reqres.replay:panic:leaked-borrow-expired-buffer",
                        "the borrow leak of Server::receive (fixed by 901028c) is back: update_connections ends in the fatal panic "
                        "'Expired connection buffer exceeded' although the server holds one request of one vanished client")
        regression_case(ctx, "loan-counter-after-failed-allocation", CEX_LOAN, {-2: "err:loan:OutOfMemory", -1: "err:loan:OutOfMemory"},
                        "reqres.replay:line:loan-counter-stuck-after-failed-allocation",
                        "the stuck loan counter of ActiveRequest::loan (fixed by 1fb407e) is back: after a loan that failed with OutOfMemory the "
                        "active request answers ExceedsMaxLoans")
        ctx.extra["leftover_files_removed"] = cleanup_leftovers()
    return core.finish(ctx, level="proof", rule=RULE + "; " + compose.rule(ctx), extra_assumptions=list(ASSUME) + compose.ASSUMPTIONS)


RULE = ("real Client / Server ports of a request-response service driven through the public API, one call per line: create/drop client (max_active_requests "
        "option) and server (max_loaned_responses_per_request option), loan+write+send request (pending response kept), Server::receive (active request "
        "kept), loan+write+send response, the same in two steps (qloan / qsend / qdrop of a kept RequestMut, rloan / rsend / rdrop of a kept ResponseMut: "
        "several loans outstanding, sent in any order, also after the active request was dropped), drop of active request / pending response / response / "
        "client / server in any order (objects outlive their ports), PendingResponse::receive / is_connected / has_response / set_disconnect_hint, ActiveRequest::is_connected / has_disconnect_hint, "
        "Server::has_requests, update_connections; services with max clients 0..3, max servers 0..2, max active requests 0..3, response buffer 0..3, "
        "max borrowed responses 0..3, max loaned requests 0..5, max loaned responses per request 0..5, safe overflow for requests / responses on/off, fire-and-forget on/off, expired-connection "
        "buffers 1..3, strategy DiscardData; local and ipc variants. exhaustive: every sequence of 3 (quick) / 4 (thorough) calls from a 19-call alphabet "
        "after a fixed prefix, 4 configurations; random: mostly-valid histories from a generator that guesses the state; saturation: limits kept full, "
        "answered requests whose responses are never fetched; churn: clients that come, send and go completely while servers still hold their requests; loans: two-step calls favoured, small buffers, loan limits "
        "3..5; preloan: k samples loaned up front (k around and beyond the completion-queue capacity buffer + max borrowed + 1), then sent one at a time while "
        "the other side receives and releases each, responses and requests, also with the active request dropped first; wrap: for every small channel count "
        "(max servers 1..2 x max active 1..2 x max loaned 1..2, client limit below the service limit) the server keeps the first active request while the "
        "client cycles through all its channel ids until a new request reuses channel 0, then connected / aconnected / respond / recvresp / dactive in random "
        "order, also with responses in flight on the reused channel; fixed scenarios of both classes with the expected answers. "
        "Every result (values, origins, recipient counts, error kinds, panics) compared with the L1 model; harness oracles independent of the model: "
        "book of who sent which tag for which request (wrong pending response / twice / out of order / wrong origin), canary re-read of everything held, "
        "limit counters; line oracles: loan refused for lack of memory inside the limits, loan refused with ExceedsMaxLoans below the loan limit. distinct = distinct output vectors of cases with > 2 ops")

ASSUME = ["every API call is one atomic step of the L1 model (concurrency below this level: C03, C09, C13)",
          "chunk contents travel with the queue entry in the model: contents of a chunk do not change between send and release (C02's subject; the harness "
          "re-reads every held request / response after every call)",
          "request ids do not wrap (counter modulo 2^62 in the code, unbounded in the model)",
          "u64 payloads, static data segments, backpressure strategy DiscardData (the blocking strategies spin on the same try_send)",
          "a kept loan is written and sent in one step (write_payload + send of the RequestMutUninit / ResponseMutUninit; the initialized-but-unsent state is "
          "not a separate step)",
          "disconnect visibility (d) is proved for the connections in the dropping port's storage at the time of the drop and by request-id uniqueness; "
          "that a closed channel word stays closed across later re-connections is not proved - it is checked (executable predicate `s1ok` in Driver/ReqRes.lean: a response "
          "channel carries a request id only while a pending response of the receiving client owns channel and id) on every model state the differential run reaches"]
