"""Port-level part of C05 (events: no lost wake-up, no phantom event), of C08 for the EVENT pattern (max notifiers,
max listeners, max nodes, event id max value) and the C17 flavour (drop order) — component `eventports`:
the real Notifier / Listener ports against the L1 model `Iox2/Model/EventPorts.lean`.

Called from the property plugins:  `import pC05ports; pC05ports.ports_part(ctx, "C05" | "C08" | "C17")`
(after `core.prove(ctx)`; the driver and the harness are built here if they are not yet).
Theorems: `Iox2/Props/C05Ports.lean` (picked up by C05), `Iox2/Props/C08Event.lean` (picked up by C08; contains the
C17-flavour theorems `c17_*` too)."""
import core

# harness oracles (independent of the model)
LOST = "listener misses an id whose notify returned ok while it existed"
PHANTOM = "listener reports an id nobody notified since its last wait"
TWICE = "id reported twice in one wait"
COUNT = "notify count differs from the number of existing listeners"
KEYS = {LOST: "lost-notification", PHANTOM: "phantom-id", TWICE: "id-reported-twice", COUNT: "notify-count"}


def make_classify(relevant):
    def classify(case, idx, impl_out, model_out):
        op = case[idx][0].split(" ")
        if "ORACLE[" in impl_out:
            msgs = [m.strip() for m in impl_out.split("ORACLE[", 1)[1].rstrip("]").split(";")]
            for m in msgs:
                if m in relevant or m not in KEYS:
                    return "oracle:" + KEYS.get(m, m.replace(" ", "-")[:50])
            return None
        if impl_out == "PANIC":
            return "panic:" + op[0]
        if op[0] == "new":
            return "service-create"
        return "result:" + op[0]
    return classify


# ------------------------------------------------------------------------------------------------------------------
# C08: the limits, judged on the implementation's answers alone (whatever the model says)

_lim_state = {}


def _limits_track(case):
    """per case: replays the implementation's own answers and derives, for every line, how many notifiers / listeners /
    nodes hold a registry entry just before it"""
    key = id(case)
    st = _lim_state.get(key)
    if st is not None and st["case"] is case:
        return st["before"]
    t = case[0][0].split(" ")
    clamp = lambda s: max(1, int(s))
    cfg = dict(mn=clamp(t[2]), ml=clamp(t[3]), idmax=int(t[4]), nodes=clamp(t[8]))
    nots, liss = {}, {}          # label -> node, ports that hold a registry entry (alive, or of a dead node not cleaned up)
    parts = {0: dict(svc=True, dead=False)}   # node -> service handle exists / died
    cleaned = set()
    before = []
    for (op, out) in case:
        o = op.split(" ")
        base = out.split(" ORACLE[", 1)[0]

        def registered():
            return sum(1 for k, p in parts.items() if k not in cleaned and (p["svc"] or k in nots.values() or k in liss.values()))
        before.append(dict(cfg=cfg, n=len(nots), l=len(liss), nodes=registered()))
        if o[0] == "cnot" and base == "ok":
            nots[int(o[1])] = int(o[3])
        elif o[0] == "clis" and base == "ok":
            liss[int(o[1])] = int(o[2])
        elif o[0] == "dnot" and base == "ok":
            nots.pop(int(o[1]), None)
        elif o[0] == "dlis" and base == "ok":
            liss.pop(int(o[1]), None)
        elif o[0] == "open" and base == "ok":
            parts[int(o[1])] = dict(svc=True, dead=False)
        elif o[0] == "dsvc" and base == "ok":
            parts[int(o[1])]["svc"] = False
        elif o[0] == "kill" and base == "ok":
            parts[int(o[1])]["dead"] = True
        elif o[0] == "cleanup" and base.startswith("c="):
            for k, p in parts.items():
                if p["dead"]:
                    cleaned.add(k)
                    p["svc"] = False
            for d in (nots, liss):
                for lab in [a for a, k in d.items() if k in cleaned]:
                    d.pop(lab)
    _lim_state.clear()
    _lim_state[key] = dict(case=case, before=before)
    return before


def limits_oracle(case, idx, base):
    """every attempt to exceed a limit is refused with the documented error, every attempt inside the limit succeeds
    (so: a refused attempt left nothing behind, and capacity is available again as soon as it is freed)"""
    o = case[idx][0].split(" ")
    if base == "PANIC":
        return "oracle:panic:" + o[0]
    if o[0] not in ("cnot", "clis", "open", "notifyid", "count"):
        return None
    b = _limits_track(case)[idx]
    cfg = b["cfg"]
    if o[0] == "cnot" and (base == "ok" or base.startswith("err:")):
        if base == "ok" and b["n"] >= cfg["mn"]:
            return "oracle:max-notifiers-exceeded"
        if base != "ok" and (b["n"] < cfg["mn"] or base != "err:NotifierCreateError::ExceedsMaxSupportedNotifiers"):
            return "oracle:notifier-refused-inside-limit" if b["n"] < cfg["mn"] else "oracle:notifier-refusal-error-kind"
    if o[0] == "clis" and (base == "ok" or base.startswith("err:")):
        if base == "ok" and b["l"] >= cfg["ml"]:
            return "oracle:max-listeners-exceeded"
        if base != "ok" and (b["l"] < cfg["ml"] or base != "err:ListenerCreateError::ExceedsMaxSupportedListeners"):
            return "oracle:listener-refused-inside-limit" if b["l"] < cfg["ml"] else "oracle:listener-refusal-error-kind"
    if o[0] == "open" and (base == "ok" or base.startswith("err:")):
        if base == "ok" and b["nodes"] >= cfg["nodes"]:
            return "oracle:max-nodes-exceeded"
        if base == "err:EventOpenError::ExceedsMaxNumberOfNodes" and b["nodes"] < cfg["nodes"]:
            return "oracle:node-refused-inside-limit"
        if base == "err:EventOpenError::DoesNotExist" and b["nodes"] > 0:
            return "oracle:existing-service-reported-missing"
        if base.startswith("err:") and base not in ("err:EventOpenError::ExceedsMaxNumberOfNodes", "err:EventOpenError::DoesNotExist"):
            return "oracle:open-refusal-error-kind"
    if o[0] == "notifyid" and base != "none":
        oob = int(o[2]) > cfg["idmax"]
        if oob != (base == "err:NotifierNotifyError::EventIdOutOfBounds"):
            return "oracle:event-id-bound-not-enforced" if oob else "oracle:event-id-refused-inside-bound"
    if o[0] == "count" and base.startswith("n="):
        n, l = [int(x.split("=")[1]) for x in base.split(",")]
        if n != b["n"] or l != b["l"] or n > cfg["mn"] or l > cfg["ml"]:
            return "oracle:registered-port-count"
    return None


# ------------------------------------------------------------------------------------------------------------------
# C17 flavour

def shutdown_oracle(case, idx, base):
    """no drop panics; after the last drop (the generator ends every shutdown case with everything dropped and a
    final `ls`) nothing of the case exists any more"""
    op = case[idx][0].split(" ")[0]
    if base == "PANIC":
        return "oracle:panic-in-shutdown:" + op
    if op == "ls" and idx == len(case) - 1 and base != "-":
        kinds = sorted(k.split("=")[0] for k in base.split(","))
        return "oracle:leftover-after-shutdown:" + "+".join(kinds)
    return None


def panic_oracle(case, idx, base):
    if base == "PANIC":
        return "oracle:panic:" + case[idx][0].split(" ")[0]
    return None


# ------------------------------------------------------------------------------------------------------------------

def ports_part(ctx, which):
    """runs the differential of component `eventports` with the oracles relevant for property `which`"""
    drv = core.build_driver(ctx)
    ok, err = core.build_harness(ctx)
    if not ok:
        ctx.violation("harness-build", "harness does not build against the current tree", dict(engine="cargo", stderr=err[-3000:]), nfi=True)
        return False
    if not drv:
        return False
    quick = ctx.tier == "quick"
    D = core.diff_component
    if which == "C05":
        cl = make_classify({LOST, PHANTOM, TWICE, COUNT})
        D(ctx, "eventports", ["gen", "--exhaustive", 2 if quick else 3], cl, label="eventports.exhaustive", shrink=False, line_oracle=panic_oracle)
        # the single-listener API (`keys` = for_each_listener, `notifyone` = notify_single_listener… with a remembered key, also a stale one)
        D(ctx, "eventports", ["gen", "--exhaustive", 2 if quick else 3, "single"], cl, label="eventports.exhaustive-single", shrink=False, line_oracle=panic_oracle)
        D(ctx, "eventports", ["gen", "--seed", ctx.seed + 3, "--cases", 700 if quick else 5000, "--len", 60 if quick else 80, "single"], cl,
          label="eventports.single", line_oracle=panic_oracle)
        D(ctx, "eventports", ["gen", "--seed", ctx.seed, "--cases", 700 if quick else 8000, "--len", 60 if quick else 80], cl,
          label="eventports.random", line_oracle=panic_oracle)
        D(ctx, "eventports", ["gen", "--seed", ctx.seed + 5, "--cases", 90 if quick else 1500, "--len", 40 if quick else 60, "single", "ipc"], cl,
          label="eventports.ipc", line_oracle=panic_oracle)
        if not quick:
            D(ctx, "eventports", ["gen", "--exhaustive", 2, "ipc"], cl, label="eventports.exhaustive-ipc", shrink=False, line_oracle=panic_oracle)
    elif which == "C08":
        cl = make_classify(set())
        D(ctx, "eventports", ["gen", "--seed", ctx.seed + 1, "--cases", 1200 if quick else 8000, "--len", 60 if quick else 80, "limits"], cl,
          label="eventports.limits", line_oracle=limits_oracle)
        D(ctx, "eventports", ["gen", "--seed", ctx.seed + 2, "--cases", 90 if quick else 1200, "--len", 40 if quick else 60, "limits", "ipc"], cl,
          label="eventports.limits-ipc", line_oracle=limits_oracle)
        D(ctx, "eventports", ["gen", "--exhaustive", 2 if quick else 3], cl, label="eventports.exhaustive", shrink=False, line_oracle=limits_oracle)
    elif which == "C17":
        cl = make_classify(set())
        D(ctx, "eventports", ["gen", "--exhaustive", 1, "shutdown"], cl, label="eventports.shutdown-permutations-local", shrink=False,
          line_oracle=shutdown_oracle)
        if quick:
            D(ctx, "eventports", ["gen", "--seed", ctx.seed, "--cases", 150, "shutdown", "ipc"], cl, label="eventports.shutdown-random",
              line_oracle=shutdown_oracle)
        else:
            D(ctx, "eventports", ["gen", "--exhaustive", 1, "shutdown", "ipc"], cl, label="eventports.shutdown-permutations", shrink=False,
              line_oracle=shutdown_oracle)
            D(ctx, "eventports", ["gen", "--seed", ctx.seed, "--cases", 2000, "shutdown", "ipc"], cl, label="eventports.shutdown-random",
              line_oracle=shutdown_oracle)
    else:
        raise ValueError(which)
    return True


RULE = ("eventports: real Notifier / Listener ports of an event service driven through the public API, one call per line, on 1..4 nodes sharing the service: "
        "open the service from a further node, create/drop notifier (default event id) and listener through any node's service handle, notify (default id), "
        "notify_with_custom_event_id (ids 0..event_id_max+1), the single-listener API (generator word `single`: for_each_listener collecting the ListenerKeys, remembered by listener; "
        "notify_single_listener / notify_single_listener_with_custom_event_id with a remembered key, also after the listener was dropped and its registry slot was re-used by another "
        "listener), try_wait / timed_wait (ids only), dynamic_config port counts, drop node handle / service handle in any order, "
        "node death (node, service handle and ports abandoned as in the conformance tests) and try_cleanup_dead_nodes by a surviving node, `ls` of the case's files by kind (ipc); "
        "services with max notifiers / listeners / nodes 0..3 (0 is adjusted to 1), event_id_max_value 0..4, notifier created / dropped / dead events unset or 0..max+1 "
        "(also outside the bound), no deadline / a deadline never missed / a deadline always missed; local and ipc variants. "
        "random: mostly-valid histories; limits: small limits, creation-heavy; exhaustive: every sequence of 2 (quick) / 3 (thorough) calls from a 15-call alphabet after a fixed "
        "prefix for 3 configurations; shutdown: every permutation of the drop order of node handle, service handle, 2 notifiers, 2 listeners (720) for 2 configurations with the "
        "survivors exercised, plus random object graphs on 1..2 nodes with random drop orders. Every result (notify counts, reported id sets, error kinds, port counts, cleanup "
        "counts, files by kind) compared with the L1 model; harness oracles independent of the model: a wait reports no id that no notify / lifecycle emission produced since the "
        "listener's last wait (an id sent with ANOTHER listener's key counts as not sent to it), every id whose notify / single-listener notify returned ok (or MissedDeadline) while the listener existed is reported by its next wait, no id twice in one wait, the notify "
        "count lies between the live listeners and live + dead-not-yet-cleaned listeners; C08: limits judged on the implementation's answers alone (refused iff the limit is reached, "
        "documented error kind, port counts); C17: no panic, nothing left after the last drop")

ASSUMPTIONS = [
    "every API call is one atomic step of the L1 model; the hand-shake inside one listener's event concept (bit set, trigger, state word) under concurrency is the subject of the "
    "step-level model Iox2/Model/EventProto.lean (C05 proper), a listener's concept is its set of pending ids here (counts are not compared)",
    "dead nodes are cleaned up by the explicit try_cleanup_dead_nodes call only (cleanup_dead_nodes_on_creation / _on_destruction / _on_open switched off in the harness config)",
    "the node registry of the service is modelled by its occupancy (how many nodes hold a service state), not by slots: no observable depends on the slot",
    "blocking_wait, Monofier::notify (same code path as notify_single_listener), port names and attributes are not driven; timed_wait is driven with a non-zero timeout only "
    "(a zero timeout never returns: SO_RCVTIMEO 0, reported as a side finding)",
    "deadline: only the two sequentially observable extremes (never missed: 100000 s; always missed: 1 ns); the elapsed-time arithmetic itself is not modelled",
    "a notifier's connection to a dead listener whose trigger fails is dropped (Disconnected -> remove): modelled (`prune`), observable through for_each_listener / InvalidListenerKey",
]
