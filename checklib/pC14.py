"""C14 — shared-memory data structures are position independent."""
import core, os, json, subprocess, sys
import pC16, pC15


def classify(case, idx, impl_out, model_out):
    ops = [o for (o, _) in case[: idx + 1]]
    after_reloc = "reloc" in ops
    return ("after-relocation:" if after_reloc else "before-relocation:") + case[idx][0].split(" ")[0]


def run(ctx):
    # 1. regenerate the field table from the source; a structure the translator cannot account for is a violation
    p = subprocess.run([sys.executable, os.path.join(core.VERIF, "extract", "reloc_layout.py")], capture_output=True, text=True)
    if p.returncode != 0:
        ctx.violation("layout-translator", "the layout translator cannot account for the current source: " + p.stderr.strip()[-400:],
                      dict(engine="translator", stderr=p.stderr[-3000:]), nfi=True)
        return core.finish(ctx)
    summary = json.loads(p.stdout.strip().split("\n")[-1])
    ctx.extra["layout_table"] = summary
    for (s, f, ty) in summary["forbidden"]:
        # the failing input for the theorem: the offending field itself
        ctx.violation(f"layout:forbidden-field:{s}.{f}", f"structure {s} placed in shared memory has a position dependent field `{f}: {ty}` "
                      f"(theorem roots_position_independent no longer holds)", dict(engine="translator", struct=s, field=f, type=ty))
    core.prove(ctx)
    drv = core.build_driver(ctx)
    ok, err = core.build_harness(ctx)
    okt, log = core.build_trace(ctx)
    if not ok or not okt:
        ctx.violation("harness-build", "harness does not build against the current tree", dict(engine="cargo", stderr=(err + log)[-3000:]), nfi=True)
        return core.finish(ctx)
    if drv:
        quick = ctx.tier == "quick"
        core.diff_component(ctx, "relptr", ["gen", "--seed", ctx.seed, "--cases", 3000 if quick else 40000, "--len", 30], classify, label="relptr")
        for comp in ["vec", "queue", "slotmap", "flatmap", "string"]:
            core.diff_component(ctx, comp, ["gen", "--seed", ctx.seed, "--cases", 4000 if quick else 50000, "--len", 40 if quick else 60, "reloc"], classify,
                                label=f"{comp}.reloc")
            core.diff_component(ctx, comp, ["gen", "--exhaustive", 3 if quick else 4, "reloc"], classify, label=f"{comp}.reloc-exhaustive", shrink=False)
        # bit set, counting bit set, used-chunk list in a block that moves at arbitrary points
        core.diff_component(ctx, "shmsets", ["gen", "--seed", ctx.seed, "--cases", 4000 if quick else 50000, "--len", 30 if quick else 50], classify, label="shmsets.reloc")
        # lock-free structures: every logical thread works through its own mapping of one memory object
        # (memfd mapped once per thread); an access through a foreign mapping is recorded and breaks the trace
        for comp in ["spsc", "overflow", "uis", "ruis", "container"]:
            core.trace_component(ctx, comp, ["random", "--seed", ctx.seed + 3, "--cases", 10 if quick else 60, "--progs", 60 if quick else 500], label=f"{comp}.aliased")
    return core.finish(
        ctx, level="proof",
        rule="(1) field table of the 15 shared-memory structures regenerated from /repo (translator), decided by the theorem; (2) RelocatablePointer objects in a block that is "
             "copied byte-for-byte to a fresh address at arbitrary points (old block poisoned), compared with the address-free model; (3) RelocatableVec / Queue / SlotMap / FlatMap / "
             "String: random and exhaustive histories with a relocation of the whole block after random (every, in exhaustive mode) operation(s), compared with the C16 models; "
             "(4) index queues, unique index sets, registry container: every logical thread of the atomic-step traces works through its own mapping of the same memory (memfd "
             "mapped per thread) — traces are compared with the L2 models by block offset, any access through another thread's mapping is flagged. distinct = distinct output vectors / interleavings",
        extra_assumptions=["element types are the user's (trait ZeroCopySend): `payload` fields are outside the table",
                           "the pool allocator keeps its creator's base address as a NUMBER (whitelisted pair of fields, see DESIGN.md); its offsets are compared under relocation by the C15 runs",
                           "bit set, counting bit set and used-chunk list are relocated in sequential histories only (component shmsets); their concurrent use is traced in C05 without alias mappings",
                           "the translator's parser (regular expressions over struct definitions, fails closed on unknown types) is trusted"])
