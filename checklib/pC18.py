"""C18 — the C binding is a faithful projection of the Rust API.

Part A (decided by theorems): error tables translated from the sources on every run
    extract/ffi_errors.py  ->  lean/Iox2/Gen/FfiErrors.lean (+ .json/.tsv)  ->  Iox2/Props/C18.lean
  plus a Python re-check of the same table that names the offending entries when a theorem breaks.
Part B (correspondence by differential run): harness component `ffi`, every call through the Rust API,
  the C API and both mixed pairings; the Rust world is the reference (no Lean model: the generic
  diff_component compares with a model output, here the comparison is between the worlds of one line,
  so this plugin has its own loop; harness oracle + an independent re-check of every line here)."""
import core, os, re, sys, json, subprocess, hashlib

sys.path.insert(0, os.path.join(core.VERIF, "extract"))
GEN = os.path.join(core.LEAN, "Iox2", "Gen")
PROPS = os.path.join(core.LEAN, "Iox2", "Props", "C18.lean")

# statement of analyze() -> (theorem that states it, exception list in C18.lean or None, how an entry is keyed)
STATEMENTS = {
    "wellFormed": ("Iox2.C18.table_well_formed", None),
    "codesDistinct": ("Iox2.C18.codes_distinct", None),
    "codesNonzero": ("Iox2.C18.codes_nonzero_partial", "nonzeroExceptions"),
    "hasStringFn": ("Iox2.C18.has_string_fn_partial", "stringFnExceptions"),
    "namesNonempty": ("Iox2.C18.names_nonempty_partial", "nameExceptions"),
    "namesDistinct": ("Iox2.C18.names_distinct_partial", "duplicateNameExceptions"),
    "mappingTotal": ("Iox2.C18.mapping_total", None),
    "mappingInjective": ("Iox2.C18.mapping_injective", None),
    "mappingOnto": ("Iox2.C18.mapping_onto_partial", "ontoExceptions"),
}

# All findings of this check are registered in /verif/known_findings.json (property C18): Part A under
# `table:<statement>:<enum>` (one per enum, generated from the exception lists of C18.lean), Part B under
# `ffi*:oracle:…`.  Nothing is exempted locally.
LOCAL_KNOWN_B = []   # registered in /verif/known_findings.json (property C18, keys ffi*:oracle:…)


def translate(ctx):
    p = subprocess.run([sys.executable, os.path.join(core.VERIF, "extract", "ffi_errors.py"), "--repo", core.REPO],
                       capture_output=True, text=True)
    for l in p.stdout.split("\n")[:3]:
        if l:
            ctx.log("[translate] " + l.strip())
    if p.returncode != 0:
        msg = (p.stderr or p.stdout).strip()[-600:]
        ctx.violation("translator:cannot-translate", "extract/ffi_errors.py cannot translate the binding's error tables (fail closed): " + msg,
                      dict(engine="translator", stderr=msg), nfi=True)
        return None
    return json.load(open(os.path.join(GEN, "ffi_errors.json")))


def lean_exception_lists():
    """the `def …Exceptions` lists of C18.lean: name -> list of tuples of strings"""
    src = open(PROPS).read()
    res = {}
    for m in re.finditer(r"^def (\w+Exceptions) : List ([^\n]*):=\s*\n((?:\s+.*\n)+?)(?=\n|\Z)", src, re.M):
        arity = m.group(2).count("Name")
        names = re.findall(r'n! "((?:[^"\\]|\\.)*)"', m.group(3))
        if arity == 0 or len(names) % arity != 0:
            raise RuntimeError(f"cannot read {m.group(1)} of C18.lean")
        res[m.group(1)] = [tuple(names[i:i + arity]) for i in range(0, len(names), arity)]
    return res


def entry_keys(stmt, o):
    """possible exception tuples that cover offending entry `o` of statement `stmt`"""
    if stmt in ("codesNonzero", "namesNonempty", "mappingOnto"):
        return [(o["enum"], o["variant"])]
    if stmt == "hasStringFn":
        return [(o["enum"],)]
    if stmt == "namesDistinct":
        return [(o["enum"], v) for v in o["variants"]]
    if stmt == "mappingTotal":
        return [(o["enum"], o["rustEnum"], o["rustVariant"])]
    if stmt == "mappingInjective":
        return [(o["enum"], o["rustEnum"], v) for v in o["rustVariants"]]
    return []


def recheck_table(ctx, table):
    """Python re-check of every statement of C18.lean on the same table: finds the concrete offending entries.
    Entries listed (by name) in the exception lists of C18.lean are documented refutations; anything else is a
    violation naming the theorem that can no longer hold, with the entries as failing input."""
    import ffi_errors
    off = ffi_errors.analyze(table)
    exc = lean_exception_lists()
    documented = []
    for stmt, entries in off.items():
        thm, lst = STATEMENTS[stmt]
        listed = set(exc.get(lst, [])) if lst else set()
        used = set()
        for o in entries:
            keys = entry_keys(stmt, o)
            hit = [k for k in keys if k in listed]
            if hit:
                used.update(hit)
                documented.append(dict(statement=stmt, theorem=thm, exception=list(hit[0]), entry=o))
                continue
            ident = ":".join(str(x) for x in (keys[0] if keys else (o.get("enum", "?"), o.get("what", "?"))))
            ctx.violation(f"table:{stmt}:{ident}",
                          f"theorem {thm} cannot hold for the current sources: offending entry {json.dumps(o)}",
                          dict(engine="table-recheck", statement=stmt, theorem=thm, offending=o,
                               how_to_replay="python3 /verif/extract/ffi_errors.py && cd /verif/lean && lake build Iox2.Props.C18"))
        for k in sorted(listed - used):
            ctx.violation(f"table:stale-exception:{stmt}:{':'.join(k)}",
                          f"{lst} in Iox2/Props/C18.lean lists {k}, which no longer offends `{stmt}` in the current sources "
                          f"(repaired?): remove it from the list (theorem {thm.replace('_partial', '_exceptions_exact')} breaks)",
                          dict(engine="table-recheck", statement=stmt, exception=list(k)), nfi=True)
        ctx.count(f"table.{stmt}.offending", len(entries))
    ctx.extra["documented_exceptions"] = documented
    # the documented ones are findings about /repo: shown on every run
    groups = {}
    for d in documented:
        groups.setdefault((d["statement"], d["entry"]["enum"]), []).append(d)
    for (stmt, enum), ds in sorted(groups.items()):
        where = ds[0]["entry"].get("where", "")
        names = [":".join(d["exception"][1:]) or d["exception"][0] for d in ds]
        key = f"table:{stmt}:{enum}"
        what = f"{stmt} is false for {enum} ({where}): {', '.join(names[:8])}{' …' if len(names) > 8 else ''} — refuted in Lean ({ds[0]['theorem'].replace('_partial', '_refuted')}), excluded by name in {ds[0]['theorem']}"
        # registered in /verif/known_findings.json under exactly this key; an unregistered one is a violation
        ctx.violation(key, what, dict(engine="table-recheck", statement=stmt, enum=enum, entries=[d["entry"] for d in ds]))
    return off


# ------------------------------------------------------------------------------------------------
# Part B

WORLD_SPLIT = re.compile(r" (?=(?:c|rc|cr)=)")


def load_maps(table):
    rmap, codes = {}, {}
    for e in table["enums"]:
        codes[e["name"]] = {v["name"]: v["code"] for v in e["variants"]}
        for m in e["mappings"]:
            for r in m["table"]:
                rmap[(m["rustEnum"], r["rust"])] = r["c"]
    return rmap, codes


def canon_py(val, rmap):
    """canonical form of one world's outcome (independent re-implementation of the harness's `canon`)"""
    if not val.startswith("err:"):
        return val
    body = val[4:]
    m = re.fullmatch(r"([A-Z][A-Z0-9_]*)\((-?\d+)\)", body)
    if m:
        return "err:" + m.group(1)
    m = re.fullmatch(r"(\w+)::(.+)", body)
    if m and (m.group(1), m.group(2)) in rmap:
        return "err:" + rmap[(m.group(1), m.group(2))]
    return "err?:" + body


def line_check(op, out, rmap):
    """-> finding key or None"""
    base = out.split(" ORACLE[", 1)[0]
    if base in ("no-world", "PANIC") or op.startswith("names") or op.startswith("new names") or op == "fin":
        return "panic" if base == "PANIC" else None
    base = re.sub(r" T=.*$", "", base)
    parts = WORLD_SPLIT.split(base)
    if len(parts) != 4 or not parts[0].startswith("r="):
        return "malformed-line"
    vals = [p.split("=", 1)[1] for p in parts]
    cs = [canon_py(v, rmap) for v in vals]
    if any(c.startswith("err?:") for c in cs):
        return "py:error-identity-not-in-table"
    if len(set(cs)) != 1:
        return "py:worlds-differ"
    return None


def classify_oracle(op, out):
    msg = out.split(" ORACLE[", 1)[1].rstrip("]")
    opn = op.split(" ")[0]
    first = msg.split("; ")[0]
    m = re.match(r"world (\w+) differs from the Rust world: (.*) vs (.*)$", first)
    if m:
        a, b = m.group(2), m.group(3)
        # (the former class `scopy-returns-loan-error-code` was repaired in /repo 5dd19c8: a send_copy error-code
        #  disagreement is an ordinary `worlds-differ:scopy` violation again)
        mask = lambda s: re.sub(r":h[0-9a-f]*:", ":h*:", s)
        if opn == "recv" and a != b and mask(a) == mask(b):
            return "oracle:user-header-not-initialised-by-c-loan"
        return f"oracle:worlds-differ:{opn}"
    if "left" in first and "files" in first:
        return "oracle:leak"
    if "error identity" in first:
        return f"oracle:error-identity:{opn}"
    if "printable names" in first or "string functions" in first:
        return "oracle:printable-names-differ-from-table"
    return "oracle:" + re.sub(r"[^A-Za-z]+", "-", first)[:50]


def replay_ops(ops):
    rc, out, err = core.run_impl("ffi", ["replay"], stdin="\n".join(ops) + "\n")
    return rc, [l for l in out.split("\n") if " => " in l]


def keys_of(lines, rmap):
    ks = []
    for l in lines:
        op, out = l.split(" => ", 1)
        if " ORACLE[" in out:
            ks.append(classify_oracle(op, out))
        k = line_check(op, out, rmap)
        if k:
            ks.append(k + ":" + op.split(" ")[0])
    return ks


def shrink(ops, key, rmap, budget=40):
    cur = list(ops)
    n, tries = 2, 0
    def fails(c):
        nonlocal tries
        tries += 1
        rc, lines = replay_ops(c)
        return rc == 0 and key in keys_of(lines, rmap)
    while len(cur) > 2 and tries < budget:
        body = cur[1:]
        chunk = max(1, len(body) // n)
        reduced = False
        for s in range(0, len(body), chunk):
            cand = [cur[0]] + body[:s] + body[s + chunk:]
            if len(cand) >= 2 and fails(cand):
                cur, n, reduced = cand, max(n - 1, 2), True
                break
        if not reduced:
            if chunk == 1:
                break
            n = min(n * 2, len(body))
    return cur


def diff_ffi(ctx, gen_args, label, rmap, do_shrink=True):
    import time
    t = time.time()
    rc, out, err = core.run_impl("ffi", gen_args, timeout=3000)
    lines = out.split("\n")
    cases = core.split_cases(lines)
    if rc != 0:
        last = cases[-1] if cases else []
        ctx.violation(f"{label}:harness-crash", f"harness for ffi exited {rc} (abort inside the binding? double release?): {err[-300:]}",
                      dict(engine="seqdiff-ffi", component="ffi", args=[str(a) for a in gen_args], stderr=err[-2000:],
                           ops=[op for (op, _) in last], impl=[o for (_, o) in last]))
    bad = {}
    nops = 0
    for c in cases:
        ctx.evaluations += 1
        sig = hashlib.md5("|".join(o for (_, o) in c).encode()).hexdigest()
        if len(c) > 2:
            ctx.distinct.add((label, sig))
        for i, (op, o) in enumerate(c):
            nops += 1
            opn = op.split(" ")[0]
            ctx.count(f"{label}.{opn}")
            r0 = o.split(" ", 1)[0]
            if r0.startswith("r=err:"):
                ctx.count(f"{label}.err.{r0[6:]}")
            keys = []
            if " ORACLE[" in o:
                ctx.count(f"{label}.oracle-hits")
                keys.append(classify_oracle(op, o))
            k = line_check(op, o, rmap)
            harness_says_differ = " ORACLE[" in o and "differs from the Rust world" in o
            if k and not harness_says_differ:
                keys.append(k + ":" + opn)          # seen by the re-check only
            if harness_says_differ and not k:
                keys.append("py:harness-oracle-fired-but-recheck-sees-equal-worlds:" + opn)
            for key in keys:
                if key not in bad:
                    bad[key] = (c, i, o)
    if cases and len(ctx.samples) < 6:
        sc = cases[len(cases) // 2]
        ctx.samples.append({"component": label, "ops": [f"{o} => {r}"[:300] for (o, r) in sc[:12]]})
    ctx.log(f"[ffi] {label}: {len(cases)} cases, {nops} ops x 4 worlds, {len(bad)} finding class(es) ({time.time()-t:.1f}s)")
    for key, (c, i, o) in list(bad.items())[:8]:
        ops = [op for (op, _) in c[: i + 1]]
        if do_shrink and len(ops) > 3:
            ops = shrink(ops, key, rmap)
        rc2, impl = replay_ops(ops)
        what = f"ffi: C API and Rust API differ / oracle failed after `{ops[-1]}`: {(impl[-1] if impl else o)[:400]}"
        obj = dict(engine="seqdiff-ffi", component="ffi", ops=ops, impl=impl)
        ctx.violation(f"{label}:{key}", what, obj)
        # replays of registered findings are kept as well
        if any(kf.get("property") == ctx.prop and core.fnmatch.fnmatchcase(f"{label}:{key}", kf["key"]) for kf in ctx.known):
            path = os.path.join(ctx.replaydir, f"{ctx.prop}-{core.safe(label + ':' + key)}.json")
            with open(path, "w") as f:
                json.dump(dict(obj, property=ctx.prop, key=f"{label}:{key}", what=what, seed=ctx.seed, tier=ctx.tier), f, indent=1)
    return len(bad)


def leak_oracle_selftest(ctx, rmap):
    """the leak oracle must fire when a handle is really not released (`leakpub` forgets a publisher in every world)"""
    rc, lines = replay_ops(["new ps fixed 2 0 2 2 2 0 1 1", "leakpub", "fin", "new ev 1 1 3", "fin"])
    ks = keys_of(lines, rmap)
    fired = [l for l in lines if l.startswith("fin") and "ORACLE[files left" in l]
    clean = [l for l in lines if l.startswith("fin") and l.endswith("left=0")]
    ctx.count("ffi.leak-oracle-selftest")
    if rc != 0 or len(fired) != 1 or len(clean) != 1 or "oracle:leak" not in ks:
        ctx.violation("ffi:leak-oracle-selftest", "the leak oracle of the ffi harness did not report a forgotten publisher (or reported one in a clean case)",
                      dict(engine="seqdiff-ffi", component="ffi", ops=["new ps fixed 2 0 2 2 2 0 1 1", "leakpub", "fin", "new ev 1 1 3", "fin"], impl=lines), nfi=True)
    else:
        ctx.log("[ffi] leak oracle self-test: a forgotten publisher is reported, a clean case is not")


def run(ctx):
    for kf in LOCAL_KNOWN_B:
        ctx.known.append(dict(kf, property=ctx.prop, status="open"))
    table = translate(ctx)
    if table is None:
        core.prove(ctx)
        return core.finish(ctx)
    s = dict(enums=len(table["enums"]), variants=sum(len(e["variants"]) for e in table["enums"]),
             mappings=sum(len(e["mappings"]) for e in table["enums"]),
             rows=sum(len(m["table"]) for e in table["enums"] for m in e["mappings"]),
             non_error_enums=len(table["skipped"]))
    ctx.extra["table"] = s
    recheck_table(ctx, table)
    core.prove(ctx)
    ok, err = core.build_harness(ctx)
    if not ok:
        ctx.violation("harness-build", "harness does not build against the current tree", dict(engine="cargo", stderr=err[-3000:]), nfi=True)
        return core.finish(ctx)
    rmap, _ = load_maps(table)
    quick = ctx.tier == "quick"
    diff_ffi(ctx, ["gen", "names"], "ffi.names", rmap, do_shrink=False)
    leak_oracle_selftest(ctx, rmap)
    # a case costs 6 node and 4 service creations (4 worlds): ~10 ms on an idle machine
    diff_ffi(ctx, ["gen", "--exhaustive", 1 if quick else 2, "ps"], "ffi.ps.exhaustive", rmap)
    diff_ffi(ctx, ["gen", "--exhaustive", 2 if quick else 3, "ev"], "ffi.ev.exhaustive", rmap)
    diff_ffi(ctx, ["gen", "--seed", ctx.seed, "--cases", 200 if quick else 1000, "--len", 40 if quick else 70, "fixed"], "ffi.ps.fixed", rmap)
    diff_ffi(ctx, ["gen", "--seed", ctx.seed + 1, "--cases", 200 if quick else 1000, "--len", 40 if quick else 70, "slice"], "ffi.ps.slice", rmap)
    diff_ffi(ctx, ["gen", "--seed", ctx.seed + 2, "--cases", 150 if quick else 1000, "--len", 40 if quick else 70, "ev"], "ffi.ev", rmap)
    return core.finish(
        ctx, level="proof",
        rule="Part A: every `pub enum iox2_*_e` of iceoryx2-ffi/c/src/api/*.rs classified as error enum (name, IntoCInt target, IOX2_OK+1 convention), all variants, all "
             "IntoCInt/From mappings with the complete variant lists of the Rust enums: decided by theorems over the whole generated table. "
             "Part B: each op line executed in 4 worlds (Rust only, C only, Rust publisher/notifier + C subscriber/listener, and vice versa) on ipc services with own "
             "config prefix and root; publish-subscribe with 8 payload types (size 1..128, alignment 1..64) fixed and as slices, 3 user header types, "
             "max publishers/subscribers 1..3, buffer 1..4, history, borrow limit, safe overflow on/off; loans within and beyond the limits, send, send_copy, receive, "
             "sample release, has_samples, update_connections, dynamic counts; events with id limits, default and custom ids, try_wait; exhaustive = all sequences of "
             "1/2 (pub-sub, 8 calls, 16 configurations) and 2/3 (event, 8 calls, 2 configurations) calls after a fixed prefix; `names`: every *_string function with "
             "every code of its enum against the translated table; after every case all handles are dropped and the domain's files are listed (leak oracle). "
             "distinct = distinct output vectors of cases with > 2 ops",
        extra_assumptions=[
            "Part B is testing (differential run on generated call sequences), not proof; the reference is the Rust API's behaviour on the same sequence",
            "trusted: the translator's parser (extract/ffi_errors.py): the theorems are about the table it emits; ties to the compiled code: every printable name and "
            "code with a *_string function is compared with the binary (names run), every error met in Part B is compared through the table",
            "only legal call sequences are generated (a panic inside an extern \"C\" function aborts the process): handles are dropped once, samples before their port",
            "ipc service variant only; request-response, blackboard and waitset calls are not exercised through the C API here"])


def replay(ctx, obj):
    if obj.get("engine") == "seqdiff-ffi":
        ok, _ = core.build_harness(ctx)
        rc, lines = replay_ops(obj["ops"])
        for l in lines:
            print(l)
        print(f"exit code {rc}")
        return 0
    print(json.dumps(obj, indent=1))
    return 0
