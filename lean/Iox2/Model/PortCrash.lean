/-
C04 at PORT level: a process A with a node has opened a publish-subscribe service that a living process H holds (H has one
subscriber / one publisher / two publishers) and is killed inside the creation of a Publisher resp. a Subscriber; a survivor runs
the dead-node clean-up; H goes on.  One step per system call on the port's files, transcribed in the code's order and compared
with `strace` of the real calls (checklib/pC04port.py).  Same conventions as Iox2/Model/ServiceCrash.lean.

Anchors
  iceoryx2/src/port/publisher.rs   new (:460-629): port tag, data segment, connections to the registered subscribers, add_publisher_id LAST
  iceoryx2/src/port/subscriber.rs  new (:198-349): port tag, connections to the registered publishers (+ their data segments), add_subscriber_id LAST
  iceoryx2/src/node/mod.rs         create_port_tag (:1059-1081), remove_stale_resources_impl (:584-719)
  iceoryx2/src/service/mod.rs      __internal_remove_node_from_service: port callback (:845-910) — resources, port tag, THEN the registry slot
  iceoryx2/src/service/stale_resource_cleanup.rs   remove_stale_port_resources (:309-379): data segment, sender side, receiver side, port tag
  iceoryx2-cal/src/zero_copy_connection/common.rs  create_or_open_shm (:392-523), reserve_port (:279-306), remove_port (:1089-1137), remove_state (:247-277)
  iceoryx2-cal/src/dynamic_storage/posix_shared_memory.rs   create / init / open (0200 = not finalised; size 0 honours the timeout since 150ae1b)

Shared state: A's port tag (absent / init 0600 / final 0400); A's data segment (publisher only) and up to two connections
(absent / created / sized / final, `inited`; a connection additionally `role`: A's role bit is set in its state byte — H is idle, so
the peer's bit is never set); `reg`: A's port occupies a slot of the service's port registry; `nodeReg`: A's node is registered in
the service; A's service tag; A's node abstracted as in ServiceCrash (`node:acquire`, `node:list-tags`, `node:list-ports`,
`node:remove` are atomic abstractions of the C07 model).  H's own files (`hdata` data segments, the service) are constants.
Steps named `mem:…` are stores into a mapping (no system call).
-/
import Iox2.Base.Sched
import Iox2.Base.Crash
namespace Iox2.PortCrash
open Iox2.Sched

inductive TagSt where
  | absent | init | final
deriving Repr, DecidableEq, Inhabited

inductive ShmSt where
  | absent | created | sized | final
deriving Repr, DecidableEq, Inhabited

structure Conn where
  st : ShmSt := .absent
  inited : Bool := false
  role : Bool := false        -- A's role bit (Sender resp. Receiver) is set in the connection's state byte
  marked : Bool := false      -- the state byte is MarkedForDestruction (a cleaner removed A's role, the last one)
deriving Repr, DecidableEq, Inhabited

structure Node where
  present : Bool := true
  alive : Bool := true
  lock : Option Nat := none
  dir : Bool := true
deriving Repr, DecidableEq, Inhabited

structure Shared where
  ptag : TagSt := .absent
  data : ShmSt := .absent
  dataInit : Bool := false
  conn0 : Conn := {}
  conn1 : Conn := {}
  reg : Bool := false          -- A's port is registered (occupies a registry slot)
  nodeReg : Bool := true       -- A's node id is registered in the service's dynamic config
  stag : Bool := true          -- A's service tag (final)
  node : Node := {}
  isPub : Bool := true         -- A creates a publisher (else a subscriber)
  peers : Nat := 1             -- H's ports of the other kind (1 or 2): one connection each
  hdata : Nat := 0             -- H's data segments (its publishers)
deriving Repr, DecidableEq, Inhabited

def Shared.conn (sh : Shared) : Nat → Conn
  | 0 => sh.conn0 | _ => sh.conn1
def Shared.setConn (sh : Shared) (i : Nat) (c : Conn) : Shared :=
  match i with
  | 0 => { sh with conn0 := c } | _ => { sh with conn1 := c }

inductive Role where
  | publisher | subscriber | cleaner
deriving Repr, DecidableEq, Inhabited

inductive CRes where
  | ok | notDead | anotherInstance | internalError
deriving Repr, DecidableEq, Inhabited

structure Th where
  role : Role
  who : Nat := 0               -- cleaner: its pid
  pc : Nat := 0
  ci : Nat := 0                -- connection index
  ret : Nat := 0               -- cleaner: where the connection loop returns to
  done : Bool := false         -- victim: `create` returned Ok
  cres : Option CRes := none
deriving Repr, DecidableEq, Inhabited

def pcDone : Nat := 100

/-! ### the victim: `PortFactory::publisher_builder().create()` / `subscriber_builder().create()` -/

/-- after a connection: the next one, or the registration -/
def nextConn (sh : Shared) (t : Th) : Th :=
  if t.ci + 1 < sh.peers then { t with ci := t.ci + 1, pc := 20 } else { t with pc := 40 }

def victimStep (sh : Shared) (t : Th) : Option (Shared × Th × String) :=
  let c := sh.conn t.ci
  match t.pc with
  -- create_port_tag: static storage `create(&[])`
  | 0 => some ({ sh with ptag := .init }, { t with pc := 1 }, "creat ptag")
  | 1 => some (sh, { t with pc := 2 }, "fchmod ptag init")
  | 2 => some (sh, { t with pc := 3 }, "write ptag")
  | 3 => some (sh, { t with pc := 4 }, "fsync ptag")
  | 4 => some ({ sh with ptag := .final }, { t with pc := if t.role = .publisher then 5 else 20 }, "fchmod ptag final")
  -- publisher: data segment (posix shm dynamic storage: 0200, ftruncate, fstat, mmap, initializer + version, fchmod 0600)
  | 5 => some ({ sh with data := .created }, { t with pc := 6 }, "creat data")
  | 6 => some ({ sh with data := .sized }, { t with pc := 7 }, "ftruncate data")
  | 7 => some (sh, { t with pc := 8 }, "fstat data")
  | 8 => some (sh, { t with pc := 9 }, "mmap data")
  | 9 => some ({ sh with dataInit := true }, { t with pc := 10 }, "mem:init data")
  | 10 => some ({ sh with data := .final }, { t with pc := 20 }, "fchmod data final")
  -- one connection per registered peer: open_or_create (open: ENOENT), create, initializer, finalise, reserve_port (CAS on the state byte)
  | 20 => some (sh, { t with pc := 21 }, "open conn")
  | 21 => some (sh.setConn t.ci { st := .created }, { t with pc := 22 }, "creat conn")
  | 22 => some (sh.setConn t.ci { c with st := .sized }, { t with pc := 23 }, "ftruncate conn")
  | 23 => some (sh, { t with pc := 24 }, "fstat conn")
  | 24 => some (sh, { t with pc := 25 }, "mmap conn")
  | 25 => some (sh.setConn t.ci { c with inited := true }, { t with pc := 26 }, "mem:init conn")
  | 26 => some (sh.setConn t.ci { c with st := .final }, { t with pc := 27 }, "fchmod conn final")
  | 27 => some (sh.setConn t.ci { c with role := true }, if t.role = .publisher then nextConn sh t else { t with pc := 28 }, "mem:reserve conn")
  -- subscriber: the publisher's data segment, read-only
  | 28 => some (sh, { t with pc := 29 }, "open data")
  | 29 => some (sh, { t with pc := 30 }, "fstat data")
  | 30 => some (sh, { t with pc := 31 }, "mmap data")
  | 31 => some (sh, nextConn sh t, "fstat data")
  -- add_publisher_id / add_subscriber_id: LAST
  | 40 => some ({ sh with reg := true }, { t with pc := pcDone, done := true }, "mem:register port")
  | _ => none

/-! ### the cleaner -/

def finishC (t : Th) (r : CRes) : Th := { t with pc := pcDone, cres := some r }

/-- enter the block of connection `ci` (connections that do not exist are not listed: no step), or leave the loop -/
def enterConn (sh : Shared) (t : Th) : Th :=
  if t.ci = 0 ∧ sh.conn0.st ≠ .absent then { t with pc := 50 }
  else if t.ci ≤ 1 ∧ sh.conn1.st ≠ .absent then { t with ci := 1, pc := 50 }
  else { t with pc := t.ret }

def afterConn (sh : Shared) (t : Th) : Th := enterConn sh { t with ci := t.ci + 1 }

def cleanerStep (sh : Shared) (t : Th) : Option (Shared × Th × String) :=
  let p := t.who
  let c := sh.conn t.ci
  match t.pc with
  | 0 => if !sh.node.present || sh.node.alive then some (sh, finishC t .notDead, "node:acquire")
         else match sh.node.lock with
           | some q => if q = p then some (sh, { t with pc := 1 }, "node:acquire") else some (sh, finishC t .anotherInstance, "node:acquire")
           | none => some ({ sh with node := { sh.node with lock := some p } }, { t with pc := 1 }, "node:acquire")
  | 1 => if sh.stag then some (sh, { t with pc := 2 }, "node:list-tags") else some (sh, { t with pc := 31 }, "node:list-tags")
  -- __internal_remove_node_from_service: the holder's service is complete
  | 2 => some (sh, { t with pc := 3 }, "open static")
  | 3 => some (sh, { t with pc := 4 }, "fstat static")
  | 4 => some (sh, { t with pc := 5 }, "read static")
  | 5 => some (sh, { t with pc := 6 }, "open dyn")
  | 6 => some (sh, { t with pc := 7 }, "fstat dyn")
  | 7 => some (sh, { t with pc := 8 }, "mmap dyn")
  | 8 => some (sh, { t with pc := 9 }, "fstat dyn")
  -- remove_dead_node_id: a registered port of the node ⇒ the callback: connections, (publisher: data segment,) port tag, THEN the slot
  | 9 => if sh.reg then some (sh, enterConn sh { t with ci := 0, ret := if sh.isPub then 11 else 13 }, "mem:remove dead node")
         else some (sh, { t with pc := 29 }, "mem:remove dead node")
  | 11 => some ({ sh with data := .absent }, { t with pc := 12 }, "unlink data")
  | 12 => some (sh, { t with pc := 13 }, "unlink data")
  -- remove_port_tag: AlreadyRemoved ⇒ SkipPort: the slot is NOT released
  | 13 => if sh.ptag = .absent then some (sh, { t with pc := 29 }, "unlink ptag")
          else some ({ sh with ptag := .absent }, { t with pc := 14 }, "unlink ptag")
  | 14 => some ({ sh with reg := false }, { t with pc := 29 }, "mem:release slot")
  | 29 => some ({ sh with nodeReg := false }, { t with pc := 30 }, "mem:release node")
  | 30 => some ({ sh with stag := false }, { t with pc := 31 }, "unlink stag")
  -- Node::port_tags: tags with final permission; remove_stale_port_resources: data segment (static, resizable), connections, port tag
  | 31 => if sh.ptag = .final then some (sh, { t with pc := 32 }, "node:list-ports") else some (sh, { t with pc := 40 }, "node:list-ports")
  | 32 => some ({ sh with data := .absent }, { t with pc := 33 }, "unlink data")
  | 33 => some (sh, enterConn sh { t with ci := 0, ret := 34 }, "unlink data")
  | 34 => some ({ sh with ptag := .absent }, { t with pc := 40 }, "unlink ptag")
  | 40 => if sh.ptag = .absent then some ({ sh with node := { sh.node with present := false, dir := false, lock := none } }, finishC t .ok, "node:remove")
          else some ({ sh with node := { sh.node with lock := none } }, finishC t .internalError, "node:remove")
  -- Connection::remove_sender / remove_receiver of connection `ci`: open(ReadWrite), timeout 0
  | 50 => some (sh, { t with pc := 51 }, "open conn")
  | 51 => if c.st = .created then some (sh, { t with pc := 55 }, "fstat conn") else some (sh, { t with pc := 52 }, "fstat conn")
  | 52 => some (sh, { t with pc := 53 }, "mmap conn")
  | 53 => if c.st = .final then some (sh, { t with pc := 54 }, "fstat conn") else some (sh, { t with pc := 55 }, "fstat conn")
  -- opened: channels closed, remove_state(role): state == role ⇒ MarkedForDestruction ⇒ ownership ⇒ fchmod + shm_unlink on drop;
  -- already MarkedForDestruction (an earlier cleaner died here): ownership again; state == None (A died before reserve_port): nothing is
  -- marked, nothing is removed
  | 54 => if c.role || c.marked then some (sh.setConn t.ci { c with role := false, marked := true }, { t with pc := 56 }, "mem:remove role")
          else some (sh, afterConn sh t, "mem:remove role")
  -- InitializationNotYetFinalized ⇒ remove_cfg by name
  | 55 => some (sh.setConn t.ci { st := .absent }, afterConn (sh.setConn t.ci { st := .absent }) t, "unlink conn")
  | 56 => some (sh, { t with pc := 57 }, "fchmod conn final")
  | 57 => some (sh.setConn t.ci { st := .absent }, afterConn (sh.setConn t.ci { st := .absent }) t, "unlink conn")
  | _ => none

/-! ### the system -/

def stepL (sh : Shared) (t : Th) : Option (Shared × Th × String) :=
  match t.role with
  | .cleaner => cleanerStep sh t
  | _ => victimStep sh t

def sys : Sys Shared Th :=
  { step := fun sh t => (stepL sh t).map fun r => (r.1, r.2.1, [Ev.cell r.2.2]) }

def onDeath (sh : Shared) (t : Th) : Shared :=
  match t.role with
  | .cleaner => if sh.node.lock = some t.who then { sh with node := { sh.node with lock := none } } else sh
  | _ => { sh with node := { sh.node with alive := false } }

def csys : Sys Shared (CTh Th) := sys.withCrash onDeath

def mkVictim (pub : Bool) : Th := { role := if pub then .publisher else .subscriber }
def mkCleaner (pid : Nat) : Th := { role := .cleaner, who := pid }

/-- more steps than any program takes (subscriber with two publishers: 30 + its death; cleaner: ≤ 31; nothing loops) -/
def fuel : Nat := 34

def traceSolo : Nat → Shared → Th → List String
  | 0, _, _ => []
  | n + 1, sh, t =>
    match stepL sh t with
    | none => []
    | some (sh', t', s) => s :: traceSolo n sh' t'

def runC : Nat → Shared → CTh Th → Shared × CTh Th
  | 0, sh, t => (sh, t)
  | n + 1, sh, t =>
    match csys.step sh t with
    | none => (sh, t)
    | some (sh', t', _) => runC n sh' t'

/-- the three scenarios: publisher victim ∥ H with one subscriber; subscriber victim ∥ H with one / two publishers -/
inductive Scn where
  | pub | sub | sub2
deriving Repr, DecidableEq, Inhabited

def Scn.init : Scn → Shared
  | .pub => { isPub := true, peers := 1, hdata := 0 }
  | .sub => { isPub := false, peers := 1, hdata := 1 }
  | .sub2 => { isPub := false, peers := 2, hdata := 2 }

def Scn.victim : Scn → Th
  | .pub => mkVictim true
  | _ => mkVictim false

/-- what exists of A, and what H can observe -/
structure Left where
  ptag : TagSt
  data : ShmSt
  conn0 : ShmSt
  conn1 : ShmSt
  stag : Bool
  node : Bool
  dir : Bool
  reg : Bool          -- A's port still occupies a registry slot (H: number_of_publishers / _subscribers one too high, one port less can be created)
  nodeReg : Bool
deriving Repr, DecidableEq, Inhabited

def leftOf (sh : Shared) : Left :=
  { ptag := sh.ptag, data := sh.data, conn0 := sh.conn0.st, conn1 := sh.conn1.st, stag := sh.stag, node := sh.node.present, dir := sh.node.dir,
    reg := sh.reg, nodeReg := sh.nodeReg }

def Left.none : Left :=
  { ptag := .absent, data := .absent, conn0 := .absent, conn1 := .absent, stag := false, node := false, dir := false, reg := false, nodeReg := false }

structure Outcome where
  done : Bool                 -- the victim's `create` returned
  dead : Bool
  before : Left
  clean1 : Option CRes        -- none: killed by its fuse
  clean2 : Option CRes
  after : Left                -- after the survivors' clean-up attempts (= what stays after H dropped everything, minus nothing: H removes only its own)
deriving Repr, DecidableEq, Inhabited

/-- victim (fuse = crash point) → cleaner 1 (own fuse: second crash) → cleaner 2 -/
def scenario (s : Scn) (fuseV fuseC : Option Nat) : Outcome :=
  let v := runC fuel s.init { inner := s.victim, fuse := fuseV }
  let c1 := runC fuel v.1 { inner := mkCleaner 7, fuse := fuseC }
  let c2 := runC fuel c1.1 { inner := mkCleaner 8 }
  { done := v.2.inner.done, dead := v.2.dead, before := leftOf v.1, clean1 := c1.2.inner.cres, clean2 := c2.2.inner.cres, after := leftOf c2.1 }

end Iox2.PortCrash
