/-
Sequential models of three small shared-memory sets: `mpmc::bit_set` (set / reset_next with its
rotating start position / reset_all), `mpmc::counting_bit_set` (set = fetch_add, reset_all) and the
zero-copy connection's `used_chunk_list` (insert / remove / remove_all).  No addresses anywhere:
`reloc` (the block moves) is the identity on these states (C14).
-/
namespace Iox2.ShmSets

structure St where
  kind : Nat                 -- 0 bit set, 1 counting bit set, 2 used chunk list
  cap : Nat
  cnt : List Nat             -- per id: 0/1 (bit set, used list) or the count
  pos : Nat := 0             -- bit set: reset_position
deriving Repr

def St.init (kind cap : Nat) : St := { kind := kind, cap := cap, cnt := List.replicate cap 0 }

inductive Op where
  | set (i : Nat) | resetNext | resetAll | insert (i : Nat) | remove (i : Nat) | removeAll | reloc
deriving Repr

def showIds (l : List (Nat × Nat)) (withCount : Bool) : String :=
  if l.isEmpty then "-" else String.intercalate "," (l.map fun (i, c) => if withCount then s!"{i}:{c}" else toString i)

/-- first position `p` in `order` whose bit is set -/
def firstSet (cnt : List Nat) : List Nat → Option Nat
  | [] => none
  | p :: r => if cnt.getD p 0 ≠ 0 then some p else firstSet cnt r

def step (s : St) : Op → St × String
  | .set i =>
    if i ≥ s.cap then (s, "oob") else
    let old := s.cnt.getD i 0
    if s.kind = 1 then ({ s with cnt := s.cnt.set i (old + 1) }, toString old)
    else ({ s with cnt := s.cnt.set i 1 }, if old = 0 then "true" else "false")
  | .resetNext =>
    let order := (List.range s.cap).drop s.pos ++ (List.range s.cap).take s.pos
    match firstSet s.cnt order with
    | none => (s, "none")
    | some p => ({ s with cnt := s.cnt.set p 0, pos := p + 1 }, s!"some:{p}")
  | .resetAll =>
    let got := ((List.range s.cap).filter fun i => s.cnt.getD i 0 ≠ 0).map fun i => (i, s.cnt.getD i 0)
    ({ s with cnt := List.replicate s.cap 0 }, showIds got (s.kind = 1))
  | .insert i =>
    if i ≥ s.cap then (s, "oob") else
    let old := s.cnt.getD i 0
    ({ s with cnt := s.cnt.set i 1 }, if old = 0 then "true" else "false")
  | .remove i =>
    if i ≥ s.cap then (s, "oob") else
    let old := s.cnt.getD i 0
    ({ s with cnt := s.cnt.set i 0 }, if old ≠ 0 then "true" else "false")
  | .removeAll =>
    let got := ((List.range s.cap).filter fun i => s.cnt.getD i 0 ≠ 0).map fun i => (i, 1)
    ({ s with cnt := List.replicate s.cap 0 }, showIds got false)
  | .reloc => (s, "ok")

end Iox2.ShmSets
