/-
L2 model of `iceoryx2-bb/lock-free/src/mpmc/unique_index_set.rs` (`UniqueIndexSet`): a Treiber
free list whose head word packs `(head : 24 bit, aba : 16 bit, borrowed_indices : 24 bit)`;
`next` are plain (`UnsafeCell<u32>`) cells; `LOCK_ACQUIRE = 0xffffff` in the borrowed field means
locked.  One `PC` constructor per atomic operation / cell access of `acquire_raw_index` and
`release_raw_index`.

The ABA tag is incremented modulo `M` (`M = 0`: never wraps — the idealised counter; the code has
`M = 2^16`).
-/
import Iox2.Base.Sched
namespace Iox2.UIS
open Iox2.Sched

def LOCK : Nat := 0xffffff

structure Head where
  head : Nat
  aba  : Nat
  borrowed : Nat
deriving Repr, DecidableEq

/-- `HeadDetails::value` -/
def Head.value (h : Head) : Nat := h.head * 2^40 + h.aba * 2^24 + h.borrowed

structure Sh where
  cap  : Nat
  M    : Nat
  hd   : Head
  next : List Nat            -- cap + 1 cells
deriving Repr

def Sh.init (cap M : Nat) : Sh :=
  { cap := cap, M := M, hd := { head := 0, aba := 0, borrowed := 0 }, next := (List.range (cap + 1)).map (· + 1) }

def bump (M a : Nat) : Nat := if M = 0 then a + 1 else (a + 1) % M

inductive Mode where
  | default | lockIfLast
deriving Repr, DecidableEq

inductive Cmd where
  | acquire
  | release (pos : Nat) (mode : Mode)     -- release the `pos`-th index this thread holds
  | borrowed
deriving Repr, DecidableEq

inductive PC where
  | idle
  | aLdHead | aDist (old : Head) | aCellRead (old : Head) | aCas (old : Head) (nx : Nat)
  | aDist2 (idx : Nat) | aCellWrite (idx : Nat) | aFence (idx : Nat)
  | rFence (idx : Nat) (m : Mode) | rLdHead (idx : Nat) (m : Mode) | rDist (idx : Nat) (m : Mode) (old : Head)
  | rCellWrite (idx : Nat) (m : Mode) (old : Head) | rCas (idx : Nat) (m : Mode) (old : Head)
  | bLd
deriving Repr, DecidableEq

structure Th where
  pc   : PC
  todo : List Cmd
  held : List Nat := []      -- indices this thread owns (returned by acquire, not yet released)
deriving Repr

def Th.init (prog : List Cmd) : Th := { pc := .idle, todo := prog }

def enabled (t : Th) : Cmd → Bool
  | .release pos _ => pos < t.held.length
  | _ => true

def nextCmd (t : Th) : List Cmd → Option (Cmd × List Cmd)
  | [] => none
  | c :: rest => if enabled t c then some (c, rest) else nextCmd t rest

/-- the checks at the top of the acquire loop (no memory access): out of indices / locked / go on -/
def acquireCheck (s : Sh) (t : Th) (old : Head) (ev : Ev) : Sh × Th × List Ev :=
  if old.head ≥ s.cap then (s, { t with pc := .idle }, [ev, .ret "acquire err:OutOfIndices"])
  else if old.borrowed = LOCK then (s, { t with pc := .idle }, [ev, .ret "acquire err:IsLocked"])
  else (s, { t with pc := .aDist old }, [ev])

def stepPC (s : Sh) (t : Th) : Option (Sh × Th × List Ev) :=
  match t.pc with
  | .idle => none
  | .aLdHead => some (acquireCheck s t s.hd (.load "head" .acq s.hd.value))
  | .aDist old => some (s, { t with pc := .aCellRead old }, [.load "dist" .rlx 0])
  | .aCellRead old => some (s, { t with pc := .aCas old (s.next.getD old.head 0) }, [.cell s!"next[{old.head}]"])
  | .aCas old nx =>
      let new : Head := { head := nx, aba := bump s.M old.aba, borrowed := old.borrowed + 1 }
      if s.hd = old then some ({ s with hd := new }, { t with pc := .aDist2 old.head }, [.cas "head" .acqrel .acq old.value new.value true])
      else some (acquireCheck s t s.hd (.cas "head" .acqrel .acq s.hd.value new.value false))
  | .aDist2 idx => some (s, { t with pc := .aCellWrite idx }, [.load "dist" .rlx 0])
  | .aCellWrite idx => some ({ s with next := s.next.set idx (s.cap + 1) }, { t with pc := .aFence idx }, [.cell s!"next[{idx}]"])
  | .aFence idx => some (s, { t with pc := .idle, held := t.held ++ [idx] }, [.fence .acq, .ret s!"acquire ok:{idx}"])
  | .rFence idx m => some (s, { t with pc := .rLdHead idx m }, [.fence .rel])
  | .rLdHead idx m => some (s, { t with pc := .rDist idx m s.hd }, [.load "head" .acq s.hd.value])
  | .rDist idx m old => some (s, { t with pc := .rCellWrite idx m old }, [.load "dist" .rlx 0])
  | .rCellWrite idx m old => some ({ s with next := s.next.set idx old.head }, { t with pc := .rCas idx m old }, [.cell s!"next[{idx}]"])
  | .rCas idx m old =>
      let lock := m = .lockIfLast ∧ old.borrowed = 1
      let new : Head := { head := idx, aba := bump s.M old.aba, borrowed := if lock then LOCK else old.borrowed - 1 }
      if s.hd = old then
        some ({ s with hd := new }, { t with pc := .idle },
              [.cas "head" .acqrel .acq old.value new.value true, .ret (if lock then "release locked" else "release unlocked")])
      else some (s, { t with pc := .rDist idx m s.hd }, [.cas "head" .acqrel .acq s.hd.value new.value false])
  | .bLd => some (s, { t with pc := .idle }, [.load "head" .rlx s.hd.value, .ret s!"borrowed {if s.hd.borrowed = LOCK then 0 else s.hd.borrowed}"])

def start (t : Th) : Cmd → Th
  | .acquire => { t with pc := .aLdHead }
  | .release pos m => { t with pc := .rFence (t.held.getD pos 0) m, held := t.held.eraseIdx pos }
  | .borrowed => { t with pc := .bLd }

def step (s : Sh) (t : Th) : Option (Sh × Th × List Ev) :=
  match t.pc with
  | .idle =>
      match nextCmd t t.todo with
      | none => none
      | some (c, rest) => stepPC s (start { t with todo := rest } c)
  | _ => stepPC s t

def sys : Sys Sh Th := { step := step }

end Iox2.UIS
