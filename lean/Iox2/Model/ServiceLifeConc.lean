/-
C06 Part B — creation and opening of ONE service (one name, one messaging pattern) by any number of
concurrent `create` and `open` calls, one step per externally visible action, in code order
(iceoryx2/src/service/builder/mod.rs `create` :637-774, `open` :462-634, `is_service_available` :776-880;
iceoryx2-cal/src/static_storage/file.rs `create_locked` / `unlock` / `open` / `does_exist_cfg`;
iceoryx2-cal/src/dynamic_storage/posix_shared_memory.rs `create_impl` / `init_impl` / `open_impl`;
iceoryx2/src/node/mod.rs `create_service_tag`, `RegisteredServices::{add, add_or}`).

Shared state = the files of the service: the static config file (absent / created in locked state 0600 /
content written / unlocked 0400), the dynamic config shm of the creator's unique service id (absent /
created 0200 / sized / initialised with the creator registered / version stored / final 0600 = openable),
the service tags of the nodes, the node-local reference counts.

Threads = API calls.  A thread is a creator or an opener, runs on a node (several threads may share a node:
builders are `Send`), and carries a `budget`: the number of 25 ms waits before `creation_timeout` is
exceeded (the only place where time enters; any budget is allowed, so every timeout behaviour is covered).
Interleaving semantics: `Iox2.Sched.Sys` / `Reachable` (any number of threads, any schedule).

Not in this system: removal (drop of the last user) concurrent with creation, dead-node cleanup, crashes.
-/
import Iox2.Base.Sched

namespace Iox2.ServiceLifeConc
open Iox2.Sched

structure Static where
  owner : Nat          -- the creator (stands for its settings and its fresh unique service id)
  written : Bool       -- serialized config written + fsync
  unlocked : Bool      -- fchmod 0400
deriving DecidableEq, Repr, Inhabited

structure Dyn where
  owner : Nat          -- unique service id = creator
  sized : Bool         -- ftruncate + mmap
  inited : Bool        -- initializer ran: containers initialised, creator's node id registered
  versioned : Bool     -- version.store(PackageVersion)
  final : Bool         -- fchmod 0600: from now on `open` succeeds
  regs : List Nat      -- registered node ids
deriving DecidableEq, Repr, Inhabited

structure Shared where
  static : Option Static
  dyn : Option Dyn
  tags : List Nat              -- nodes that have a service tag for this service
  refs : List (Nat × Nat)      -- node-local `registered_services` entry of this service: (node, count)
  maxNodes : Nat
deriving Repr, Inhabited

inductive Role where
  | creator | opener
deriving DecidableEq, Repr, Inhabited

inductive Res where
  | created
  | opened (owner : Nat)
  | err (e : String)
deriving DecidableEq, Repr, Inhabited

structure Local where
  id : Nat                     -- own index in the thread list
  node : Nat
  role : Role
  compatible : Bool            -- opener: its requirements fit every creator's settings (abstracts verify_service_configuration)
  pc : Nat
  budget : Nat
  tagOwned : Bool
  seen : Option Nat            -- opener: the creator whose static config it read
  res : Option Res
deriving DecidableEq, Repr, Inhabited

def refOf (sh : Shared) (n : Nat) : Nat :=
  match sh.refs.find? (fun r => r.1 == n) with
  | some r => r.2
  | none => 0

def incRef (sh : Shared) (n : Nat) : Shared :=
  if refOf sh n == 0 then { sh with refs := (n, 1) :: sh.refs }
  else { sh with refs := sh.refs.map (fun r => if r.1 == n then (r.1, r.2 + 1) else r) }

/-- `create_service_tag`: O_EXCL on the node's tag file; `AlreadyExists` means "this node has it already" -/
def mkTag (sh : Shared) (t : Local) : Shared × Local :=
  if sh.tags.contains t.node then (sh, { t with tagOwned := false })
  else ({ sh with tags := t.node :: sh.tags }, { t with tagOwned := true })

/-- drop of a tag handle that still has ownership: the file is removed -/
def dropTag (sh : Shared) (t : Local) : Shared × Local :=
  if t.tagOwned then ({ sh with tags := sh.tags.erase t.node }, { t with tagOwned := false }) else (sh, t)

def finish (t : Local) (r : Res) : Local := { t with res := some r, pc := 99 }

def ev (s : String) : List Ev := [.cell s]

/-- names of the steps (printed by the driver, compared with the system calls of the real calls) -/
def creatorStep (sh : Shared) (t : Local) : Option (Shared × Local × List Ev) :=
  match t.pc with
  | 0 => -- is_service_available: does the static config exist (in any state)?
    match sh.static with
    | none => some (sh, { t with pc := 1 }, ev "static:exists?")
    | some _ => some (sh, finish t (.err "AlreadyExists"), ev "static:exists?")
  | 1 => let (sh', t') := mkTag sh t; some (sh', { t' with pc := 2 }, ev "tag:create")
  | 2 => -- static config: open(O_CREAT|O_EXCL), locked (0600)
    match sh.static with
    | none => some ({ sh with static := some { owner := t.id, written := false, unlocked := false } }, { t with pc := 3 }, ev "static:create_excl")
    | some _ => some (sh, { t with pc := 20 }, ev "static:create_excl")
  | 3 => some ({ sh with static := sh.static.map (fun s => if s.owner == t.id then { s with written := true } else s) }, { t with pc := 4 }, ev "static:write")
  | 4 => some ({ sh with static := sh.static.map (fun s => if s.owner == t.id then { s with unlocked := true } else s) }, { t with pc := 5 }, ev "static:unlock")
  | 5 => -- dynamic config: shm_open(O_CREAT|O_EXCL, 0200) under the creator's fresh unique service id
    match sh.dyn with
    | none => some ({ sh with dyn := some { owner := t.id, sized := false, inited := false, versioned := false, final := false, regs := [] } }, { t with pc := 6 }, ev "dynamic:create_excl")
    | some _ => some (sh, { t with pc := 21 }, ev "dynamic:create_excl")
  | 6 => some ({ sh with dyn := sh.dyn.map (fun d => if d.owner == t.id then { d with sized := true } else d) }, { t with pc := 7 }, ev "dynamic:size")
  | 7 => some ({ sh with dyn := sh.dyn.map (fun d => if d.owner == t.id then { d with inited := true, regs := t.node :: d.regs } else d) }, { t with pc := 8 }, ev "dynamic:init+register")
  | 8 => some ({ sh with dyn := sh.dyn.map (fun d => if d.owner == t.id then { d with versioned := true } else d) }, { t with pc := 9 }, ev "dynamic:version")
  | 9 => some ({ sh with dyn := sh.dyn.map (fun d => if d.owner == t.id then { d with final := true } else d) }, { t with pc := 10 }, ev "dynamic:finalize")
  | 10 => -- registered_services.add + release of all ownerships
    some (incRef sh t.node, finish { t with tagOwned := false } .created, ev "node:add")
  | 20 => -- O_EXCL lost: the locals are dropped, an owned tag is removed
    let (sh', t') := dropTag sh t; some (sh', finish t' (.err "AlreadyExists"), ev "tag:drop")
  | 21 => -- "This should never happen": the static config (owned) and the tag are removed again
    let (sh', t') := dropTag { sh with static := none } t; some (sh', finish t' (.err "ServiceInCorruptedState"), ev "static:remove")
  | _ => none

def dynReady (sh : Shared) (o : Nat) : Bool :=
  match sh.dyn with
  | some d => d.owner == o && d.final
  | none => false

def openerStep (sh : Shared) (t : Local) : Option (Shared × Local × List Ev) :=
  match t.pc with
  | 0 => -- cleanup_dead_nodes_on_open: reads static + dynamic config, looks at the registered nodes; no effect while all are alive
    some (sh, { t with pc := 1 }, ev "deadnodes:scan")
  | 1 => -- is_service_available: does_exist_cfg; a locked file = HangsInCreation → wait()
    match sh.static with
    | none => some (sh, finish t (.err "DoesNotExist"), ev "static:exists?")
    | some s =>
      if s.unlocked then some (sh, { t with pc := 2 }, ev "static:exists?")
      else if t.budget == 0 then some (sh, finish t (.err "HangsInCreation"), ev "static:exists?")
      else some (sh, { t with budget := t.budget - 1 }, ev "static:exists?")
  | 2 => -- open + read + deserialize the static config, verify_service_configuration
    match sh.static with
    | none => some (sh, finish t (.err "DoesNotExist"), ev "static:read")
    | some s =>
      if !t.compatible then some (sh, finish t (.err "Incompatible"), ev "static:read")
      else some (sh, { t with seen := some s.owner, pc := 3 }, ev "static:read")
  | 3 => let (sh', t') := mkTag sh t; some (sh', { t' with pc := 4 }, ev "tag:create")
  | 4 => -- open the dynamic config named by the unique service id just read
    if dynReady sh (t.seen.getD 0) then some (sh, { t with pc := 5 }, ev "dynamic:open")
    else some (sh, { t with pc := 30 }, ev "dynamic:open")
  | 30 => -- DoesNotExist / InitializationNotYetFinalized: wait()?; continue — the tag of this round is dropped
    let (sh', t') := dropTag sh t
    if t.budget == 0 then some (sh', finish t' (.err "HangsInCreation"), ev "tag:drop")
    else some (sh', { t' with budget := t.budget - 1, pc := 1, seen := none }, ev "tag:drop")
  | 5 => -- registered_services.add_or(register_node_id) under the node's mutex
    if refOf sh t.node != 0 then some (incRef sh t.node, { t with pc := 6 }, ev "node:add_or")
    else
      match sh.dyn with
      | some d =>
        if sh.maxNodes ≤ d.regs.length then some (sh, { t with pc := 31 }, ev "node:add_or")
        else some (incRef { sh with dyn := some { d with regs := t.node :: d.regs } } t.node, { t with pc := 6 }, ev "node:add_or")
      | none => some (sh, { t with pc := 31 }, ev "node:add_or")
  | 31 => let (sh', t') := dropTag sh t; some (sh', finish t' (.err "ExceedsMaxNumberOfNodes"), ev "tag:drop")
  | 6 => some (sh, finish { t with tagOwned := false } (.opened (t.seen.getD 0)), ev "tag:release")
  | _ => none

def stepT (sh : Shared) (t : Local) : Option (Shared × Local × List Ev) :=
  match t.role with
  | .creator => creatorStep sh t
  | .opener => openerStep sh t

def sys : Sys Shared Local := { step := stepT }

def Shared.init (maxNodes : Nat) : Shared := { static := none, dyn := none, tags := [], refs := [], maxNodes := maxNodes }

def Local.start (id node : Nat) (role : Role) (compatible : Bool) (budget : Nat) : Local :=
  { id, node, role, compatible, pc := 0, budget, tagOwned := false, seen := none, res := none }

/-- initial configurations: any number of calls, each at its first step, thread `i` has id `i` -/
def Initial (c : Cfg Shared Local) : Prop :=
  (∃ m, c.sh = Shared.init m) ∧
  ∀ (i : Nat) (t : Local), c.th[i]? = some t → t.id = i ∧ t.pc = 0 ∧ t.tagOwned = false ∧ t.seen = none ∧ t.res = none

/-! ## driver: step lists of one call running alone (compared with the system calls of the real call) -/

def runAlone (fuel : Nat) (sh : Shared) (t : Local) : Shared × Local × List String :=
  match fuel with
  | 0 => (sh, t, [])
  | fuel + 1 =>
    match stepT sh t with
    | none => (sh, t, [])
    | some (sh', t', evs) =>
      let (sh2, t2, rest) := runAlone fuel sh' t'
      (sh2, t2, evs.filterMap (fun e => match e with | .cell s => some s | _ => none) ++ rest)

def showRes : Option Res → String
  | some .created => "created"
  | some (.opened o) => s!"opened:{o}"
  | some (.err e) => s!"err:{e}"
  | none => "running"

def join (l : List String) : String := l.foldl (fun acc s => if acc.isEmpty then s else acc ++ " " ++ s) ""

/-- `conc steps create` / `conc steps open` (after a create) / `conc steps open-missing` /
`conc run <maxNodes> <roles: c|o|x per thread><nodes …> : <schedule …>` -/
def driverLine (t : List String) : String :=
  match t with
  | ["steps", "create"] =>
    let (_, t', l) := runAlone 50 (Shared.init 2) (Local.start 0 0 .creator true 3)
    join l ++ " => " ++ showRes t'.res
  | ["steps", "open"] =>
    let (sh, _, _) := runAlone 50 (Shared.init 2) (Local.start 0 0 .creator true 3)
    let (_, t', l) := runAlone 50 sh (Local.start 1 1 .opener true 3)
    join l ++ " => " ++ showRes t'.res
  | ["steps", "open-missing"] =>
    let (_, t', l) := runAlone 50 (Shared.init 2) (Local.start 1 1 .opener true 3)
    join l ++ " => " ++ showRes t'.res
  | ["steps", "create-existing"] =>
    let (sh, _, _) := runAlone 50 (Shared.init 2) (Local.start 0 0 .creator true 3)
    let (_, t', l) := runAlone 50 sh (Local.start 1 1 .creator true 3)
    join l ++ " => " ++ showRes t'.res
  | "run" :: m :: rest =>
    -- threads: tokens `c<node>` / `o<node>` / `x<node>` (incompatible opener) up to ":", then the schedule
    let specs := rest.takeWhile (· ≠ ":")
    let sched := (rest.dropWhile (· ≠ ":")).drop 1
    let ths := (List.range specs.length).map (fun i =>
      let s := specs.getD i ""
      let node := ((s.drop 1).toString.toNat?).getD 0
      let role := if s.startsWith "c" then Role.creator else Role.opener
      Local.start i node role (!s.startsWith "x") 2)
    let c0 : Cfg Shared Local := { sh := Shared.init (m.toNat?.getD 2), th := ths }
    let (c, _) := sys.run c0 (sched.map (fun x => x.toNat?.getD 0))
    join (c.th.map (fun t => showRes t.res)) ++ " tags=" ++ toString c.sh.tags ++ " regs=" ++ toString ((c.sh.dyn.map (·.regs)).getD [])
  | _ => "bad-conc-line"

end Iox2.ServiceLifeConc
