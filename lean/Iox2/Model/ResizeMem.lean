/- stub: model `ResizeMem` (to be written) -/
namespace Iox2.ResizeMem
end Iox2.ResizeMem
