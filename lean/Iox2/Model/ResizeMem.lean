/-
Model of the dynamically growing data segment (C15, resize part):
  * `iceoryx2-cal/src/resizable_shared_memory/dynamic.rs`
      memory side `DynamicMemory::{allocate, deallocate(_bucket), grow, create_resized_segment,
      handle_reallocation, perform_deallocation, number_of_active_segments}`
      view side   `DynamicView::{register_and_translate_offset, unregister_offset,
      release_old_unused_segments, number_of_active_segments}`
  * `iceoryx2-cal/src/shm_allocator/pool_allocator.rs` `allocate` / `grow` / `deallocate_bucket` /
      `resize_hint` / `initial_setup_hint` (the arithmetic is `Iox2.Alloc.{Pool, PoolSt, resizeHint}`)
  * `iceoryx2-cal/src/shared_memory/common.rs` `Builder::create` (payload of size 0 → `SizeIsZero`,
      bucket alignment above the page size → `InternalError`; the payload starts `base` bytes behind
      a page boundary and the pool allocator aligns its first bucket up from there)
as they are used by `iceoryx2/src/port/details/data_segment.rs`.

One owner (`DynamicMemory`) and a list of views (`DynamicView`).  Chunks are named by labels
(the harness' bookkeeping); the payload bytes of all segments are tracked in `mem`
(shared memory: the owner and all views see the same bytes).
Sizes/addresses are `Nat` (no `usize` overflow); the u64 counters never wrap under the usage
contract (the invariant of `Iox2/Proof/ResizeMem*.lean` shows they do not underflow).
-/
import Iox2.Model.Alloc

namespace Iox2.ResizeMem
open Iox2.Alloc

structure Cfg where
  strategy : Strategy
  /-- address of the payload start modulo the page size (posix shared memory: header of 136 bytes) -/
  base     : Nat := 136
  /-- `SystemInfo::PageSize`: the largest alignment a segment supports -/
  pageSize : Nat := 4096
  /-- `MAX_NUMBER_OF_REALLOCATIONS` = `SegmentId::max_segment_id() + 1` (segment ids are `u8`) -/
  maxSegs  : Nat := 256
deriving Repr

/-- one `ShmEntry` of the owner: a shared-memory segment with its pool allocator -/
structure Seg where
  id    : Nat
  pool  : PoolSt   -- geometry + free-index stack
  used  : Nat      -- `number_of_used_buckets` of the shm pool allocator
  count : Nat      -- `chunk_count` of the `ShmEntry`
deriving Repr

namespace Seg
def stride (g : Seg) : Nat := g.pool.p.stride
def balign (g : Seg) : Nat := g.pool.p.bucketAlign
def nBuckets (g : Seg) : Nat := g.pool.p.nBuckets

/-- `Memory::allocate` → `InitializedPoolAllocator::allocate` (alignment check of the shm wrapper
first) → bb `PoolAllocator::allocate`; the result is the offset relative to the first bucket -/
def allocate (g : Seg) (size align : Nat) : Seg × Except AllocErr Nat :=
  if align > g.pool.p.bucketAlign then (g, .error .alignmentFailure) else
  match g.pool.allocate size align with
  | (p', .ok a) => ({ g with pool := p', used := g.used + 1 }, .ok (a - g.pool.p.start))
  | (_, .error e) => (g, .error e)

/-- `deallocate_bucket(offset)` -/
def deallocate (g : Seg) (off : Nat) : Seg :=
  { g with pool := g.pool.deallocate (g.pool.p.start + off), used := g.used - 1 }
end Seg

/-- what the harness knows about a chunk it obtained -/
structure Chunk where
  label   : Nat
  seg     : Nat
  off     : Nat
  size    : Nat
  align   : Nat
  live    : Bool
  /-- came out of a `grow` that changed the segment id but not the offset (see `step`, `grow`) -/
  tainted : Bool := false
deriving Repr, DecidableEq

/-- a mapped segment of a view with its registered-offset counter -/
structure VSeg where
  id    : Nat
  count : Nat
deriving Repr, DecidableEq

structure Reg where
  label : Nat
  seg   : Nat
  off   : Nat
deriving Repr, DecidableEq

structure View where
  segs : List VSeg        -- `shared_memory_map`
  cur  : Option Nat       -- `current_idx` (`INVALID_KEY` = none)
  regs : List Reg         -- offsets registered and not yet unregistered (bookkeeping of the user)
deriving Repr

structure St where
  cfg    : Cfg
  segs   : List Seg       -- `shared_memory_map` of the owner
  cur    : Nat            -- `current_idx`
  chunks : List Chunk
  views  : List View
  /-- the byte at (segment, offset relative to the first bucket); fresh segments are zeroed -/
  mem    : Nat → Nat → Nat

inductive CreateErr where
  | sizeIsZero | internalError
deriving Repr, DecidableEq

/-- `create_segment` for a setup hint; `none`/error when the shared memory cannot be created -/
def mkSeg (cfg : Cfg) (id : Nat) (h : Hint) : Except CreateErr Seg :=
  let payload := h.bucketSize * h.nBuckets      -- `initial_setup_hint`: size * number of chunks
  if payload = 0 then .error .sizeIsZero
  else if h.bucketAlign > cfg.pageSize then .error .internalError
  else .ok { id := id,
             pool := PoolSt.init { ptr := cfg.base, size := payload, bucketSize := h.bucketSize,
                                   bucketAlign := h.bucketAlign },
             used := 0, count := 0 }

def emptyView : View := { segs := [], cur := none, regs := [] }

/-- `DynamicMemoryBuilder::create` plus `nviews` opened views -/
def create (cfg : Cfg) (size align chunks nviews : Nat) : Except CreateErr St :=
  match mkSeg cfg 0 { bucketSize := size, bucketAlign := align, nBuckets := chunks } with
  | .error e => .error e
  | .ok g => .ok { cfg := cfg, segs := [g], cur := 0, chunks := [],
                   views := List.replicate nviews emptyView, mem := fun _ _ => 0 }

def getSeg (segs : List Seg) (id : Nat) : Option Seg := segs.find? (·.id = id)
def setSeg (segs : List Seg) (g : Seg) : List Seg := segs.map (fun x => if x.id = g.id then g else x)
def dropSeg (segs : List Seg) (id : Nat) : List Seg := segs.filter (·.id ≠ id)

def getChunk (cs : List Chunk) (l : Nat) : Option Chunk := cs.find? (·.label = l)
/-- replace or add the record of label `c.label` -/
def putChunk (cs : List Chunk) (c : Chunk) : List Chunk := c :: cs.filter (·.label ≠ c.label)

/-- `create_resized_segment(shm = g, layout)`; `none` = `AllocationError::OutOfMemory`, nothing changed -/
def createResized (s : St) (g : Seg) (size align : Nat) : Option St :=
  let h := resizeHint g.stride g.balign g.nBuckets g.used size align s.cfg.strategy
  if s.cur + 1 < s.cfg.maxSegs then
    match mkSeg s.cfg (s.cur + 1) h with
    | .error _ => none
    | .ok g' =>
      -- the current segment is released right away when it holds no chunk
      let segs := if g.count = 0 then dropSeg s.segs s.cur else s.segs
      some { s with segs := segs ++ [g'], cur := s.cur + 1 }
  else none

inductive Err where
  | oom | size | align | shrink | internal | doesNotExist
deriving Repr, DecidableEq

/-- the `loop` of `DynamicMemory::allocate`; every iteration but the last creates a segment, so
`maxSegs + 1` iterations always suffice -/
def allocLoop : Nat → St → Nat → Nat → St × Except Err (Nat × Nat)
  | 0, s, _, _ => (s, .error .internal)
  | fuel + 1, s, size, align =>
    match getSeg s.segs s.cur with
    | none => (s, .error .internal)          -- fatal_panic "current segment unavailable"
    | some g =>
      match g.allocate size align with
      | (g', .ok off) =>
          ({ s with segs := setSeg s.segs { g' with count := g'.count + 1 } }, .ok (s.cur, off))
      | (_, .error _) =>
          -- OutOfMemory | SizeTooLarge | AlignmentFailure → handle_reallocation
          if s.cfg.strategy = .static then (s, .error .oom)
          else match createResized s g size align with
            | none => (s, .error .oom)
            | some s' => allocLoop fuel s' size align

def allocate (s : St) (size align : Nat) : St × Except Err (Nat × Nat) :=
  allocLoop (s.cfg.maxSegs + 1) s size align

/-- `perform_deallocation(offset)` -/
def deallocate (s : St) (seg off : Nat) : St :=
  match getSeg s.segs seg with
  | none => s                                 -- fatal_panic, unreachable for offsets handed out
  | some g =>
    if g.count = 1 ∧ seg ≠ s.cur then { s with segs := dropSeg s.segs seg }
    else { s with segs := setSeg s.segs { g.deallocate off with count := g.count - 1 } }

inductive Placement where
  | front | back
deriving Repr, DecidableEq

/-! ### view side -/
def bumpV (segs : List VSeg) (seg : Nat) : List VSeg :=
  segs.map (fun x => if x.id = seg then { x with count := x.count + 1 } else x)
def decV (segs : List VSeg) (seg : Nat) : List VSeg :=
  segs.map (fun x => if x.id = seg then { x with count := x.count - 1 } else x)

/-- `release_old_unused_segments(map, old_idx)` -/
def releaseOld (segs : List VSeg) : Option Nat → List VSeg
  | none => segs
  | some o => match segs.find? (·.id = o) with
    | some x => if x.count = 0 then segs.filter (·.id ≠ o) else segs
    | none => segs

/-- `register_and_translate_offset`; `ownerHas`: the segment still exists (can be opened) -/
def View.register (vw : View) (ownerHas : Bool) (seg : Nat) : Option View :=
  match vw.segs.find? (·.id = seg) with
  | some _ => some { vw with segs := bumpV vw.segs seg }
  | none =>
    if ownerHas then
      some { vw with segs := releaseOld (vw.segs ++ [{ id := seg, count := 1 }]) vw.cur, cur := some seg }
    else none

/-- `unregister_offset` -/
def View.unregister (vw : View) (seg : Nat) : View :=
  match vw.segs.find? (·.id = seg) with
  | none => vw                                  -- only a warning
  | some x =>
    if x.count = 1 ∧ vw.cur ≠ some seg then { vw with segs := vw.segs.filter (·.id ≠ seg) }
    else { vw with segs := decV vw.segs seg }

/-- bookkeeping of the user of a view: the offsets it holds -/
def View.addReg (vw : View) (r : Reg) : View := { vw with regs := r :: vw.regs }
def View.delReg (vw : View) (l : Nat) : View := { vw with regs := vw.regs.filter (·.label ≠ l) }

/-! ### operations of a history -/
inductive Op where
  | alloc (l size align : Nat)
  | write (l b : Nat)
  | dealloc (l : Nat)
  | grow (l size align : Nat) (pl : Placement)
  | vreg (v l : Nat)
  | vread (v l : Nat)
  | vunreg (v l : Nat)
  | segments
  | vsegments (v : Nat)
deriving Repr, DecidableEq

inductive Out where
  | ok
  | okAt (seg off : Nat)
  | okByte (b : Nat)
  | num (n : Nat)
  | err (e : Err)
  | dup | none | tainted
deriving Repr, DecidableEq

/-- `write_bytes`: fill `[off, off+size)` of segment `seg` with `b` -/
def fillMem (m : Nat → Nat → Nat) (seg off size b : Nat) : Nat → Nat → Nat :=
  fun s o => if s = seg ∧ off ≤ o ∧ o < off + size then b else m s o

/-- `copy(src, dst, len)` between (segment, offset) positions (memmove: reads the old content) -/
def copyMem (m : Nat → Nat → Nat) (sseg soff dseg doff len : Nat) : Nat → Nat → Nat :=
  fun s o => if s = dseg ∧ doff ≤ o ∧ o < doff + len then m sseg (soff + (o - doff)) else m s o

def liveChunk (s : St) (l : Nat) : Option Chunk :=
  match getChunk s.chunks l with
  | some c => if c.live then some c else none
  | none => none

/-- `DynamicMemory::grow(old_pointer, old_layout, new_layout, placement)` for the live chunk `c` -/
def growChunk (s : St) (c : Chunk) (size align : Nat) (pl : Placement) : St × Out :=
  match getSeg s.segs s.cur with
  | none => (s, .err .internal)
  | some g =>
    -- `current_segment.shm.grow(old_pointer, …)`: the allocator of the CURRENT segment judges the request
    if align > g.balign then (s, .err .align)
    else if size < c.size then (s, .err .shrink)
    else if size > g.stride then
      -- AllocationGrowError::OutOfMemory → handle_reallocation, allocate in the new segment, copy, release
      if s.cfg.strategy = .static then (s, .err .oom)
      else match createResized s g size align with
        | none => (s, .err .oom)
        | some s1 =>
          match getSeg s1.segs s1.cur with
          | none => (s1, .err .internal)
          | some g1 =>
            match g1.allocate size align with
            | (_, .error e) =>
                (s1, .err (match e with
                            | .outOfMemory => .oom | .alignmentFailure => .align | _ => .internal))
            | (g1', .ok off) =>
              let s2 := { s1 with segs := setSeg s1.segs { g1' with count := g1'.count + 1 } }
              -- content: front → the old bytes start the new chunk; back → they end it
              let shift := if pl = .back then size - c.size else 0
              let mem := copyMem s2.mem c.seg c.off s1.cur (off + shift) c.size
              let s3 := deallocate { s2 with mem := mem } c.seg c.off
              let c' : Chunk := { label := c.label, seg := s1.cur, off := off, size := size, align := align,
                                  live := true, tainted := off = c.off }
              ({ s3 with chunks := putChunk s3.chunks c' }, .okAt s1.cur off)
    else
      -- in place: the offset is returned with the segment id of the CURRENT segment; with the content
      -- at the back the bytes are moved inside the memory of the CURRENT segment
      let c' : Chunk := { c with seg := s.cur, size := size, align := align,
                                 tainted := c.tainted || s.cur ≠ c.seg }
      let mem := if pl = .back ∧ size ≠ c.size
                 then copyMem s.mem s.cur c.off s.cur (c.off + (size - c.size)) c.size else s.mem
      ({ s with chunks := putChunk s.chunks c', mem := mem }, .okAt s.cur c.off)

def step (s : St) : Op → St × Out
  | .alloc l size align =>
    match liveChunk s l with
    | some _ => (s, .dup)
    | none =>
      match allocate s size align with
      | (s', .ok (seg, off)) =>
          let c : Chunk := { label := l, seg := seg, off := off, size := size, align := align, live := true }
          ({ s' with chunks := putChunk s'.chunks c }, .okAt seg off)
      | (s', .error e) => (s', .err e)
  | .write l b =>
    match liveChunk s l with
    | none => (s, .none)
    | some c =>
      if c.tainted then (s, .tainted)
      else ({ s with mem := fillMem s.mem c.seg c.off c.size b }, .ok)
  | .dealloc l =>
    match liveChunk s l with
    | none => (s, .none)
    | some c =>
      if c.tainted then (s, .tainted)
      else
        let s' := deallocate s c.seg c.off
        ({ s' with chunks := putChunk s'.chunks { c with live := false } }, .ok)
  | .grow l size align pl =>
    match liveChunk s l with
    | none => (s, .none)
    | some c => if c.tainted then (s, .tainted) else growChunk s c size align pl
  | .vreg v l =>
    match s.views[v]? with
    | none => (s, .none)
    | some vw =>
      if vw.regs.any (·.label = l) then (s, .dup)
      else match getChunk s.chunks l with
        | none => (s, .none)
        | some c =>
          match vw.register ((getSeg s.segs c.seg).isSome) c.seg with
          | none => (s, .err .doesNotExist)
          | some vw' =>
            ({ s with views := s.views.set v (vw'.addReg ⟨l, c.seg, c.off⟩) }, .ok)
  | .vread v l =>
    match s.views[v]? with
    | none => (s, .none)
    | some vw =>
      match vw.regs.find? (·.label = l) with
      | none => (s, .none)
      | some r => (s, .okByte (s.mem r.seg r.off))
  | .vunreg v l =>
    match s.views[v]? with
    | none => (s, .none)
    | some vw =>
      match vw.regs.find? (·.label = l) with
      | none => (s, .none)
      | some r =>
        ({ s with views := s.views.set v ((vw.unregister r.seg).delReg l) }, .ok)
  | .segments => (s, .num s.segs.length)
  | .vsegments v =>
    match s.views[v]? with
    | none => (s, .none)
    | some vw => (s, .num vw.segs.length)

def run (s : St) : List Op → St
  | [] => s
  | op :: ops => run (step s op).1 ops

/-- the outputs of a history -/
def outs (s : St) : List Op → List Out
  | [] => []
  | op :: ops => (step s op).2 :: outs (step s op).1 ops

end Iox2.ResizeMem
