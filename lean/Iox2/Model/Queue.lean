/-
Model of `iceoryx2-bb/container/src/queue.rs` (`MetaQueue`: `Queue`, `FixedSizeQueue`,
`RelocatableQueue`), transcribed as coded: a ring of `capacity` slots addressed through the
monotone cursor `start` and `len`.
-/
import Iox2.Model.Vec
namespace Iox2.Queue
open Iox2.Vec (Elem)

inductive Op where
  | push (e : Elem)
  | pushOverflow (e : Elem)
  | pop
  | peek
  | clear
  | get (i : Nat)
  | dump
  | dropAll
deriving Repr

inductive Out where
  | tt | ff
  | some (e : Elem)
  | none
  | contents (items : List Elem) (cap : Nat)
  | panic
deriving Repr, DecidableEq

structure St where
  cap   : Nat
  start : Nat
  len   : Nat
  data  : List (Option Elem)
deriving Repr

def init (cap : Nat) : St := { cap := cap, start := 0, len := 0, data := List.replicate cap none }

/-- `pop_impl` -/
def popImpl (s : St) : St × Option Elem :=
  if s.len = 0 then (s, none)
  else
    let idx := (s.start - s.len) % s.cap
    ({ s with len := s.len - 1, data := s.data.set idx none }, (s.data.getD idx none))

/-- `unchecked_push` (caller guarantees `cap ≠ 0`) -/
def uncheckedPush (s : St) (e : Elem) : St :=
  { s with data := s.data.set (s.start % s.cap) (some e), start := s.start + 1, len := s.len + 1 }

/-- the queue's contents, oldest first, read exactly as `get_unchecked(i)` computes the slot -/
def slotAt (s : St) (i : Nat) : Option Elem := s.data.getD ((s.start - s.len + i) % s.cap) none

def contents (s : St) : List Elem := (List.range s.len).filterMap (slotAt s)

/-- `clear_impl` = `while pop_impl().is_some() {}` — bounded by `len` -/
def clearLoop : Nat → St → List Nat → St × List Nat
  | 0, s, acc => (s, acc)
  | fuel+1, s, acc =>
    match popImpl s with
    | (s', some e) => clearLoop fuel s' (acc ++ [e.id])
    | (s', none) => (s', acc)

def step (s : St) : Op → St × Out × List Nat
  | .push e =>
      if s.len = s.cap then (s, .ff, [e.id]) else (uncheckedPush s e, .tt, [])
  | .pushOverflow e =>
      if s.cap = 0 then (s, .some e, [])     -- nothing fits: the value itself overflows
      else if s.len = s.cap then
        let (s', old) := popImpl s
        (uncheckedPush s' e, (match old with | some o => .some o | none => .none), [])
      else (uncheckedPush s e, .none, [])
  | .pop =>
      match popImpl s with
      | (s', some e) => (s', .some e, [])
      | (s', none) => (s', .none, [])
  | .peek =>
      if s.len = 0 then (s, .none, [])
      else match slotAt s 0 with
        | some e => (s, .some e, [])
        | none => (s, .none, [])
  | .clear => let (s', d) := clearLoop (s.len + 1) s []; (s', .tt, d)
  | .get i =>
      if s.len ≤ i then (s, .panic, [])
      else match slotAt s i with
        | some e => (s, .some e, [])
        | none => (s, .none, [])
  | .dump => (s, .contents (contents s) s.cap, [])
  | .dropAll => let (s', d) := clearLoop (s.len + 1) s []; (s', .tt, d)

end Iox2.Queue
