/-
One channel of a zero-copy connection (`iceoryx2-cal/src/zero_copy_connection/common.rs`) at the
granularity of its API calls — each call of the sender (`try_send`, `reclaim`) and of the receiver
(`receive`, `release`) is one atomic step, but sender and receiver calls interleave freely.
The sender port's protocol (`port/details/sender.rs`): before it sends it reclaims until the completion
queue is empty; `reclaim … reclaim(none) ; try_send` is NOT atomic, the receiver keeps receiving and
releasing in between.  This is the level at which the size of the completion queue matters.
-/
namespace Iox2.Channel

structure St where
  buf : Nat                 -- submission queue capacity (buffer size)
  maxBorrow : Nat
  overflow : Bool
  compCap : Nat             -- completion queue capacity (the code: buffer + max borrowed + 1)
  sub : List Nat := []
  comp : List Nat := []
  borrowed : List Nat := []
  used : List Nat := []     -- used chunk list
  drained : Bool := true    -- ghost: the sender's last reclaim found the completion queue empty and it has not sent since
  disciplined : Bool := true -- ghost: every send so far was issued in the `drained` state
  releaseFailed : Bool := false -- ghost: some release was refused for lack of queue space
deriving Repr

/-- the code's formula (`Builder::completion_queue_size`) -/
def completionQueueSize (buf maxBorrow : Nat) : Nat := buf + maxBorrow + 1

def St.init (buf maxBorrow : Nat) (overflow : Bool) : St :=
  { buf := buf, maxBorrow := maxBorrow, overflow := overflow, compCap := completionQueueSize buf maxBorrow }

inductive Op where
  | send (c : Nat)          -- sender: try_send chunk c
  | reclaim                 -- sender: reclaim one returned chunk
  | recv                    -- receiver: receive
  | release (k : Nat)       -- receiver: release the k-th chunk it holds
  | borrowCount | hasData
deriving Repr, DecidableEq

def step (s : St) : Op → St × String
  | .send c =>
    let s := { s with disciplined := s.disciplined && s.drained, drained := false }
    if c ∈ s.used then (s, "dup") else      -- the harness never sends a chunk that is still in flight
    if !s.overflow && s.sub.length ≥ s.buf then (s, "err:ReceiveBufferFull")
    else
      let s := { s with used := s.used ++ [c] }
      if s.sub.length ≥ s.buf then
        match s.sub with
        | [] => ({ s with sub := [c] }, "ok")
        | old :: rest => ({ s with sub := rest ++ [c], used := s.used.erase old }, s!"ok:evicted:{old}")
      else ({ s with sub := s.sub ++ [c] }, "ok")
  | .reclaim =>
    match s.comp with
    | [] => ({ s with drained := true }, "none")
    | c :: rest => ({ s with comp := rest, used := s.used.erase c }, s!"some:{c}")
  | .recv =>
    if s.borrowed.length ≥ s.maxBorrow then (s, "err:ReceiveWouldExceedMaxBorrowValue")
    else match s.sub with
      | [] => (s, "none")
      | c :: rest => ({ s with sub := rest, borrowed := s.borrowed ++ [c] }, s!"some:{c}")
  | .release k =>
    match s.borrowed[k]? with
    | none => (s, "none")
    | some c =>
      if s.comp.length < s.compCap then ({ s with comp := s.comp ++ [c], borrowed := s.borrowed.eraseIdx k }, "ok")
      else ({ s with releaseFailed := true }, "err:RetrieveBufferFull")
  | .borrowCount => (s, toString s.borrowed.length)
  | .hasData => (s, if s.sub.isEmpty then "false" else "true")

def run (s : St) (ops : List Op) : St := ops.foldl (fun s op => (step s op).1) s

end Iox2.Channel
