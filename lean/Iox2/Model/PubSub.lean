/-
L1 (API-call atomic) model of publish-subscribe through the ports:
`iceoryx2/src/port/{publisher,subscriber}.rs`, `port/details/{sender,receiver,segment_state}.rs`,
`iceoryx2-cal/src/zero_copy_connection/common.rs`, the dynamic-config registries
(`service/dynamic_config/publish_subscribe.rs`, lowest-free-slot containers with a change counter),
the pool allocator's LIFO free list and the subscriber's slot-map connection storage
(`Iox2.SlotMap`, the model validated for C16).

Every function is a transcription of the Rust function named in its comment; ghost fields
(`seq`, `chunkSeq`, the per-connection logs) are written but never read by the transitions.
-/
import Iox2.Model.SlotMap
namespace Iox2.PubSub

structure Cfg where
  maxPubs : Nat
  maxSubs : Nat
  bufMax  : Nat          -- subscriber_max_buffer_size
  hist    : Nat          -- history_size
  borrowMax : Nat        -- subscriber_max_borrowed_samples
  overflow : Bool        -- enable_safe_overflow
  expired : Nat          -- config: subscriber_expired_connection_buffer
  /-- `PortFactoryPublisher::override_sample_preallocation`: every publisher of the world asks for this many chunks -/
  prealloc : Option Nat := none
deriving Repr

structure SubEntry where
  sid : Nat
  buffer : Nat
  histReq : Nat
deriving Repr, DecidableEq

/-- dynamic-config container: fixed slots, lowest free slot on add, change counter -/
structure Reg (α : Type) where
  slots : List (Option α)
  counter : Nat := 0
deriving Repr

def Reg.init {α : Type} (cap : Nat) : Reg α := { slots := List.replicate cap none }

def firstFree {α : Type} : List (Option α) → Nat → Option Nat
  | [], _ => none
  | none :: _, i => some i
  | some _ :: r, i => firstFree r (i + 1)

def Reg.add {α : Type} (r : Reg α) (a : α) : Option (Reg α × Nat) :=
  match firstFree r.slots 0 with
  | none => none
  | some i => some ({ slots := r.slots.set i (some a), counter := r.counter + 1 }, i)

def Reg.remove {α : Type} (r : Reg α) (i : Nat) : Reg α :=
  { slots := r.slots.set i none, counter := r.counter + 1 }

/-- one zero-copy connection (shared memory object named after publisher id and subscriber id) -/
structure Conn where
  pid : Nat
  sid : Nat
  cap : Nat                      -- submission queue capacity = the subscriber's buffer size
  sub : List (Nat × Nat) := []   -- submission queue, oldest first: (chunk, ghost seq)
  comp : List Nat := []          -- completion queue
  used : List Bool               -- used chunk list (bit per chunk)
  borrow : Nat := 0              -- receiver's borrow counter
  sAtt : Bool := false           -- sender port attached
  rAtt : Bool := false           -- receiver port attached
  -- ghost logs (seq numbers of the publisher's sends)
  gDelivered : List Nat := []
  gReceived : List Nat := []
  gEvicted : List Nat := []
  gSkipped : List Nat := []
  gFirst : Nat := 0              -- the publisher's send number when its side of the connection was created
  gHist : List Nat := []         -- send numbers of the history samples that were to be delivered then
deriving Repr

structure Pub where
  alive : Bool := true           -- the `Publisher` object exists
  ex : Bool := true              -- the shared state (port or an outstanding loan keeps it) exists
  slot : Nat := 0
  maxLoans : Nat
  n : Nat                        -- number of chunks of the data segment
  free : List Nat                -- pool free list (LIFO)
  rc : List Nat                  -- chunk reference counters
  loanCnt : Nat := 0
  hist : List Nat := []          -- history: chunk indices, oldest first
  conns : List (Option Nat)      -- per subscriber slot: connected subscriber id
  snapCtr : Nat
  snap : List (Option SubEntry)
  loans : List (Nat × Nat) := [] -- (loan label, chunk)
  payload : List Nat             -- memory of the data segment: one word per chunk
  -- ghost
  seq : Nat := 0                 -- number of samples sent so far
  chunkSeq : List Nat            -- send number of the sample stored in the chunk
  sent : List Nat := []          -- payload written for send number i
deriving Repr

structure Held where
  key : Nat
  pid : Nat
  chunk : Nat
  seq : Nat
  tag : Nat
deriving Repr

structure Sub where
  alive : Bool := true
  ex : Bool := true
  slot : Nat := 0
  buffer : Nat
  histReq : Nat
  conns : List (Option Nat)      -- per publisher slot: slot-map key of the connection
  storage : SlotMap.St Nat       -- connection storage: key -> publisher id
  tbr : List Nat := []           -- to_be_removed_connections (keys)
  tbrCap : Nat
  snapCtr : Nat
  snap : List (Option Nat)
  held : List Held := []
  ghostRecv : List (Nat × Nat) := []   -- ghost: (pid, seq) in receive order

structure World where
  cfg : Cfg
  pubReg : Reg Nat
  subReg : Reg SubEntry
  pubs : List (Nat × Pub) := []
  subs : List (Nat × Sub) := []
  conns : List Conn := []
  panicked : Bool := false

def World.init (c : Cfg) : World :=
  { cfg := c, pubReg := Reg.init c.maxPubs, subReg := Reg.init c.maxSubs }

/-! ### accessors -/

def getP (w : World) (p : Nat) : Option Pub := (w.pubs.find? (·.1 = p)).map (·.2)
def getS (w : World) (s : Nat) : Option Sub := (w.subs.find? (·.1 = s)).map (·.2)
def setP (w : World) (p : Nat) (x : Pub) : World :=
  { w with pubs := w.pubs.map fun e => if e.1 = p then (p, x) else e }
def setS (w : World) (s : Nat) (x : Sub) : World :=
  { w with subs := w.subs.map fun e => if e.1 = s then (s, x) else e }
def getC (w : World) (p s : Nat) : Option Conn := w.conns.find? fun c => c.pid = p ∧ c.sid = s
def setC (w : World) (x : Conn) : World :=
  { w with conns := w.conns.map fun c => if c.pid = x.pid ∧ c.sid = x.sid then x else c }

/-- sender side of the connection goes away (`Connection` of the sender port dropped) -/
def detachSender (w : World) (p s : Nat) : World :=
  match getC w p s with
  | none => w
  | some c =>
    if c.rAtt then setC w { c with sAtt := false }
    else { w with conns := w.conns.filter fun c => ¬ (c.pid = p ∧ c.sid = s) }

def detachReceiver (w : World) (p s : Nat) : World :=
  match getC w p s with
  | none => w
  | some c =>
    if c.sAtt then setC w { c with rAtt := false }
    else { w with conns := w.conns.filter fun c => ¬ (c.pid = p ∧ c.sid = s) }

/-! ### publisher side (`sender.rs`) -/

/-- `Sender::release_chunk` -/
def Pub.releaseChunk (P : Pub) (c : Nat) : Pub :=
  let old := P.rc.getD c 0
  let P := { P with rc := P.rc.set c (old - 1) }
  if old = 1 then { P with free := c :: P.free } else P

/-- `Sender::borrow_chunk` -/
def Pub.borrowChunk (P : Pub) (c : Nat) : Pub := { P with rc := P.rc.set c (P.rc.getD c 0 + 1) }

/-- drain one completion queue: `reclaim` until empty, `release_chunk` each valid offset -/
def drainComp (P : Pub) (used : List Bool) : List Nat → Pub × List Bool
  | [] => (P, used)
  | c :: r =>
    if used.getD c false then drainComp (P.releaseChunk c) (used.set c false) r
    else drainComp P used r

/-- `Sender::retrieve_returned_chunks` over the connection slots `slots` -/
def retrieveFrom (w : World) (p : Nat) : List (Option Nat) → World
  | [] => w
  | none :: r => retrieveFrom w p r
  | some s :: r =>
    match getP w p, getC w p s with
    | some P, some c =>
      let (P', used') := drainComp P c.used c.comp
      retrieveFrom (setC (setP w p P') { c with comp := [], used := used' }) p r
    | _, _ => retrieveFrom w p r

def retrieveReturned (w : World) (p : Nat) : World :=
  match getP w p with
  | none => w
  | some P => retrieveFrom w p P.conns

/-- result of `ZeroCopySender::try_send` -/
inductive SendRes where
  | full | corrupted | ok (evicted : Option Nat)
deriving Repr, DecidableEq

/-- `try_send` of `zero_copy_connection/common.rs` (one channel) -/
def Conn.trySend (c : Conn) (overflow : Bool) (chunk seq : Nat) : Conn × SendRes :=
  if !overflow && c.sub.length ≥ c.cap then ({ c with gSkipped := c.gSkipped ++ [seq] }, .full)
  else
    let c := { c with used := c.used.set chunk true, gDelivered := c.gDelivered ++ [seq] }
    if c.sub.length ≥ c.cap then
      -- SafelyOverflowingIndexQueue::push on a full queue: the oldest element comes back
      match c.sub with
      | [] => ({ c with sub := [(chunk, seq)] }, .ok none)      -- capacity 0 cannot be configured
      | (old, oseq) :: rest =>
        let c := { c with sub := rest ++ [(chunk, seq)], gEvicted := c.gEvicted ++ [oseq] }
        if c.used.getD old false then ({ c with used := c.used.set old false }, .ok (some old))
        else (c, .corrupted)
    else ({ c with sub := c.sub ++ [(chunk, seq)] }, .ok none)

/-- one connection of `deliver_offset_to_connection_impl` / the body of `deliver_sample_history`:
returns the world and whether the sample was delivered -/
def deliverTo (w : World) (p s chunk seq : Nat) : World × Bool :=
  match getP w p, getC w p s with
  | some P, some c =>
    let (c', r) := c.trySend w.cfg.overflow chunk seq
    let w := setC w c'
    match r with
    | .ok ev =>
      let P := P.borrowChunk chunk
      let P := match ev with | some old => P.releaseChunk old | none => P
      (setP w p P, true)
    | _ => (w, false)
  | _, _ => (w, false)

/-- `Publisher::deliver_sample_history`: `chunks` = the part of the history to deliver -/
def deliverHistory (w : World) (p s : Nat) : List Nat → World
  | [] => w
  | ch :: r =>
    let w := retrieveReturned w p
    let seq := match getP w p with | some P => P.chunkSeq.getD ch 0 | none => 0
    deliverHistory (deliverTo w p s ch seq).1 p s r

/-- `acquire_used_offsets`: every used chunk, ascending, is released -/
def releaseAllUsed (P : Pub) (used : List Bool) : Nat → Pub
  | 0 => P
  | k + 1 =>
    let P := releaseAllUsed P used k
    if used.getD k false then P.releaseChunk k else P

/-- `Sender::remove_connection` -/
def pubRemoveConn (w : World) (p slot : Nat) : World :=
  match getP w p with
  | none => w
  | some P =>
    match P.conns.getD slot none with
    | none => w
    | some s =>
      let (w, P) := match getC w p s with
        | some c =>
          let P := releaseAllUsed P c.used c.used.length
          (setC w { c with used := c.used.map fun _ => false }, P)
        | none => (w, P)
      let w := setP w p { P with conns := P.conns.set slot none }
      detachSender w p s

/-- `Sender::create` + `Connection::new` (`create_sender`) + the `establish_new_connection_call` -/
def pubCreateConn (w : World) (p slot : Nat) (e : SubEntry) : World :=
  match getP w p with
  | none => w
  | some P =>
    let bufferSize := match getC w p e.sid with | some c => c.cap | none => e.buffer
    let cnt := min e.histReq bufferSize
    let toDeliver := P.hist.drop (P.hist.length - cnt)
    let gh := toDeliver.map fun ch => P.chunkSeq.getD ch 0
    let w := match getC w p e.sid with
      | some c => setC w { c with sAtt := true, gFirst := P.seq, gHist := gh }
      | none => { w with conns := w.conns ++ [{ pid := p, sid := e.sid, cap := e.buffer,
                                                 used := List.replicate P.n false, sAtt := true,
                                                 gFirst := P.seq, gHist := gh }] }
    let w := setP w p { P with conns := P.conns.set slot (some e.sid) }
    -- deliver_sample_history
    deliverHistory w p e.sid toDeliver

/-- the `for_each` of `Publisher::force_update_connections`; returns the tagged slots -/
def pubUpdateSlots (w : World) (p : Nat) : List (Option SubEntry) → Nat → List Nat → World × List Nat
  | [], _, tagged => (w, tagged)
  | none :: r, i, tagged => pubUpdateSlots w p r (i + 1) tagged
  | some e :: r, i, tagged =>
    match getP w p with
    | none => (w, tagged)
    | some P =>
      match P.conns.getD i none with
      | none => pubUpdateSlots (pubCreateConn w p i e) p r (i + 1) (i :: tagged)
      | some s =>
        if s = e.sid then pubUpdateSlots w p r (i + 1) (i :: tagged)
        else pubUpdateSlots (pubCreateConn (pubRemoveConn w p i) p i e) p r (i + 1) (i :: tagged)

/-- `finish_update_connection_cycle` -/
def pubFinish (w : World) (p : Nat) (tagged : List Nat) : Nat → World
  | 0 => w
  | k + 1 =>
    let w := pubFinish w p tagged k
    if tagged.contains k then w else pubRemoveConn w p k

def pubForceUpdate (w : World) (p : Nat) : World :=
  match getP w p with
  | none => w
  | some P =>
    let (w, tagged) := pubUpdateSlots w p P.snap 0 []
    pubFinish w p tagged P.conns.length

/-- `Publisher::update_connections` -/
def pubUpdate (w : World) (p : Nat) : World :=
  match getP w p with
  | none => w
  | some P =>
    if P.snapCtr = w.subReg.counter then w
    else pubForceUpdate (setP w p { P with snapCtr := w.subReg.counter, snap := w.subReg.slots }) p

/-- the shared state of a publisher is dropped: all sender-side connections are closed -/
def pubDestroySlots (w : World) (p : Nat) : List (Option Nat) → World
  | [] => w
  | none :: r => pubDestroySlots w p r
  | some s :: r => pubDestroySlots (detachSender w p s) p r

def pubDestroyIfUnreferenced (w : World) (p : Nat) : World :=
  match getP w p with
  | none => w
  | some P =>
    if P.alive || !P.loans.isEmpty || !P.ex then w
    else
      let w := pubDestroySlots w p P.conns
      setP w p { P with ex := false, conns := P.conns.map fun _ => none }

/-! ### subscriber side (`receiver.rs`) -/

def smGet (m : SlotMap.St Nat) (k : Nat) : Option Nat :=
  match (SlotMap.step m (.get k)).2.1 with
  | .some e => some e
  | _ => none
def smRemove (m : SlotMap.St Nat) (k : Nat) : SlotMap.St Nat := (SlotMap.step m (.remove k)).1
def smInsert (m : SlotMap.St Nat) (e : Nat) : SlotMap.St Nat × Option Nat :=
  match SlotMap.step m (.insert e) with
  | (m', .key k, _) => (m', some k)
  | (m', _, _) => (m', none)

/-- `(has_data, has_borrows)` of the connection stored under `key` -/
def connFlags (w : World) (s : Nat) (S : Sub) (key : Nat) : Option (Bool × Bool) :=
  match smGet S.storage key with
  | none => none
  | some p =>
    match getC w p s with
    | some c => some (!c.sub.isEmpty, c.borrow > 0)
    | none => some (false, false)

/-- `connection_storage.remove(key)`: the `Connection` is dropped, the receiver side detaches -/
def subDropConn (w : World) (s : Nat) (key : Nat) : World :=
  match getS w s with
  | none => w
  | some S =>
    match smGet S.storage key with
    | none => w
    | some p =>
      let w := setS w s { S with storage := smRemove S.storage key }
      detachReceiver w p s

/-- `find_connection_with_condition` -/
def findTbr (w : World) (s : Nat) (S : Sub) (cond : Bool → Bool → Bool) : List Nat → Nat → Option (Nat × Nat)
  | [], _ => none
  | k :: r, n =>
    match connFlags w s S k with
    | none => some (n, k)
    | some (d, b) => if cond d b then some (n, k) else findTbr w s S cond r (n + 1)

/-- `Receiver::prepare_connection_removal` -/
def subPrepareRemoval (w : World) (s slot : Nat) : World :=
  match getS w s with
  | none => w
  | some S =>
    match S.conns.getD slot none with
    | none => w
    | some key =>
      match connFlags w s S key with
      | none => w
      | some (hasData, hasBorrows) =>
        if hasData || hasBorrows then
          if S.tbr.length < S.tbrCap then setS w s { S with tbr := S.tbr ++ [key] }
          else
            -- expired connection buffer exceeded
            let w :=
              match findTbr w s S (fun d b => !(d || b)) S.tbr 0 with
              | some (i, k) => subDropConn (setS w s { S with tbr := S.tbr.eraseIdx i }) s k
              | none =>
                if hasBorrows then
                  match findTbr w s S (fun _ b => !b) S.tbr 0 with
                  | some (i, k) => subDropConn (setS w s { S with tbr := S.tbr.eraseIdx i }) s k
                  | none => w
                else w
            match getS w s with
            | none => w
            | some S =>
              if S.tbr.length < S.tbrCap then setS w s { S with tbr := S.tbr ++ [key] }
              else if hasBorrows then { w with panicked := true }
              else subDropConn w s key
        else subDropConn w s key

/-- `Receiver::create` -/
def subCreateConn (w : World) (s slot p : Nat) : World :=
  match getS w s with
  | none => w
  | some S =>
    -- `Connection::new`: `create_receiver`
    let w := match getC w p s with
      | some c => setC w { c with rAtt := true }
      | none =>
        let n := match getP w p with | some P => P.n | none => 0
        { w with conns := w.conns ++ [{ pid := p, sid := s, cap := S.buffer,
                                         used := List.replicate n false, rAtt := true }] }
    match smInsert S.storage p with
    | (m, some key) => setS w s { S with storage := m, conns := S.conns.set slot (some key) }
    | (_, none) => { w with panicked := true }

/-- the `for_each` of `Subscriber::force_update_connections`; returns the tagged keys -/
def subUpdateSlots (w : World) (s : Nat) : List (Option Nat) → Nat → List Nat → World × List Nat
  | [], _, tagged => (w, tagged)
  | none :: r, i, tagged => subUpdateSlots w s r (i + 1) tagged
  | some p :: r, i, tagged =>
    match getS w s with
    | none => (w, tagged)
    | some S =>
      let connected :=
        match S.conns.getD i none with
        | none => none
        | some key => match smGet S.storage key with
          | some p' => if p' = p then some key else none
          | none => none
      match connected with
      | some key => subUpdateSlots w s r (i + 1) (key :: tagged)
      | none =>
        let w := subCreateConn (subPrepareRemoval w s i) s i p
        let tagged := match getS w s with
          | some S' => match S'.conns.getD i none with | some k => k :: tagged | none => tagged
          | none => tagged
        subUpdateSlots w s r (i + 1) tagged

/-- `Receiver::finish_update_connection_cycle` -/
def subFinish (w : World) (s : Nat) (tagged : List Nat) : Nat → Nat → World
  | 0, _ => w
  | fuel + 1, n =>
    match getS w s with
    | none => w
    | some S =>
      if n ≥ S.conns.length then w else
      let w :=
        match S.conns.getD n none with
        | none => w
        | some key =>
          if (smGet S.storage key).isSome && !tagged.contains key then
            let w := subPrepareRemoval w s n
            match getS w s with
            | some S' => setS w s { S' with conns := S'.conns.set n none }
            | none => w
          else w
      subFinish w s tagged fuel (n + 1)

def subForceUpdate (w : World) (s : Nat) : World :=
  match getS w s with
  | none => w
  | some S =>
    let (w, tagged) := subUpdateSlots w s S.snap 0 []
    subFinish w s tagged S.conns.length 0

/-- `Subscriber::update_connections` -/
def subUpdate (w : World) (s : Nat) : World :=
  match getS w s with
  | none => w
  | some S =>
    if S.snapCtr = w.pubReg.counter then w
    else subForceUpdate (setS w s { S with snapCtr := w.pubReg.counter, snap := w.pubReg.slots }) s

inductive RecvRes where
  | none | maxBorrow | some (key pid chunk seq : Nat)
deriving Repr, DecidableEq

/-- `Receiver::receive_from_connection` (→ `ZeroCopyReceiver::receive`) -/
def recvFromConn (w : World) (s : Nat) (S : Sub) (key : Nat) : World × RecvRes :=
  match smGet S.storage key with
  | none => (w, .none)
  | some p =>
    match getC w p s with
    | none => (w, .none)
    | some c =>
      if c.borrow ≥ w.cfg.borrowMax then (w, .maxBorrow)
      else match c.sub with
        | [] => (w, .none)
        | (ch, seq) :: rest =>
          (setC w { c with sub := rest, borrow := c.borrow + 1, gReceived := c.gReceived ++ [seq] },
           .some key p ch seq)

/-- `receive_from_to_be_removed_connections`.  `i` = absolute scan position. -/
def recvTbr (w : World) (s : Nat) : Nat → Nat → World × RecvRes
  | 0, _ => (w, .none)
  | fuel + 1, i =>
    match getS w s with
    | none => (w, .none)
    | some S =>
      match S.tbr[i]? with
      | none => (w, .none)
      | some key =>
        match smGet S.storage key with
        | none => recvTbr (setS w s { S with tbr := S.tbr.eraseIdx i }) s fuel i
        | some p =>
          let c? := getC w p s
          let borrow := match c? with | some c => c.borrow | none => 0
          if borrow = w.cfg.borrowMax then recvTbr w s fuel (i + 1)
          else
            match recvFromConn w s S key with
            | (w', .some k p ch q) => (w', .some k p ch q)
            | (w', .maxBorrow) => (w', .maxBorrow)
            | (w', .none) =>
              if borrow > 0 then recvTbr w' s fuel (i + 1)
              else
                let w' := setS w' s { S with tbr := S.tbr.eraseIdx i }
                recvTbr (subDropConn w' s key) s fuel i

structure ScanAcc where
  active : Nat := 0
  allMax : Bool := true

/-- the loop over `connection_storage.iter()` in `Receiver::receive` -/
def recvScan (w : World) (s : Nat) (S : Sub) : List (Nat × Nat) → ScanAcc → World × RecvRes × ScanAcc
  | [], acc => (w, .none, acc)
  | (key, p) :: r, acc =>
    match getC w p s with
    | none => recvScan w s S r acc
    | some c =>
      if c.sub.isEmpty then recvScan w s S r acc
      else
        let acc := { acc with active := acc.active + 1 }
        if c.borrow ≥ w.cfg.borrowMax then recvScan w s S r acc
        else
          let acc := { acc with allMax := false }
          match recvFromConn w s S key with
          | (w', .some k p ch q) => (w', .some k p ch q, acc)
          | (w', .maxBorrow) => (w', .maxBorrow, acc)
          | (w', .none) => recvScan w' s S r acc

/-- `Receiver::receive` -/
def subReceive (w : World) (s : Nat) : World × RecvRes :=
  match getS w s with
  | none => (w, .none)
  | some S =>
    match recvTbr w s (S.tbr.length + 1) 0 with
    | (w', .some k p ch q) => (w', .some k p ch q)
    | (w', .maxBorrow) => (w', .maxBorrow)
    | (w', .none) =>
      match getS w' s with
      | none => (w', .none)
      | some S' =>
        match recvScan w' s S' (SlotMap.items S'.storage) {} with
        | (w'', .some k p ch q, _) => (w'', .some k p ch q)
        | (w'', .maxBorrow, _) => (w'', .maxBorrow)
        | (w'', .none, acc) => if acc.allMax && acc.active ≠ 0 then (w'', .maxBorrow) else (w'', .none)

/-- `Receiver::release_offset` (a `Sample` is dropped) -/
def subRelease (w : World) (s : Nat) (h : Held) : World :=
  match getS w s with
  | none => w
  | some S =>
    match smGet S.storage h.key with
    | none => w
    | some p =>
      if p ≠ h.pid then w else
      match getC w p s with
      | none => w
      | some c =>
        -- completion queue capacity = buffer + max borrowed + 1
        if c.comp.length < c.cap + w.cfg.borrowMax + 1 then
          setC w { c with comp := c.comp ++ [h.chunk], borrow := c.borrow - 1 }
        else w

def subDestroyKeys (w : World) (s : Nat) : List (Nat × Nat) → World
  | [] => w
  | (_, p) :: r => subDestroyKeys (detachReceiver w p s) s r

def subDestroyIfUnreferenced (w : World) (s : Nat) : World :=
  match getS w s with
  | none => w
  | some S =>
    if S.alive || !S.held.isEmpty || !S.ex then w
    else
      let w := subDestroyKeys w s (SlotMap.items S.storage)
      setS w s { S with ex := false, storage := SlotMap.init 0, tbr := [], conns := S.conns.map fun _ => none }

/-! ### API operations -/

inductive Op where
  | cpub (p maxLoans : Nat)
  | dpub (p : Nat)
  | csub (s : Nat) (buffer histReq : Option Nat)
  | dsub (s : Nat)
  | loan (p l : Nat)
  | send (p l tag : Nat)
  | dloan (p l : Nat)
  | recv (s : Nat)
  | dsample (s k : Nat)
  | updP (p : Nat)
  | updS (s : Nat)
  | has (s : Nat)
  | probe (p : Nat)
deriving Repr

/-- the builder clamps a zero limit to one -/
def clamp1 (n : Nat) : Nat := if n = 0 then 1 else n

/-- `required_amount_of_samples_per_data_segment`: the worst case -/
def Cfg.fullChunks (c : Cfg) (maxLoans : Nat) : Nat :=
  c.maxSubs * (c.bufMax + c.borrowMax) + c.hist + maxLoans

/-- chunks of a publisher's data segment: the worst case, or the override clamped into `1 ..= worst case` -/
def Cfg.nChunks (c : Cfg) (maxLoans : Nat) : Nat :=
  match c.prealloc with
  | none => c.fullChunks maxLoans
  | some k => max 1 (min k (c.fullChunks maxLoans))

def anyHasData (w : World) (s : Nat) : List (Nat × Nat) → Bool
  | [] => false
  | (_, p) :: r =>
    (match getC w p s with | some c => !c.sub.isEmpty | none => false) || anyHasData w s r

/-- loan until refused (`probe`): returns the chunks taken and the refusal -/
def probeLoans (P : Pub) : Nat → List Nat → Pub × List Nat × String
  | 0, acc => (P, acc, "unbounded")
  | fuel + 1, acc =>
    if P.loanCnt ≥ P.maxLoans then (P, acc, "ExceedsMaxLoans") else
    match P.free with
    | [] => (P, acc, "OutOfMemory")
    | c :: rest =>
      probeLoans { P with free := rest, rc := P.rc.set c 1, loanCnt := P.loanCnt + 1 } fuel (acc ++ [c])

def finishPanic (w0 : World) (r : World × String) : World × String :=
  if r.1.panicked then ({ w0 with panicked := true }, "PANIC") else r

def step (w : World) : Op → World × String
  | .cpub p ml =>
    if (getP w p).isSome then (w, "dup") else
    -- `Publisher::new`
    -- `max_loaned_samples` is not clamped: with 0 every loan is refused
    let n := w.cfg.nChunks ml
    let P : Pub := { maxLoans := ml, n := n, free := List.range n, rc := List.replicate n 0,
                     conns := List.replicate w.cfg.maxSubs none, snapCtr := w.subReg.counter,
                     snap := w.subReg.slots, payload := List.replicate n 0,
                     chunkSeq := List.replicate n 0 }
    let w1 := pubForceUpdate { w with pubs := w.pubs ++ [(p, P)] } p
    match w1.pubReg.add p, getP w1 p with
    | some (reg, slot), some P1 => finishPanic w ({ setP w1 p { P1 with slot := slot } with pubReg := reg }, "ok")
    | _, _ =>
      -- the port is dropped again: its connections are closed, nothing else remains
      let w2 := match getP w1 p with
        | some P1 => pubDestroySlots w1 p P1.conns
        | none => w1
      finishPanic w ({ w2 with pubs := w2.pubs.filter fun e => e.1 ≠ p }, "err:ExceedsMaxSupportedPublishers")
  | .dpub p =>
    match getP w p with
    | none => (w, "none")
    | some P =>
      if !P.alive then (w, "none") else
      let w := { setP w p { P with alive := false } with pubReg := w.pubReg.remove P.slot }
      (pubDestroyIfUnreferenced w p, "ok")
  | .csub s b h =>
    if (getS w s).isSome then (w, "dup") else
    -- `Subscriber::new`
    match (match b with
           | some b => if w.cfg.bufMax < b then none else some (clamp1 b)
           | none => some w.cfg.bufMax) with
    | none => (w, "err:BufferSizeExceedsMaxSupportedBufferSizeOfService")
    | some buffer =>
      match (match h with
             | some h => if h > w.cfg.hist then Except.error "err:HistoryRequestExceedsHistorySizeOfService"
                         else if h > buffer then Except.error "err:HistoryRequestExceedsBufferSizeOfSubscriber"
                         else Except.ok h
             | none => Except.ok (min w.cfg.hist buffer)) with
      | .error e => (w, e)
      | .ok histReq =>
        let tbrCap := if w.cfg.expired ≥ w.cfg.borrowMax then w.cfg.expired else w.cfg.borrowMax
        let S : Sub := { buffer := buffer, histReq := histReq,
                         conns := List.replicate w.cfg.maxPubs none,
                         storage := SlotMap.init (tbrCap + w.cfg.maxPubs), tbrCap := tbrCap,
                         snapCtr := w.pubReg.counter, snap := w.pubReg.slots }
        let w1 := subForceUpdate { w with subs := w.subs ++ [(s, S)] } s
        match w1.subReg.add { sid := s, buffer := buffer, histReq := histReq }, getS w1 s with
        | some (reg, slot), some S1 => finishPanic w ({ setS w1 s { S1 with slot := slot } with subReg := reg }, "ok")
        | _, _ =>
          let w2 := match getS w1 s with
            | some S1 => subDestroyKeys w1 s (SlotMap.items S1.storage)
            | none => w1
          finishPanic w ({ w2 with subs := w2.subs.filter fun e => e.1 ≠ s }, "err:ExceedsMaxSupportedSubscribers")
  | .dsub s =>
    match getS w s with
    | none => (w, "none")
    | some S =>
      if !S.alive then (w, "none") else
      let w := { setS w s { S with alive := false } with subReg := w.subReg.remove S.slot }
      (subDestroyIfUnreferenced w s, "ok")
  | .loan p l =>
    match getP w p with
    | none => (w, "none")
    | some P0 =>
      if !P0.alive then (w, "none") else
      if (P0.loans.find? (·.1 = l)).isSome then (w, "dup") else
      -- `Sender::allocate`
      let w := retrieveReturned w p
      match getP w p with
      | none => (w, "none")
      | some P =>
        if P.loanCnt ≥ P.maxLoans then (w, "err:ExceedsMaxLoans") else
        match P.free with
        | [] => (w, "err:OutOfMemory")
        | c :: rest =>
          if P.rc.getD c 0 ≠ 0 then ({ w with panicked := true }, "PANIC") else
          let P := { P with free := rest, rc := P.rc.set c 1, loanCnt := P.loanCnt + 1,
                            loans := P.loans ++ [(l, c)] }
          (setP w p P, "ok")
  | .send p l tag =>
    match getP w p with
    | none => (w, "none")
    | some P0 =>
      match P0.loans.find? (·.1 = l) with
      | none => (w, "none")
      | some (_, c) =>
        -- write_payload
        let P0 := { P0 with payload := P0.payload.set c tag, loans := P0.loans.filter (·.1 ≠ l) }
        let w := setP w p P0
        let (w, out) :=
          if !P0.alive then (w, "err:ConnectionBrokenSinceSenderNoLongerExists") else
          -- `send_sample`: update_connections, add_sample_to_history, deliver_offset
          let w := pubUpdate w p
          match getP w p with
          | none => (w, "none")
          | some P =>
            let seq := P.seq
            let P := { P with seq := P.seq + 1, chunkSeq := P.chunkSeq.set c seq, sent := P.sent ++ [tag] }
            let P :=
              if w.cfg.hist = 0 then P else
              let P := P.borrowChunk c
              if P.hist.length ≥ w.cfg.hist then
                match P.hist with
                | [] => { P with hist := [c] }
                | old :: rest => { P with hist := rest ++ [c] }.releaseChunk old
              else { P with hist := P.hist ++ [c] }
            let w := retrieveReturned (setP w p P) p
            let slots := match getP w p with | some P => P.conns | none => []
            let (w, cnt) := slots.foldl (fun (acc : World × Nat) sl =>
                match sl with
                | none => acc
                | some s => let (w', ok) := deliverTo acc.1 p s c seq
                            (w', if ok then acc.2 + 1 else acc.2)) (w, 0)
            (w, s!"ok:{cnt}")
        -- the `SampleMut` is dropped: `return_loaned_chunk`
        let w := match getP w p with
          | some P => setP w p { P.releaseChunk c with loanCnt := P.loanCnt - 1 }
          | none => w
        (pubDestroyIfUnreferenced w p, out)
  | .dloan p l =>
    match getP w p with
    | none => (w, "none")
    | some P =>
      match P.loans.find? (·.1 = l) with
      | none => (w, "none")
      | some (_, c) =>
        let P := { P.releaseChunk c with loanCnt := P.loanCnt - 1, loans := P.loans.filter (·.1 ≠ l) }
        (pubDestroyIfUnreferenced (setP w p P) p, "ok")
  | .recv s =>
    match getS w s with
    | none => (w, "none")
    | some S0 =>
      if !S0.alive then (w, "none") else
      let w1 := subUpdate w s
      if w1.panicked then ({ w with panicked := true }, "PANIC") else
      match subReceive w1 s with
      | (w2, .none) => (w2, "none")
      | (w2, .maxBorrow) => (w2, "err:ExceedsMaxBorrows")
      | (w2, .some key p ch seq) =>
        let tag := match getP w2 p with | some P => P.payload.getD ch 0 | none => 0
        match getS w2 s with
        | none => (w2, "none")
        | some S =>
          (setS w2 s { S with held := S.held ++ [{ key := key, pid := p, chunk := ch, seq := seq, tag := tag }],
                              ghostRecv := S.ghostRecv ++ [(p, seq)] },
           s!"some:{p}:{tag}")
  | .dsample s k =>
    match getS w s with
    | none => (w, "none")
    | some S =>
      match S.held[k]? with
      | none => (w, "none")
      | some h =>
        let w := setS w s { S with held := S.held.eraseIdx k }
        let w := subRelease w s h
        (subDestroyIfUnreferenced w s, "ok")
  | .updP p =>
    match getP w p with
    | none => (w, "none")
    | some P => if !P.alive then (w, "none") else finishPanic w (pubUpdate w p, "ok")
  | .updS s =>
    match getS w s with
    | none => (w, "none")
    | some S => if !S.alive then (w, "none") else finishPanic w (subUpdate w s, "ok")
  | .probe p =>
    match getP w p with
    | none => (w, "none")
    | some P0 =>
      if !P0.alive then (w, "none") else
      let w := retrieveReturned w p
      match getP w p with
      | none => (w, "none")
      | some P =>
        let (P, taken, why) := probeLoans P (P.n + 1) []
        let P := taken.foldl (fun (P : Pub) c => { P.releaseChunk c with loanCnt := P.loanCnt - 1 }) P
        (setP w p P, s!"{taken.length}:{why}")
  | .has s =>
    match getS w s with
    | none => (w, "none")
    | some S0 =>
      if !S0.alive then (w, "none") else
      let w1 := subUpdate w s
      if w1.panicked then ({ w with panicked := true }, "PANIC") else
      match getS w1 s with
      | none => (w1, "none")
      | some S => (w1, if anyHasData w1 s (SlotMap.items S.storage) then "true" else "false")

/-! ### reachability -/

/-- what the service builder guarantees about a created service -/
def Cfg.Sane (c : Cfg) : Prop :=
  1 ≤ c.maxPubs ∧ 1 ≤ c.maxSubs ∧ 1 ≤ c.bufMax ∧ 1 ≤ c.borrowMax ∧ (c.overflow = false → c.hist ≤ c.bufMax) ∧
  -- the memory guarantees are given for the default preallocation only (documented at the override)
  c.prealloc = none

instance (c : Cfg) : Decidable c.Sane := by unfold Cfg.Sane; exact inferInstance

def run (w : World) (ops : List Op) : World := ops.foldl (fun w op => (step w op).1) w

/-- the states an application can reach through API calls; a (fatal) panic ends the history -/
inductive Reach (c : Cfg) : World → Prop
  | init : Reach c (World.init c)
  | step {w : World} (op : Op) : Reach c w → w.panicked = false → Reach c (step w op).1

end Iox2.PubSub
