/-
L1 (API-call atomic) model of request-response through the ports:
`iceoryx2/src/port/{client,server}.rs`, `pending_response.rs`, `active_request.rs`, `request_mut.rs`,
`response_mut.rs`, `response.rs`, the shared `port/details/{sender,receiver}.rs`, the multi-channel
`iceoryx2-cal/src/zero_copy_connection/{mod,common}.rs` (channel state word, per-channel queues,
used-chunk lists and borrow counters), the dynamic-config registries (`Iox2.PubSub.Reg`, the
lowest-free-slot container validated for publish-subscribe) and the receiver's slot-map connection
storage (`Iox2.SlotMap`).

Every function is a transcription of the Rust function named in its comment.  A chunk's contents
(request / response header and the payload word) travel with the queue entry (`Msg`): the contents of
a chunk are taken to be unchanged between send and release (that is C02's subject; the harness
re-reads everything it holds after every call).  Reference counts, free lists, used-chunk lists and
loan counters are modelled because they decide loan errors.  Ghost fields (`g…`) are written but never
read by the transitions.
-/
import Iox2.Model.PubSub
namespace Iox2.ReqRes
open Iox2.PubSub (Reg firstFree clamp1)

/-! ### association maps (insert-or-replace) -/

abbrev AMap (κ α : Type) := List (κ × α)

namespace AMap
variable {κ α : Type} [DecidableEq κ]

def get : List (κ × α) → κ → Option α
  | [], _ => none
  | (k', v) :: r, k => if k' = k then some v else get r k

def del : List (κ × α) → κ → List (κ × α)
  | [], _ => []
  | (k', v) :: r, k => if k' = k then del r k else (k', v) :: del r k

def set (m : List (κ × α)) (k : κ) (v : α) : List (κ × α) := (k, v) :: del m k

end AMap

/-! ### configuration -/

structure Cfg where
  maxClients : Nat
  maxServers : Nat
  maxActive : Nat        -- max_active_requests_per_client
  respBuf : Nat          -- max_response_buffer_size
  maxBorrow : Nat        -- max_borrowed_responses_per_pending_response
  ovReq : Bool           -- enable_safe_overflow_for_requests
  ovResp : Bool          -- enable_safe_overflow_for_responses
  ff : Bool              -- enable_fire_and_forget_requests
  maxLoans : Nat         -- max_loaned_requests
  cExpired : Nat         -- config: client_expired_connection_buffer
  sExpired : Nat         -- config: server_expired_connection_buffer
  defLoanPerReq : Nat := 2   -- config: server_max_loaned_responses_per_request
deriving Repr

/-- `required_amount_of_chunks_per_client_data_segment` -/
def Cfg.clientChunks (c : Cfg) (loans active : Nat) : Nat := c.maxServers * (active + active) + loans
/-- `required_amount_of_chunks_per_server_data_segment` -/
def Cfg.serverChunks (c : Cfg) (loanPerReq : Nat) : Nat :=
  c.maxClients * (c.maxActive + c.maxActive) * (c.respBuf + c.maxBorrow + loanPerReq)
/-- number of response channels of every connection -/
def Cfg.nChannels (c : Cfg) : Nat := c.clientChunks c.maxLoans c.maxActive

/-- port id: client `n` or server `n` (labels are never reused) -/
structure Pid where
  srv : Bool
  n : Nat
deriving DecidableEq, Repr

def cid (n : Nat) : Pid := ⟨false, n⟩
def sid (n : Nat) : Pid := ⟨true, n⟩

/-- contents of a chunk: the request / response header fields and the payload word -/
structure Msg where
  client : Nat := 0      -- request header: client id
  channel : Nat := 0     -- request header: channel id
  rid : Nat := 0         -- request id (request and response header)
  server : Nat := 0      -- response header: server id
  tag : Nat := 0         -- payload
  -- ghost (responses): the request the sending active request stems from, the response's number
  -- within that active request, and whether the requesting client was gone when it was sent
  gClient : Nat := 0
  gSeq : Nat := 0
  gStale : Bool := false
deriving Repr, DecidableEq

structure Entry where
  chunk : Nat
  msg : Msg
deriving Repr, DecidableEq

/-- channel state word: `CHANNEL_STATE_CLOSED`, or a value (`CHANNEL_STATE_OPEN` = 0 / a request id)
with the disconnect-hint bit -/
inductive ChState where
  | closed
  | id (v : Nat) (hint : Bool)
deriving Repr, DecidableEq

structure Chan where
  state : ChState
  sub : List Entry := []      -- submission queue, oldest first
  comp : List Nat := []       -- completion queue
  used : List Bool            -- used chunk list
  borrow : Nat := 0           -- the receiver object's borrow counter of this channel
deriving Repr

/-- one zero-copy connection (named after sender and receiver port id) -/
structure Conn where
  cap : Nat                   -- submission queue capacity
  overflow : Bool
  maxBorrow : Nat
  chans : List Chan
  sAtt : Bool := false
  rAtt : Bool := false
deriving Repr

/-- `port/details/sender.rs::Sender` with its data segment -/
structure Snd where
  n : Nat                     -- number of chunks
  free : List Nat             -- pool free list (LIFO)
  rc : List Nat               -- chunk reference counters
  loanCnt : Nat := 0
  maxLoans : Nat              -- sender_max_borrowed_chunks
  conns : List (Option Pid)   -- per registry slot: connected receiver
  nChan : Nat
  init : ChState
  overflow : Bool
  rMaxBorrow : Nat            -- receiver_max_borrowed_chunks
deriving Repr

/-- `port/details/receiver.rs::Receiver` -/
structure Rcv where
  conns : List (Option Nat)   -- per registry slot: slot-map key
  storage : SlotMap.St Pid    -- connection storage: key -> sender
  tbr : List Nat := []        -- to_be_removed_connections
  tbrCap : Nat
  nChan : Nat
  init : ChState
  cap : Nat                   -- buffer_size
  overflow : Bool
  maxBorrow : Nat

/-- a `PendingResponse` (with its `RequestMut`) -/
structure Pending where
  label : Nat
  rid : Nat
  channel : Nat
  chunk : Nat
  tag : Nat
  gRecv : List Msg := []      -- ghost: responses received through this object
deriving Repr

/-- a `Response` / the `ChunkDetails` of an `ActiveRequest` -/
structure Held where
  key : Nat
  origin : Pid
  chunk : Nat
  channel : Nat
deriving Repr

/-- a loaned request that was not sent yet (`RequestMutUninit` / `RequestMut`) -/
structure QLoan where
  label : Nat
  rid : Nat
  channel : Nat
  chunk : Nat
deriving Repr

/-- a loaned response that was not sent yet (`ResponseMutUninit` / `ResponseMut`) -/
structure RLoan where
  label : Nat
  aLabel : Nat                -- the active request it was loaned from
  chunk : Nat
deriving Repr

structure Client where
  alive : Bool := true        -- the `Client` object exists
  ex : Bool := true           -- the shared state exists
  slot : Nat := 0
  maxActive : Nat
  chanIds : List Nat          -- available_channel_ids
  activeCnt : Nat := 0
  ridCtr : Nat := 0
  pendings : List Pending := []
  held : List Held := []
  usedLabels : List Nat := []   -- harness: labels of pending responses are not reused
  loanCnt : Nat := 0          -- `loan_counter`: requests loaned and not yet sent
  qloans : List QLoan := []
  usedLoanLabels : List Nat := []
  gSendCtr : Nat := 0         -- ghost: number of requests sent so far
deriving Repr

structure Active where
  label : Nat
  det : Held                  -- ChunkDetails (channel 0)
  connId : Option Nat
  msg : Msg                   -- the request
  loans : Nat := 0            -- shared_loan_counter
  live : Bool := true         -- the `ActiveRequest` object exists (the record stays while responses loaned from it do)
  gSent : Nat := 0            -- ghost: responses sent so far
deriving Repr

structure Server where
  alive : Bool := true
  ex : Bool := true
  slot : Nat := 0
  loanPerReq : Nat
  actives : List Active := []
  rloans : List RLoan := []
  usedLoanLabels : List Nat := []
  usedLabels : List Nat := []   -- harness: labels of active requests are not reused
  gRecvReq : List (Nat × Nat) := []  -- ghost: (client, request id) of every active request handed out
  gRecvSeq : List (Nat × Nat) := []  -- ghost: (client, send number of the request) of every active request handed out
deriving Repr

/-- `server_list_state` of a client / `client_list_state` of a server: the registry as last seen,
entries = (peer, number of chunks of the peer's data segment) -/
structure Snap where
  ctr : Nat
  slots : List (Option (Nat × Nat))
deriving Repr

structure World where
  cfg : Cfg
  clientReg : Reg (Nat × Nat)
  serverReg : Reg (Nat × Nat)
  clients : AMap Nat Client := []
  servers : AMap Nat Server := []
  snds : AMap Pid Snd := []
  rcvs : AMap Pid Rcv := []
  snaps : AMap Pid Snap := []
  conns : AMap (Pid × Pid) Conn := []      -- key: (sender, receiver)
  panicked : Bool := false

def World.init (c : Cfg) : World :=
  { cfg := c, clientReg := Reg.init c.maxClients, serverReg := Reg.init c.maxServers }

/-! ### accessors -/

def getSnd (w : World) (p : Pid) : Option Snd := AMap.get w.snds p
def setSnd (w : World) (p : Pid) (x : Snd) : World := { w with snds := AMap.set w.snds p x }
def getRcv (w : World) (p : Pid) : Option Rcv := AMap.get w.rcvs p
def setRcv (w : World) (p : Pid) (x : Rcv) : World := { w with rcvs := AMap.set w.rcvs p x }
def getConn (w : World) (f t : Pid) : Option Conn := AMap.get w.conns (f, t)
def setConn (w : World) (f t : Pid) (x : Conn) : World := { w with conns := AMap.set w.conns (f, t) x }
def delConn (w : World) (f t : Pid) : World := { w with conns := AMap.del w.conns (f, t) }
def getSnap (w : World) (p : Pid) : Option Snap := AMap.get w.snaps p
def setSnap (w : World) (p : Pid) (x : Snap) : World := { w with snaps := AMap.set w.snaps p x }
def getCl (w : World) (c : Nat) : Option Client := AMap.get w.clients c
def setCl (w : World) (c : Nat) (x : Client) : World := { w with clients := AMap.set w.clients c x }
def getSv (w : World) (s : Nat) : Option Server := AMap.get w.servers s
def setSv (w : World) (s : Nat) (x : Server) : World := { w with servers := AMap.set w.servers s x }

/-- the sender's `Connection` is dropped -/
def detachSender (w : World) (f t : Pid) : World :=
  match getConn w f t with
  | none => w
  | some c => if c.rAtt then setConn w f t { c with sAtt := false } else delConn w f t

/-- the receiver's `Connection` is dropped -/
def detachReceiver (w : World) (f t : Pid) : World :=
  match getConn w f t with
  | none => w
  | some c => if c.sAtt then setConn w f t { c with rAtt := false } else delConn w f t

def newConn (cap : Nat) (overflow : Bool) (maxBorrow nChan n : Nat) (init : ChState) : Conn :=
  { cap := cap, overflow := overflow, maxBorrow := maxBorrow,
    chans := List.replicate nChan { state := init, used := List.replicate n false } }

def Conn.chan (c : Conn) (ch : Nat) : Option Chan := c.chans[ch]?
def Conn.setChan (c : Conn) (ch : Nat) (x : Chan) : Conn := { c with chans := c.chans.set ch x }

/-! ### channel state (`zero_copy_connection/mod.rs`, `ZeroCopyPortDetails`) -/

/-- `set_channel_state`: CAS closed -> state -/
def Chan.setState (c : Chan) (v : Nat) : Chan :=
  match c.state with
  | .closed => { c with state := .id v false }
  | _ => c

/-- `set_disconnect_hint` -/
def Chan.setHint (c : Chan) (v : Nat) : Chan :=
  if c.state = .id v false then { c with state := .id v true } else c

/-- `has_disconnect_hint` -/
def Chan.hasHint (c : Chan) (v : Nat) : Bool := c.state = .id v true

/-- `has_channel_state` -/
def Chan.hasState (c : Chan) (v : Nat) : Bool :=
  match c.state with
  | .closed => false
  | .id v' _ => v' = v

/-- `close_channel` -/
def Chan.close (c : Chan) (v : Nat) : Chan :=
  if c.hasState v then { c with state := .closed } else c

/-! ### sender side (`sender.rs`) -/

/-- `Sender::release_chunk` -/
def Snd.releaseChunk (S : Snd) (c : Nat) : Snd :=
  let old := S.rc.getD c 0
  let S := { S with rc := S.rc.set c (old - 1) }
  if old = 1 then { S with free := c :: S.free } else S

/-- `Sender::borrow_chunk` -/
def Snd.borrowChunk (S : Snd) (c : Nat) : Snd := { S with rc := S.rc.set c (S.rc.getD c 0 + 1) }

/-- drain one completion queue: `reclaim` until empty, `release_chunk` each valid offset -/
def drainComp (S : Snd) (used : List Bool) : List Nat → Snd × List Bool
  | [] => (S, used)
  | c :: r =>
    if used.getD c false then drainComp (S.releaseChunk c) (used.set c false) r
    else drainComp S used r

/-- the channel loop of `retrieve_returned_chunks` for one connection -/
def drainChans (S : Snd) : List Chan → Snd × List Chan
  | [] => (S, [])
  | c :: r =>
    let (S1, used) := drainComp S c.used c.comp
    let (S2, r') := drainChans S1 r
    (S2, { c with comp := [], used := used } :: r')

/-- `Sender::retrieve_returned_chunks` over the connection slots -/
def retrieveFrom (w : World) (p : Pid) : List (Option Pid) → World
  | [] => w
  | none :: r => retrieveFrom w p r
  | some t :: r =>
    match getSnd w p, getConn w p t with
    | some S, some c =>
      let (S', chans) := drainChans S c.chans
      retrieveFrom (setConn (setSnd w p S') p t { c with chans := chans }) p r
    | _, _ => retrieveFrom w p r

def retrieveReturned (w : World) (p : Pid) : World :=
  match getSnd w p with
  | none => w
  | some S => retrieveFrom w p S.conns

/-- result of `ZeroCopySender::try_send` -/
inductive SendRes where
  | full | corrupted | ok (evicted : Option Nat)
deriving Repr, DecidableEq

/-- `try_send` of `zero_copy_connection/common.rs` on one channel -/
def Chan.trySend (c : Chan) (cap : Nat) (overflow : Bool) (e : Entry) : Chan × SendRes :=
  if !overflow && c.sub.length ≥ cap then (c, .full)
  else
    let c := { c with used := c.used.set e.chunk true }
    if c.sub.length ≥ cap then
      -- SafelyOverflowingIndexQueue::push on a full queue: the oldest element comes back
      match c.sub with
      | [] => ({ c with sub := [e] }, .ok none)               -- capacity 0 cannot be configured
      | old :: rest =>
        let c := { c with sub := rest ++ [e] }
        if c.used.getD old.chunk false then ({ c with used := c.used.set old.chunk false }, .ok (some old.chunk))
        else (c, .corrupted)
    else ({ c with sub := c.sub ++ [e] }, .ok none)

/-- `deliver_offset_to_connection_impl` for the connection to `t`; returns whether it was delivered -/
def deliverTo (w : World) (p t : Pid) (ch : Nat) (e : Entry) : World × Bool :=
  match getSnd w p, getConn w p t with
  | some S, some c =>
    match c.chan ch with
    | none => (w, false)
    | some x =>
      let (x', r) := x.trySend c.cap c.overflow e
      let w := setConn w p t (c.setChan ch x')
      match r with
      | .ok ev =>
        let S := S.borrowChunk e.chunk
        let S := match ev with | some old => S.releaseChunk old | none => S
        (setSnd w p S, true)
      | _ => (w, false)
  | _, _ => (w, false)

/-- the connection loop of `Sender::deliver_offset` -/
def deliverAll (w : World) (p : Pid) (ch : Nat) (e : Entry) : List (Option Pid) → Nat → World × Nat
  | [], k => (w, k)
  | none :: r, k => deliverAll w p ch e r k
  | some t :: r, k =>
    let (w', ok) := deliverTo w p t ch e
    deliverAll w' p ch e r (if ok then k + 1 else k)

/-- one used-chunk list of `acquire_used_offsets`: every used chunk, ascending, is released -/
def releaseAllUsed (S : Snd) (used : List Bool) : Nat → Snd
  | 0 => S
  | k + 1 =>
    let S := releaseAllUsed S used k
    if used.getD k false then S.releaseChunk k else S

/-- `acquire_used_offsets` over the channels -/
def releaseChans (S : Snd) : List Chan → Snd
  | [] => S
  | c :: r => releaseChans (releaseAllUsed S c.used c.used.length) r

/-- `Sender::remove_connection` -/
def sndRemoveConn (w : World) (p : Pid) (slot : Nat) : World :=
  match getSnd w p with
  | none => w
  | some S =>
    match S.conns.getD slot none with
    | none => w
    | some t =>
      let (w, S) := match getConn w p t with
        | some c =>
          let S := releaseChans S c.chans
          (setConn w p t { c with chans := c.chans.map fun (x : Chan) => { x with used := x.used.map fun _ => false } }, S)
        | none => (w, S)
      let w := setSnd w p { S with conns := S.conns.set slot none }
      detachSender w p t

/-- `Sender::create` + `Connection::new` (`create_sender`); `cap` = the receiver's buffer size -/
def sndCreateConn (w : World) (p : Pid) (slot : Nat) (t : Pid) (cap : Nat) : World :=
  match getSnd w p with
  | none => w
  | some S =>
    let w := match getConn w p t with
      | some c => setConn w p t { c with sAtt := true }
      | none => setConn w p t { newConn cap S.overflow S.rMaxBorrow S.nChan S.n S.init with sAtt := true }
    setSnd w p { S with conns := S.conns.set slot (some t) }

/-- `Sender::update_connection`; returns the world and whether the slot is tagged -/
def sndUpdateConn (w : World) (p : Pid) (slot : Nat) (t : Pid) (cap : Nat) : World :=
  match getSnd w p with
  | none => w
  | some S =>
    match S.conns.getD slot none with
    | none => sndCreateConn w p slot t cap
    | some t' => if t' = t then w else sndCreateConn (sndRemoveConn w p slot) p slot t cap

/-- `Sender::finish_update_connection_cycle`: connections of slots that were not visited go -/
def sndFinish (w : World) (p : Pid) (tagged : List Nat) : Nat → World
  | 0 => w
  | k + 1 =>
    let w := sndFinish w p tagged k
    if tagged.contains k then w else sndRemoveConn w p k

/-- the `Sender` is dropped: all connections are closed -/
def sndDestroySlots (w : World) (p : Pid) : List (Option Pid) → World
  | [] => w
  | none :: r => sndDestroySlots w p r
  | some t :: r => sndDestroySlots (detachSender w p t) p r

/-- `Sender::allocate` after `retrieve_returned_chunks`: loan-counter check and pool allocation -/
inductive AllocRes where
  | exceedsMaxLoans | outOfMemory | corrupted | ok (chunk : Nat)

def Snd.allocate (S : Snd) : Snd × AllocRes :=
  if S.loanCnt ≥ S.maxLoans then (S, .exceedsMaxLoans) else
  match S.free with
  | [] => (S, .outOfMemory)
  | c :: rest =>
    if S.rc.getD c 0 ≠ 0 then (S, .corrupted) else
    ({ S with free := rest, rc := S.rc.set c 1, loanCnt := S.loanCnt + 1 }, .ok c)

/-- `Sender::return_loaned_chunk` -/
def Snd.returnLoan (S : Snd) (c : Nat) : Snd :=
  let S := S.releaseChunk c
  { S with loanCnt := S.loanCnt - 1 }

def sndReturnLoan (w : World) (p : Pid) (c : Nat) : World :=
  match getSnd w p with
  | some S => setSnd w p (S.returnLoan c)
  | none => w

/-! ### receiver side (`receiver.rs`) -/

def smGet (m : SlotMap.St Pid) (k : Nat) : Option Pid :=
  match (SlotMap.step m (.get k)).2.1 with
  | .some e => some e
  | _ => none
def smRemove (m : SlotMap.St Pid) (k : Nat) : SlotMap.St Pid := (SlotMap.step m (.remove k)).1
def smInsert (m : SlotMap.St Pid) (e : Pid) : SlotMap.St Pid × Option Nat :=
  match SlotMap.step m (.insert e) with
  | (m', .key k, _) => (m', some k)
  | (m', _, _) => (m', none)

def chansHaveData : List Chan → Bool
  | [] => false
  | c :: r => !c.sub.isEmpty || chansHaveData r
def chansHaveBorrows : List Chan → Bool
  | [] => false
  | c :: r => decide (c.borrow > 0) || chansHaveBorrows r

/-- `receiver_channels_have_data_or_borrows` of the connection stored under `key` -/
def connFlags (w : World) (me : Pid) (R : Rcv) (key : Nat) : Option (Bool × Bool) :=
  match smGet R.storage key with
  | none => none
  | some f =>
    match getConn w f me with
    | some c => some (chansHaveData c.chans, chansHaveBorrows c.chans)
    | none => some (false, false)

/-- `connection_storage.remove(key)`: the `Connection` is dropped, the receiver side detaches -/
def rcvDropConn (w : World) (me : Pid) (key : Nat) : World :=
  match getRcv w me with
  | none => w
  | some R =>
    match smGet R.storage key with
    | none => w
    | some f =>
      let w := setRcv w me { R with storage := smRemove R.storage key }
      detachReceiver w f me

/-- `find_connection_with_condition` -/
def findTbr (w : World) (me : Pid) (R : Rcv) (cond : Bool → Bool → Bool) : List Nat → Nat → Option (Nat × Nat)
  | [], _ => none
  | k :: r, n =>
    match connFlags w me R k with
    | none => some (n, k)
    | some (d, b) => if cond d b then some (n, k) else findTbr w me R cond r (n + 1)

/-- `prepare_connection_removal`, the expired-connection buffer is full: look for a connection that can go -/
def rcvMakeRoom (w : World) (me : Pid) (R : Rcv) (hasBorrows : Bool) : World :=
  match findTbr w me R (fun d b => !(d || b)) R.tbr 0 with
  | some (i, k) => rcvDropConn (setRcv w me { R with tbr := R.tbr.eraseIdx i }) me k
  | none =>
    if hasBorrows then
      match findTbr w me R (fun _ b => !b) R.tbr 0 with
      | some (i, k) => rcvDropConn (setRcv w me { R with tbr := R.tbr.eraseIdx i }) me k
      | none => w
    else w

/-- `prepare_connection_removal`: the second `push` into the expired-connection buffer -/
def rcvPushTbr (w : World) (me : Pid) (key : Nat) (hasBorrows : Bool) : World :=
  match getRcv w me with
  | none => w
  | some R =>
    if R.tbr.length < R.tbrCap then setRcv w me { R with tbr := R.tbr ++ [key] }
    else if hasBorrows then { w with panicked := true }
    else rcvDropConn w me key

/-- `Receiver::prepare_connection_removal` -/
def rcvPrepareRemoval (w : World) (me : Pid) (slot : Nat) : World :=
  match getRcv w me with
  | none => w
  | some R =>
    match R.conns.getD slot none with
    | none => w
    | some key =>
      match connFlags w me R key with
      | none => w
      | some (hasData, hasBorrows) =>
        if hasData || hasBorrows then
          if R.tbr.length < R.tbrCap then setRcv w me { R with tbr := R.tbr ++ [key] }
          else rcvPushTbr (rcvMakeRoom w me R hasBorrows) me key hasBorrows
        else rcvDropConn w me key

/-- `create_receiver`: the receiver side attaches to the connection (creating it when it does not exist yet) -/
def rcvAttach (w : World) (me f : Pid) (n : Nat) (R : Rcv) : World :=
  match getConn w f me with
  | some c => setConn w f me { c with rAtt := true }
  | none => setConn w f me { newConn R.cap R.overflow R.maxBorrow R.nChan n R.init with rAtt := true }

/-- `Receiver::create` (`Connection::new`: `create_receiver`); `n` = the sender's number of chunks -/
def rcvCreateConn (w : World) (me : Pid) (slot : Nat) (f : Pid) (n : Nat) : World :=
  match getRcv w me with
  | none => w
  | some R =>
    let w := rcvAttach w me f n R
    match smInsert R.storage f with
    | (m, some key) => setRcv w me { R with storage := m, conns := R.conns.set slot (some key) }
    | (_, none) => { w with panicked := true }

/-- `update_connection`: the key of the connection in `slot` when it leads to sender `f` -/
def rcvConnected (R : Rcv) (slot : Nat) (f : Pid) : Option Nat :=
  match R.conns.getD slot none with
  | none => none
  | some key => match smGet R.storage key with
    | some f' => if f' = f then some key else none
    | none => none

/-- `Receiver::update_connection`; returns the world and the tagged key -/
def rcvUpdateConn (w : World) (me : Pid) (slot : Nat) (f : Pid) (n : Nat) : World × Option Nat :=
  match getRcv w me with
  | none => (w, none)
  | some R =>
    match rcvConnected R slot f with
    | some key => (w, some key)
    | none =>
      let w := rcvCreateConn (rcvPrepareRemoval w me slot) me slot f n
      (w, match getRcv w me with
          | some R' => R'.conns.getD slot none
          | none => none)

/-- `Receiver::finish_update_connection_cycle` -/
def rcvFinish (w : World) (me : Pid) (tagged : List Nat) : Nat → Nat → World
  | 0, _ => w
  | fuel + 1, n =>
    match getRcv w me with
    | none => w
    | some R =>
      if n ≥ R.conns.length then w else
      let w :=
        match R.conns.getD n none with
        | none => w
        | some key =>
          if (smGet R.storage key).isSome && !tagged.contains key then
            let w := rcvPrepareRemoval w me n
            match getRcv w me with
            | some R' => setRcv w me { R' with conns := R'.conns.set n none }
            | none => w
          else w
      rcvFinish w me tagged fuel (n + 1)

inductive RecvRes where
  | none | maxBorrow | some (h : Held) (m : Msg)
deriving Repr

/-- `Receiver::receive_from_connection` (-> `ZeroCopyReceiver::receive`) -/
def recvFromConn (w : World) (me : Pid) (R : Rcv) (key ch : Nat) : World × RecvRes :=
  match smGet R.storage key with
  | none => (w, .none)
  | some f =>
    match getConn w f me with
    | none => (w, .none)
    | some c =>
      match c.chan ch with
      | none => (w, .none)
      | some x =>
        if x.borrow ≥ c.maxBorrow then (w, .maxBorrow)
        else match x.sub with
          | [] => (w, .none)
          | e :: rest =>
            (setConn w f me (c.setChan ch { x with sub := rest, borrow := x.borrow + 1 }),
             .some { key := key, origin := f, chunk := e.chunk, channel := ch } e.msg)

def connBorrow (w : World) (me f : Pid) (ch : Nat) : Nat × Nat :=
  match getConn w f me with
  | some c => ((match c.chan ch with | some x => x.borrow | none => 0), c.maxBorrow)
  | none => (0, 0)

def connHasBorrows (w : World) (me : Pid) (R : Rcv) (key : Nat) : Bool :=
  match connFlags w me R key with | some (_, b) => b | none => false

/-- `receive_from_to_be_removed_connections`.  `i` = absolute scan position. -/
def recvTbr (w : World) (me : Pid) (ch : Nat) : Nat → Nat → World × RecvRes
  | 0, _ => (w, .none)
  | fuel + 1, i =>
    match getRcv w me with
    | none => (w, .none)
    | some R =>
      match R.tbr[i]? with
      | none => (w, .none)
      | some key =>
        match smGet R.storage key with
        | none => recvTbr (setRcv w me { R with tbr := R.tbr.eraseIdx i }) me ch fuel i
        | some f =>
          let (borrow, maxB) := connBorrow w me f ch
          if borrow = maxB then recvTbr w me ch fuel (i + 1)
          else
            match recvFromConn w me R key ch with
            | (w', .some h m) => (w', .some h m)
            | (w', .maxBorrow) => (w', .maxBorrow)
            | (w', .none) =>
              if connHasBorrows w' me R key then recvTbr w' me ch fuel (i + 1)
              else
                let w' := setRcv w' me { R with tbr := R.tbr.eraseIdx i }
                recvTbr (rcvDropConn w' me key) me ch fuel i

structure ScanAcc where
  active : Nat := 0
  allMax : Bool := true

/-- the loop over `connection_storage.iter()` in `Receiver::receive` -/
def recvScan (w : World) (me : Pid) (R : Rcv) (ch : Nat) : List (Nat × Pid) → ScanAcc → World × RecvRes × ScanAcc
  | [], acc => (w, .none, acc)
  | (key, f) :: r, acc =>
    match getConn w f me with
    | none => recvScan w me R ch r acc
    | some c =>
      match c.chan ch with
      | none => recvScan w me R ch r acc
      | some x =>
        if x.sub.isEmpty then recvScan w me R ch r acc
        else
          let acc := { acc with active := acc.active + 1 }
          if x.borrow ≥ c.maxBorrow then recvScan w me R ch r acc
          else
            let acc := { acc with allMax := false }
            match recvFromConn w me R key ch with
            | (w', .some h m) => (w', .some h m, acc)
            | (w', .maxBorrow) => (w', .maxBorrow, acc)
            | (w', .none) => recvScan w' me R ch r acc

/-- `Receiver::receive` -/
def rcvReceive (w : World) (me : Pid) (ch : Nat) : World × RecvRes :=
  match getRcv w me with
  | none => (w, .none)
  | some R =>
    match recvTbr w me ch (R.tbr.length + 1) 0 with
    | (w', .some h m) => (w', .some h m)
    | (w', .maxBorrow) => (w', .maxBorrow)
    | (w', .none) =>
      match getRcv w' me with
      | none => (w', .none)
      | some R' =>
        match recvScan w' me R' ch (SlotMap.items R'.storage) {} with
        | (w'', .some h m, _) => (w'', .some h m)
        | (w'', .maxBorrow, _) => (w'', .maxBorrow)
        | (w'', .none, acc) => if acc.allMax && acc.active ≠ 0 then (w'', .maxBorrow) else (w'', .none)

/-- `Receiver::release_offset` -/
def rcvRelease (w : World) (me : Pid) (h : Held) : World :=
  match getRcv w me with
  | none => w
  | some R =>
    match smGet R.storage h.key with
    | none => w
    | some f =>
      if f ≠ h.origin then w else
      match getConn w f me with
      | none => w
      | some c =>
        match c.chan h.channel with
        | none => w
        | some x =>
          -- completion queue capacity = buffer + max borrowed + 1
          if x.comp.length < c.cap + c.maxBorrow + 1 then
            setConn w f me (c.setChan h.channel { x with comp := x.comp ++ [h.chunk], borrow := x.borrow - 1 })
          else w

/-- apply `g` to channel `ch` of connection `(f, t)` -/
def mapChanAt (w : World) (f t : Pid) (ch : Nat) (g : Chan → Chan) : World :=
  match getConn w f t with
  | some c => (match c.chan ch with
               | some x => setConn w f t (c.setChan ch (g x))
               | none => w)
  | none => w

/-- apply `g` to channel `ch` of every connection in the storage (`set_channel_state`,
`set_disconnect_hint`, `close_channel` of `Receiver`) -/
def rcvMapChan (w : World) (me : Pid) (ch : Nat) (g : Chan → Chan) : List (Nat × Pid) → World
  | [] => w
  | (_, f) :: r => rcvMapChan (mapChanAt w f me ch g) me ch g r

/-- `rcvMapChan` over the whole connection storage of port `me` -/
def rcvMapAll (w : World) (me : Pid) (ch : Nat) (g : Chan → Chan) : World :=
  match getRcv w me with
  | some R => rcvMapChan w me ch g (SlotMap.items R.storage)
  | none => w

/-- `at_least_one_channel_has_state` / `has_chunks` -/
def rcvAnyChan (w : World) (me : Pid) (ch : Nat) (g : Chan → Bool) : List (Nat × Pid) → Bool
  | [] => false
  | (_, f) :: r =>
    (match getConn w f me with
     | some c => (match c.chan ch with | some x => g x | none => false)
     | none => false) || rcvAnyChan w me ch g r

/-- the `Receiver` is dropped -/
def rcvDestroyKeys (w : World) (me : Pid) : List (Nat × Pid) → World
  | [] => w
  | (_, f) :: r => rcvDestroyKeys (detachReceiver w f me) me r

/-! ### the update cycle of a port (`force_update_connections` of client and server) -/

/-- the `for_each` over the peer list: receiver connection first, then sender connection -/
def portUpdateSlots (w : World) (me : Pid) (peerSrv : Bool) (sndCap : Nat) :
    List (Option (Nat × Nat)) → Nat → List Nat → List Nat → World × List Nat × List Nat
  | [], _, st, rt => (w, st, rt)
  | none :: r, i, st, rt => portUpdateSlots w me peerSrv sndCap r (i + 1) st rt
  | some (peer, n) :: r, i, st, rt =>
    let t : Pid := ⟨peerSrv, peer⟩
    let (w, key) := rcvUpdateConn w me i t n
    let rt := match key with | some k => k :: rt | none => rt
    let w := sndUpdateConn w me i t sndCap
    portUpdateSlots w me peerSrv sndCap r (i + 1) (i :: st) rt

def rcvSlots (w : World) (me : Pid) : Nat := match getRcv w me with | some R => R.conns.length | none => 0
def sndSlots (w : World) (me : Pid) : Nat := match getSnd w me with | some S => S.conns.length | none => 0

/-- `ClientSharedState::force_update_connections` -/
def clientForceUpdate (w : World) (c : Nat) : World :=
  match getSnap w (cid c) with
  | none => w
  | some sp =>
    let (w, st, rt) := portUpdateSlots w (cid c) true w.cfg.maxActive sp.slots 0 [] []
    let w := rcvFinish w (cid c) rt (rcvSlots w (cid c)) 0
    sndFinish w (cid c) st (sndSlots w (cid c))

/-- `ClientSharedState::update_connections` -/
def clientUpdate (w : World) (c : Nat) : World :=
  match getSnap w (cid c) with
  | none => w
  | some sp =>
    if sp.ctr = w.serverReg.counter then w
    else clientForceUpdate (setSnap w (cid c) { ctr := w.serverReg.counter, slots := w.serverReg.slots }) c

/-- `SharedServerState::force_update_connections` -/
def serverForceUpdate (w : World) (s : Nat) : World :=
  match getSnap w (sid s) with
  | none => w
  | some sp =>
    let (w, st, rt) := portUpdateSlots w (sid s) false w.cfg.respBuf sp.slots 0 [] []
    let w := sndFinish w (sid s) st (sndSlots w (sid s))
    rcvFinish w (sid s) rt (rcvSlots w (sid s)) 0

/-- `SharedServerState::update_connections` -/
def serverUpdate (w : World) (s : Nat) : World :=
  match getSnap w (sid s) with
  | none => w
  | some sp =>
    if sp.ctr = w.clientReg.counter then w
    else serverForceUpdate (setSnap w (sid s) { ctr := w.clientReg.counter, slots := w.clientReg.slots }) s

/-- the `Sender` of a dropped shared state goes with all its connections -/
def sndDestroyAll (w : World) (me : Pid) : World :=
  match getSnd w me with
  | some S => setSnd (sndDestroySlots w me S.conns) me { S with conns := S.conns.map fun _ => none }
  | none => w

/-- the `Receiver` of a dropped shared state goes with all its connections -/
def rcvDestroyAll (w : World) (me : Pid) : World :=
  match getRcv w me with
  | some R =>
    setRcv (rcvDestroyKeys w me (SlotMap.items R.storage)) me
      { R with storage := SlotMap.init 0, tbr := [], conns := R.conns.map fun _ => none }
  | none => w

/-- both ports of a dropped shared state go: `Sender` and `Receiver` with all their connections -/
def portDestroy (w : World) (me : Pid) : World := rcvDestroyAll (sndDestroyAll w me) me

/-- `ClientSharedState` is dropped when the `Client`, every `PendingResponse` and every `Response` is gone -/
def clientDestroyIfUnreferenced (w : World) (c : Nat) : World :=
  match getCl w c with
  | none => w
  | some C =>
    if C.alive || !C.pendings.isEmpty || !C.held.isEmpty || !C.qloans.isEmpty || !C.ex then w
    else
      let w := { setCl w c { C with ex := false } with clientReg := w.clientReg.remove C.slot }
      portDestroy w (cid c)

/-- `SharedServerState` is dropped when the `Server` and every `ActiveRequest` is gone -/
def serverDestroyIfUnreferenced (w : World) (s : Nat) : World :=
  match getSv w s with
  | none => w
  | some S =>
    if S.alive || !S.actives.isEmpty || !S.ex then w
    else
      let w := { setSv w s { S with ex := false } with serverReg := w.serverReg.remove S.slot }
      portDestroy w (sid s)

/-! ### API operations -/

inductive Op where
  | cclient (c : Nat) (maxActive : Option Nat)
  | dclient (c : Nat)
  | cserver (s : Nat) (loanPerReq : Option Nat)
  | dserver (s : Nat)
  | send (c r tag : Nat)
  | qloan (c l : Nat)
  | qsend (c l r tag : Nat)
  | qdrop (c l : Nat)
  | rloan (s a l : Nat)
  | rsend (s l tag : Nat)
  | rdrop (s l : Nat)
  | recvreq (s a : Nat)
  | respond (s a tag : Nat)
  | dactive (s a : Nat)
  | recvresp (c r : Nat)
  | dresp (c k : Nat)
  | dpending (c r : Nat)
  | connected (c r : Nat)
  | aconnected (s a : Nat)
  | hint (c r : Nat)
  | ahint (s a : Nat)
  | has (c r : Nat)
  | hasreq (s : Nat)
  | updC (c : Nat)
  | updS (s : Nat)
deriving Repr

def finishPanic (w0 : World) (r : World × String) : World × String :=
  if r.1.panicked then ({ w0 with panicked := true }, "PANIC") else r

def findPending (C : Client) (r : Nat) : Option Pending := C.pendings.find? (·.label = r)
/-- the `ActiveRequest` object with label `a` -/
def findActive (S : Server) (a : Nat) : Option Active := S.actives.find? (fun x => x.label = a && x.live)
/-- the record of active request `a`, also when only loaned responses keep it -/
def findActiveAny (S : Server) (a : Nat) : Option Active := S.actives.find? (·.label = a)

/-- `Sender::get_connection_id_of` -/
def connIdOf : List (Option Pid) → Pid → Nat → Option Nat
  | [], _, _ => none
  | x :: r, t, i => if x = some t then some i else connIdOf r t (i + 1)

/-- the connection slots of port `p`'s sender -/
def sndConns (w : World) (p : Pid) : List (Option Pid) :=
  match getSnd w p with | some S => S.conns | none => []

/-- the client the response connection slot of an active request leads to at the moment -/
def respondTarget (w : World) (s : Nat) (connId : Option Nat) : Option Pid :=
  match connId with
  | some i => (sndConns w (sid s)).getD i none
  | none => none

/-- `ActiveRequest::is_connected` / `has_disconnect_hint`: a predicate on the channel of the
response connection the active request points to -/
def activeChan (w : World) (s : Nat) (connId : Option Nat) (ch : Nat) : Option Chan :=
  match respondTarget w s connId with
  | some t => (match getConn w (sid s) t with | some c => c.chan ch | none => none)
  | none => none

/-- `ActiveRequest::is_connected` -/
def activeConnected (w : World) (s : Nat) (connId : Option Nat) (ch rid : Nat) : Bool :=
  match activeChan w s connId ch with
  | some x => x.hasState rid
  | none => false

/-- `ActiveRequest::finish`: `close_channel` on the response connection -/
def activeFinish (w : World) (s : Nat) (connId : Option Nat) (ch rid : Nat) : World :=
  match respondTarget w s connId with
  | some t => mapChanAt w (sid s) t ch (fun x => x.close rid)
  | none => w

/-- the loop of `Server::receive` -/
def serverReceive (w : World) (s : Nat) : Nat → World × Option RecvRes
  | 0 => (w, some .none)
  | fuel + 1 =>
    let w := serverUpdate w s
    if w.panicked then (w, none) else
    match rcvReceive w (sid s) 0 with
    | (w, .none) => (w, some .none)
    | (w, .maxBorrow) => (w, some .maxBorrow)
    | (w, .some h m) =>
      match connIdOf (sndConns w (sid s)) (cid m.client) 0 with
      | some i =>
        if !w.cfg.ff && !activeConnected w s (some i) m.channel m.rid then
          -- the `ActiveRequest` is dropped again: `release_offset`, `finish`
          let w := rcvRelease w (sid s) h
          let w := activeFinish w s (some i) m.channel m.rid
          serverReceive w s fuel
        else (w, some (.some h m))
      | none =>
        if w.cfg.ff then (w, some (.some h m))
        else serverReceive (rcvRelease w (sid s) h) s fuel   -- the request of a vanished client is given back

def chansQueued : List Chan → Nat
  | [] => 0
  | c :: r => c.sub.length + chansQueued r

/-- number of queued chunks in all connections: bound for the loops of `Server::receive` and
`PendingResponse::receive` (every further iteration consumes one of them) -/
def totalQueued : List ((Pid × Pid) × Conn) → Nat
  | [] => 0
  | (_, c) :: r => chansQueued c.chans + totalQueued r

/-- the loop of `PendingResponse::receive`: responses of other requests are dropped -/
def pendingReceive (w : World) (c ch rid : Nat) : Nat → World × Option RecvRes
  | 0 => (w, some .none)
  | fuel + 1 =>
    let w := clientUpdate w c
    if w.panicked then (w, none) else
    match rcvReceive w (cid c) ch with
    | (w, .none) => (w, some .none)
    | (w, .maxBorrow) => (w, some .maxBorrow)
    | (w, .some h m) =>
      if m.rid ≠ rid then pendingReceive (rcvRelease w (cid c) h) c ch rid fuel
      else (w, some (.some h m))

def updActive (w : World) (s a : Nat) (f : Active → Active) : World :=
  match getSv w s with
  | some V => setSv w s { V with actives := V.actives.map fun x => if x.label = a then f x else x }
  | none => w

/-- the records of a port that never got registered are removed again -/
def delPort (w : World) (p : Pid) : World :=
  { w with snds := AMap.del w.snds p, rcvs := AMap.del w.rcvs p, snaps := AMap.del w.snaps p }

def regSnap (r : Reg (Nat × Nat)) : Snap := { ctr := r.counter, slots := r.slots }

/-- the request `Sender` of a new client with `n` chunks -/
def clientSnd (w : World) (n : Nat) : Snd :=
  { n := n, free := List.range n, rc := List.replicate n 0,
    maxLoans := w.cfg.maxLoans + w.cfg.maxActive + w.cfg.maxActive,
    conns := List.replicate w.cfg.maxServers none, nChan := 1, init := .id 0 false,
    overflow := w.cfg.ovReq, rMaxBorrow := w.cfg.maxActive }

/-- the response `Receiver` of a new client -/
def clientRcv (w : World) : Rcv :=
  { conns := List.replicate w.cfg.maxServers none,
    storage := SlotMap.init (w.cfg.cExpired + w.cfg.maxServers), tbrCap := w.cfg.cExpired,
    nChan := w.cfg.nChannels, init := .closed, cap := w.cfg.respBuf,
    overflow := w.cfg.ovResp, maxBorrow := w.cfg.maxBorrow }

/-- `Client::new` once the requested limit is accepted: ports, connections, registration -/
def clientCreate (w : World) (c active : Nat) : World × String :=
  let n := w.cfg.clientChunks w.cfg.maxLoans active
  let w1 := clientForceUpdate
    (setSnap (setRcv (setSnd w (cid c) (clientSnd w n)) (cid c) (clientRcv w)) (cid c) (regSnap w.serverReg)) c
  match w1.clientReg.add (c, n) with
  | some (reg, slot) =>
    -- the record of the `Client` object and its shared state
    finishPanic w ({ setCl w1 c { maxActive := active, chanIds := List.range n, slot := slot } with clientReg := reg }, "ok")
  | none =>
    -- the port is dropped again: its connections are closed, nothing else remains
    finishPanic w (delPort (portDestroy w1 (cid c)) (cid c), "err:ExceedsMaxSupportedClients")

def clientActive (w : World) (ma : Option Nat) : Nat :=
  match ma with | some m => clamp1 m | none => w.cfg.maxActive

/-- `Client::new` -/
def opCClient (w : World) (c : Nat) (ma : Option Nat) : World × String :=
  if (getCl w c).isSome then (w, "dup") else
  if w.cfg.maxActive < clientActive w ma then (w, "err:MaxActiveRequestsExceedsMaxSupportedActiveRequestsOfService") else
  clientCreate w c (clientActive w ma)

def opDClient (w : World) (c : Nat) : World × String :=
  match getCl w c with
  | none => (w, "none")
  | some C =>
    if !C.alive then (w, "none") else
    (clientDestroyIfUnreferenced (setCl w c { C with alive := false }) c, "ok")

/-- the response `Sender` of a new server with `n` chunks -/
def serverSnd (w : World) (n lpr : Nat) : Snd :=
  { n := n, free := List.range n, rc := List.replicate n 0,
    maxLoans := lpr * w.cfg.maxActive * w.cfg.maxClients,
    conns := List.replicate w.cfg.maxClients none, nChan := w.cfg.nChannels, init := .closed,
    overflow := w.cfg.ovResp, rMaxBorrow := w.cfg.maxBorrow }

/-- the request `Receiver` of a new server -/
def serverRcv (w : World) : Rcv :=
  { conns := List.replicate w.cfg.maxClients none,
    storage := SlotMap.init (w.cfg.sExpired + w.cfg.maxClients), tbrCap := w.cfg.sExpired,
    nChan := 1, init := .id 0 false, cap := w.cfg.maxActive,
    overflow := w.cfg.ovReq, maxBorrow := w.cfg.maxActive }

def serverLoanPerReq (w : World) (ml : Option Nat) : Nat :=
  match ml with | some m => clamp1 m | none => w.cfg.defLoanPerReq

/-- `Server::new` -/
def opCServer (w : World) (s : Nat) (ml : Option Nat) : World × String :=
  if (getSv w s).isSome then (w, "dup") else
  let lpr := serverLoanPerReq w ml
  let n := w.cfg.serverChunks lpr
  let w1 := serverForceUpdate
    (setSnap (setRcv (setSnd w (sid s) (serverSnd w n lpr)) (sid s) (serverRcv w)) (sid s) (regSnap w.clientReg)) s
  match w1.serverReg.add (s, n) with
  | some (reg, slot) => finishPanic w ({ setSv w1 s { loanPerReq := lpr, slot := slot } with serverReg := reg }, "ok")
  | none => finishPanic w (delPort (portDestroy w1 (sid s)) (sid s), "err:ExceedsMaxSupportedServers")

def opDServer (w : World) (s : Nat) : World × String :=
  match getSv w s with
  | none => (w, "none")
  | some S =>
    if !S.alive then (w, "none") else
    (serverDestroyIfUnreferenced (setSv w s { S with alive := false }) s, "ok")

/-- a `PendingResponse` comes into being -/
def Client.addPending (C : Client) (P : Pending) : Client :=
  { C with activeCnt := C.activeCnt + 1, pendings := C.pendings ++ [P], usedLabels := P.label :: C.usedLabels,
           loanCnt := C.loanCnt - 1, gSendCtr := C.gSendCtr + 1 }

/-- `RequestMut::send` -> `ClientSharedState::send_request` once the limit check has passed:
`update_connections`, `prepare_channel_to_receive_responses`, `deliver_offset` -/
def sendRequest (w : World) (c r ch rid chunk tag : Nat) : World × String :=
  let w0 := w
  let w := clientUpdate w c
  if w.panicked then ({ w0 with panicked := true }, "PANIC") else
  match getCl w c with
  | some C =>
    -- the `PendingResponse` (kept by the caller under label `r`)
    let w := setCl w c (C.addPending { label := r, rid := rid, channel := ch, chunk := chunk, tag := tag })
    let w := rcvMapAll w (cid c) ch (fun x => x.setState rid)
    let w := retrieveReturned w (cid c)
    let msg : Msg := { client := c, channel := ch, rid := rid, tag := tag, gSeq := C.gSendCtr }
    let r := deliverAll w (cid c) 0 { chunk := chunk, msg := msg } (sndConns w (cid c)) 0
    (r.1, s!"ok:{r.2}")
  | none => (w, "none")

/-- `Client::loan_chunk`: client loan limit, `Sender::allocate`, channel id, request id.  Returns the loan
or the refusal. -/
def clientLoan (w : World) (c l : Nat) : World × Option QLoan × String :=
  match getCl w c with
  | none => (w, none, "none")
  | some C0 =>
    if C0.loanCnt = w.cfg.maxLoans then (w, none, "err:loan:ExceedsMaxLoans") else
    let w := retrieveReturned w (cid c)
    match getSnd w (cid c) with
    | none => (w, none, "none")
    | some S =>
      match S.allocate with
      | (_, .exceedsMaxLoans) => (w, none, "err:loan:ExceedsMaxLoans")
      | (_, .outOfMemory) => (w, none, "err:loan:OutOfMemory")
      | (_, .corrupted) => ({ w with panicked := true }, none, "PANIC")
      | (S, .ok chunk) =>
        let w := setSnd w (cid c) S
        match C0.chanIds with
        | [] => ({ w with panicked := true }, none, "PANIC")
        | ch :: ids =>
          (setCl w c { C0 with chanIds := ids, ridCtr := C0.ridCtr + 1, loanCnt := C0.loanCnt + 1 },
           some { label := l, rid := C0.ridCtr, channel := ch, chunk := chunk }, "ok")

/-- a `RequestMut(Uninit)` is dropped unsent: `release_request(false)`, `return_loaned_chunk` -/
def clientReleaseLoan (w : World) (c : Nat) (q : QLoan) : World :=
  match getCl w c with
  | none => w
  | some C =>
    let w := setCl w c { C with chanIds := C.chanIds ++ [q.channel], loanCnt := C.loanCnt - 1 }
    sndReturnLoan w (cid c) q.chunk

/-- `RequestMut::send`: the active-request limit is checked before any side effect -/
def clientSendLoan (w : World) (c : Nat) (q : QLoan) (r tag : Nat) : World × String :=
  match getCl w c with
  | none => (w, "none")
  | some C =>
    if C.maxActive ≤ C.activeCnt then (clientReleaseLoan w c q, "err:send:ExceedsMaxActiveRequests")
    else sendRequest w c r q.channel q.rid q.chunk tag

/-- `Client::loan_uninit` + `write_payload` + `RequestMut::send` -/
def opSend (w : World) (c r tag : Nat) : World × String :=
  match getCl w c with
  | none => (w, "none")
  | some C0 =>
    if !C0.alive then (w, "none") else
    if C0.usedLabels.contains r then (w, "dup") else
    match clientLoan w c 0 with
    | (w, none, out) => (w, out)
    | (w, some q, _) => clientSendLoan w c q r tag

/-- `Client::loan_uninit`, the `RequestMutUninit` is kept under label `l` -/
def opQLoan (w : World) (c l : Nat) : World × String :=
  match getCl w c with
  | none => (w, "none")
  | some C0 =>
    if !C0.alive then (w, "none") else
    if C0.usedLoanLabels.contains l then (w, "dup") else
    match clientLoan w c l with
    | (w, none, out) => (w, out)
    | (w, some q, _) =>
      match getCl w c with
      | none => (w, "none")
      | some C => (setCl w c { C with qloans := C.qloans ++ [q], usedLoanLabels := l :: C.usedLoanLabels }, "ok")

/-- `write_payload` + `RequestMut::send` of the kept loan `l` -/
def opQSend (w : World) (c l r tag : Nat) : World × String :=
  match getCl w c with
  | none => (w, "none")
  | some C =>
    match C.qloans.find? (·.label = l) with
    | none => (w, "none")
    | some q =>
      if C.usedLabels.contains r then (w, "dup") else
      let w := setCl w c { C with qloans := C.qloans.filter (·.label ≠ l) }
      let res := clientSendLoan w c q r tag
      (clientDestroyIfUnreferenced res.1 c, res.2)

/-- the kept loan `l` is dropped -/
def opQDrop (w : World) (c l : Nat) : World × String :=
  match getCl w c with
  | none => (w, "none")
  | some C =>
    match C.qloans.find? (·.label = l) with
    | none => (w, "none")
    | some q =>
      let w := setCl w c { C with qloans := C.qloans.filter (·.label ≠ l) }
      (clientDestroyIfUnreferenced (clientReleaseLoan w c q) c, "ok")

/-- `Server::receive` -/
def opRecvReq (w : World) (s a : Nat) : World × String :=
  match getSv w s with
  | none => (w, "none")
  | some V0 =>
    if !V0.alive then (w, "none") else
    if V0.usedLabels.contains a then (w, "dup") else
    match serverReceive w s (totalQueued w.conns + 1) with
    | (_, none) => ({ w with panicked := true }, "PANIC")
    | (w1, some .none) => (w1, "none")
    | (w1, some .maxBorrow) => (w1, "err:ExceedsMaxBorrows")
    | (w1, some (.some h m)) =>
      match getSv w1 s with
      | some V =>
        let A : Active := { label := a, det := h, connId := connIdOf (sndConns w1 (sid s)) (cid m.client) 0, msg := m }
        (setSv w1 s { V with actives := V.actives ++ [A], usedLabels := a :: V.usedLabels,
                             gRecvReq := V.gRecvReq ++ [(m.client, m.rid)], gRecvSeq := V.gRecvSeq ++ [(m.client, m.gSeq)] },
         s!"some:{h.origin.n}:{m.tag}")
      | none => (w1, "none")

/-- ghost: the shared state of client `c` is gone -/
def clientGone (w : World) (c : Nat) : Bool :=
  match getCl w c with | some C => !C.ex | none => true

/-- the response chunk: header with the request id of the active request, the payload, ghost fields -/
def responseMsg (w : World) (s : Nat) (A : Active) (tag : Nat) : Msg :=
  { rid := A.msg.rid, server := s, tag := tag, gClient := A.msg.client, gSeq := A.gSent,
    gStale := clientGone w A.msg.client }

/-- `deliver_offset_to_connection` starts with `retrieve_returned_chunks` -/
def respondRetrieve (w : World) (s : Nat) (connId : Option Nat) : World :=
  match connId with | some _ => retrieveReturned w (sid s) | none => w

/-- `deliver_offset_to_connection` for the connection slot of the active request -/
def respondDeliver (w : World) (s : Nat) (A : Active) (e : Entry) : World :=
  let w := respondRetrieve w s A.connId
  match respondTarget w s A.connId with
  | some t => (deliverTo w (sid s) t A.msg.channel e).1
  | none => w

/-- `ResponseMut::send` and the drop of the `ResponseMut` -/
def sendResponse (w : World) (s : Nat) (A : Active) (chunk tag : Nat) : World × String :=
  let w1 := serverUpdate w s
  if w1.panicked then ({ w with panicked := true }, "PANIC") else
  -- the counters of the active request: one more response sent, the loan of the `ResponseMut` ends
  let w2 := updActive w1 s A.label fun x => { x with loans := x.loans - 1, gSent := x.gSent + 1 }
  let w3 := respondDeliver w2 s A { chunk := chunk, msg := responseMsg w1 s A tag }
  (sndReturnLoan w3 (sid s) chunk, "ok")

/-- `ActiveRequest::loan_chunk`: `increment_loan_counter`, `Sender::allocate` (a failed allocation undoes the
reservation).  Returns the chunk or the refusal. -/
def activeLoan (w : World) (s a : Nat) (loanPerReq : Nat) (A : Active) : World × Option Nat × String :=
  if loanPerReq ≤ A.loans then (w, none, "err:loan:ExceedsMaxLoans") else
  let w := updActive w s a fun x => { x with loans := x.loans + 1 }
  let w := retrieveReturned w (sid s)
  match getSnd w (sid s) with
  | none => (w, none, "none")
  | some S =>
    match S.allocate with
    | (_, .exceedsMaxLoans) => (updActive w s a fun x => { x with loans := x.loans - 1 }, none, "err:loan:ExceedsMaxLoans")
    | (_, .outOfMemory) => (updActive w s a fun x => { x with loans := x.loans - 1 }, none, "err:loan:OutOfMemory")
    | (_, .corrupted) => ({ w with panicked := true }, none, "PANIC")
    | (S, .ok chunk) => (setSnd w (sid s) S, some chunk, "ok")

/-- `ActiveRequest::loan_uninit` + `write_payload` + `ResponseMut::send` -/
def opRespond (w : World) (s a tag : Nat) : World × String :=
  match getSv w s with
  | none => (w, "none")
  | some V0 =>
    match findActive V0 a with
    | none => (w, "none")
    | some A =>
      match activeLoan w s a V0.loanPerReq A with
      | (w, none, out) => (w, out)
      | (w, some chunk, _) => sendResponse w s A chunk tag

/-- the record of an active request whose object is gone disappears with its last loaned response -/
def reapActive (w : World) (s a : Nat) : World :=
  match getSv w s with
  | none => w
  | some V => setSv w s { V with actives := V.actives.filter fun x => !(x.label = a && !x.live && x.loans = 0) }

/-- `ActiveRequest::loan_uninit`, the `ResponseMutUninit` is kept under label `l` -/
def opRLoan (w : World) (s a l : Nat) : World × String :=
  match getSv w s with
  | none => (w, "none")
  | some V0 =>
    match findActive V0 a with
    | none => (w, "none")
    | some A =>
      if V0.usedLoanLabels.contains l then (w, "dup") else
      match activeLoan w s a V0.loanPerReq A with
      | (w, none, out) => (w, out)
      | (w, some chunk, _) =>
        match getSv w s with
        | none => (w, "none")
        | some V =>
          (setSv w s { V with rloans := V.rloans ++ [{ label := l, aLabel := a, chunk := chunk }],
                              usedLoanLabels := l :: V.usedLoanLabels }, "ok")

/-- `write_payload` + `ResponseMut::send` of the kept loan `l` (the active request object may be gone) -/
def opRSend (w : World) (s l tag : Nat) : World × String :=
  match getSv w s with
  | none => (w, "none")
  | some V =>
    match V.rloans.find? (·.label = l) with
    | none => (w, "none")
    | some L =>
      match findActiveAny V L.aLabel with
      | none => (w, "none")
      | some A =>
        let w := setSv w s { V with rloans := V.rloans.filter (·.label ≠ l) }
        let res := sendResponse w s A L.chunk tag
        (serverDestroyIfUnreferenced (reapActive res.1 s L.aLabel) s, res.2)

/-- the kept loan `l` is dropped: `shared_loan_counter`, `return_loaned_chunk` -/
def opRDrop (w : World) (s l : Nat) : World × String :=
  match getSv w s with
  | none => (w, "none")
  | some V =>
    match V.rloans.find? (·.label = l) with
    | none => (w, "none")
    | some L =>
      let w := setSv w s { V with rloans := V.rloans.filter (·.label ≠ l) }
      let w := updActive w s L.aLabel fun x => { x with loans := x.loans - 1 }
      let w := sndReturnLoan w (sid s) L.chunk
      (serverDestroyIfUnreferenced (reapActive w s L.aLabel) s, "ok")

/-- `ActiveRequest::drop`: `release_offset`, `finish`; the record stays while responses loaned from it exist -/
def opDActive (w : World) (s a : Nat) : World × String :=
  match getSv w s with
  | none => (w, "none")
  | some V =>
    match findActive V a with
    | none => (w, "none")
    | some A =>
      let w := updActive w s a fun x => { x with live := false }
      let w := reapActive w s a
      let w := rcvRelease w (sid s) A.det
      let w := activeFinish w s A.connId A.msg.channel A.msg.rid
      (serverDestroyIfUnreferenced w s, "ok")

/-- `PendingResponse::receive` -/
def opRecvResp (w : World) (c r : Nat) : World × String :=
  match getCl w c with
  | none => (w, "none")
  | some C0 =>
    match findPending C0 r with
    | none => (w, "none")
    | some P =>
      match pendingReceive w c P.channel P.rid (totalQueued w.conns + 1) with
      | (_, none) => ({ w with panicked := true }, "PANIC")
      | (w1, some .none) => (w1, "none")
      | (w1, some .maxBorrow) => (w1, "err:ExceedsMaxBorrows")
      | (w1, some (.some h m)) =>
        match getCl w1 c with
        | none => (w1, "none")
        | some C =>
          (setCl w1 c { C with held := C.held ++ [h],
                               pendings := C.pendings.map fun x => if x.rid = P.rid then { x with gRecv := x.gRecv ++ [m] } else x },
           s!"some:{h.origin.n}:{m.tag}")

/-- a `Response` is dropped -/
def opDResp (w : World) (c k : Nat) : World × String :=
  match getCl w c with
  | none => (w, "none")
  | some C =>
    match C.held[k]? with
    | none => (w, "none")
    | some h =>
      let w := setCl w c { C with held := C.held.eraseIdx k }
      let w := rcvRelease w (cid c) h
      (clientDestroyIfUnreferenced w c, "ok")

/-- a `PendingResponse` goes: counter, pending list, the channel id is returned -/
def Client.dropPending (C : Client) (P : Pending) : Client :=
  { C with activeCnt := C.activeCnt - 1, pendings := C.pendings.filter (fun x => x.label ≠ P.label),
           chanIds := C.chanIds ++ [P.channel] }

/-- `PendingResponse::drop`: counter, `close`; then the `RequestMut`: `release_request`, `return_loaned_chunk` -/
def opDPending (w : World) (c r : Nat) : World × String :=
  match getCl w c with
  | none => (w, "none")
  | some C =>
    match findPending C r with
    | none => (w, "none")
    | some P =>
      let w := rcvMapAll w (cid c) P.channel (fun x => x.close P.rid)
      let w := setCl w c (C.dropPending P)
      let w := sndReturnLoan w (cid c) P.chunk
      (clientDestroyIfUnreferenced w c, "ok")

/-- `PendingResponse::is_connected` -/
def opConnected (w : World) (c r : Nat) : World × String :=
  match getCl w c with
  | none => (w, "none")
  | some C =>
    match findPending C r, getRcv w (cid c) with
    | some P, some R =>
      (w, if rcvAnyChan w (cid c) P.channel (fun x => x.hasState P.rid) (SlotMap.items R.storage) then "true" else "false")
    | _, _ => (w, "none")

/-- `ActiveRequest::is_connected` -/
def opAConnected (w : World) (s a : Nat) : World × String :=
  match getSv w s with
  | none => (w, "none")
  | some V =>
    match findActive V a with
    | none => (w, "none")
    | some A =>
      (w, if activeConnected w s A.connId A.msg.channel A.msg.rid then "true" else "false")

/-- `PendingResponse::set_disconnect_hint` -/
def opHint (w : World) (c r : Nat) : World × String :=
  match getCl w c with
  | none => (w, "none")
  | some C =>
    match findPending C r with
    | some P => (rcvMapAll w (cid c) P.channel (fun x => x.setHint P.rid), "ok")
    | none => (w, "none")

/-- `ActiveRequest::has_disconnect_hint` -/
def opAHint (w : World) (s a : Nat) : World × String :=
  match getSv w s with
  | none => (w, "none")
  | some V =>
    match findActive V a with
    | none => (w, "none")
    | some A =>
      (w, match activeChan w s A.connId A.msg.channel with
          | some x => if x.hasHint A.msg.rid then "true" else "false"
          | none => "false")

/-- `PendingResponse::has_response` -/
def opHas (w : World) (c r : Nat) : World × String :=
  match getCl w c with
  | none => (w, "none")
  | some C =>
    match findPending C r, getRcv w (cid c) with
    | some P, some R =>
      (w, if rcvAnyChan w (cid c) P.channel (fun x => !x.sub.isEmpty) (SlotMap.items R.storage) then "true" else "false")
    | _, _ => (w, "none")

/-- `Server::has_requests` -/
def opHasReq (w : World) (s : Nat) : World × String :=
  match getSv w s with
  | none => (w, "none")
  | some V0 =>
    if !V0.alive then (w, "none") else
    let w1 := serverUpdate w s
    if w1.panicked then ({ w with panicked := true }, "PANIC") else
    match getRcv w1 (sid s) with
    | none => (w1, "none")
    | some R =>
      let items := SlotMap.items R.storage
      -- `has_chunks` / `has_chunks_in_active_connection`
      let items := if w1.cfg.ff then items else items.filter fun e => R.conns.contains (some e.1)
      (w1, if rcvAnyChan w1 (sid s) 0 (fun x => !x.sub.isEmpty) items then "true" else "false")

def opUpdC (w : World) (c : Nat) : World × String :=
  match getCl w c with
  | none => (w, "none")
  | some C => if !C.alive then (w, "none") else finishPanic w (clientUpdate w c, "ok")

def opUpdS (w : World) (s : Nat) : World × String :=
  match getSv w s with
  | none => (w, "none")
  | some V => if !V.alive then (w, "none") else finishPanic w (serverUpdate w s, "ok")

def step (w : World) : Op → World × String
  | .cclient c ma => opCClient w c ma
  | .dclient c => opDClient w c
  | .cserver s ml => opCServer w s ml
  | .dserver s => opDServer w s
  | .send c r tag => opSend w c r tag
  | .qloan c l => opQLoan w c l
  | .qsend c l r tag => opQSend w c l r tag
  | .qdrop c l => opQDrop w c l
  | .rloan s a l => opRLoan w s a l
  | .rsend s l tag => opRSend w s l tag
  | .rdrop s l => opRDrop w s l
  | .recvreq s a => opRecvReq w s a
  | .respond s a tag => opRespond w s a tag
  | .dactive s a => opDActive w s a
  | .recvresp c r => opRecvResp w c r
  | .dresp c k => opDResp w c k
  | .dpending c r => opDPending w c r
  | .connected c r => opConnected w c r
  | .aconnected s a => opAConnected w s a
  | .hint c r => opHint w c r
  | .ahint s a => opAHint w s a
  | .has c r => opHas w c r
  | .hasreq s => opHasReq w s
  | .updC c => opUpdC w c
  | .updS s => opUpdS w s

/-! ### reachability -/

/-- what the service builder guarantees about a created service (zero limits are raised to one) -/
def Cfg.Sane (c : Cfg) : Prop :=
  1 ≤ c.maxClients ∧ 1 ≤ c.maxServers ∧ 1 ≤ c.maxActive ∧ 1 ≤ c.respBuf ∧ 1 ≤ c.maxBorrow ∧ 1 ≤ c.maxLoans ∧
  1 ≤ c.defLoanPerReq

instance (c : Cfg) : Decidable c.Sane := by unfold Cfg.Sane; exact inferInstance

def run (w : World) (ops : List Op) : World := ops.foldl (fun w op => (step w op).1) w

/-- the states an application can reach through API calls; a (fatal) panic ends the history -/
inductive Reach (c : Cfg) : World → Prop
  | init : Reach c (World.init c)
  | step {w : World} (op : Op) : Reach c w → w.panicked = false → Reach c (step w op).1

end Iox2.ReqRes
