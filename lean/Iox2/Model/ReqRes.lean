/- stub: model `ReqRes` (to be written) -/
namespace Iox2.ReqRes
end Iox2.ReqRes
