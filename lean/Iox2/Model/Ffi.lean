/- stub: model `Ffi` (to be written) -/
namespace Iox2.Ffi
end Iox2.Ffi
