import Lean
/-!
# Data model of the C binding's error tables (C18)

The tables themselves are generated (`Iox2/Gen/FfiErrors.lean`, translator `/verif/extract/ffi_errors.py`);
this file fixes their shape.

`Name`: a source-level identifier or printable text.  It carries the string as written in the Rust source,
its code points, and the code points packed into one natural number, with kernel-checked proofs that the
three spell the same text.  Equality of names is decided on the packed number: ONE kernel-accelerated
comparison of two `Nat` literals.  (The kernel's evaluation of `String` operations — UTF-8 encoding through
`UInt8`/`BitVec` arithmetic — costs milliseconds per comparison, a list of code points about a millisecond
for identifiers with long common prefixes; the tables need several 10^5 comparisons.)  The `ok` field uses
the kernel's own literal expansion `"ab" ≡ String.ofList [Char.ofNat 97, Char.ofNat 98]`, once per literal.
`Name.eq_iff` shows that equality of names is the ordinary equality of the strings: nothing about the
statements changes.
-/
namespace Iox2.Ffi

/-- all code points below the surrogate range (covers every identifier and message of the sources;
    the `n!` elaborator refuses other texts) -/
def validKey (key : List Nat) : Bool := key.all (fun k => decide (k < 55296))

/-- bijective base-65537 numeral of the code points (digits `c + 1 ∈ [1, 55296]`) -/
def pack : List Nat → Nat
  | [] => 0
  | c :: cs => (c + 1) + 65537 * pack cs

structure Name where
  str : String
  key : List Nat
  packed : Nat
  valid : validKey key = true
  ok : str = String.ofList (key.map Char.ofNat)
  packOk : packed = pack key

theorem toNat_ofNat_of_lt {k : Nat} (h : k < 55296) : (Char.ofNat k).toNat = k := by
  have hv : k.isValidChar := Or.inl h
  simp [Char.ofNat, hv, Char.toNat, Char.ofNatAux]

theorem key_eq_of_map_eq : ∀ (a b : List Nat), validKey a = true → validKey b = true →
    a.map Char.ofNat = b.map Char.ofNat → a = b
  | [], [], _, _, _ => rfl
  | [], _ :: _, _, _, h => by simp at h
  | _ :: _, [], _, _, h => by simp at h
  | x :: xs, y :: ys, ha, hb, h => by
    simp only [validKey, List.all_cons, Bool.and_eq_true, decide_eq_true_eq] at ha hb
    simp only [List.map_cons, List.cons.injEq] at h
    have hxy : x = y := by
      have := congrArg Char.toNat h.1
      rwa [toNat_ofNat_of_lt ha.1, toNat_ofNat_of_lt hb.1] at this
    have := key_eq_of_map_eq xs ys (by simpa [validKey] using ha.2) (by simpa [validKey] using hb.2) h.2
    rw [hxy, this]

theorem pack_injective : ∀ (a b : List Nat), validKey a = true → validKey b = true → pack a = pack b → a = b
  | [], [], _, _, _ => rfl
  | [], y :: ys, _, _, h => by simp only [pack] at h; omega
  | x :: xs, [], _, _, h => by simp only [pack] at h; omega
  | x :: xs, y :: ys, ha, hb, h => by
    simp only [validKey, List.all_cons, Bool.and_eq_true, decide_eq_true_eq] at ha hb
    simp only [pack] at h
    have hxy : x = y := by omega
    have hp : pack xs = pack ys := by omega
    have := pack_injective xs ys (by simpa [validKey] using ha.2) (by simpa [validKey] using hb.2) hp
    rw [hxy, this]

theorem Name.eq_iff_key (a b : Name) : a = b ↔ a.key = b.key := by
  constructor
  · intro h; rw [h]
  · intro h
    cases a with
    | mk sa ka pa va oka pka =>
      cases b with
      | mk sb kb pb vb okb pkb =>
        simp only at h
        subst h
        have hs : sa = sb := oka.trans okb.symm
        have hp : pa = pb := pka.trans pkb.symm
        subst hs; subst hp
        rfl

theorem Name.eq_iff_packed (a b : Name) : a = b ↔ a.packed = b.packed := by
  constructor
  · intro h; rw [h]
  · intro h
    apply (Name.eq_iff_key a b).mpr
    rw [a.packOk, b.packOk] at h
    exact pack_injective _ _ a.valid b.valid h

/-- equality of names is equality of the strings they spell -/
theorem Name.eq_iff (a b : Name) : a = b ↔ a.str = b.str := by
  constructor
  · intro h; rw [h]
  · intro h
    apply (Name.eq_iff_key a b).mpr
    rw [a.ok, b.ok] at h
    exact key_eq_of_map_eq _ _ a.valid b.valid (String.ofList_injective h)

instance : DecidableEq Name := fun a b =>
  if h : a.packed = b.packed then isTrue ((Name.eq_iff_packed a b).mpr h)
  else isFalse (fun hab => h ((Name.eq_iff_packed a b).mp hab))

instance : Repr Name := ⟨fun n _ => repr n.str⟩

open Lean Elab Term in
/-- `n! "text"`: the name spelling `text`.  Code points and packed number are computed at elaboration time; the
    three proof fields are `Eq.refl`s that the kernel checks when the enclosing declaration is added (the
    elaborator itself is not trusted with them). -/
elab "n!" s:str : term => do
  let str := s.getString
  let codes := str.toList.map Char.toNat
  unless codes.all (· < 55296) do
    throwErrorAt s "n!: code point outside the supported range in {repr str}"
  let natT : Expr := Lean.mkConst ``Nat
  let keyE : Expr := codes.foldr (fun c acc => mkApp3 (mkConst ``List.cons [0]) natT (mkRawNatLit c) acc)
    (mkApp (mkConst ``List.nil [0]) natT)
  let packed := codes.foldr (fun c acc => (c + 1) + 65537 * acc) 0
  let packedE := mkRawNatLit packed
  let strE : Expr := mkStrLit str
  let validE := mkApp2 (mkConst ``Eq.refl [1]) (mkConst ``Bool) (mkConst ``Bool.true)
  let okE := mkApp2 (mkConst ``Eq.refl [1]) (mkConst ``String) strE
  let packOkE := mkApp2 (mkConst ``Eq.refl [1]) natT packedE
  return mkAppN (mkConst ``Iox2.Ffi.Name.mk) #[strE, keyE, packedE, validE, okE, packOkE]

def Name.isEmpty (n : Name) : Prop := n.packed = 0
instance (n : Name) : Decidable n.isEmpty := by unfold Name.isEmpty; infer_instance

theorem Name.isEmpty_iff (n : Name) : n.isEmpty ↔ n.str = "" := by
  unfold Name.isEmpty
  constructor
  · intro h
    have hk : n.key = [] := by
      rw [n.packOk] at h
      cases hkk : n.key with
      | nil => rfl
      | cons x xs => rw [hkk] at h; simp only [pack] at h; omega
    rw [n.ok, hk]; rfl
  · intro h
    have h2 := n.ok
    rw [h] at h2
    have : (n.key.map Char.ofNat) = [] := by
      apply String.ofList_injective
      rw [← h2]
    have hk : n.key = [] := by simpa using this
    rw [n.packOk, hk]; rfl

/-- one variant of a C enum: name, evaluated discriminant, printable name (empty = the enum has none) -/
structure CVariant where
  name : Name
  code : Int
  printable : Name
deriving DecidableEq, Repr

/-- `impl IntoCInt for rustEnum` (or `From<rustEnum> for iox2_…_e`): `rustVariants` = every variant of the
    Rust enum definition (payload enums flattened as far as the match looks into them),
    `table` = (Rust variant, C variant) rows -/
structure Mapping where
  rustEnum : Name
  rustVariants : List Name
  table : List (Name × Name)
deriving DecidableEq, Repr

structure CEnum where
  name : Name
  file : String
  hasStringFn : Bool
  variants : List CVariant
  /-- C variants the binding returns by itself (mentioned outside the enum definition, the mappings
      and the export stubs of quirks_correction.rs) -/
  direct : List Name
  mappings : List Mapping
deriving Repr

end Iox2.Ffi
