/-
L2 model of `iceoryx2-bb/lock-free/src/spsc/safely_overflowing_index_queue.rs`
(`SafelyOverflowingIndexQueue`): `capacity + 1` cells, monotone cursors; a push on a full queue
publishes first and then *steals* the oldest element with a CAS on `read_position`; the
consumer's pop is a CAS loop.  One `PC` constructor per atomic operation / cell access.
Ghost: `log` = every value ever pushed, by position.
-/
import Iox2.Base.Sched
namespace Iox2.OverflowQueue
open Iox2.Sched

structure Sh where
  cap  : Nat
  wp   : Nat
  rp   : Nat
  data : List Nat           -- `cap + 1` cells
  hasProducer : Bool
  hasConsumer : Bool
  log  : List Nat           -- ghost: value pushed at position i
  owner   : List Bool       -- ghost: who took position i (true = consumer pop, false = producer steal)
  popped  : List Nat        -- ghost: values returned by `pop`, in return order
  evicted : List Nat        -- ghost: values returned by `push` (evicted oldest elements)
deriving Repr

def Sh.init (cap : Nat) : Sh :=
  { cap := cap, wp := 0, rp := 0, data := List.replicate (cap + 1) 0,
    hasProducer := true, hasConsumer := true, log := [],
    owner := [], popped := [], evicted := [] }

inductive Cmd where
  | push (v : Nat) | pop | len | isFull | isEmpty
  | acquireProducer | releaseProducer | acquireConsumer | releaseConsumer
deriving Repr, DecidableEq

inductive PC where
  | idle
  | pushLdW (v : Nat) | pushLdR (v w : Nat) | pushDist (v w r : Nat) | pushCell (v w r : Nat) | pushStW (v w r : Nat)
  | pushCas (w r : Nat) | pushDist2 (r : Nat) | pushRead (r : Nat)
  | popLdR | popLdW (q : Nat) | popDist (q : Nat) | popCell (q : Nat) | popCas (q x : Nat) | popRecheck (q : Nat)
  | posW1 (k : Cmd) | posR1 (k : Cmd) (w : Nat) | posW2 (k : Cmd) (w r : Nat) | posR2 (k : Cmd) (w r : Nat)
  | acqP | relP | acqC | relC
deriving Repr, DecidableEq

structure Th where
  pc   : PC
  todo : List Cmd
  holdsP : Bool := false     -- owns the `Producer` object (obtained from `acquire_producer`)
  holdsC : Bool := false     -- owns the `Consumer` object
deriving Repr

def Th.init (prog : List Cmd) : Th := { pc := .idle, todo := prog }

/-- The Rust API only lets the owner of the `Producer` (`Consumer`) object push (pop) or release
the role; a command the thread cannot issue is skipped without any memory access. -/
def enabled (holdsP holdsC : Bool) : Cmd → Bool
  | .push _ => holdsP
  | .pop => holdsC
  | .releaseProducer => holdsP
  | .releaseConsumer => holdsC
  | .acquireProducer => !holdsP
  | .acquireConsumer => !holdsC
  | _ => true

def nextCmd (holdsP holdsC : Bool) : List Cmd → Option (Cmd × List Cmd)
  | [] => none
  | c :: rest => if enabled holdsP holdsC c then some (c, rest) else nextCmd holdsP holdsC rest

def start : Cmd → PC
  | .push v => .pushLdW v
  | .pop => .popLdR
  | .acquireProducer => .acqP
  | .releaseProducer => .relP
  | .acquireConsumer => .acqC
  | .releaseConsumer => .relC
  | k => .posW1 k

def slot (s : Sh) (p : Nat) : Nat := p % (s.cap + 1)

def posResult (s : Sh) (k : Cmd) (w r : Nat) : String :=
  match k with
  | .len => s!"len {w - r}"
  | .isFull => s!"is_full {decide (w = r + s.cap)}"
  | _ => s!"is_empty {decide (w = r)}"

def stepPC (s : Sh) (t : Th) : Option (Sh × Th × List Ev) :=
  match t.pc with
  | .idle => none
  | .pushLdW v => some (s, { t with pc := .pushLdR v s.wp }, [.load "wp" .acq s.wp])
  | .pushLdR v w => some (s, { t with pc := .pushDist v w s.rp }, [.load "rp" .rlx s.rp])
  | .pushDist v w r => some (s, { t with pc := .pushCell v w r }, [.load "dist" .rlx 0])
  | .pushCell v w r =>
      some ({ s with data := s.data.set (slot s w) v }, { t with pc := .pushStW v w r }, [.cell s!"data[{slot s w}]"])
  | .pushStW v w r =>
      let s' := { s with wp := w + 1, log := s.log ++ [v] }
      if w = r + s.cap then some (s', { t with pc := .pushCas w r }, [.store "wp" .rel (w + 1)])
      else some (s', { t with pc := .idle }, [.store "wp" .rel (w + 1), .ret "push none"])
  | .pushCas _ r =>
      if s.rp = r then some ({ s with rp := r + 1, owner := s.owner ++ [false] }, { t with pc := .pushDist2 r }, [.cas "rp" .acqrel .rlx r (r + 1) true])
      else some (s, { t with pc := .idle }, [.cas "rp" .acqrel .rlx s.rp (r + 1) false, .ret "push none"])
  | .pushDist2 r => some (s, { t with pc := .pushRead r }, [.load "dist" .rlx 0])
  | .pushRead r =>
      some ({ s with evicted := s.evicted ++ [s.data.getD (slot s r) 0] }, { t with pc := .idle },
            [.cell s!"data[{slot s r}]", .ret s!"push some:{s.data.getD (slot s r) 0}"])
  | .popLdR => some (s, { t with pc := .popLdW s.rp }, [.load "rp" .rlx s.rp])
  | .popLdW q =>
      if q = s.wp then some (s, { t with pc := .idle }, [.load "wp" .acq s.wp, .ret "pop none"])
      else some (s, { t with pc := .popDist q }, [.load "wp" .acq s.wp])
  | .popDist q => some (s, { t with pc := .popCell q }, [.load "dist" .rlx 0])
  | .popCell q => some (s, { t with pc := .popCas q (s.data.getD (slot s q) 0) }, [.cell s!"data[{slot s q}]"])
  | .popCas q x =>
      if s.rp = q then some ({ s with rp := q + 1, owner := s.owner ++ [true], popped := s.popped ++ [x] }, { t with pc := .idle },
                            [.cas "rp" .rlx .acq q (q + 1) true, .ret s!"pop some:{x}"])
      else some (s, { t with pc := .popRecheck s.rp }, [.cas "rp" .rlx .acq s.rp (q + 1) false])
  | .popRecheck q =>
      -- after a lost race: empty again? (only possible with capacity 0)
      if q = s.wp then some (s, { t with pc := .idle }, [.load "wp" .acq s.wp, .ret "pop none"])
      else some (s, { t with pc := .popDist q }, [.load "wp" .acq s.wp])
  | .posW1 k => some (s, { t with pc := .posR1 k s.wp }, [.load "wp" .rlx s.wp])
  | .posR1 k w => some (s, { t with pc := .posW2 k w s.rp }, [.load "rp" .rlx s.rp])
  | .posW2 k w r =>
      if w = s.wp then some (s, { t with pc := .posR2 k w r }, [.load "wp" .rlx s.wp])
      else some (s, { t with pc := .posW1 k }, [.load "wp" .rlx s.wp])
  | .posR2 k w r =>
      if r = s.rp then some (s, { t with pc := .idle }, [.load "rp" .rlx s.rp, .ret (posResult s k w r)])
      else some (s, { t with pc := .posW1 k }, [.load "rp" .rlx s.rp])
  | .acqP =>
      if s.hasProducer then some ({ s with hasProducer := false }, { t with pc := .idle, holdsP := true }, [.cas "has_producer" .acq .rlx 1 0 true, .ret "acquire_producer true"])
      else some (s, { t with pc := .idle }, [.cas "has_producer" .acq .rlx 0 0 false, .ret "acquire_producer false"])
  | .relP => some ({ s with hasProducer := true }, { t with pc := .idle, holdsP := false }, [.store "has_producer" .rel 1, .ret "release_producer"])
  | .acqC =>
      if s.hasConsumer then some ({ s with hasConsumer := false }, { t with pc := .idle, holdsC := true }, [.cas "has_consumer" .acq .rlx 1 0 true, .ret "acquire_consumer true"])
      else some (s, { t with pc := .idle }, [.cas "has_consumer" .acq .rlx 0 0 false, .ret "acquire_consumer false"])
  | .relC => some ({ s with hasConsumer := true }, { t with pc := .idle, holdsC := false }, [.store "has_consumer" .rel 1, .ret "release_consumer"])

def step (s : Sh) (t : Th) : Option (Sh × Th × List Ev) :=
  match t.pc with
  | .idle =>
      match nextCmd t.holdsP t.holdsC t.todo with
      | none => none
      | some (c, rest) => stepPC s { t with pc := start c, todo := rest }
  | _ => stepPC s t

def sys : Sys Sh Th := { step := step }

end Iox2.OverflowQueue
