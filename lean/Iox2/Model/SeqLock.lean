/-
L2 model of `iceoryx2-bb/lock-free/src/spmc/unrestricted_atomic.rs` (`UnrestrictedAtomic<T>`, the
blackboard entry): a sequence counter `write_cell` (initially 1) and two data cells of `width`
machine words.  The writer fills the cell `write_cell % 2` *word by word* (plain, non-atomic
stores: each word is its own step, emitting no event — the instrumented implementation cannot be
preempted inside a `memcpy`, the theorems nevertheless quantify over such interleavings) and
publishes with `fetch_add(1, Release)`; a reader copies cell `(write_cell - 1) % 2` word by word
and validates with `compare_exchange(w, w, AcqRel, SeqCst)`, retrying on failure.
Both the copy-style `store` and the loan-style two-step update
(`__internal_get_ptr_to_write_cell` … user writes … `__internal_update_write_cell`) have exactly
these steps.
Ghost: `versions` = every completely stored value, in order (`versions[0]` = initial value).
-/
import Iox2.Base.Sched
namespace Iox2.SeqLock
open Iox2.Sched

structure Sh where
  width : Nat
  wc    : Nat                 -- write_cell
  cell0 : List Nat
  cell1 : List Nat
  hasProducer : Bool
  versions : List (List Nat)  -- ghost
deriving Repr

def Sh.init (width : Nat) (v0 : List Nat) : Sh :=
  { width := width, wc := 1, cell0 := v0, cell1 := List.replicate width 0, hasProducer := true, versions := [v0] }

def Sh.cell (s : Sh) (i : Nat) : List Nat := if i % 2 = 0 then s.cell0 else s.cell1
def Sh.setWord (s : Sh) (i k x : Nat) : Sh :=
  if i % 2 = 0 then { s with cell0 := s.cell0.set k x } else { s with cell1 := s.cell1.set k x }

inductive Cmd where
  | store (v : List Nat)      -- the words to store (`width` of them)
  | load
  | acquireProducer | releaseProducer
deriving Repr, DecidableEq

inductive PC where
  | idle
  | stLdWc (v : List Nat) | stCellGet (v : List Nat) (w : Nat) | stWord (v : List Nat) (w k : Nat) | stFetchAdd (v : List Nat)
  | ldLdWc | ldWord (w k : Nat) (buf : List Nat) | ldCas (w : Nat) (buf : List Nat)
  | acqP | relP
deriving Repr, DecidableEq

structure Th where
  pc   : PC
  todo : List Cmd
  holdsP : Bool := false
  /-- ghost: for every completed `load`, the version index it validated (`write_cell - 1`), its
  value, and the version index that was current when the load began -/
  got  : List (Nat × List Nat × Nat) := []
  begun : Nat := 0
deriving Repr

def Th.init (prog : List Cmd) : Th := { pc := .idle, todo := prog }

def enabled (holdsP : Bool) : Cmd → Bool
  | .store _ => holdsP
  | .releaseProducer => holdsP
  | .acquireProducer => !holdsP
  | .load => true

def nextCmd (holdsP : Bool) : List Cmd → Option (Cmd × List Cmd)
  | [] => none
  | c :: rest => if enabled holdsP c then some (c, rest) else nextCmd holdsP rest

def start : Cmd → PC
  | .store v => .stLdWc v
  | .load => .ldLdWc
  | .acquireProducer => .acqP
  | .releaseProducer => .relP

def showWords (ws : List Nat) : String := String.intercalate "," (ws.map toString)

def stepPC (s : Sh) (t : Th) : Option (Sh × Th × List Ev) :=
  match t.pc with
  | .idle => none
  | .stLdWc v => some (s, { t with pc := .stCellGet v s.wc }, [.load "wc" .rlx s.wc])
  | .stCellGet v w => some (s, { t with pc := .stWord v w 0 }, [.cell s!"data[{w % 2}]"])
  | .stWord v w k =>
      if k < s.width then some (s.setWord w k (v.getD k 0), { t with pc := .stWord v w (k + 1) }, [])
      else none     -- all words written: the next step is the visible fetch_add (see `step`)
  | .stFetchAdd v =>
      some ({ s with wc := s.wc + 1, versions := s.versions ++ [v] }, { t with pc := .idle },
            [.rmw "fadd" "wc" .rel s.wc (s.wc + 1), .ret "store"])
  | .ldLdWc => some (s, { t with pc := .ldWord s.wc 0 [], begun := s.wc - 1 }, [.load "wc" .acq s.wc])
  | .ldWord w k buf =>
      if k < s.width then some (s, { t with pc := .ldWord w (k + 1) (buf ++ [(s.cell (w - 1)).getD k 0]) }, [])
      else none
  | .ldCas w buf =>
      if s.wc = w then
        some (s, { t with pc := .idle, got := t.got ++ [(w - 1, buf, t.begun)] },
              [.cas "wc" .acqrel .sc w w true, .ret s!"load {showWords buf}"])
      else some (s, { t with pc := .ldWord s.wc 0 [] }, [.cas "wc" .acqrel .sc s.wc w false])
  | .acqP =>
      if s.hasProducer then some ({ s with hasProducer := false }, { t with pc := .idle, holdsP := true }, [.cas "has_producer" .acq .rlx 1 0 true, .ret "acquire_producer true"])
      else some (s, { t with pc := .idle }, [.cas "has_producer" .acq .rlx 0 0 false, .ret "acquire_producer false"])
  | .relP => some ({ s with hasProducer := true }, { t with pc := .idle, holdsP := false }, [.store "has_producer" .rel 1, .ret "release_producer"])

/-- the word loops end by falling through to the next visible operation -/
def normalize (s : Sh) (t : Th) : Th :=
  match t.pc with
  | .stWord v _ k => if k < s.width then t else { t with pc := .stFetchAdd v }
  | .ldWord w k buf => if k < s.width then t else { t with pc := .ldCas w buf }
  | _ => t

def step (s : Sh) (t : Th) : Option (Sh × Th × List Ev) :=
  match t.pc with
  | .idle =>
      match nextCmd t.holdsP t.todo with
      | none => none
      | some (c, rest) => stepPC s { t with pc := start c, todo := rest }
  | _ => stepPC s (normalize s t)

def sys : Sys Sh Th := { step := step }

end Iox2.SeqLock
