/-
C06 — L1 (API-call atomic) model of service creation / opening / lifetime.

Transcribes, by reading,
  iceoryx2/src/service/builder/mod.rs            (`BuilderWithServiceType::{create, open, open_or_create,
                                                   is_service_available, open_dynamic_config_storage}`)
  iceoryx2/src/service/builder/{publish_subscribe, event, request_response, blackboard}.rs
                                                  (`adjust_*_to_meaningful_values`, `verify_service_configuration`,
                                                   the pattern specific `is_service_available`, `create_impl`)
  iceoryx2/src/service/mod.rs                     (`ServiceState::drop`, `does_exist`, `list`)
  iceoryx2/src/node/mod.rs                        (`RegisteredServices::{add, add_or, remove}`, `create_service_tag`)
  iceoryx2/src/service/dynamic_config/mod.rs      (`register_node_id`, `deregister_node_id`)
  iceoryx2/src/service/static_config/message_type_details.rs (`is_compatible_to`)
  iceoryx2/src/service/attribute.rs               (`AttributeVerifier::verify_requirements`)

One `Op` = one public API call, executed atomically (Part B, `ServiceLifeConc.lean`, refines create and
open into their externally visible steps).  A service is identified by (name, messaging pattern): the
service hash covers both (static_config/mod.rs:62-130), so equal names with different patterns are
different services and `IncompatibleMessagingPattern` is unreachable through the builders.

The per-pattern part (fields in the order `verify_service_configuration` checks them, defaults, 0→1
adjustment, error names) is data: `Spec`.  Values are naturals: flags 0/1, optional values 0 = none /
v+1 = some v.
-/
namespace Iox2.ServiceLife

inductive Pat where
  | ps | ev | rr | bb
deriving DecidableEq, Repr, Inhabited

structure TypeDetail where
  variant : Nat            -- 0 FixedSize, 1 Dynamic
  name : String
  size : Nat
  align : Nat
deriving DecidableEq, Repr, Inhabited

inductive Kind where
  | ge      -- existing ≥ required          (`existing < required` fails)
  | eq      -- existing = required
deriving DecidableEq, Repr

structure Field where
  key : String
  kind : Kind
  err : String             -- the open error reported when this check fails
  dflt : Nat               -- config default (the harness pins the same values)
  clamp : Bool             -- adjust_*_to_meaningful_values: 0 becomes 1
  cap : Bool               -- capacity of a dynamic-config container (a value of 0 cannot be initialised)
deriving Repr

def fld (key : String) (kind : Kind) (err : String) (dflt : Nat) (clamp : Bool := false) (cap : Bool := false) : Field :=
  { key, kind, err, dflt, clamp, cap }

/-- publish_subscribe.rs:617-698 (order of the checks), :575-612 (adjust), config defaults of the harness -/
def psFields : List Field := [
  fld "mp" .ge "DoesNotSupportRequestedAmountOfPublishers" 2 true true,
  fld "ms" .ge "DoesNotSupportRequestedAmountOfSubscribers" 3 true true,
  fld "b" .ge "DoesNotSupportRequestedMinBufferSize" 2 true,
  fld "h" .ge "DoesNotSupportRequestedMinHistorySize" 0,
  fld "r" .ge "DoesNotSupportRequestedMinSubscriberBorrowedSamples" 2 true,
  fld "o" .eq "IncompatibleOverflowBehavior" 1,
  fld "mn" .ge "DoesNotSupportRequestedAmountOfNodes" 2 true true ]

/-- event.rs:543-640 -/
def evFields : List Field := [
  fld "nt" .ge "DoesNotSupportRequestedAmountOfNotifiers" 2 true true,
  fld "ls" .ge "DoesNotSupportRequestedAmountOfListeners" 2 true true,
  fld "eid" .ge "DoesNotSupportRequestedMaxEventId" 255,
  fld "mn" .ge "DoesNotSupportRequestedAmountOfNodes" 2 true true,
  fld "ce" .eq "IncompatibleNotifierCreatedEvent" 0,
  fld "de" .eq "IncompatibleNotifierDroppedEvent" 0,
  fld "xe" .eq "IncompatibleNotifierDeadEvent" 0,
  fld "dl" .eq "IncompatibleDeadline" 0 ]

/-- request_response.rs:696-809 -/
def rrFields : List Field := [
  fld "so" .eq "IncompatibleOverflowBehaviorForRequests" 1,
  fld "sr" .eq "IncompatibleOverflowBehaviorForResponses" 1,
  fld "ff" .eq "IncompatibleBehaviorForFireAndForgetRequests" 1,
  fld "ar" .ge "DoesNotSupportRequestedAmountOfActiveRequestsPerClient" 4 true,
  fld "lr" .ge "DoesNotSupportRequestedAmountOfClientRequestLoans" 2 true,
  fld "br" .ge "DoesNotSupportRequestedAmountOfBorrowedResponsesPerPendingResponse" 2 true,
  fld "rb" .ge "DoesNotSupportRequestedResponseBufferSize" 2 true,
  fld "sv" .ge "DoesNotSupportRequestedAmountOfServers" 2 true true,
  fld "cl" .ge "DoesNotSupportRequestedAmountOfClients" 2 true true,
  fld "mn" .ge "DoesNotSupportRequestedAmountOfNodes" 2 true true ]

/-- blackboard.rs:662-703 -/
def bbFields : List Field := [
  fld "rd" .ge "DoesNotSupportRequestedAmountOfReaders" 2 true true,
  fld "mn" .ge "DoesNotSupportRequestedAmountOfNodes" 2 true true ]

def fieldsOf : Pat → List Field
  | .ps => psFields | .ev => evFields | .rr => rrFields | .bb => bbFields

/-- error of an incompatible payload / key type (`From<ServiceState>` of the four open errors) -/
def typeErr : Pat → String
  | .ps => "IncompatibleTypes" | .ev => "IncompatibleMessagingPattern"
  | .rr => "IncompatibleRequestOrResponseType" | .bb => "IncompatibleKeys"

/-- position of `max_nodes` among the fields -/
def mnIdx : Pat → Nat
  | .ps => 6 | .ev => 3 | .rr => 9 | .bb => 1

/-- positions of the two port limits (blackboard: readers; writers are limited to 1) -/
def portIdx : Pat → Nat → Option Nat
  | .ps, 0 => some 0 | .ps, 1 => some 1
  | .ev, 0 => some 0 | .ev, 1 => some 1
  | .rr, 0 => some 8 | .rr, 1 => some 7
  | .bb, 0 => some 0
  | _, _ => none

def patIdx : Pat → Nat
  | .ps => 0 | .ev => 1 | .rr => 2 | .bb => 3

/-- port kinds are numbered pub 0, sub 1, notifier 2, listener 3, client 4, server 5, reader 6, writer 7;
a factory only builds the two kinds of its own pattern -/
def kindOf (p : Pat) (code : Nat) : Option Nat :=
  if code / 2 == patIdx p then some (code % 2) else none

def portErr : Pat → Nat → String
  | .ps, 0 => "ExceedsMaxSupportedPublishers" | .ps, _ => "ExceedsMaxSupportedSubscribers"
  | .ev, 0 => "ExceedsMaxSupportedNotifiers" | .ev, _ => "ExceedsMaxSupportedListeners"
  | .rr, 0 => "ExceedsMaxSupportedClients" | .rr, _ => "ExceedsMaxSupportedServers"
  | .bb, 0 => "ExceedsMaxSupportedReaders" | .bb, _ => "ExceedsMaxSupportedWriters"

structure Settings where
  vals : List Nat
  types : List TypeDetail
  attrs : List (Nat × Nat)
deriving DecidableEq, Repr, Inhabited

/-- what a builder carries when `create` / `open` / `open_or_create` is called -/
structure Req where
  vals : List (Option Nat)          -- per field: the value, if the setter was called (`verify.* = true`)
  types : List TypeDetail           -- ps: payload, user header; rr: request, response payload; bb: key
  attrs : List (Nat × Nat)          -- defined (create) / required (open) key-value pairs
  keys : List Nat                   -- required keys (open only)
  entries : Nat                     -- blackboard creator: number of `add` calls
  lateFail : Bool                   -- the creation of the service resource will be refused (blackboard: the same key added twice;
                                    -- publish-subscribe / request-response: flatbuffer payload without a schema file)
deriving Repr, Inhabited

structure Key where
  s : Nat
  p : Pat
deriving DecidableEq, Repr, Inhabited

/-- static config (settings) + dynamic config (registered node ids) of one incarnation -/
structure Svc where
  key : Key
  uid : Nat
  cfg : Settings
  regs : List Nat
  creq : Req                        -- ghost: the request of the call that created this incarnation
deriving Repr, Inhabited

/-- one `ServiceState` (shared by a port factory and the ports created from it) -/
structure SState where
  node : Nat
  key : Key
  uid : Nat
  cfg : Settings
  factory : Option Nat              -- label of the port factory while it is alive
  ports : List (Nat × Nat)          -- (label, kind)
deriving Repr, Inhabited

structure World where
  nodes : List (Nat × Bool)         -- label, node handle still held by the user
  svcs : List Svc
  refs : List (Nat × Key × Nat)     -- `registered_services` of every node: (node, service, count ≥ 1); one service tag per entry
  states : List SState
  nextUid : Nat
deriving Repr, Inhabited

def World.init : World := { nodes := [], svcs := [], refs := [], states := [], nextUid := 0 }

inductive Out where
  | ok
  | okCfg (p : Pat) (c : Settings)
  | err (wrap : Nat) (e : String)   -- wrap: 0 plain, 1 `…OpenOrCreateError::…OpenError(e)`, 2 `…CreateError(e)`
  | dup | none | noNode | noOoc | badKind | panic
  | bool (b : Bool)
  | regs (l : List Nat)
  | cfg (p : Pat) (c : Settings)
  | list (l : List (Key × Nat × Settings))
  | files (svc tags bb : Nat)
deriving Repr, Inhabited

inductive Op where
  | node (n : Nat) | dnode (n : Nat)
  | create (n s h : Nat) (p : Pat) (r : Req)
  | open_ (n s h : Nat) (p : Pat) (r : Req)
  | ooc (n s h : Nat) (p : Pat) (r : Req)
  | drop (h : Nat)
  | port (h pl code : Nat) | dport (pl : Nat)
  | settings (h : Nat) | regs (h : Nat)
  | exists_ (s : Nat) (p : Pat)
  | list | ls | end_
deriving Repr, Inhabited

/-! ## settings of a creator, checks of an opener -/

/-- `adjust_*_to_meaningful_values`; every builder adjusts (the slice-typed publish-subscribe builders since
fix 0c61d51) -/
def clampV (f : Field) (v : Nat) : Nat :=
  if f.clamp && v == 0 then 1 else v

/-- the static config a creator writes: stated value or default, adjusted -/
def mkVals : List Field → List (Option Nat) → List Nat
  | [], _ => []
  | f :: fs, [] => clampV f f.dflt :: mkVals fs []
  | f :: fs, r :: rs => clampV f (r.getD f.dflt) :: mkVals fs rs

/-- `open_or_create` adjusts the builder before the open attempt: stated requirements of 0 become 1 -/
def clampReq : List Field → List (Option Nat) → List (Option Nat)
  | f :: fs, r :: rs => r.map (clampV f) :: clampReq fs rs
  | _, _ => []

def insertAttr (a : Nat × Nat) : List (Nat × Nat) → List (Nat × Nat)
  | [] => [a]
  | b :: bs => if a.1 < b.1 ∨ (a.1 = b.1 ∧ a.2 ≤ b.2) then a :: b :: bs else b :: insertAttr a bs

/-- `AttributeSet::add` keeps the set sorted -/
def sortAttrs (l : List (Nat × Nat)) : List (Nat × Nat) := l.foldl (fun acc a => insertAttr a acc) []

def mkSettings (p : Pat) (r : Req) : Settings :=
  { vals := mkVals (fieldsOf p) r.vals, types := r.types, attrs := sortAttrs r.attrs }

def checkFails (f : Field) (existing required : Nat) : Bool :=
  match f.kind with
  | .ge => existing < required
  | .eq => existing != required

/-- `verify_service_configuration` after the attributes: the first stated requirement (in code order)
that the existing settings do not satisfy -/
def firstFail : List Field → List Nat → List (Option Nat) → Option String
  | f :: fs, e :: es, r :: rs =>
    match r with
    | some v => if checkFails f e v then some f.err else firstFail fs es rs
    | none => firstFail fs es rs
  | _, _, _ => none

/-- `MessageTypeDetails::is_compatible_to` (payload and user header each); blackboard keys: equality -/
def typeOk (p : Pat) (req ex : TypeDetail) : Bool :=
  if p = .bb then req == ex
  else req.name == ex.name && req.variant == ex.variant && req.size == ex.size && req.align ≤ ex.align

def typesOk (p : Pat) : List TypeDetail → List TypeDetail → Bool
  | [], [] => true
  | r :: rs, e :: es => typeOk p r e && typesOk p rs es
  | _, _ => false

/-- `AttributeVerifier::verify_requirements` -/
def attrsOk (r : Req) (ex : List (Nat × Nat)) : Bool :=
  r.attrs.all (fun a => ex.contains a) && r.keys.all (fun k => ex.any (fun a => a.1 == k))

/-- everything `open` checks against the static config, in code order: types (is_service_available),
attributes, the stated settings -/
def verify (p : Pat) (r : Req) (ex : Settings) : Option String :=
  if !typesOk p r.types ex.types then some (typeErr p)
  else if !attrsOk r ex.attrs then some "IncompatibleAttributes"
  else firstFail (fieldsOf p) ex.vals r.vals

/-- checks a creator fails before it looks whether the service exists
(publish_subscribe.rs:706-714, blackboard.rs:478-482) -/
def preCheck (p : Pat) (r : Req) (vals : List Nat) : Option String :=
  match p with
  | .ps => if vals.getD 5 1 == 0 && vals.getD 2 0 < vals.getD 3 0 then some "SubscriberBufferMustBeLargerThanHistorySize" else none
  | .bb => if r.entries == 0 then some "NoEntriesProvided" else none
  | _ => none

/-- `create_service_resource` (builder/mod.rs:720) fails: this happens AFTER the service tag and the static config
were created and unlocked; the error of the resource (resource/blackboard.rs:391-434 `ServiceInCorruptedState`,
resource/type_definition.rs:39-58 `UnableToAcquireTypeDefinition`) is returned and everything is rolled back.
Event services have no resource. -/
def lateErr : Pat → String
  | .bb => "ServiceInCorruptedState"
  | _ => "UnableToAcquireTypeDefinition"

def lateFails (p : Pat) (r : Req) : Bool := r.lateFail && p != .ev

/-- a container of the dynamic config with capacity 0: `init` fails, the builder panics ("This should never
happen"); unreachable since every builder adjusts 0 to 1 (`Iox2.C06.create_never_panics`) -/
def zeroCap : List Field → List Nat → Bool
  | f :: fs, v :: vs => (f.cap && v == 0) || zeroCap fs vs
  | _, _ => false

/-! ## lookups -/

def findSvc (w : World) (k : Key) : Option Svc := w.svcs.find? (fun s => s.key == k)

def refCount (w : World) (n : Nat) (k : Key) : Nat :=
  match w.refs.find? (fun r => r.1 == n && r.2.1 == k) with
  | some r => r.2.2
  | none => 0

def hasNode (w : World) (n : Nat) : Bool := w.nodes.any (fun x => x.1 == n && x.2)

def labelUsed (w : World) (h : Nat) : Bool := w.states.any (fun st => st.factory == some h)

def portUsed (w : World) (pl : Nat) : Bool := w.states.any (fun st => st.ports.any (fun q => q.1 == pl))

def maxNodes (p : Pat) (c : Settings) : Nat := c.vals.getD (mnIdx p) 0

def portCount (w : World) (k : Key) (kind : Nat) : Nat :=
  ((w.states.filter (fun st => st.key == k)).map (fun st => (st.ports.filter (fun q => q.2 == kind)).length)).sum

def portLimit (p : Pat) (c : Settings) (kind : Nat) : Nat :=
  match portIdx p kind with
  | some i => c.vals.getD i 0
  | none => 1

/-! ## create / open -/

/-- `RegisteredServices::add_or` + `register_node_id`: only the first ServiceState of a node registers
the node id in the dynamic config (and creates the service tag) -/
def addRef (w : World) (n : Nat) (k : Key) : World :=
  if refCount w n k == 0 then
    { w with refs := (n, k, 1) :: w.refs,
             svcs := w.svcs.map (fun s => if s.key == k then { s with regs := n :: s.regs } else s) }
  else
    { w with refs := w.refs.map (fun r => if r.1 == n && r.2.1 == k then (r.1, r.2.1, r.2.2 + 1) else r) }

def addState (w : World) (n h : Nat) (svc : Svc) : World :=
  { w with states := { node := n, key := svc.key, uid := svc.uid, cfg := svc.cfg, factory := some h, ports := [] } :: w.states }

/-- `BuilderWithServiceType::create` behind the pattern specific front end -/
def createCore (w : World) (n h : Nat) (k : Key) (r : Req) : World × Out :=
  let cfg := mkSettings k.p r
  match preCheck k.p r cfg.vals with
  | some e => (w, .err 0 e)
  | none =>
    match findSvc w k with
    | some _ => (w, .err 0 "AlreadyExists")
    | none =>
      if lateFails k.p r then (w, .err 0 (lateErr k.p)) else
      if zeroCap (fieldsOf k.p) cfg.vals then (w, .panic) else
      let svc : Svc := { key := k, uid := w.nextUid, cfg := cfg, regs := [n], creq := r }
      let w1 := { w with svcs := svc :: w.svcs, refs := (n, k, 1) :: w.refs, nextUid := w.nextUid + 1 }
      (addState w1 n h svc, .okCfg k.p cfg)

/-- `BuilderWithServiceType::open` -/
def openCore (w : World) (n h : Nat) (k : Key) (r : Req) : World × Out :=
  match findSvc w k with
  | none => (w, .err 0 "DoesNotExist")
  | some svc =>
    match verify k.p r svc.cfg with
    | some e => (w, .err 0 e)
    | none =>
      if refCount w n k == 0 && maxNodes k.p svc.cfg ≤ svc.regs.length then (w, .err 0 "ExceedsMaxNumberOfNodes")
      else (addState (addRef w n k) n h svc, .okCfg k.p svc.cfg)

def wrapErr (wrap : Nat) : World × Out → World × Out
  | (w, .err _ e) => (w, .err wrap e)
  | x => x

/-- `BuilderWithServiceType::open_or_create`, sequential part: open; `DoesNotExist` → create with the
required attributes; every other open error is final -/
def oocCore (w : World) (n h : Nat) (k : Key) (r : Req) : World × Out :=
  let r' := { r with vals := clampReq (fieldsOf k.p) r.vals }
  match openCore w n h k r' with
  | (w', .err _ e) => if e == "DoesNotExist" then wrapErr 2 (createCore w n h k { r' with keys := [] }) else (w', .err 1 e)
  | x => x

/-! ## drop -/

/-- `ServiceState::drop`: the node-local count goes down; at 0 the service tag is removed and the node id
deregistered; the last node id removes the service (`NoMoreOwners`) -/
def release (w : World) (st : SState) : World :=
  if refCount w st.node st.key ≤ 1 then
    let refs := w.refs.filter (fun r => !(r.1 == st.node && r.2.1 == st.key))
    match findSvc w st.key with
    | none => { w with refs := refs }
    | some svc =>
      let regs := svc.regs.erase st.node
      if regs.isEmpty then { w with refs := refs, svcs := w.svcs.filter (fun s => !(s.key == st.key)) }
      else { w with refs := refs, svcs := w.svcs.map (fun s => if s.key == st.key then { s with regs := regs } else s) }
  else
    { w with refs := w.refs.map (fun r => if r.1 == st.node && r.2.1 == st.key then (r.1, r.2.1, r.2.2 - 1) else r) }

/-- replace the state that satisfies `sel` by `f` of it; a state without factory and ports is dropped -/
def updState (w : World) (sel : SState → Bool) (f : SState → SState) : World :=
  match w.states.find? sel with
  | none => w
  | some st =>
    let st' := f st
    if st'.factory.isNone && st'.ports.isEmpty then
      release { w with states := w.states.filter (fun x => !sel x) } st'
    else
      { w with states := w.states.map (fun x => if sel x then st' else x) }

def dropAll : Nat → World → World
  | 0, w => w
  | fuel + 1, w =>
    match w.states with
    | [] => w
    | st :: rest => dropAll fuel (release { w with states := rest } st)

def filesOf (w : World) : Out :=
  .files w.svcs.length w.refs.length (w.svcs.filter (fun s => s.key.p == .bb)).length

/-! ## one API call -/

def step (w : World) : Op → World × Out
  | .node n =>
    if w.nodes.any (fun x => x.1 == n) then (w, .dup) else ({ w with nodes := (n, true) :: w.nodes }, .ok)
  | .dnode n =>
    if hasNode w n then ({ w with nodes := w.nodes.map (fun x => if x.1 == n then (x.1, false) else x) }, .ok) else (w, .none)
  | .create n s h p r =>
    if labelUsed w h then (w, .dup) else if !hasNode w n then (w, .noNode) else createCore w n h ⟨s, p⟩ r
  | .open_ n s h p r =>
    if labelUsed w h then (w, .dup) else if !hasNode w n then (w, .noNode) else openCore w n h ⟨s, p⟩ r
  | .ooc n s h p r =>
    if labelUsed w h then (w, .dup) else if !hasNode w n then (w, .noNode) else
    if p = .bb then (w, .noOoc) else oocCore w n h ⟨s, p⟩ r
  | .drop h =>
    if labelUsed w h then (updState w (fun st => st.factory == some h) (fun st => { st with factory := none }), .ok) else (w, .none)
  | .port h pl code =>
    if portUsed w pl then (w, .dup) else
    match w.states.find? (fun st => st.factory == some h) with
    | none => (w, .none)
    | some st =>
      match kindOf st.key.p code with
      | none => (w, .badKind)
      | some kind =>
      if portLimit st.key.p st.cfg kind ≤ portCount w st.key kind then (w, .err 0 (portErr st.key.p kind))
      else (updState w (fun x => x.factory == some h) (fun x => { x with ports := (pl, kind) :: x.ports }), .ok)
  | .dport pl =>
    if portUsed w pl then
      (updState w (fun st => st.ports.any (fun q => q.1 == pl)) (fun st => { st with ports := st.ports.filter (fun q => !(q.1 == pl)) }), .ok)
    else (w, .none)
  | .settings h =>
    match w.states.find? (fun st => st.factory == some h) with
    | some st => (w, .cfg st.key.p st.cfg)
    | none => (w, .none)
  | .regs h =>
    match w.states.find? (fun st => st.factory == some h) with
    | some st => (w, match findSvc w st.key with | some svc => .regs svc.regs | none => .regs [])
    | none => (w, .none)
  | .exists_ s p => (w, .bool (findSvc w ⟨s, p⟩).isSome)
  | .list => (w, .list (w.svcs.map (fun s => (s.key, s.regs.length, s.cfg))))
  | .ls => (w, filesOf w)
  | .end_ =>
    let w' := dropAll w.states.length w
    ({ w' with nodes := w'.nodes.map (fun x => (x.1, false)) }, filesOf w')

def run (w : World) : List Op → World × List Out
  | [] => (w, [])
  | o :: os =>
    let (w1, out) := step w o
    let (w2, outs) := run w1 os
    (w2, out :: outs)

/-! ## executable form of the invariant (driver line `inv`; the proofs use the `Prop` version in
`Iox2/Proof/ServiceLifeInv.lean`) -/

def stateCount (w : World) (n : Nat) (k : Key) : Nat :=
  (w.states.filter (fun st => st.node == n && st.key == k)).length

def nodupB {α : Type} [BEq α] : List α → Bool
  | [] => true
  | x :: xs => !xs.contains x && nodupB xs

def invB (w : World) : Bool :=
  nodupB (w.svcs.map (·.key)) &&
  w.states.all (fun st => w.svcs.any (fun svc => svc.key == st.key && svc.regs.contains st.node && svc.uid == st.uid && svc.cfg == st.cfg)) &&
  w.svcs.all (fun svc => !svc.regs.isEmpty && nodupB svc.regs &&
    svc.regs.all (fun n => w.states.any (fun st => st.node == n && st.key == svc.key)) &&
    svc.cfg == mkSettings svc.key.p svc.creq && svc.uid < w.nextUid) &&
  nodupB (w.refs.map (fun r => (r.1, r.2.1))) &&
  w.refs.all (fun r => r.2.2 == stateCount w r.1 r.2.1 && r.2.2 ≥ 1) &&
  w.states.all (fun st => refCount w st.node st.key ≥ 1) &&
  nodupB (w.states.filterMap (·.factory)) &&
  nodupB (w.states.flatMap (fun st => st.ports.map (·.1))) &&
  w.states.all (fun st => st.factory.isSome || !st.ports.isEmpty)

/-- every world a history of API calls can lead to -/
inductive Reachable : World → Prop where
  | init : Reachable World.init
  | step {w : World} (o : Op) : Reachable w → Reachable (step w o).1

end Iox2.ServiceLife
