/- stub: model `ServiceLife` (to be written) -/
namespace Iox2.ServiceLife
end Iox2.ServiceLife
