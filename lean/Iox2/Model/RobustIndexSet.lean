/-
L2 model of `iceoryx2-bb/lock-free/src/mpmc/robust_unique_index_set.rs`
(`RobustUniqueIndexSet`): `cells[n]` hold the owner id (`EMPTY = u64::MAX` when free), the
`generation_counter` is incremented after every cell change and is `u64::MAX` when the set is
locked.  One `PC` constructor per atomic operation of `acquire`, `release`, `lock`,
`borrowed_indices_and_generation_counter`, `increment_generation_counter`, `recover`.

The operations are written as a *sub-machine* (`stepOp`) that ends in a `Res`ult, so that the
port-registry container (C10) can run them as part of its own operations.
-/
import Iox2.Base.Sched
namespace Iox2.RUIS
open Iox2.Sched

def EMPTY : Nat := 2^64 - 1
def LOCKG : Nat := 2^64 - 1

structure RSh where
  cap   : Nat
  cells : List Nat
  gen   : Nat
  /-- ghost: owner ids whose process has died (they take no further steps) -/
  deadOwners : List Nat := []
deriving Repr

def RSh.init (cap : Nat) : RSh := { cap := cap, cells := List.replicate cap EMPTY, gen := 0 }

inductive Mode where
  | default | lockIfLast
deriving Repr, DecidableEq

/-- continuation of `lock()` -/
inductive KL where
  | release
  | recover (n : Nat) (m : Mode) (dead : Nat)
deriving Repr, DecidableEq

/-- continuation of `borrowed_indices_and_generation_counter()` -/
inductive KB where
  | lock (kl : KL)
  | borrowed
deriving Repr, DecidableEq

/-- continuation of `increment_generation_counter()` -/
inductive K where
  | acq (n : Nat)
  | rel (idx : Nat) (m : Mode)
  | bg (g0 count : Nat) (kb : KB)
  | recov (n : Nat) (m : Mode) (dead : Nat)
deriving Repr, DecidableEq

inductive PC where
  | acDist (owner : Nat) | acLdGen (owner : Nat) | acCell (owner g n : Nat) | acValidate (owner g : Nat)
  | incLd (k : K) | incCas (k : K) (g : Nat)
  | rlDist (idx owner : Nat) (m : Mode) | rlCas (idx owner : Nat) (m : Mode)
  | lkIsLocked (kl : KL) | lkCas (kl : KL) (g : Nat)
  | bgDist (kb : KB) | bgLdGen (kb : KB) | bgCell (kb : KB) (g0 n count : Nat)
  | rcIsLocked (m : Mode) (dead : Nat) | rcDist (m : Mode) (dead : Nat) | rcLoad (m : Mode) (dead n : Nat)
  | rcCas (m : Mode) (dead n o : Nat) | rcFinal (dead : Nat)
deriving Repr, DecidableEq

inductive Res where
  | acquired (n : Nat) | errLocked | errOut
  | released (locked : Bool) | errNotOwned
  | borrowed (n : Nat)
  | recovered (locked : Bool)
deriving Repr, DecidableEq

/-- what a step of the sub-machine leaves behind: the next pc, or the result of the operation;
`rec` lists the `(owner, index)` pairs handed to `recover_success` by this step -/
structure Out where
  sh   : RSh
  next : PC ⊕ Res
  evs  : List Ev
  recovered : List (Nat × Nat) := []

def cellVar (n : Nat) : String := s!"cell[{n}]"

/-- `lock()` finished with `locked` -/
def finishLock (s : RSh) (kl : KL) (locked : Bool) (evs : List Ev) : Out :=
  match kl with
  | .release => { sh := s, next := .inr (.released locked), evs := evs }
  | .recover n m dead => { sh := s, next := .inl (if n + 1 < s.cap then .rcLoad m dead (n + 1) else .rcFinal dead), evs := evs }

/-- `borrowed_indices_and_generation_counter()` returned `(g, count)` -/
def finishBg (s : RSh) (kb : KB) (g count : Nat) (evs : List Ev) : Out :=
  match kb with
  | .borrowed => { sh := s, next := .inr (.borrowed count), evs := evs }
  | .lock kl =>
      if count = 0 then { sh := s, next := .inl (.lkCas kl g), evs := evs }
      else finishLock s kl false evs

/-- after the last cell of a scan: `increment_generation_counter` -/
def bgAfterScan (kb : KB) (g0 count : Nat) : PC := .incLd (.bg g0 count kb)

/-- `increment_generation_counter()` returned `v` -/
def finishInc (s : RSh) (k : K) (v : Nat) (evs : List Ev) : Out :=
  match k with
  | .acq n => { sh := s, next := .inr (if v = LOCKG then .errLocked else .acquired n), evs := evs }
  | .rel _ m =>
      if m = .lockIfLast then { sh := s, next := .inl (.lkIsLocked .release), evs := evs }
      else { sh := s, next := .inr (.released false), evs := evs }
  | .bg g0 count kb =>
      if g0 + 1 = v then finishBg s kb v count evs
      else { sh := s, next := .inl (.bgLdGen kb), evs := evs }
  | .recov n m dead =>
      if v = LOCKG then { sh := s, next := .inr (.recovered true), evs := evs }
      else if m = .lockIfLast then { sh := s, next := .inl (.lkIsLocked (.recover n m dead)), evs := evs }
      else { sh := s, next := .inl (if n + 1 < s.cap then .rcLoad m dead (n + 1) else .rcFinal dead), evs := evs }

def stepOp (s : RSh) : PC → Out
  -- acquire
  | .acDist owner => { sh := s, next := .inl (.acLdGen owner), evs := [.load "rdist" .rlx 0] }
  | .acLdGen owner =>
      if s.gen = LOCKG then { sh := s, next := .inr .errLocked, evs := [.load "gen" .acq s.gen] }
      else { sh := s, next := .inl (if 0 < s.cap then .acCell owner s.gen 0 else .acValidate owner s.gen), evs := [.load "gen" .acq s.gen] }
  | .acCell owner g n =>
      let cur := s.cells.getD n EMPTY
      if cur = EMPTY then
        { sh := { s with cells := s.cells.set n owner }, next := .inl (.incLd (.acq n)), evs := [.cas (cellVar n) .rlx .rlx EMPTY owner true] }
      else { sh := s, next := .inl (if n + 1 < s.cap then .acCell owner g (n + 1) else .acValidate owner g),
             evs := [.cas (cellVar n) .rlx .rlx cur owner false] }
  | .acValidate owner g =>
      if s.gen = g then { sh := s, next := .inr .errOut, evs := [.cas "gen" .acqrel .sc g g true] }
      else if s.gen = LOCKG then { sh := s, next := .inr .errLocked, evs := [.cas "gen" .acqrel .sc s.gen g false] }
      else { sh := s, next := .inl (if 0 < s.cap then .acCell owner s.gen 0 else .acValidate owner s.gen), evs := [.cas "gen" .acqrel .sc s.gen g false] }
  -- increment_generation_counter
  | .incLd k =>
      if s.gen = LOCKG then finishInc s k LOCKG [.load "gen" .rlx s.gen]
      else { sh := s, next := .inl (.incCas k s.gen), evs := [.load "gen" .rlx s.gen] }
  | .incCas k g =>
      if s.gen = g then finishInc { s with gen := g + 1 } k (g + 1) [.cas "gen" .rel .rlx g (g + 1) true]
      else if s.gen = LOCKG then finishInc s k LOCKG [.cas "gen" .rel .rlx s.gen (g + 1) false]
      else { sh := s, next := .inl (.incCas k s.gen), evs := [.cas "gen" .rel .rlx s.gen (g + 1) false] }
  -- release
  | .rlDist idx owner m => { sh := s, next := .inl (.rlCas idx owner m), evs := [.load "rdist" .rlx 0] }
  | .rlCas idx owner m =>
      let cur := s.cells.getD idx EMPTY
      if cur = owner then
        { sh := { s with cells := s.cells.set idx EMPTY }, next := .inl (.incLd (.rel idx m)), evs := [.cas (cellVar idx) .rlx .rlx owner EMPTY true] }
      else { sh := s, next := .inr .errNotOwned, evs := [.cas (cellVar idx) .rlx .rlx cur EMPTY false] }
  -- lock
  | .lkIsLocked kl =>
      if s.gen = LOCKG then finishLock s kl true [.load "gen" .rlx s.gen]
      else { sh := s, next := .inl (.bgDist (.lock kl)), evs := [.load "gen" .rlx s.gen] }
  | .lkCas kl g =>
      if s.gen = g then finishLock { s with gen := LOCKG } kl true [.cas "gen" .rlx .rlx g LOCKG true]
      else { sh := s, next := .inl (.bgDist (.lock kl)), evs := [.cas "gen" .rlx .rlx s.gen LOCKG false] }
  -- borrowed_indices_and_generation_counter
  | .bgDist kb => { sh := s, next := .inl (.bgLdGen kb), evs := [.load "rdist" .rlx 0] }
  | .bgLdGen kb =>
      if s.gen = LOCKG then finishBg s kb LOCKG 0 [.load "gen" .acq s.gen]
      else { sh := s, next := .inl (if 0 < s.cap then .bgCell kb s.gen 0 0 else bgAfterScan kb s.gen 0), evs := [.load "gen" .acq s.gen] }
  | .bgCell kb g0 n count =>
      let cur := s.cells.getD n EMPTY
      let count' := if cur = EMPTY then count else count + 1
      { sh := s, next := .inl (if n + 1 < s.cap then .bgCell kb g0 (n + 1) count' else bgAfterScan kb g0 count'),
        evs := [.load (cellVar n) .rlx cur] }
  -- recover
  | .rcIsLocked m dead =>
      if s.gen = LOCKG then { sh := s, next := .inr (.recovered true), evs := [.load "gen" .rlx s.gen] }
      else { sh := s, next := .inl (.rcDist m dead), evs := [.load "gen" .rlx s.gen] }
  | .rcDist m dead => { sh := s, next := .inl (if 0 < s.cap then .rcLoad m dead 0 else .rcFinal dead), evs := [.load "rdist" .rlx 0] }
  | .rcLoad m dead n =>
      let cur := s.cells.getD n EMPTY
      if cur ≠ EMPTY ∧ cur = dead then { sh := s, next := .inl (.rcCas m dead n cur), evs := [.load (cellVar n) .rlx cur] }
      else { sh := s, next := .inl (if n + 1 < s.cap then .rcLoad m dead (n + 1) else .rcFinal dead), evs := [.load (cellVar n) .rlx cur] }
  | .rcCas m dead n o =>
      let cur := s.cells.getD n EMPTY
      if cur = o then
        { sh := { s with cells := s.cells.set n EMPTY }, next := .inl (.incLd (.recov n m dead)),
          evs := [.cas (cellVar n) .rlx .rlx o EMPTY true], recovered := [(o, n)] }
      else { sh := s, next := .inl (if n + 1 < s.cap then .rcLoad m dead (n + 1) else .rcFinal dead), evs := [.cas (cellVar n) .rlx .rlx cur EMPTY false] }
  | .rcFinal _ => { sh := s, next := .inr (.recovered (s.gen = LOCKG)), evs := [.load "gen" .rlx s.gen] }

/-! ### stand-alone system: threads issuing index-set operations -/
inductive Cmd where
  | acquire
  | release (pos : Nat) (m : Mode)      -- release the `pos`-th index this thread holds
  | borrowed
  | recover (dead : Nat) (m : Mode)     -- recover the indices of the owner id `dead`
  | die                                  -- the thread stops for ever, keeping what it holds
deriving Repr, DecidableEq

structure Th where
  owner : Nat
  pc    : Option PC := none
  /-- a `recover` waits at its gate: whether the owner is dead is decided in a step of its own -/
  gate  : Option (Nat × Mode) := none
  todo  : List Cmd
  held  : List Nat := []
  dead  : Bool := false
  /-- ghost: what `recover_success` reported to this thread -/
  recoveredLog : List (Nat × Nat) := []
deriving Repr

def Th.init (owner : Nat) (prog : List Cmd) : Th := { owner := owner, todo := prog }

def enabled (_s : RSh) (t : Th) : Cmd → Bool
  | .release pos _ => pos < t.held.length
  | _ => true

def nextCmd (s : RSh) (t : Th) : List Cmd → Option (Cmd × List Cmd)
  | [] => none
  | c :: rest => if enabled s t c then some (c, rest) else nextCmd s t rest

/-- a thread whose next command is `die` dies at once (no step of its own is needed for that) -/
def settle (s : RSh) (t : Th) : RSh × Th :=
  match nextCmd s t t.todo with
  | some (.die, _) => ({ s with deadOwners := t.owner :: s.deadOwners }, { t with dead := true, todo := [] })
  | _ => (s, t)

def showRes : Res → String
  | .acquired n => s!"acquire ok:{n}"
  | .errLocked => "acquire err:IsLocked"
  | .errOut => "acquire err:OutOfIndices"
  | .released l => s!"release {if l then "locked" else "unlocked"}"
  | .errNotOwned => "release err:NotOwned"
  | .borrowed n => s!"borrowed {n}"
  | .recovered l => s!"recover {if l then "locked" else "unlocked"}"

def start (t : Th) : Cmd → Th
  | .acquire => { t with pc := some (.acDist t.owner) }
  | .release pos m => { t with pc := some (.rlDist (t.held.getD pos 0) t.owner m), held := t.held.eraseIdx pos }
  | .borrowed => { t with pc := some (.bgDist .borrowed) }
  | .recover dead m => { t with gate := some (dead, m) }
  | .die => { t with dead := true, todo := [] }

def runPC (s : RSh) (t : Th) (pc : PC) : RSh × Th × List Ev :=
  let o := stepOp s pc
  let t := { t with recoveredLog := t.recoveredLog ++ o.recovered }
  match o.next with
  | .inl pc' => (o.sh, { t with pc := some pc' }, o.evs)
  | .inr r =>
      let t := { t with pc := none }
      let t := match r with | .acquired n => { t with held := t.held ++ [n] } | _ => t
      let (sh', t) := settle o.sh t
      (sh', t, o.evs ++ [.ret (showRes r)])

def step_gate (s : RSh) (t : Th) : Option (RSh × Th × List Ev) :=
  match t.gate with
  | some (dead, m) =>
      if dead ∈ s.deadOwners then some (s, { t with gate := none, pc := some (.rcIsLocked m dead) }, [.cell "gate"])
      else
        let (s', t') := settle s { t with gate := none }
        some (s', t', [.cell "gate", .ret "recover skipped"])
  | none => none

def step (s : RSh) (t : Th) : Option (RSh × Th × List Ev) :=
  if t.dead then none else
  match t.pc with
  | some pc => some (runPC s t pc)
  | none =>
    match t.gate with
    | some _ => step_gate s t      -- recovery is only performed on behalf of an owner whose process is dead
    | none =>
      match nextCmd s t t.todo with
      | none => none
      | some (.die, _) => none
      | some (c, rest) =>
          let t' := start { t with todo := rest } c
          match t'.pc with
          | some pc => some (runPC s t' pc)
          | none =>
            match t'.gate with
            | some _ => step_gate s t'
            | none => none

def sys : Sys RSh Th := { step := step }

end Iox2.RUIS
