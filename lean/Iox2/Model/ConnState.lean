/-
L2 model of the zero-copy connection lifecycle (C13):
`iceoryx2-cal/src/zero_copy_connection/common.rs` — `create_or_open_shm`, `reserve_port`,
`remove_state`, `cleanup_shared_memory`, `Drop for Sender/Receiver`, `remove_port` — on top of a
dynamic storage with ownership semantics (`dynamic_storage/process_local.rs`: `open_or_create`,
`open`, `has_ownership`, `acquire_ownership`, `release_ownership`, `Drop`).

Storage operations that run under the storage's global mutex are single steps (`crit`); every
atomic access to the connection's state byte and to a storage handle's ownership flag is a step.
-/
import Iox2.Base.Sched
namespace Iox2.ConnState
open Iox2.Sched

def SENDER : Nat := 1
def RECEIVER : Nat := 2
def MARK : Nat := 128

inductive Role where
  | sender | receiver
deriving Repr, DecidableEq

def Role.bit : Role → Nat
  | .sender => SENDER
  | .receiver => RECEIVER
def Role.name : Role → String
  | .sender => "sender"
  | .receiver => "receiver"

/-- the shared storage of one connection name -/
structure Storage where
  state : Nat          -- the state byte
  param : Nat          -- creator's buffer size (stands for all compared settings)
  inc   : Nat          -- ghost: incarnation number
deriving Repr, DecidableEq

/-- Every incarnation's memory stays alive as long as a handle refers to it (`Arc` in the
process-local storage, the mapping of an unlinked shared-memory object in the POSIX one):
`mem[inc]`.  `linked` is the incarnation currently reachable under the connection's name. -/
structure Sh where
  mem : List Storage := []
  linked : Option Nat := none
  destroyed : List Nat := []         -- ghost: incarnations destroyed (unlinked), in order
  /-- ghost: state byte of each incarnation at the moment it was destroyed -/
  stateAtDestroy : List Nat := []
deriving Repr

def Sh.storage (s : Sh) : Option Storage := s.linked.bind fun i => s.mem[i]?
def Sh.at (s : Sh) (inc : Nat) : Option Storage := s.mem[inc]?
def Sh.setState (s : Sh) (inc : Nat) (v : Nat) : Sh :=
  { s with mem := s.mem.modify inc fun st => { st with state := v } }

inductive Cmd where
  | create (r : Role) (param : Nat)
  | drop (r : Role)
  | abandon (r : Role)               -- the port's owner dies: no step, the bit stays
  | remove (r : Role)                -- forced removal on behalf of a dead peer (only after `abandon r` of an attached port)
  | removeUnchecked (r : Role)       -- forced removal without knowing that the role is attached (outside the contract)
deriving Repr, DecidableEq

/-- why a sequence of detach steps runs: it determines what is reported at the end -/
inductive Why where
  | drop (r : Role)
  | remove (r : Role)
  | mismatch (r : Role)
deriving Repr, DecidableEq

inductive PC where
  | idle
  | openOrCreate (r : Role) (param : Nat)
  | rpLoad (r : Role) (param : Nat)
  | rpCas (r : Role) (param : Nat) (cur : Nat)
  | ownLoad (r : Role) (param : Nat)
  | ownRelease (r : Role)
  -- a failed attach releases the ownership a creator still has, then drops its storage handle
  | failOwnLoad (r : Role) (err : String)
  | failRelease (r : Role) (err : String)
  | failDropLoad (r : Role) (err : String)
  | failDestroy (r : Role) (err : String)
  -- cleanup_shared_memory(bit) followed by the drop of the storage handle
  | rmLoad (w : Why)
  | rmCas (w : Why) (cur : Nat)
  | rmAcquire (w : Why)
  | dropOwnLoad (w : Why)
  | dropDestroy (w : Why)
  | removeOpen (r : Role)
deriving Repr, DecidableEq

/-- a storage handle held by the thread while it is inside an operation, or by an attached port -/
structure Handle where
  own : Bool
  inc : Nat
deriving Repr, DecidableEq

structure Th where
  pc   : PC
  todo : List Cmd
  /-- handle used by the operation in progress -/
  cur  : Option Handle := none
  /-- attached ports (their storage handles) -/
  snd  : Option Handle := none
  rcv  : Option Handle := none
  /-- the thread's port of that role died while attached (`abandon`): its bit is still set -/
  deadS : Option Handle := none
  deadR : Option Handle := none
deriving Repr

def Th.init (prog : List Cmd) : Th := { pc := .idle, todo := prog }

def Th.port (t : Th) : Role → Option Handle
  | .sender => t.snd
  | .receiver => t.rcv
def Th.setPort (t : Th) (r : Role) (h : Option Handle) : Th :=
  match r with
  | .sender => { t with snd := h }
  | .receiver => { t with rcv := h }

def Th.dead (t : Th) : Role → Option Handle
  | .sender => t.deadS
  | .receiver => t.deadR
def Th.setDead (t : Th) (r : Role) (b : Option Handle) : Th :=
  match r with
  | .sender => { t with deadS := b }
  | .receiver => { t with deadR := b }

def enabled (t : Th) : Cmd → Bool
  | .create r _ => (t.port r).isNone && (t.dead r).isNone
  | .drop r => (t.port r).isSome
  | .abandon r => (t.port r).isSome
  | .remove r => (t.dead r).isSome
  | .removeUnchecked _ => true

/-- abandoning is not a step of anybody: the handle is forgotten, the bit stays set -/
def nextCmd (t : Th) : List Cmd → Option (Th × Cmd × List Cmd)
  | [] => none
  | c :: rest =>
    match c with
    | .abandon r => nextCmd (if (t.port r).isSome then (t.setPort r none).setDead r (t.port r) else t) rest
    | _ => if enabled t c then some (t, c, rest) else nextCmd t rest

def Why.role : Why → Role
  | .drop r | .remove r | .mismatch r => r

def Why.ret : Why → String
  | .drop r => s!"drop_{r.name}"
  | .remove r => s!"remove_{r.name} ok"
  | .mismatch r => s!"create_{r.name} err:IncompatibleBufferSize"

def existsStr (s : Sh) : String := if s.linked.isSome then "exists=1" else "exists=0"

def critEv (s : Sh) : Ev := .ret ("crit " ++ existsStr s)   -- printed as `T<i> ret crit …`; see driver

/-- destroy the storage (handle with ownership dropped): `remove_cfg` under the mutex -/
def destroy (s : Sh) (h : Handle) : Sh :=
  -- `remove_cfg(name)`: removes whatever is linked under the name (nothing if already gone)
  match s.storage with
  | none => s
  | some st => { s with linked := none, destroyed := s.destroyed ++ [st.inc], stateAtDestroy := s.stateAtDestroy ++ [st.state] }

/-- a failed `reserve_port`: `if storage.has_ownership() { storage.release_ownership() }` — first
the load of the handle's ownership flag -/
def failStep (s : Sh) (t : Th) (r : Role) (err : String) : Option (Sh × Th × List Ev) :=
  match t.cur with
  | some h =>
      if h.own then some (s, { t with pc := .failRelease r err }, [.load "own" .rlx 1])
      else some (s, { t with pc := .failDropLoad r err }, [.load "own" .rlx 0])
  | none => none

def stVar (inc : Nat) : String := s!"state[{inc}]"

def stepPC (s : Sh) (t : Th) : Option (Sh × Th × List Ev) :=
  match t.pc with
  | .idle => none
  | .openOrCreate r param =>
      match s.storage with
      | none =>
          let inc := s.mem.length
          let s' := { s with mem := s.mem ++ [{ state := 0, param := param, inc := inc }], linked := some inc }
          some (s', { t with pc := .rpLoad r param, cur := some { own := true, inc := inc } }, [critEv s'])
      | some st => some (s, { t with pc := .rpLoad r param, cur := some { own := false, inc := st.inc } }, [critEv s])
  | .rpLoad r param =>
      match t.cur.bind (fun h => s.at h.inc) with
      | none => none
      | some st => some (s, { t with pc := .rpCas r param st.state }, [.load (stVar st.inc) .rlx st.state])
  | .rpCas r param cur =>
      -- the two checks precede every CAS attempt and use the value found by the previous one
      if cur &&& r.bit ≠ 0 then failStep s t r "AnotherInstanceIsAlreadyConnected"
      else if cur &&& MARK ≠ 0 then failStep s t r "IsBeingCleanedUp"
      else
        match t.cur.bind (fun h => s.at h.inc) with
        | none => none
        | some st =>
          if st.state = cur then
            some (s.setState st.inc (cur ||| r.bit), { t with pc := .ownLoad r param },
                  [.cas (stVar st.inc) .rlx .rlx cur (cur ||| r.bit) true])
          else some (s, { t with pc := .rpCas r param st.state }, [.cas (stVar st.inc) .rlx .rlx st.state (cur ||| r.bit) false])
  | .ownLoad r param =>
      match t.cur with
      | some h =>
        match s.at h.inc with
        | some st =>
          if h.own then some (s, { t with pc := .ownRelease r }, [.load "own" .rlx 1])
          else if st.param = param then
            some (s, (({ t with pc := .idle, cur := none }).setPort r (some h)), [.load "own" .rlx 0, .ret s!"create_{r.name} ok"])
          else some (s, { t with pc := .rmLoad (.mismatch r) }, [.load "own" .rlx 0])
        | none => none
      | none => none
  | .ownRelease r =>
      match t.cur with
      | some h => some (s, (({ t with pc := .idle, cur := none }).setPort r (some { h with own := false })),
                        [.store "own" .rlx 0, .ret s!"create_{r.name} ok"])
      | none => none
  | .failOwnLoad r err => failStep s t r err
  | .failRelease r err =>
      match t.cur with
      | some h => some (s, { t with pc := .failDropLoad r err, cur := some { h with own := false } }, [.store "own" .rlx 0])
      | none => none
  | .failDropLoad r err =>
      -- `Drop for Storage`: destroys only if the handle (still) has ownership
      match t.cur with
      | some h =>
          if h.own then some (s, { t with pc := .failDestroy r err }, [.load "own" .rlx 1])
          else some (s, { t with pc := .idle, cur := none }, [.load "own" .rlx 0, .ret s!"create_{r.name} err:{err}"])
      | none => none
  | .failDestroy r err =>
      match t.cur with
      | some h =>
        let s' := destroy s h
        some (s', { t with pc := .idle, cur := none }, [critEv s', .ret s!"create_{r.name} err:{err}"])
      | none => none
  | .removeOpen r =>
      match s.storage with
      | none => some (s, { t with pc := .idle }, [critEv s, .ret s!"remove_{r.name} err:DoesNotExist"])
      | some st => some (s, { t with pc := .rmLoad (.remove r), cur := some { own := false, inc := st.inc } }, [critEv s])
  | .rmLoad w =>
      match t.cur.bind (fun h => s.at h.inc) with
      | none => none
      | some st =>
          if st.state = MARK then some (s, { t with pc := .rmAcquire w }, [.load (stVar st.inc) .rlx st.state])
          else some (s, { t with pc := .rmCas w st.state }, [.load (stVar st.inc) .rlx st.state])
  | .rmCas w cur =>
      match t.cur.bind (fun h => s.at h.inc) with
      | none => none
      | some st =>
          let new := if cur = w.role.bit then MARK else cur &&& (255 - w.role.bit)
          if st.state = cur then
            some (s.setState st.inc new,
                  { t with pc := if new = MARK then .rmAcquire w else .dropOwnLoad w },
                  [.cas (stVar st.inc) .rlx .rlx cur new true])
          else some (s, { t with pc := .rmCas w st.state }, [.cas (stVar st.inc) .rlx .rlx st.state new false])
  | .rmAcquire w =>
      match t.cur with
      | some h => some (s, { t with pc := .dropOwnLoad w, cur := some { h with own := true } }, [.store "own" .rlx 1])
      | none => none
  | .dropOwnLoad w =>
      match t.cur with
      | some h =>
          if h.own then some (s, { t with pc := .dropDestroy w }, [.load "own" .rlx 1])
          else some (s, { t with pc := .idle, cur := none }, [.load "own" .rlx 0, .ret w.ret])
      | none => none
  | .dropDestroy w =>
      match t.cur with
      | some h =>
        let s' := destroy s h
        some (s', { t with pc := .idle, cur := none }, [critEv s', .ret w.ret])
      | none => none

def start (t : Th) : Cmd → Th
  | .create r param => { t with pc := .openOrCreate r param }
  | .drop r => { (t.setPort r none) with pc := .rmLoad (.drop r), cur := t.port r }
  | .remove r => { (t.setDead r none) with pc := .removeOpen r }
  | .removeUnchecked r => { t with pc := .removeOpen r }
  | .abandon _ => t

def step (s : Sh) (t : Th) : Option (Sh × Th × List Ev) :=
  match t.pc with
  | .idle =>
      match nextCmd t t.todo with
      | none => none
      | some (t', c, rest) => stepPC s (start { t' with todo := rest } c)
  | _ => stepPC s t

def sys : Sys Sh Th := { step := step }

end Iox2.ConnState
