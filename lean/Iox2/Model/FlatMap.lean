/-
Model of `iceoryx2-bb/container/src/flatmap.rs` (`MetaFlatMap`): a slot map of
`Entry { id, value }`; lookups iterate the slot map in key order and take the first entry whose
`id` matches.
-/
import Iox2.Model.SlotMap
namespace Iox2.FlatMap
open Iox2.Vec (Elem)

structure Entry where
  key : Nat
  value : Elem
deriving Repr, DecidableEq

abbrev St := SlotMap.St Entry

inductive Op where
  | insert (k : Nat) (e : Elem)
  | get (k : Nat)          -- returns a clone
  | getRef (k : Nat)
  | remove (k : Nat)
  | contains (k : Nat)
  | dump
  | dropAll
deriving Repr

inductive Out where
  | ok | errExists | errFull
  | tt | ff
  | some (e : Elem)
  | none
  | contents (items : List (Nat × Elem)) (len cap : Nat)
  | panic
deriving Repr, DecidableEq

/-- first (slot key, entry) in slot order whose id matches: `iter().skip_while(..).next()` -/
def find (s : St) (k : Nat) : Option (Nat × Entry) :=
  (SlotMap.items s).find? fun p => p.2.key = k

structure FSt where
  m : St
  nextClone : Nat

def init (cap : Nat) : FSt := { m := SlotMap.init cap, nextClone := 100000 }

def step (s : FSt) : Op → FSt × Out × List Nat
  | .insert k e =>
      match find s.m k with
      | some _ => (s, .errExists, [e.id])
      | none =>
        match SlotMap.step s.m (.insert ⟨k, e⟩) with
        | (m', .key _, d) => ({ s with m := m' }, .ok, d.map (·.value.id))
        | (m', .none, d) => ({ s with m := m' }, .errFull, d.map (·.value.id))
        | (_, _, _) => (s, .panic, [])
  | .get k =>
      match find s.m k with
      | some (_, ent) => ({ s with nextClone := s.nextClone + 1 }, .some ⟨s.nextClone, ent.value.val⟩, [])
      | none => (s, .none, [])
  | .getRef k =>
      match find s.m k with
      | some (_, ent) => (s, .some ent.value, [])
      | none => (s, .none, [])
  | .remove k =>
      match find s.m k with
      | some (slot, _) =>
        match SlotMap.step s.m (.remove slot) with
        | (m', .some ent, d) => ({ s with m := m' }, .some ent.value, d.map (·.value.id))
        | (m', .none, d) => ({ s with m := m' }, .none, d.map (·.value.id))
        | (_, _, _) => (s, .panic, [])
      | none => (s, .none, [])
  | .contains k => (s, if (find s.m k).isSome then .tt else .ff, [])
  | .dump => (s, .contents ((SlotMap.items s.m).map fun p => (p.2.key, p.2.value)) s.m.len s.m.cap, [])
  | .dropAll =>
      let (m', _, d) := SlotMap.step s.m .dropAll
      ({ s with m := m' }, .tt, d.map (·.value.id))

end Iox2.FlatMap
