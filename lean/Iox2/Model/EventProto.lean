/-
L2 model of the event hand-shake (C05): `iceoryx2-cal/src/event/common.rs` — `Notifier::notify`
(activate id, state hand-shake, trigger) and `Waiter::drain_events` (`try_wait` / `timed_wait` /
`blocking_wait`: state reset, wait on the trigger, empty its buffer, drain the ids) — over the two
event states `iceoryx2-bb/lock-free/src/mpmc/bit_set.rs` (8-bit words, CAS to set, `swap(0)` per
word to drain) and `counting_bit_set.rs` (`fetch_add` / `swap(0)` per id).  The trigger is a
counter (semaphore / socket buffer): `notify` adds one signal (or reports `BufferIsFull` at the
bound), a wait consumes, `empty_buffer` discards all.
-/
import Iox2.Base.Sched
namespace Iox2.EventProto
open Iox2.Sched

def IDLE : Nat := 0
def PENDING : Nat := 1
def NOTIFIED : Nat := 2

structure Sh where
  counting : Bool
  nids  : Nat
  ns    : Nat
  words : List Nat          -- bit set: 8-bit words
  counts : List Nat         -- counting set: one counter per id
  trigger : Nat
  bound : Nat               -- trigger buffer size (0 = unbounded)
  failWhenFull : Bool
  -- ghosts
  now : Nat := 0                       -- global step clock
  activations : List Nat               -- per id: number of `activate` steps
  lastActivate : List Nat              -- per id: clock of the latest activate (0 = never)
  reported : List Nat                  -- per id: total count reported to the listener
  reports : List Nat                   -- per id: number of times the id was reported
  lastReport : List Nat                -- per id: clock of the latest report
  completed : List Nat                 -- per id: number of `notify` calls that returned Ok
deriving Repr

def Sh.init (counting : Bool) (nids bound : Nat) (failWhenFull : Bool) : Sh :=
  let z := List.replicate nids 0
  { counting := counting, nids := nids, ns := IDLE, words := List.replicate ((nids + 7) / 8) 0, counts := z,
    trigger := 0, bound := bound, failWhenFull := failWhenFull,
    activations := z, lastActivate := z, reported := z, reports := z, lastReport := z, completed := z }

def bump (l : List Nat) (i k : Nat) : List Nat := l.modify i (· + k)

/-- is id `i` active (a notification for it is stored and not yet collected)? -/
def Sh.active (s : Sh) (i : Nat) : Bool :=
  if s.counting then 0 < s.counts.getD i 0 else (s.words.getD (i / 8) 0 / 2 ^ (i % 8)) % 2 = 1

inductive Cmd where
  | notify (id : Nat)
  | tryWait
  | blockingWait        -- not executable under the trace scheduler; part of the theorems' quantifier
deriving Repr, DecidableEq

inductive PC where
  | idle
  -- notify
  | nDist (id : Nat) | nLoad (id : Nat) | nBitCas (id cur : Nat) | nFadd (id : Nat)
  | nCasIdlePending (id : Nat) | nTrigLoad (id : Nat) | nTrigCas (id c : Nat) | nCasPendingNotified (id : Nat)
  -- wait
  | lCasNotifiedIdle (blocking : Bool) | lWait (blocking : Bool) | lStoreIdle | lEmpty
  | lDrainDist (i : Nat) (got : List (Nat × Nat)) | lDrainSwap (i : Nat) (got : List (Nat × Nat))
deriving Repr, DecidableEq

structure Th where
  pc   : PC
  todo : List Cmd
deriving Repr

def Th.init (prog : List Cmd) : Th := { pc := .idle, todo := prog }

def mask (id : Nat) : Nat := 2 ^ (id % 8)
def bitSet (w id : Nat) : Bool := (w / mask id) % 2 = 1

def showGot (got : List (Nat × Nat)) : String :=
  String.intercalate "," (got.map fun (i, c) => s!"{i}:{c}")

/-- number of storage units the drain visits: words of the bit set, ids of the counting set -/
def Sh.units (s : Sh) : Nat := if s.counting then s.nids else s.words.length

/-- ids (with counts) found in drain unit `i` holding value `v` -/
def unitIds (s : Sh) (i v : Nat) : List (Nat × Nat) :=
  if s.counting then (if v = 0 then [] else [(i, v)])
  else (List.range 8).filterMap fun b => if (v / 2 ^ b) % 2 = 1 then some (8 * i + b, 1) else none

def tick (s : Sh) : Sh := { s with now := s.now + 1 }

def activated (s : Sh) (id : Nat) : Sh :=
  { s with activations := bump s.activations id 1, lastActivate := s.lastActivate.set id (s.now + 1) }

def reportAll (s : Sh) (ids : List (Nat × Nat)) : Sh :=
  ids.foldl (fun s (p : Nat × Nat) =>
    { s with reported := bump s.reported p.1 p.2, reports := bump s.reports p.1 1, lastReport := s.lastReport.set p.1 (s.now + 1) }) s

/-- after the drain of the last unit -/
def drainDone (s : Sh) (t : Th) (got : List (Nat × Nat)) (evs : List Ev) : Sh × Th × List Ev :=
  (s, { t with pc := .idle }, evs ++ [.ret s!"wait {showGot got}"])

def stepPC (s0 : Sh) (t : Th) : Option (Sh × Th × List Ev) :=
  let s := s0
  match t.pc with
  | .idle => none
  -- activate
  | .nDist id => some (tick s, { t with pc := if s.counting then .nFadd id else .nLoad id }, [.load "dist" .rlx 0])
  | .nLoad id =>
      let w := s.words.getD (id / 8) 0
      if bitSet w id then some (tick (activated s id), { t with pc := .nCasIdlePending id }, [.load s!"word[{id / 8}]" .rlx w])
      else some (tick s, { t with pc := .nBitCas id w }, [.load s!"word[{id / 8}]" .rlx w])
  | .nBitCas id cur =>
      let w := s.words.getD (id / 8) 0
      if w = cur then
        some (tick (activated { s with words := s.words.set (id / 8) (cur + mask id) } id), { t with pc := .nCasIdlePending id },
              [.cas s!"word[{id / 8}]" .rlx .rlx cur (cur + mask id) true])
      else if bitSet w id then
        some (tick (activated s id), { t with pc := .nCasIdlePending id }, [.cas s!"word[{id / 8}]" .rlx .rlx w (cur + mask id) false])
      else some (tick s, { t with pc := .nBitCas id w }, [.cas s!"word[{id / 8}]" .rlx .rlx w (cur + mask id) false])
  | .nFadd id =>
      let c := s.counts.getD id 0
      some (tick (activated { s with counts := s.counts.set id (c + 1) } id), { t with pc := .nCasIdlePending id },
            [.rmw "fadd" s!"count[{id}]" .rlx c (c + 1)])
  -- hand-shake
  | .nCasIdlePending id =>
      if s.ns = IDLE then some (tick { s with ns := PENDING }, { t with pc := .nTrigLoad id }, [.cas "ns" .sc .sc IDLE PENDING true])
      else if s.ns = NOTIFIED then
        some (tick { s with completed := bump s.completed id 1 }, { t with pc := .idle }, [.cas "ns" .sc .sc s.ns PENDING false, .ret "notify ok"])
      else some (tick s, { t with pc := .nTrigLoad id }, [.cas "ns" .sc .sc s.ns PENDING false])
  -- trigger: bounded counter
  | .nTrigLoad id =>
      if s.bound ≠ 0 ∧ s.trigger ≥ s.bound then
        if s.failWhenFull then some (tick s, { t with pc := .idle }, [.load "trigger" .sc s.trigger, .ret "notify err:BufferIsFull"])
        else some (tick s, { t with pc := .nCasPendingNotified id }, [.load "trigger" .sc s.trigger])
      else some (tick s, { t with pc := .nTrigCas id s.trigger }, [.load "trigger" .sc s.trigger])
  | .nTrigCas id c =>
      if s.trigger = c then some (tick { s with trigger := c + 1 }, { t with pc := .nCasPendingNotified id }, [.cas "trigger" .sc .sc c (c + 1) true])
      else if s.bound ≠ 0 ∧ s.trigger ≥ s.bound then
        if s.failWhenFull then some (tick s, { t with pc := .idle }, [.cas "trigger" .sc .sc s.trigger (c + 1) false, .ret "notify err:BufferIsFull"])
        else some (tick s, { t with pc := .nCasPendingNotified id }, [.cas "trigger" .sc .sc s.trigger (c + 1) false])
      else some (tick s, { t with pc := .nTrigCas id s.trigger }, [.cas "trigger" .sc .sc s.trigger (c + 1) false])
  | .nCasPendingNotified id =>
      let s' := { s with completed := bump s.completed id 1 }
      if s.ns = PENDING then some (tick { s' with ns := NOTIFIED }, { t with pc := .idle }, [.cas "ns" .sc .sc PENDING NOTIFIED true, .ret "notify ok"])
      else some (tick s', { t with pc := .idle }, [.cas "ns" .sc .sc s.ns NOTIFIED false, .ret "notify ok"])
  -- wait
  | .lCasNotifiedIdle blocking =>
      if s.ns = NOTIFIED then some (tick { s with ns := IDLE }, { t with pc := .lEmpty }, [.cas "ns" .sc .sc NOTIFIED IDLE true])
      else some (tick s, { t with pc := .lWait blocking }, [.cas "ns" .sc .sc s.ns IDLE false])
  | .lWait blocking =>
      -- a blocking wait is enabled only when a signal is there; a try-wait always returns
      if blocking ∧ s.trigger = 0 then none
      else some (tick { s with trigger := 0 }, { t with pc := .lStoreIdle }, [.rmw "swap" "trigger" .sc s.trigger 0])
  | .lStoreIdle => some (tick { s with ns := IDLE }, { t with pc := .lEmpty }, [.store "ns" .sc IDLE])
  | .lEmpty =>
      if 0 < s.units then some (tick { s with trigger := 0 }, { t with pc := .lDrainDist 0 [] }, [.rmw "swap" "trigger" .sc s.trigger 0])
      else some (drainDone (tick { s with trigger := 0 }) t [] [.rmw "swap" "trigger" .sc s.trigger 0])
  | .lDrainDist i got => some (tick s, { t with pc := .lDrainSwap i got }, [.load "dist" .rlx 0])
  | .lDrainSwap i got =>
      let v := if s.counting then s.counts.getD i 0 else s.words.getD i 0
      let s1 := if s.counting then { s with counts := s.counts.set i 0 } else { s with words := s.words.set i 0 }
      let ids := unitIds s i v
      let s2 := tick (reportAll s1 ids)
      let ev : Ev := .rmw "swap" (if s.counting then s!"count[{i}]" else s!"word[{i}]") .rlx v 0
      if i + 1 < s.units then some (s2, { t with pc := .lDrainDist (i + 1) (got ++ ids) }, [ev])
      else some (drainDone s2 t (got ++ ids) [ev])

def start : Cmd → PC
  | .notify id => .nDist id
  | .tryWait => .lCasNotifiedIdle false
  | .blockingWait => .lCasNotifiedIdle true

def step (s : Sh) (t : Th) : Option (Sh × Th × List Ev) :=
  match t.pc with
  | .idle =>
      match t.todo with
      | [] => none
      | c :: rest => stepPC s { pc := start c, todo := rest }
  | _ => stepPC s t

def sys : Sys Sh Th := { step := step }

end Iox2.EventProto
