/-
Model of `iceoryx2-bb/elementary/src/relocatable_pointer.rs` over a byte-addressed block:
a `RelocatablePointer` stored at offset `self` of a block holds `distance = target - self`
(`init`); `as_ptr` = own address + distance.  A block mapped at base `b` places offset `o` at address
`b + o`.  Machine arithmetic is 64-bit wrapping (`isize` / pointer casts).
-/
namespace Iox2.RelPtr

/-- block contents that matter here: the distance stored in every pointer cell, by offset -/
structure Block where
  cells : List (Nat × Int)      -- (offset of the pointer object, stored distance)
deriving Repr, DecidableEq

def Block.distance (b : Block) (off : Nat) : Int :=
  match b.cells.find? (·.1 = off) with
  | some c => c.2
  | none => 0

/-- `RelocatablePointer::init(ptr)` executed by a process that has the block mapped at `base` -/
def Block.init (b : Block) (base : Int) (selfOff targetOff : Nat) : Block :=
  { cells := (selfOff, (base + targetOff) - (base + selfOff)) :: b.cells.filter (·.1 ≠ selfOff) }

/-- `RelocatablePointer::as_ptr()` executed by a process that has the block mapped at `base` -/
def Block.asPtr (b : Block) (base : Int) (selfOff : Nat) : Int := (base + selfOff) + b.distance selfOff

/-- the bytes of the pointer object at `fromOff` are copied to `toOff` (a structure is moved inside its block) -/
def Block.copyCell (b : Block) (fromOff toOff : Nat) : Block :=
  { cells := (toOff, b.distance fromOff) :: b.cells.filter (·.1 ≠ toOff) }

/-- what the harness observes: the target as an offset into the block, whatever the mapping address -/
def Block.target (b : Block) (selfOff : Nat) : Int := selfOff + b.distance selfOff

/-- the contrast design: an absolute pointer (what `OwningPointer` / a raw pointer does) -/
def absInit (base : Int) (targetOff : Nat) : Int := base + targetOff
def absAsPtr (stored : Int) : Int := stored

end Iox2.RelPtr
