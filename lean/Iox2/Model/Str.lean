/-
Model of `iceoryx2-bb/container/src/string/mod.rs` (trait `String`, shared by `StaticString`,
`PolymorphicString`, `RelocatableString`): fixed-capacity byte strings restricted to the byte
values 1..127.
-/
namespace Iox2.Str

inductive Op where
  | push (b : Nat)
  | pushBytes (bs : List Nat)
  | insert (i : Nat) (b : Nat)
  | insertBytes (i : Nat) (bs : List Nat)
  | pop
  | remove (i : Nat)
  | removeRange (i n : Nat)
  | retain (b : Nat)           -- `retain(|c| c == b)`: *removes* the bytes for which f is true
  | find (bs : List Nat)
  | rfind (bs : List Nat)
  | stripPrefix (bs : List Nat)
  | stripSuffix (bs : List Nat)
  | truncate (n : Nat)
  | clear
  | dump
deriving Repr

inductive Out where
  | ok | errCap | errChar
  | tt | ff
  | some (n : Nat)
  | none
  | contents (bytes : List Nat) (cap : Nat)
  | panic
deriving Repr, DecidableEq

structure St where
  cap : Nat
  bytes : List Nat
deriving Repr

def init (cap : Nat) : St := { cap := cap, bytes := [] }

def validByte (b : Nat) : Bool := 0 < b && b < 128

/-- `insert_bytes` -/
def insertBytes (s : St) (i : Nat) (bs : List Nat) : St × Out :=
  if s.bytes.length < i then (s, .panic)          -- `fatal_panic!`: index out of bounds
  else if s.cap < s.bytes.length + bs.length then (s, .errCap)
  else if bs.all validByte then ({ s with bytes := s.bytes.take i ++ bs ++ s.bytes.drop i }, .ok)
  else (s, .errChar)

/-- `remove_range` -/
def removeRange (s : St) (i n : Nat) : St × Bool :=
  if s.bytes.length < i + n then (s, false)
  else ({ s with bytes := s.bytes.take i ++ s.bytes.drop (i + n) }, true)

/-- does `bs` occur in `l` at position 0 -/
def isPrefixAt (bs l : List Nat) : Bool := bs.isPrefixOf l

/-- `find`: first `i ≤ len - |bs|` with a match -/
def findFrom (bs : List Nat) : List Nat → Nat → Option Nat
  | [], i => if bs.isEmpty then some i else none
  | (x :: xs), i => if isPrefixAt bs (x :: xs) then some i else findFrom bs xs (i + 1)

/-- `rfind`: last position with a match -/
def rfindFrom (bs : List Nat) : List Nat → Nat → Option Nat
  | [], i => if bs.isEmpty then some i else none
  | (x :: xs), i =>
    match rfindFrom bs xs (i + 1) with
    | some j => some j
    | none => if isPrefixAt bs (x :: xs) then some i else none

def step (s : St) : Op → St × Out
  | .push b => insertBytes s s.bytes.length [b]
  | .pushBytes bs => insertBytes s s.bytes.length bs
  | .insert i b => insertBytes s i [b]
  | .insertBytes i bs => insertBytes s i bs
  | .pop =>
      match s.bytes.getLast? with
      | Option.none => (s, .none)
      | Option.some b => ({ s with bytes := s.bytes.dropLast }, .some b)
  | .remove i =>
      match s.bytes[i]? with
      | Option.none => (s, .none)
      | Option.some b => ({ s with bytes := s.bytes.eraseIdx i }, .some b)
  | .removeRange i n => let (s', r) := removeRange s i n; (s', if r then .tt else .ff)
  | .retain b => ({ s with bytes := s.bytes.filter (· ≠ b) }, .ok)
  | .find bs => (s, match findFrom bs s.bytes 0 with | Option.some i => .some i | Option.none => .none)
  | .rfind bs => (s, match rfindFrom bs s.bytes 0 with | Option.some i => .some i | Option.none => .none)
  | .stripPrefix bs =>
      if isPrefixAt bs s.bytes then ({ s with bytes := s.bytes.drop bs.length }, .tt) else (s, .ff)
  | .stripSuffix bs =>
      if s.bytes.length < bs.length then (s, .ff)
      else if s.bytes.drop (s.bytes.length - bs.length) = bs then
        ({ s with bytes := s.bytes.take (s.bytes.length - bs.length) }, .tt)
      else (s, .ff)
  | .truncate n => ({ s with bytes := s.bytes.take n }, .ok)
  | .clear => ({ s with bytes := [] }, .ok)
  | .dump => (s, .contents s.bytes s.cap)

end Iox2.Str
