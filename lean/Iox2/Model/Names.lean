/-
C19 — models of the semantic string types and the naming scheme:
  iceoryx2-bb/container/src/semantic_string.rs   (trait SemanticString + macro)
  iceoryx2-bb/system-types/src/{file_name,path,file_path}.rs
  iceoryx2/src/service/service_name.rs, iceoryx2/src/node/node_name.rs
  iceoryx2-cal/src/named_concept.rs              (path_for, extract_name_from_file/_path)
The underlying `StaticString` is `Iox2.Str` (bytes 1..127 only, fixed capacity).
Linux constants: PATH_SEPARATOR = '/', FILENAME_LENGTH = PATH_LENGTH = 255.
-/
import Iox2.Model.Str
namespace Iox2.Names
open Iox2.Str (St Out)

def SEP : Nat := 47
def DOT : Nat := 46

/-- bytes rejected by `invalid_characters` of `Path` / `FilePath`: NUL, control characters, `< > " | ? *` -/
def pathBadByte (b : Nat) : Bool :=
  b = 0 || (1 ≤ b && b ≤ 31) || b = 60 || b = 62 || b = 34 || b = 124 || b = 63 || b = 42

/-- … of `FileName`: additionally `/` and `\` -/
def fileBadByte (b : Nat) : Bool := pathBadByte b || b = SEP || b = 92

inductive Ty where
  | fileName | path | filePath | rfn8
deriving Repr, DecidableEq

def Ty.cap : Ty → Nat
  | .rfn8 => 8
  | _ => 255

def isSuffix (suf l : List Nat) : Bool := suf.length ≤ l.length && l.drop (l.length - suf.length) = suf

/-- `is_invalid_content` of each type, applied to the *stored* bytes (all < 128, hence valid UTF-8) -/
def Ty.invalid (t : Ty) (b : List Nat) : Bool :=
  match t with
  | .fileName | .rfn8 => b.any fileBadByte || b = [] || b = [DOT] || b = [DOT, DOT]
  | .path => b.any pathBadByte
  | .filePath =>
      b.any pathBadByte || b = [] || b = [DOT] || b = [DOT, DOT] || b.getLast? = some SEP ||
        isSuffix [SEP, DOT] b || isSuffix [SEP, DOT, DOT] b

inductive Res where
  | ok | errContent | errLen | panic
  | some (n : Nat) | none
  | tt | ff
deriving Repr, DecidableEq

structure SemStr where
  ty : Ty
  s  : St
deriving Repr

/-- `SemanticString::insert_bytes` -/
def SemStr.insertBytes (x : SemStr) (i : Nat) (bs : List Nat) : SemStr × Res :=
  match Iox2.Str.insertBytes x.s i bs with
  | (_, .panic) => (x, .panic)
  | (_, .errCap) => (x, .errLen)
  | (_, .errChar) => (x, .errContent)
  | (s', _) =>
      if x.ty.invalid s'.bytes then (x, .errContent)    -- inserted range removed again
      else ({ x with s := s' }, .ok)

/-- the pattern `temp = copy; temp.op(..); if invalid(temp) fail; commit` -/
def SemStr.commit (x : SemStr) (s' : St) (r : Res) : SemStr × Res :=
  if x.ty.invalid s'.bytes then (x, .errContent) else ({ x with s := s' }, r)

inductive Op where
  | push (b : Nat) | pushBytes (bs : List Nat) | insert (i b : Nat) | insertBytes (i : Nat) (bs : List Nat)
  | pop | remove (i : Nat) | removeRange (i n : Nat) | retain (b : Nat)
  | stripPrefix (bs : List Nat) | stripSuffix (bs : List Nat) | truncate (n : Nat)
  | find (bs : List Nat) | rfind (bs : List Nat) | dump
deriving Repr

def optRes : Out → Res
  | .some n => .some n
  | _ => .none

def SemStr.step (x : SemStr) : Op → SemStr × Res
  | .push b => x.insertBytes x.s.bytes.length [b]
  | .pushBytes bs => x.insertBytes x.s.bytes.length bs
  | .insert i b => x.insertBytes i [b]
  | .insertBytes i bs => x.insertBytes i bs
  | .pop =>
      if x.s.bytes.length = 0 then (x, .none)
      else let (s', o) := Iox2.Str.step x.s (.remove (x.s.bytes.length - 1)); x.commit s' (optRes o)
  | .remove i => let (s', o) := Iox2.Str.step x.s (.remove i); x.commit s' (optRes o)
  | .removeRange i n => let (s', _) := Iox2.Str.removeRange x.s i n; x.commit s' .ok
  | .retain b => let (s', _) := Iox2.Str.step x.s (.retain b); x.commit s' .ok
  | .stripPrefix bs =>
      match Iox2.Str.step x.s (.stripPrefix bs) with
      | (s', .tt) => x.commit s' .tt
      | _ => (x, .ff)
  | .stripSuffix bs =>
      match Iox2.Str.step x.s (.stripSuffix bs) with
      | (s', .tt) => x.commit s' .tt
      | _ => (x, .ff)
  | .truncate n => let (s', _) := Iox2.Str.step x.s (.truncate n); x.commit s' .ok
  | .find bs => (x, optRes (Iox2.Str.step x.s (.find bs)).2)
  | .rfind bs => (x, optRes (Iox2.Str.step x.s (.rfind bs)).2)
  | .dump => (x, .ok)

/-- `SemanticString::new` -/
def SemStr.new (t : Ty) (b : List Nat) : Option SemStr × Res :=
  match ({ ty := t, s := Iox2.Str.init t.cap } : SemStr).insertBytes 0 b with
  | (x, .ok) => (some x, .ok)
  | (_, r) => (none, r)

/-- the validity predicate, stated directly on byte strings (the documented rules) -/
def Ty.valid (t : Ty) (b : List Nat) : Bool :=
  b.length ≤ t.cap && b.all (fun c => 0 < c && c < 128) && !t.invalid b

/-! ### paths -/
/-- split at every separator (like `slice::split`) -/
def splitSep : List Nat → List (List Nat)
  | [] => [[]]
  | c :: cs =>
    match splitSep cs with
    | [] => [[]]          -- unreachable
    | w :: ws => if c = SEP then [] :: w :: ws else (c :: w) :: ws

def joinSep : List (List Nat) → List Nat
  | [] => []
  | [w] => w
  | w :: ws => w ++ SEP :: joinSep ws

/-- `Path::normalize` -/
def normalizePath (b : List Nat) : List Nat :=
  let lead := if b.head? = some SEP then [SEP] else []
  lead ++ joinSep ((splitSep b).filter fun e => !(e.isEmpty) && e ≠ [DOT])

/-- `Path::entries` -/
def pathEntries (b : List Nat) : List (List Nat) := (splitSep b).filter fun e => !e.isEmpty

/-- `Path::add_path_entry`; note: a separator that was already appended stays if the entry does not fit -/
def addPathEntry (x : SemStr) (entry : List Nat) : SemStr × Res :=
  let (x1, r1) :=
    if x.s.bytes ≠ [] ∧ x.s.bytes.getLast? ≠ some SEP then x.step (.push SEP) else (x, .ok)
  match r1 with
  | .ok => x1.step (.pushBytes entry)
  | r => (x1, r)

/-- position of the last separator -/
def lastSep (b : List Nat) : Option Nat :=
  (List.range b.length).reverse.find? fun i => b.getD i 0 = SEP

/-- `FilePath::file_name` -/
def fileNameOf (b : List Nat) : List Nat :=
  match lastSep b with
  | some i => b.drop (i + 1)
  | none => b

/-- `FilePath::path` -/
def parentOf (b : List Nat) : List Nat :=
  match lastSep b with
  | some i => if i = 0 then [SEP] else b.take i
  | none => []

/-- `FilePath::from_path_and_file` -/
def fromPathAndFile (p f : List Nat) : Option (List Nat) :=
  let needSep := p ≠ [] ∧ p.getLast? ≠ some SEP
  let len := p.length + f.length + (if needSep then 1 else 0)
  if 255 < len then none else some (p ++ (if needSep then [SEP] else []) ++ f)

/-! ### named concepts -/
structure Cfg where
  hint : List Nat      -- a valid `Path`
  pre  : List Nat      -- a valid `FileName`
  suf  : List Nat      -- a valid `FileName`
deriving Repr

/-- `path_for(name)`: `none` = the `fatal_panic!` on exceeding the path length -/
def pathFor (c : Cfg) (name : List Nat) : Option (List Nat) :=
  let p : SemStr := { ty := .path, s := { cap := 255, bytes := c.hint } }
  match addPathEntry p c.pre with
  | (p1, .ok) =>
    match p1.step (.pushBytes name) with
    | (p2, .ok) =>
      match p2.step (.pushBytes c.suf) with
      | (p3, .ok) => some p3.s.bytes
      | _ => none
    | _ => none
  | _ => none

inductive Extract where
  | name (n : List Nat) | none | panic
deriving Repr, DecidableEq

/-- `extract_name_from_file`: strip prefix, then suffix, on a `FileName`; stripping that leaves
invalid content is a `fatal_panic!` -/
def extractName (c : Cfg) (file : List Nat) : Extract :=
  let f : SemStr := { ty := .fileName, s := { cap := 255, bytes := file } }
  match f.step (.stripPrefix c.pre) with
  | (_, .errContent) => .panic
  | (_, .ff) => .none
  | (f1, _) =>
    match f1.step (.stripSuffix c.suf) with
    | (_, .errContent) => .panic
    | (_, .ff) => .none
    | (f2, _) => .name f2.s.bytes

/-- `extract_name_from_path`: the path part must equal the hint (`Path` equality is on normalised paths) -/
def extractFromPath (c : Cfg) (fp : List Nat) : Extract :=
  if normalizePath c.hint ≠ normalizePath (parentOf fp) then .none else extractName c (fileNameOf fp)

/-! ### service and node names -/
def IOX2_PREFIX : List Nat := [105, 111, 120, 50, 58, 47, 47]   -- "iox2://"

/-- `ServiceName::new` -/
def serviceName (b : List Nat) : Res :=
  if IOX2_PREFIX.isPrefixOf b then .errContent
  else if b = [] then .errContent
  else if 255 < b.length then .errLen
  else if b.all Iox2.Str.validByte then .ok else .errContent

/-- `NodeName::new` (the empty name is allowed) -/
def nodeName (b : List Nat) : Res :=
  if 128 < b.length then .errLen
  else if b.all Iox2.Str.validByte then .ok else .errContent

end Iox2.Names
