/-
Executable model of `iceoryx2::waitset::WaitSet` (iceoryx2/src/waitset.rs) together with the parts of
its collaborators that decide what a processing call reports:

* reactor (iceoryx2-cal/src/reactor/{epoll,posix_select}.rs, bb/linux/epoll.rs, bb/posix/file_descriptor_set.rs):
  the set of attached file descriptors; a wait with zero timeout returns the attached descriptors
  that are readable.  Trusted, not modelled: the kernel (epoll_ctl / epoll_wait / select are
  level-triggered and exact).
* deadline queue (bb/posix/src/deadline_queue.rs): attachments (index, period, start), `id_count`,
  `previous_iteration`, `reset`, `handle_missed_deadlines`.  Time is a logical counter (`advance`).
* listener (event concept unix-datagram + counting bit set): per listener the notifications since the
  last `try_wait`; sequentially the listener's descriptor is readable iff that list is non-empty.

Descriptors are identified with listener indices (one descriptor per listener, all alive for the whole
history), guards with the caller's labels.  Core Lean only.
-/
namespace Iox2.WaitSet

/-- `WaitSetAttachmentError` (the two other variants, InternalError / InsufficientResources, need
failing system calls) -/
inductive AttachErr where
  | InsufficientCapacity
  | AlreadyAttached
  deriving DecidableEq, Repr

/-- `ReactorAttachError` as far as reachable -/
inductive ReactorErr where
  | AlreadyAttached
  | CapacityExceeded
  deriving DecidableEq, Repr

/-- waitset.rs `attach_to_reactor`: both reactor refusals become `AlreadyAttached` (line 1000-1008) -/
def mapReactorErr : ReactorErr → AttachErr
  | .AlreadyAttached => .AlreadyAttached
  | .CapacityExceeded => .AlreadyAttached

/-- `GuardType`: what a `WaitSetGuard` holds -/
inductive Guard where
  | tick (idx : Nat)
  | deadline (fd idx : Nat)
  | notif (fd : Nat)
  deriving DecidableEq, Repr

/-- `AttachmentIdType` (the wait-set address is the same for all ids of one history) -/
inductive AttId where
  | tick (idx : Nat)
  | deadline (fd idx : Nat)
  | notif (fd : Nat)
  deriving DecidableEq, Repr

/-- how the caller classifies a callback with respect to one of its guards -/
inductive Kind where
  | n   -- has_event_from (notification / deadline guard)
  | d   -- has_missed_deadline
  | t   -- has_event_from (interval guard)
  deriving DecidableEq, Repr

structure DqAtt where
  idx : Nat
  period : Nat
  start : Nat
  deriving DecidableEq, Repr

structure State where
  cap : Nat                      -- Reactor::capacity() = WaitSet::capacity()
  capFirst : Bool                -- reactor refuses with CapacityExceeded before the membership test (select); epoll: never
  nl : Nat                       -- listeners 0..nl-1
  ns : Nat                       -- services; listener l belongs to service l % ns
  evMax : Nat                    -- event_id_max_value
  pending : List (Nat × Nat)     -- (listener, event id) notified and not yet drained
  reactor : List Nat             -- attached descriptors, attach order
  dq : List DqAtt                -- DeadlineQueue::attachments
  idCount : Nat                  -- DeadlineQueue::id_count
  prev : Nat                     -- DeadlineQueue::previous_iteration
  a2d : List (Nat × Nat)         -- attachment_to_deadline : fd ↦ deadline index
  d2a : List (Nat × Nat)         -- deadline_to_attachment : deadline index ↦ fd
  count : Nat                    -- attachment_counter
  guards : List (Nat × Guard)    -- guards the caller holds, by label
  now : Nat                      -- logical clock
  deriving Repr, DecidableEq

def State.init (cap : Nat) (capFirst : Bool) (nl ns evMax : Nat) : State :=
  { cap, capFirst, nl, ns, evMax, pending := [], reactor := [], dq := [], idCount := 0, prev := 0,
    a2d := [], d2a := [], count := 0, guards := [], now := 0 }

inductive Op where
  | attachN (g l : Nat)
  | attachD (g l p : Nat)
  | attachI (g p : Nat)
  | dropGuard (g : Nat)
  | notify (l id : Nat)
  | notifyAll (sv id : Nat)
  | drain (l : Nat)
  | runOnce
  | advance (k : Nat)
  | len
  | capacity
  | isEmpty
  deriving DecidableEq, Repr

inductive Out where
  | ok
  | dup                                   -- harness: the guard label is in use
  | none                                  -- harness: no such listener / service / guard
  | attachErr (e : AttachErr)
  | noAttachments                         -- WaitSetRunError::NoAttachments
  | reports (r : List (Nat × Kind))       -- AllEventsHandled; (guard label, kind) per callback × matching guard, callback order
  | foreign (ids : List AttId) (r : List (Nat × Kind))  -- some callback matched no guard
  | notified (k : Nat)
  | eventIdOutOfBounds
  | drained (ids : List (Nat × Nat))      -- (event id, count), ascending ids
  | nat (k : Nat)
  | bool (b : Bool)
  deriving DecidableEq, Repr

/-! ### BTreeMap<Nat, Nat> as association list -/

def mapInsert (k v : Nat) (m : List (Nat × Nat)) : List (Nat × Nat) := (k, v) :: m.filter (fun e => e.1 != k)
def mapErase (k : Nat) (m : List (Nat × Nat)) : List (Nat × Nat) := m.filter (fun e => e.1 != k)
def mapGet (k : Nat) (m : List (Nat × Nat)) : Option Nat := (m.find? (fun e => e.1 == k)).map (·.2)

def guardOf (g : Nat) (gs : List (Nat × Guard)) : Option Guard := (gs.find? (fun e => e.1 == g)).map (·.2)

/-! ### listener -/

/-- the listener's descriptor is readable -/
def ready (s : State) (l : Nat) : Bool := s.pending.any (fun e => e.1 == l)

def countOf (s : State) (l id : Nat) : Nat := (s.pending.filter (fun e => e.1 == l && e.2 == id)).length

/-- `Listener::try_wait`: every pending id with its count -/
def drainOut (s : State) (l : Nat) : List (Nat × Nat) :=
  ((List.range (s.evMax + 1)).filter (fun id => countOf s l id != 0)).map (fun id => (id, countOf s l id))

/-! ### deadline queue -/

/-- `handle_missed_deadlines`, the per attachment test -/
def missed (last now : Nat) (a : DqAtt) : Bool :=
  if a.period = 0 then true
  else (max last a.start - a.start) / a.period < (now - a.start) / a.period

def dqRemove (idx : Nat) (dq : List DqAtt) : List DqAtt := dq.filter (fun a => a.idx != idx)

/-- `DeadlineQueue::reset` -/
def dqReset (idx now : Nat) (dq : List DqAtt) : List DqAtt :=
  dq.map (fun a => if a.idx = idx then { a with start := now } else a)

/-- `reset_deadline` for one triggered descriptor -/
def resetFor (a2d : List (Nat × Nat)) (now : Nat) (dq : List DqAtt) (fd : Nat) : List DqAtt :=
  match mapGet fd a2d with
  | some idx => dqReset idx now dq
  | none => dq

/-! ### reactor -/

def reactorAttach (s : State) (fd : Nat) : Except ReactorErr (List Nat) :=
  if s.capFirst && s.reactor.length ≥ s.cap then .error .CapacityExceeded
  else if fd ∈ s.reactor then .error .AlreadyAttached
  else .ok (s.reactor ++ [fd])

def reactorRemove (fd : Nat) (r : List Nat) : List Nat := r.filter (· != fd)

/-! ### the caller's classification of a callback (`has_missed_deadline`, `has_event_from`) -/

def matchGuard (id : AttId) (g : Guard) : Option Kind :=
  match id, g with
  | .deadline fd idx, .deadline fd' idx' => if fd = fd' ∧ idx = idx' then some .d else none
  | .notif fd, .deadline fd' _ => if fd = fd' then some .n else none
  | .notif fd, .notif fd' => if fd = fd' then some .n else none
  | .tick idx, .tick idx' => if idx = idx' then some .t else none
  | _, _ => none

def matchAll (gs : List (Nat × Guard)) (id : AttId) : List (Nat × Kind) :=
  gs.filterMap (fun e => (matchGuard id e.2).map (fun k => (e.1, k)))

/-! ### wait_and_process_once_with_timeout(callback, 0) -/

/-- descriptors the reactor reports -/
def triggered (s : State) : List Nat := s.reactor.filter (ready s)

/-- deadline queue after `reset_deadline` of every triggered descriptor -/
def dqAfterReset (s : State) : List DqAtt := (triggered s).foldl (resetFor s.a2d s.now) s.dq

/-- `previous_iteration` as seen by `missed_deadlines` (`duration_until_next_deadline` stores `now`
when nothing is missed) -/
def prevAfterPeek (s : State) : Nat :=
  if s.dq.isEmpty then s.prev else if s.dq.any (missed s.prev s.now) then s.prev else s.now

/-- the ids the callback is invoked with, in order: missed deadlines / ticks, then notifications -/
def callbackIds (s : State) : List AttId :=
  ((dqAfterReset s).filter (missed (prevAfterPeek s) s.now)).map
      (fun a => match mapGet a.idx s.d2a with
                | some fd => AttId.deadline fd a.idx
                | none => AttId.tick a.idx)
    ++ (triggered s).map AttId.notif

def runOnce (s : State) : State × Out :=
  if s.count = 0 then (s, .noAttachments)
  else
    let ids := callbackIds s
    let s' := { s with dq := dqAfterReset s, prev := s.now }
    let unmatched := ids.filter (fun id => (matchAll s.guards id).isEmpty)
    let r := ids.flatMap (matchAll s.guards)
    (s', if unmatched.isEmpty then .reports r else .foreign unmatched r)

/-! ### attach / detach -/

def attachN (s : State) (g l : Nat) : State × Out :=
  if l ≥ s.nl then (s, .none)
  else if (guardOf g s.guards).isSome then (s, .dup)
  else match reactorAttach s l with
    | .error e => (s, .attachErr (mapReactorErr e))
    | .ok r =>
      -- WaitSet::attach(): len == capacity; the reactor guard is dropped again
      if s.count = s.cap then (s, .attachErr .InsufficientCapacity)
      else ({ s with reactor := r, count := s.count + 1, guards := s.guards ++ [(g, .notif l)] }, .ok)

def attachD (s : State) (g l p : Nat) : State × Out :=
  if l ≥ s.nl then (s, .none)
  else if (guardOf g s.guards).isSome then (s, .dup)
  else match reactorAttach s l with
    | .error e => (s, .attachErr (mapReactorErr e))
    | .ok r =>
      let idx := s.idCount
      let a2d := mapInsert l idx s.a2d
      let d2a := mapInsert idx l s.d2a
      if s.count = s.cap then
        -- both guards are dropped; the two map entries stay (attach_deadline inserts before attach())
        ({ s with idCount := idx + 1, a2d, d2a }, .attachErr .InsufficientCapacity)
      else
        ({ s with reactor := r, dq := s.dq ++ [{ idx, period := p, start := s.now }], idCount := idx + 1, a2d, d2a,
                  count := s.count + 1, guards := s.guards ++ [(g, .deadline l idx)] }, .ok)

def attachI (s : State) (g p : Nat) : State × Out :=
  if (guardOf g s.guards).isSome then (s, .dup)
  else
    let idx := s.idCount
    if s.count = s.cap then ({ s with idCount := idx + 1 }, .attachErr .InsufficientCapacity)
    else ({ s with dq := s.dq ++ [{ idx, period := p, start := s.now }], idCount := idx + 1,
                   count := s.count + 1, guards := s.guards ++ [(g, .tick idx)] }, .ok)

/-- `Drop for WaitSetGuard` followed by the drops of the reactor / deadline-queue guards -/
def dropGuard (s : State) (g : Nat) : State × Out :=
  match guardOf g s.guards with
  | none => (s, .none)
  | some gd =>
    let gs := s.guards.filter (fun e => e.1 != g)
    match gd with
    | .tick idx => ({ s with dq := dqRemove idx s.dq, count := s.count - 1, guards := gs }, .ok)
    | .notif fd => ({ s with reactor := reactorRemove fd s.reactor, count := s.count - 1, guards := gs }, .ok)
    | .deadline fd idx =>
      ({ s with a2d := mapErase fd s.a2d, d2a := mapErase idx s.d2a, reactor := reactorRemove fd s.reactor,
                dq := dqRemove idx s.dq, count := s.count - 1, guards := gs }, .ok)

/-! ### notifier -/

def listenersOf (s : State) (sv : Nat) : List Nat := (List.range s.nl).filter (fun l => l % s.ns == sv)

def step (s : State) : Op → State × Out
  | .attachN g l => attachN s g l
  | .attachD g l p => attachD s g l p
  | .attachI g p => attachI s g p
  | .dropGuard g => dropGuard s g
  | .notify l id =>
    if l ≥ s.nl then (s, .none)
    else if id > s.evMax then (s, .eventIdOutOfBounds)
    else ({ s with pending := s.pending ++ [(l, id)] }, .ok)
  | .notifyAll sv id =>
    if sv ≥ s.ns then (s, .none)
    else if id > s.evMax then (s, .eventIdOutOfBounds)
    else ({ s with pending := s.pending ++ (listenersOf s sv).map (fun l => (l, id)) }, .notified (listenersOf s sv).length)
  | .drain l =>
    if l ≥ s.nl then (s, .none)
    else ({ s with pending := s.pending.filter (fun e => e.1 != l) }, .drained (drainOut s l))
  | .runOnce => runOnce s
  | .advance k => ({ s with now := s.now + k }, .ok)
  | .len => (s, .nat s.count)
  | .capacity => (s, .nat s.cap)
  | .isEmpty => (s, .bool (s.count == 0))

/-- state after a history -/
def run (s : State) : List Op → State
  | [] => s
  | op :: ops => run (step s op).1 ops

end Iox2.WaitSet
