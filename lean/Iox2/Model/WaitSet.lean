/- stub: model `WaitSet` (to be written) -/
namespace Iox2.WaitSet
end Iox2.WaitSet
