/-
L2 model of `iceoryx2-bb/lock-free/src/spsc/index_queue.rs` (`IndexQueue`), one constructor of
`PC` per atomic operation / plain cell access, transcribed from `push`, `pop`,
`acquire_read_and_write_position` (`len`, `is_empty`, `is_full`), `acquire_producer/consumer`
and the `Drop` of `Producer`/`Consumer`.  The generic `spsc::Queue<T>` has the same steps with two
orderings swapped (parameter `q`).
-/
import Iox2.Base.Sched
namespace Iox2.Spsc
open Iox2.Sched

/-- shared memory of the queue -/
structure Sh where
  cap  : Nat
  wp   : Nat                -- write_position
  rp   : Nat                -- read_position
  data : List Nat           -- `capacity` cells
  hasProducer : Bool
  hasConsumer : Bool
  log    : List Nat         -- ghost: value published at position i
  popped : List Nat         -- ghost: values returned by `pop`, in return order
deriving Repr

def Sh.init (cap : Nat) : Sh :=
  { cap := cap, wp := 0, rp := 0, data := List.replicate cap 0, hasProducer := true, hasConsumer := true,
    log := [], popped := [] }

/-- operations a thread may issue -/
inductive Cmd where
  | push (v : Nat) | pop | len | isFull | isEmpty
  | acquireProducer | releaseProducer | acquireConsumer | releaseConsumer
deriving Repr, DecidableEq

inductive PC where
  | idle
  -- push
  | pushLdW (v : Nat) | pushLdR (v w : Nat) | pushDist (v w : Nat) | pushCell (v w : Nat) | pushStW (v w : Nat)
  -- pop
  | popLdR | popLdW (r : Nat) | popDist (r : Nat) | popCell (r : Nat) | popStR (r x : Nat)
  -- acquire_read_and_write_position: four relaxed loads, retried until stable
  | posW1 (k : Cmd) | posR1 (k : Cmd) (w : Nat) | posW2 (k : Cmd) (w r : Nat) | posR2 (k : Cmd) (w r : Nat) (wOk : Bool)
  -- roles
  | acqP | relP | acqC | relC
deriving Repr, DecidableEq

structure Th where
  pc   : PC
  todo : List Cmd
  holdsP : Bool := false     -- owns the `Producer` object (obtained from `acquire_producer`)
  holdsC : Bool := false     -- owns the `Consumer` object
deriving Repr

def Th.init (prog : List Cmd) : Th := { pc := .idle, todo := prog }

/-- The Rust API only lets the owner of the `Producer` (`Consumer`) object push (pop) or release
the role; a command the thread cannot issue is skipped without any memory access. -/
def enabled (holdsP holdsC : Bool) : Cmd → Bool
  | .push _ => holdsP
  | .pop => holdsC
  | .releaseProducer => holdsP
  | .releaseConsumer => holdsC
  | .acquireProducer => !holdsP
  | .acquireConsumer => !holdsC
  | _ => true

def nextCmd (holdsP holdsC : Bool) : List Cmd → Option (Cmd × List Cmd)
  | [] => none
  | c :: rest => if enabled holdsP holdsC c then some (c, rest) else nextCmd holdsP holdsC rest

def b2n (b : Bool) : Nat := if b then 1 else 0

/-- parameters of the flavour: orderings of the two loads of `push` (IndexQueue: wp relaxed, rp acquire) -/
structure Flavour where
  pushLdWOrd : Ord := .rlx
  pushLdROrd : Ord := .acq

def start : Cmd → PC
  | .push v => .pushLdW v
  | .pop => .popLdR
  | .len => .posW1 .len
  | .isFull => .posW1 .isFull
  | .isEmpty => .posW1 .isEmpty
  | .acquireProducer => .acqP
  | .releaseProducer => .relP
  | .acquireConsumer => .acqC
  | .releaseConsumer => .relC

def posResult (s : Sh) (k : Cmd) (w r : Nat) : String :=
  match k with
  | .len => s!"len {w - r}"
  | .isFull => s!"is_full {decide (w = r + s.cap)}"
  | _ => s!"is_empty {decide (w = r)}"

/-- one atomic step of a thread that is inside an operation -/
def stepPC (fl : Flavour) (s : Sh) (t : Th) : Option (Sh × Th × List Ev) :=
  match t.pc with
  | .idle => none
  | .pushLdW v => some (s, { t with pc := .pushLdR v s.wp }, [.load "wp" fl.pushLdWOrd s.wp])
  | .pushLdR v w =>
      if w = s.rp + s.cap then some (s, { t with pc := .idle }, [.load "rp" fl.pushLdROrd s.rp, .ret "push false"])
      else some (s, { t with pc := .pushDist v w }, [.load "rp" fl.pushLdROrd s.rp])
  | .pushDist v w => some (s, { t with pc := .pushCell v w }, [.load "dist" .rlx 0])
  | .pushCell v w => some ({ s with data := s.data.set (w % s.cap) v }, { t with pc := .pushStW v w }, [.cell s!"data[{w % s.cap}]"])
  | .pushStW v w => some ({ s with wp := w + 1, log := s.log ++ [v] }, { t with pc := .idle }, [.store "wp" .rel (w + 1), .ret "push true"])
  | .popLdR => some (s, { t with pc := .popLdW s.rp }, [.load "rp" .rlx s.rp])
  | .popLdW r =>
      if r = s.wp then some (s, { t with pc := .idle }, [.load "wp" .acq s.wp, .ret "pop none"])
      else some (s, { t with pc := .popDist r }, [.load "wp" .acq s.wp])
  | .popDist r => some (s, { t with pc := .popCell r }, [.load "dist" .rlx 0])
  | .popCell r => some (s, { t with pc := .popStR r (s.data.getD (r % s.cap) 0) }, [.cell s!"data[{r % s.cap}]"])
  | .popStR r x => some ({ s with rp := r + 1, popped := s.popped ++ [x] }, { t with pc := .idle }, [.store "rp" .rel (r + 1), .ret s!"pop some:{x}"])
  | .posW1 k => some (s, { t with pc := .posR1 k s.wp }, [.load "wp" .rlx s.wp])
  | .posR1 k w => some (s, { t with pc := .posW2 k w s.rp }, [.load "rp" .rlx s.rp])
  | .posW2 k w r =>
      -- `w == wp.load() && r == rp.load()`: the second load is skipped when the first comparison fails
      if w = s.wp then some (s, { t with pc := .posR2 k w r true }, [.load "wp" .rlx s.wp])
      else some (s, { t with pc := .posW1 k }, [.load "wp" .rlx s.wp])
  | .posR2 k w r _ =>
      if r = s.rp then some (s, { t with pc := .idle }, [.load "rp" .rlx s.rp, .ret (posResult s k w r)])
      else some (s, { t with pc := .posW1 k }, [.load "rp" .rlx s.rp])
  | .acqP =>
      if s.hasProducer then some ({ s with hasProducer := false }, { t with pc := .idle, holdsP := true }, [.cas "has_producer" .acq .rlx 1 0 true, .ret "acquire_producer true"])
      else some (s, { t with pc := .idle }, [.cas "has_producer" .acq .rlx 0 0 false, .ret "acquire_producer false"])
  | .relP => some ({ s with hasProducer := true }, { t with pc := .idle, holdsP := false }, [.store "has_producer" .rel 1, .ret "release_producer"])
  | .acqC =>
      if s.hasConsumer then some ({ s with hasConsumer := false }, { t with pc := .idle, holdsC := true }, [.cas "has_consumer" .acq .rlx 1 0 true, .ret "acquire_consumer true"])
      else some (s, { t with pc := .idle }, [.cas "has_consumer" .acq .rlx 0 0 false, .ret "acquire_consumer false"])
  | .relC => some ({ s with hasConsumer := true }, { t with pc := .idle, holdsC := false }, [.store "has_consumer" .rel 1, .ret "release_consumer"])

/-- one atomic step of one thread; dispatching the next operation is not a memory access, so the
first access of the operation is performed right away -/
def step (fl : Flavour) (s : Sh) (t : Th) : Option (Sh × Th × List Ev) :=
  match t.pc with
  | .idle =>
      match nextCmd t.holdsP t.holdsC t.todo with
      | none => none
      | some (c, rest) => stepPC fl s { t with pc := start c, todo := rest }
  | _ => stepPC fl s t

def sys (fl : Flavour := {}) : Sys Sh Th := { step := step fl }

end Iox2.Spsc
