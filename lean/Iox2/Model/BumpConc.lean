/-
L2 model of `BumpAllocator::allocate` (`iceoryx2-bb/elementary/src/bump_allocator.rs`) under
concurrency: load the position, align, check the bound, CAS; on a lost CAS recompute from the
value the CAS returned — and check the bound again.
-/
import Iox2.Base.Sched
namespace Iox2.BumpConc
open Iox2.Sched

def alignUp (v a : Nat) : Nat := if a = 0 then v else if v % a = 0 then v else v + a - v % a

structure Sh where
  start : Nat               -- address of the managed memory
  size  : Nat               -- full_memory_size
  pos   : Nat := 0          -- addr_next_free_memory (an offset)
  allocs : List (Nat × Nat × Nat) := []   -- ghost: (offset, size, align) of every successful allocation
deriving Repr

inductive PC where
  | idle
  | ld (size align : Nat)
  | cas (size align cur : Nat)
deriving Repr, DecidableEq

structure Th where
  pc : PC := .idle
  todo : List (Nat × Nat)   -- (size, align) requests
deriving Repr

def nextFor (s : Sh) (cur align : Nat) : Nat := alignUp (s.start + cur) align - s.start

/-- after a position `cur` was obtained: bound check, then the CAS state -/
def afterPos (s : Sh) (t : Th) (size align cur : Nat) (evs : List Ev) : Sh × Th × List Ev :=
  if nextFor s cur align + size > s.size then (s, { t with pc := .idle }, evs ++ [.ret "alloc err:OutOfMemory"])
  else (s, { t with pc := .cas size align cur }, evs)

def step (s : Sh) (t : Th) : Option (Sh × Th × List Ev) :=
  match t.pc with
  | .idle =>
    match t.todo with
    | [] => none
    | (size, align) :: rest =>
      if size = 0 then some (s, { t with todo := rest }, [.ret "alloc err:SizeIsZero"])
      else
        -- the first atomic step of the call: the relaxed load of the position
        some (afterPos s { t with todo := rest } size align s.pos [.load "pos" .rlx s.pos])
  | .ld size align => some (afterPos s t size align s.pos [.load "pos" .rlx s.pos])
  | .cas size align cur =>
    let nxt := nextFor s cur align
    if s.pos = cur then
      some ({ s with pos := nxt + size, allocs := s.allocs ++ [(nxt, size, align)] }, { t with pc := .idle },
            [.cas "pos" .rlx .rlx cur (nxt + size) true, .ret s!"alloc ok:{nxt}"])
    else some (afterPos s t size align s.pos [.cas "pos" .rlx .rlx s.pos (nxt + size) false])

def sys : Sys Sh Th := { step := step }

def initCfg (start size : Nat) (progs : List (List (Nat × Nat))) : Cfg Sh Th :=
  { sh := { start := start, size := size }, th := progs.map fun p => { todo := p } }

end Iox2.BumpConc
