/-
C04 at SERVICE level: a process is killed inside `create` (or `open`) of a publish-subscribe service; a survivor runs the
dead-node clean-up of that node; then a live node creates the same service name again.  One step per system call on the
service's files, transcribed in the code's order and compared with `strace` of the real calls (checklib/pC04svc.py).

Anchors
  iceoryx2/src/service/builder/mod.rs      create (:637-774), open (:462-634), is_service_available (:776-880)
  iceoryx2/src/node/mod.rs                 create_service_tag (:1083-1103), remove_stale_resources_impl (:584-719), service_tags (:1466-1496)
  iceoryx2/src/service/mod.rs              __internal_remove_node_from_service (:777-928), __internal_remove_service (:705-774),
                                           read_static_service_config (:1140-1214), open_dynamic_config (:1216-1248)
  iceoryx2/src/service/stale_resource_cleanup.rs   remove_static_service_config, remove_service_tag
  iceoryx2-cal/src/static_storage/file.rs  create_locked / unlock / open / does_exist_cfg / list_cfg (0600 = locked, skipped by listings)
  iceoryx2-cal/src/dynamic_storage/posix_shared_memory.rs   create_impl / init_impl / open_impl (0200 = not finalised)
  iceoryx2/src/service/dynamic_config/mod.rs   remove_dead_node_id, register_node_id, deregister_node_id

Shared state = the files of ONE service name at the granularity the code distinguishes:
  * static config `<hash>.service`: absent / locked (creation permission 0600; `written` = content written) / final (0400);
    `inc` = the incarnation (unique service id) written by its creator: 0 = the victim's, 1 = the re-creator's, 2 = an earlier,
    living creator's (opener scenario).  The dynamic config's NAME contains that id, so every incarnation has its own shm object.
  * dynamic config shm of incarnation i: absent / created (0200, size 0) / sized (0200, ftruncate done) / final (0600), the
    memory-only progress of its initialisation (`inited`, `versioned`) and the registered node ids (`regV`: the victim's node,
    `others`: living nodes).
  * service tag of node n (0 = victim's node, 1 = re-creator's node): absent / init (0600) / final (0400).
  * the victim's NODE, abstracted to what the service level needs: `present` (monitoring token complete ⇒ listed by Node::list),
    `alive` (the owner holds its lock), `lock` (the clean-up lock of process_state.rs, held by at most one cleaner), `dir`
    (node directory + details file).  The node-level protocol itself (30 + 39 system calls) is the model Iox2/Model/Lifecycle.lean
    (theorems C07 / C04Fs); here its two halves are ATOMIC steps of the cleaner: `node:acquire` (Node::list + state() +
    ProcessCleaner::new) before and `node:remove` (port-tag listing, remove_node, drop or abandon of the cleaner) after the
    service-level steps, `node:list-tags` is the listing of the service tags (tags with creation permission are invisible).
  * `svcDir`: the `services` directory (shared infrastructure like `nodes`, never removed, not a leftover).
The survivors run with uid 0 (the sandbox): `open` of a 0200 shm object succeeds and the decision is taken by `fstat`.  An ordinary
user gets EACCES from that `open` and reaches the same `InitializationNotYetFinalized` ⇒ `Ok(None)` branch one or three system
calls earlier (by reading posix_shared_memory.rs open_impl); since fix 150ae1b (a zero-sized object honours the timeout like the
other not-yet-finalised cases) both regimes have the same outcomes, so the model has no uid parameter any more.

Steps named `mem:…` are stores into the mapping (no system call); `node:…` are the atomic node-level abstractions.
Processes are threads of `Iox2.Sched.Sys`, wrapped with `Sys.withCrash` (`csys`): any fuse = death before any step.
-/
import Iox2.Base.Sched
import Iox2.Base.Crash
namespace Iox2.ServiceCrash
open Iox2.Sched

inductive StaticSt where
  | absent | locked | final
deriving Repr, DecidableEq, Inhabited

inductive TagSt where
  | absent | init | final
deriving Repr, DecidableEq, Inhabited

inductive DynSt where
  | absent | created | sized | final
deriving Repr, DecidableEq, Inhabited

structure Dyn where
  st : DynSt := .absent
  inited : Bool := false       -- version := 0 and the initializer ran (containers)
  versioned : Bool := false    -- version.store(PackageVersion)
  regV : Bool := false         -- the victim's node id is registered
  others : Nat := 0            -- other (living) registered nodes
deriving Repr, DecidableEq, Inhabited

structure Node where
  present : Bool := true       -- token complete: listed by Node::list
  alive : Bool := true         -- the owner process lives (holds the state-file lock)
  lock : Option Nat := none    -- pid of the cleaner holding the clean-up lock
  dir : Bool := true           -- node directory + details
deriving Repr, DecidableEq, Inhabited

structure Shared where
  static : StaticSt := .absent
  written : Bool := false
  inc : Nat := 0
  dyn0 : Dyn := {}
  dyn1 : Dyn := {}
  dyn2 : Dyn := {}
  tag0 : TagSt := .absent
  tag1 : TagSt := .absent
  node : Node := {}
  svcDir : Bool := false
deriving Repr, DecidableEq, Inhabited

def Shared.dyn (sh : Shared) : Nat → Dyn
  | 0 => sh.dyn0 | 1 => sh.dyn1 | _ => sh.dyn2
def Shared.setDyn (sh : Shared) (i : Nat) (d : Dyn) : Shared :=
  match i with
  | 0 => { sh with dyn0 := d } | 1 => { sh with dyn1 := d } | _ => { sh with dyn2 := d }
def Shared.tag (sh : Shared) : Nat → TagSt
  | 0 => sh.tag0 | _ => sh.tag1
def Shared.setTag (sh : Shared) (n : Nat) (t : TagSt) : Shared :=
  match n with
  | 0 => { sh with tag0 := t } | _ => { sh with tag1 := t }

inductive Role where
  | creator | opener | cleaner
deriving Repr, DecidableEq, Inhabited

/-- results of `create` / `open` -/
inductive SRes where
  | ok
  | alreadyExists              -- ServiceCreateError::AlreadyExists (also: HangsInCreation of is_service_available)
  | corrupted                  -- ServiceCreateError::ServiceInCorruptedState
  | doesNotExist               -- open
  | hangsInCreation            -- open
deriving Repr, DecidableEq, Inhabited

/-- result of Node::list + try_remove_stale_resources for the victim's node -/
inductive CRes where
  | ok
  | notDead                    -- not listed, or reported alive: no clean-up attempted
  | anotherInstance            -- AnotherInstanceIsCleaningUpTheNode
  | internalError              -- NodeCleanupFailure::InternalError (rmdir ENOTEMPTY → abandon)
deriving Repr, DecidableEq, Inhabited

structure Th where
  role : Role
  who : Nat := 0               -- creator / opener: 0 = the victim (node 0, incarnation 0), 1 = the re-creator; cleaner: its pid
  pc : Nat := 0
  seen : Nat := 0              -- cleaner / opener: the incarnation read from the static config
  sres : Option SRes := none
  cres : Option CRes := none
deriving Repr, DecidableEq, Inhabited

def pcDone : Nat := 100

/-! ### creator: `BuilderWithServiceType::create` -/

def finishS (t : Th) (r : SRes) : Th := { t with pc := pcDone, sres := some r }

/-- fd-based operations of a creator act on the static config it created (if a cleaner unlinked it meanwhile: on the dead inode) -/
def ownStatic (sh : Shared) (t : Th) : Bool := sh.static != .absent && sh.inc == t.who

def creatorStep (sh : Shared) (t : Th) : Option (Shared × Th × String) :=
  let w := t.who
  let d := sh.dyn w
  match t.pc with
  -- is_service_available → does_exist_cfg: access(F_OK)
  | 0 => if sh.static = .absent then some (sh, { t with pc := 1 }, "access static") else some (sh, { t with pc := 30 }, "access static")
  -- create_service_tag: static storage `create(&[])` = open(O_CREAT|O_EXCL, 0600), fchmod 0600, write 0 bytes, fsync, fchmod 0400
  | 1 => some (sh.setTag w .init, { t with pc := 2 }, "creat stag")
  | 2 => some (sh, { t with pc := 3 }, "fchmod stag init")
  | 3 => some (sh, { t with pc := 4 }, "write stag")
  | 4 => some (sh, { t with pc := 5 }, "fsync stag")
  | 5 => some (sh.setTag w .final, { t with pc := if sh.svcDir then 7 else 6 }, "fchmod stag final")
  -- create_locked: the services directory is created by the first creator of the domain
  | 6 => some ({ sh with svcDir := true }, { t with pc := 7 }, "mkdir services")
  | 7 => if sh.static = .absent then some ({ sh with static := .locked, written := false, inc := w }, { t with pc := 8 }, "creat static")
         else some (sh, { t with pc := 40 }, "creat static")                      -- EEXIST: the creation race is lost
  | 8 => some (sh, { t with pc := 9 }, "fchmod static init")
  | 9 => some (if ownStatic sh t then { sh with written := true } else sh, { t with pc := 10 }, "write static")
  | 10 => some (sh, { t with pc := 11 }, "fsync static")
  | 11 => some (if ownStatic sh t then { sh with static := .final } else sh, { t with pc := 12 }, "fchmod static final")
  -- dynamic config: shm_open(O_CREAT|O_EXCL, 0200), ftruncate, fstat, mmap; initializer; version; fchmod 0600
  | 12 => if d.st = .absent then some (sh.setDyn w { st := .created }, { t with pc := 13 }, "creat dyn")
          else some (sh, { t with pc := 41 }, "creat dyn")                        -- "this should never happen": fresh unique service id
  | 13 => some (sh.setDyn w (if d.st = .created then { d with st := .sized } else d), { t with pc := 14 }, "ftruncate dyn")
  | 14 => some (sh, { t with pc := 15 }, "fstat dyn")
  | 15 => some (sh, { t with pc := 16 }, "mmap dyn")
  | 16 => some (sh.setDyn w { d with inited := true }, { t with pc := 17 }, "mem:init dyn")
  | 17 => some (sh.setDyn w (if w = 0 then { d with regV := true } else { d with others := d.others + 1 }), { t with pc := 18 }, "mem:register node")
  | 18 => some (sh.setDyn w { d with versioned := true }, { t with pc := 19 }, "mem:version dyn")
  | 19 => some (sh.setDyn w (if d.st = .sized then { d with st := .final } else d), finishS t .ok, "fchmod dyn final")
  -- the static config exists: does_exist_cfg opens it and looks at the permission; locked ⇒ HangsInCreation ⇒ AlreadyExists
  | 30 => if sh.static = .absent then some (sh, { t with pc := 1 }, "open static") else some (sh, { t with pc := 31 }, "open static")
  | 31 => if sh.static = .final then some (sh, { t with pc := 32 }, "fstat static") else some (sh, finishS t .alreadyExists, "fstat static")
  -- static storage `open(creation_timeout)` + read + deserialize ⇒ AlreadyExists
  | 32 => if sh.static = .absent then some (sh, { t with pc := 1 }, "open static") else some (sh, { t with pc := 33 }, "open static")
  | 33 => some (sh, { t with pc := 34 }, "fstat static")
  | 34 => some (sh, finishS t .alreadyExists, "read static")
  -- roll-back of a lost creation race: the owned tag is removed
  | 40 => some (sh.setTag w .absent, finishS t .alreadyExists, "unlink stag")
  | 41 => some (if ownStatic sh t then { sh with static := .absent } else sh, { t with pc := 42 }, "unlink static")
  | 42 => some (sh.setTag w .absent, finishS t .corrupted, "unlink stag")
  | _ => none

/-! ### cleaner: the survivor's `Node::list` + `DeadNodeView::try_remove_stale_resources` for the victim's node -/

def finishC (t : Th) (r : CRes) : Th := { t with pc := pcDone, cres := some r }

def cleanerStep (sh : Shared) (t : Th) : Option (Shared × Th × String) :=
  let p := t.who
  let d := sh.dyn t.seen
  match t.pc with
  -- Node::list + state() + ProcessCleaner::new, atomic (model Lifecycle.lean, theorems C07)
  | 0 => if !sh.node.present || sh.node.alive then some (sh, finishC t .notDead, "node:acquire")
         else match sh.node.lock with
           | some q => if q = p then some (sh, { t with pc := 1 }, "node:acquire") else some (sh, finishC t .anotherInstance, "node:acquire")
           | none => some ({ sh with node := { sh.node with lock := some p } }, { t with pc := 1 }, "node:acquire")
  -- Node::service_tags: static-storage listing of the node directory; entries with creation permission are skipped
  | 1 => if sh.tag0 = .final then some (sh, { t with pc := 2 }, "node:list-tags") else some (sh, { t with pc := 20 }, "node:list-tags")
  -- __internal_remove_node_from_service: read_static_service_config = open(ZERO): open, fstat (0600 ⇒ one 1 ms wait, second fstat ⇒ Ok(None))
  | 2 => if sh.static = .absent then some (sh, { t with pc := 15 }, "open static") else some (sh, { t with pc := 3 }, "open static")
  | 3 => if sh.static = .locked then some (sh, { t with pc := 4 }, "fstat static") else some (sh, { t with pc := 5 }, "fstat static")
  | 4 => if sh.static = .locked then some (sh, { t with pc := 15 }, "fstat static") else some (sh, { t with pc := 5 }, "fstat static")
  | 5 => some (sh, { t with pc := 6, seen := sh.inc }, "read static")
  -- open_dynamic_config: shm_open(O_RDWR) — ENOENT ⇒ DoesNotExist ⇒ Ok(None) ⇒ "corrupted service": removed completely.
  -- uid 0 opens a 0200 object (an ordinary user: EACCES ⇒ with timeout 0 InitializationNotYetFinalized at once, the same branch).
  | 6 => if d.st = .absent then some (sh, { t with pc := 10 }, "open dyn") else some (sh, { t with pc := 7 }, "open dyn")
  -- fstat: size 0 ⇒ MappingSizeIsZero ⇒ elapsed ≥ timeout (0) ⇒ InitializationNotYetFinalized ⇒ Ok(None) (since fix 150ae1b; before it
  -- this arm waited 1 ms and retried without any timeout check: the clean-up span for ever)
  | 7 => if d.st = .created then some (sh, { t with pc := 10 }, "fstat dyn") else some (sh, { t with pc := 8 }, "fstat dyn")
  | 8 => some (sh, { t with pc := 9 }, "mmap dyn")
  -- permission: not readable ⇒ elapsed ≥ timeout (0) ⇒ InitializationNotYetFinalized ⇒ Ok(None)
  | 9 => if d.st = .final then some (sh, { t with pc := 30 }, "fstat dyn") else some (sh, { t with pc := 10 }, "fstat dyn")
  -- version (0 ⇒ not finalised ⇒ Ok(None)), then remove_dead_node_id: the victim's node id is released; no owner left ⇒ the set is
  -- locked ⇒ NoMoreOwners ⇒ the service is removed; HasOwners ⇒ only the tag
  | 30 => if !d.versioned then some (sh, { t with pc := 10 }, "mem:version?")
          else some (sh.setDyn t.seen { d with regV := false }, { t with pc := if d.others = 0 then 10 else 15 }, "mem:remove dead node")
  -- __internal_remove_service: additional resources (type definition), dynamic config by name, static config LAST
  | 10 => some (sh, { t with pc := 11 }, "unlink typedef")
  | 11 => some (sh, { t with pc := 12 }, "rmdir typedir")
  | 12 => some (sh.setDyn t.seen { d with st := .absent }, { t with pc := 13 }, "unlink dyn")
  | 13 => some ({ sh with static := .absent }, { t with pc := 15 }, "unlink static")
  -- remove_service_tag (AlreadyRemoved tolerated)
  | 15 => some ({ sh with tag0 := .absent }, { t with pc := 20 }, "unlink stag")
  -- port tags (none), remove_node: details, rmdir (ENOTEMPTY: a tag with creation permission ⇒ cleaner.abandon() ⇒ InternalError),
  -- drop(cleaner) removes the token; atomic (Lifecycle.lean pc 26-42)
  | 20 => if sh.tag0 = .absent then some ({ sh with node := { sh.node with present := false, dir := false, lock := none } }, finishC t .ok, "node:remove")
          else some ({ sh with node := { sh.node with lock := none } }, finishC t .internalError, "node:remove")
  | _ => none

/-! ### opener (victim, node 0): `BuilderWithServiceType::open` of a service held by a living node (incarnation 2) -/

def openerStep (sh : Shared) (t : Th) : Option (Shared × Th × String) :=
  let d := sh.dyn t.seen
  match t.pc with
  -- cleanup_dead_nodes_on_open: __internal_details = read static (timeout 0) + open dynamic config; all registered nodes alive: no effect
  | 0 => if sh.static = .absent then some (sh, { t with pc := 8 }, "open static") else some (sh, { t with pc := 1 }, "open static")
  | 1 => if sh.static = .final then some (sh, { t with pc := 2 }, "fstat static") else some (sh, { t with pc := 60 }, "fstat static")
  | 60 => some (sh, { t with pc := 8 }, "fstat static")
  | 2 => some (sh, { t with pc := 3, seen := sh.inc }, "read static")
  | 3 => if (sh.dyn sh.inc).st = .final then some (sh, { t with pc := 4 }, "open dyn") else some (sh, { t with pc := 8 }, "open dyn")
  | 4 => some (sh, { t with pc := 5 }, "fstat dyn")
  | 5 => some (sh, { t with pc := 6 }, "mmap dyn")
  | 6 => some (sh, { t with pc := 8 }, "fstat dyn")
  -- is_service_available
  | 8 => if sh.static = .absent then some (sh, finishS t .doesNotExist, "access static") else some (sh, { t with pc := 9 }, "access static")
  | 9 => if sh.static = .absent then some (sh, finishS t .doesNotExist, "open static") else some (sh, { t with pc := 10 }, "open static")
  | 10 => if sh.static = .final then some (sh, { t with pc := 11 }, "fstat static") else some (sh, finishS t .hangsInCreation, "fstat static")
  | 11 => if sh.static = .absent then some (sh, finishS t .doesNotExist, "open static") else some (sh, { t with pc := 12 }, "open static")
  | 12 => some (sh, { t with pc := 13 }, "fstat static")
  | 13 => some (sh, { t with pc := 14, seen := sh.inc }, "read static")
  -- create_service_tag BEFORE the registration
  | 14 => some (sh.setTag 0 .init, { t with pc := 15 }, "creat stag")
  | 15 => some (sh, { t with pc := 16 }, "fchmod stag init")
  | 16 => some (sh, { t with pc := 17 }, "write stag")
  | 17 => some (sh, { t with pc := 18 }, "fsync stag")
  | 18 => some (sh.setTag 0 .final, { t with pc := 19 }, "fchmod stag final")
  -- open_dynamic_config_storage + register_node_id
  | 19 => if d.st = .final then some (sh, { t with pc := 20 }, "open dyn") else some (sh, { t with pc := 50 }, "open dyn")
  | 20 => some (sh, { t with pc := 21 }, "fstat dyn")
  | 21 => some (sh, { t with pc := 22 }, "mmap dyn")
  | 22 => some (sh, { t with pc := 23 }, "fstat dyn")
  | 23 => some (sh.setDyn t.seen { d with regV := true }, finishS t .ok, "mem:register node")
  -- dynamic config missing / not finalised: the tag of this round is dropped (the wait loop is not modelled: HangsInCreation at once)
  | 50 => some (sh.setTag 0 .absent, finishS t .hangsInCreation, "unlink stag")
  | _ => none

/-! ### the system -/

def stepL (sh : Shared) (t : Th) : Option (Shared × Th × String) :=
  match t.role with
  | .creator => creatorStep sh t
  | .opener => openerStep sh t
  | .cleaner => cleanerStep sh t

def sys : Sys Shared Th :=
  { step := fun sh t => (stepL sh t).map fun r => (r.1, r.2.1, [Ev.cell r.2.2]) }

/-- death of a process: the victim's node is no longer alive (its lock is gone); a cleaner's clean-up lock is released -/
def onDeath (sh : Shared) (t : Th) : Shared :=
  match t.role with
  | .cleaner => if sh.node.lock = some t.who then { sh with node := { sh.node with lock := none } } else sh
  | _ => if t.who = 0 then { sh with node := { sh.node with alive := false } } else sh

/-- processes that may die before any of their steps -/
def csys : Sys Shared (CTh Th) := sys.withCrash onDeath

def mkCreator (who : Nat) : Th := { role := .creator, who := who }
def mkOpener : Th := { role := .opener, who := 0 }
def mkCleaner (pid : Nat) : Th := { role := .cleaner, who := pid }

/-- more steps than any program takes (creator: 20 + its death, cleaner: 16, opener: 23 + its death; no program loops) -/
def fuel : Nat := 24

/-- one process running alone -/
def runSolo : Nat → Shared → Th → Shared × Th
  | 0, sh, t => (sh, t)
  | n + 1, sh, t =>
    match stepL sh t with
    | none => (sh, t)
    | some (sh', t', _) => runSolo n sh' t'

def traceSolo : Nat → Shared → Th → List String
  | 0, _, _ => []
  | n + 1, sh, t =>
    match stepL sh t with
    | none => []
    | some (sh', t', s) => s :: traceSolo n sh' t'

/-- one crash-wrapped process running alone until it cannot step any more (it finished, or it died) -/
def runC : Nat → Shared → CTh Th → Shared × CTh Th
  | 0, sh, t => (sh, t)
  | n + 1, sh, t =>
    match csys.step sh t with
    | none => (sh, t)
    | some (sh', t', _) => runC n sh' t'

/-- the state of a living holder's complete service (incarnation 2, one registered living node): start of the opener scenario -/
def heldService : Shared :=
  { static := .final, written := true, inc := 2, svcDir := true,
    dyn2 := { st := .final, inited := true, versioned := true, others := 1 } }

/-- orderly drop of the holder's service (ServiceState::drop): deregister; no owner left ⇒ dynamic and static config removed -/
def holderDrop (sh : Shared) : Shared :=
  let d := { sh.dyn2 with others := sh.dyn2.others - 1 }
  if d.others = 0 ∧ d.regV = false then { sh with dyn2 := { d with st := .absent }, static := if sh.inc = 2 then .absent else sh.static }
  else { sh with dyn2 := d }

/-! ### what is left, what the survivors report -/

/-- files of the victim (its node, its tag, the incarnations it created or registered in) that still exist -/
structure Left where
  static : StaticSt       -- the static config of the service name (whoever created it)
  dyn : DynSt             -- the victim's incarnation of the dynamic config
  tag : TagSt
  node : Bool             -- monitoring token (the node is still listed)
  dir : Bool              -- node directory / details
  held : DynSt := .absent -- opener scenario: the dynamic config of the living holder's incarnation
  reg : Bool := false     -- opener scenario: the victim's node id is registered in it
deriving Repr, DecidableEq, Inhabited

def leftOf (sh : Shared) : Left :=
  { static := sh.static, dyn := sh.dyn0.st, tag := sh.tag0, node := sh.node.present, dir := sh.node.dir,
    held := sh.dyn2.st, reg := sh.dyn2.regV }

def Left.none : Left := { static := .absent, dyn := .absent, tag := .absent, node := false, dir := false }

/-- the whole experiment for one crash point of the creator:
the victim (fuse = its crash point) runs alone until it is dead or has finished; survivor 1 runs the clean-up (it may itself
carry a fuse: second crash); a cleaner that has neither finished nor died after `fuel` steps would be killed (the harness's
time-out; no cleaner step loops any more since fix 150ae1b, so this never happens); survivor 2 runs a complete clean-up; (opener scenario: the living holder drops the service;) then the re-creator. -/
structure Outcome where
  victim : Option SRes        -- result of the victim's call if it returned
  dead : Bool                 -- the victim died
  before : Left               -- after the victim stopped
  clean1 : Option CRes        -- none: killed by its fuse
  clean2 : Option CRes
  after : Left                -- after the survivors' clean-up attempts
  afterDrop : Left            -- after the living holder (opener scenario) dropped its service
  recreate : Option SRes
deriving Repr, DecidableEq, Inhabited

def scenario (sh0 : Shared) (victim : Th) (fuseV fuseC : Option Nat) (held : Bool := false) : Outcome :=
  let v := runC fuel sh0 { inner := victim, fuse := fuseV }
  let c1 := runC fuel v.1 { inner := mkCleaner 7, fuse := fuseC }
  -- a cleaner that has neither finished nor died: the harness would kill it (unreachable, see above)
  let s1 := if c1.2.inner.cres.isNone && !c1.2.dead then onDeath c1.1 c1.2.inner else c1.1
  let c2 := runC fuel s1 { inner := mkCleaner 8 }
  let s2 := if c2.2.inner.cres.isNone then onDeath c2.1 c2.2.inner else c2.1
  let s3 := if held then holderDrop s2 else s2
  let r := runC fuel s3 { inner := mkCreator 1 }
  { victim := v.2.inner.sres, dead := v.2.dead, before := leftOf v.1, clean1 := c1.2.inner.cres, clean2 := c2.2.inner.cres,
    after := leftOf s2, afterDrop := leftOf s3, recreate := r.2.inner.sres }

/-- the creator scenario: fresh domain, victim = creator on node 0 -/
def creatorScenario (fuseV fuseC : Option Nat) : Outcome :=
  scenario {} (mkCreator 0) fuseV fuseC

/-- the opener scenario: a living holder's complete service; victim = opener on node 0; after the clean-up the holder drops the
service in an orderly way, then the re-creator -/
def openerScenario (fuseV fuseC : Option Nat) : Outcome :=
  scenario heldService mkOpener fuseV fuseC true

end Iox2.ServiceCrash
