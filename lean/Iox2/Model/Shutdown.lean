/-
C17 — orderly shutdown in any order.  On top of the publish-subscribe world (`Iox2.PubSub`): the node
handle and the service handle (port factory) are objects of their own that can be dropped at any
time; reference-counted cores keep what a live object needs:

  SharedNode   is kept by: the node handle, the service core
  service core is kept by: the service handle, every port core
  port core    is kept by: the port object, its loans (publisher) / its samples (subscriber)

`resources` lists what exists in the file system / shared memory namespace, by kind, exactly as the
harness counts it (`ls`).  One asymmetry of the code is transcribed: a port core removes its port tag
(a file inside the node's directory) AFTER releasing its reference to the service core, so when a
port core is the last owner of the node the directory cannot be removed (`rmdir` → ENOTEMPTY) and
stays behind (`nodeDirLeft`).
-/
import Iox2.Model.PubSub
namespace Iox2.Shutdown
open Iox2.PubSub

structure SWorld where
  w : World
  ipc : Bool := true
  node : Bool := true           -- the `Node` object exists
  svc : Bool := true            -- the `PortFactory` object exists
  nodeDirLeft : Bool := false   -- the node's directory survived the node

def portCores (w : World) : Nat :=
  (w.pubs.filter (·.2.ex)).length + (w.subs.filter (·.2.ex)).length

def svcCore (s : SWorld) : Bool := s.svc || portCores s.w > 0
def nodeCore (s : SWorld) : Bool := s.node || svcCore s

inductive SOp where
  | ps (op : Op)
  | dnode | dsvc | ls

/-- (kind, count) pairs in the order of the kind names -/
def resources (s : SWorld) : List (String × Nat) :=
  if !s.ipc then [] else
  let n := if nodeCore s then 1 else 0
  let v := if svcCore s then 1 else 0
  let pubsEx := (s.w.pubs.filter (·.2.ex)).length
  let all := [("connection", s.w.conns.length), ("data", pubsEx), ("details", n), ("dynamic", v),
              ("node_monitor", n), ("node_monitor_context", n), ("node_monitor_owner_lock", n),
              ("nodedir", if nodeCore s || s.nodeDirLeft then 1 else 0),
              ("port_tag", portCores s.w), ("service", v), ("service_tag", v)]
  all.filter (·.2 ≠ 0)

def showResources (r : List (String × Nat)) : String :=
  if r.isEmpty then "-" else String.intercalate "," (r.map fun (k, c) => s!"{k}={c}")

/-- the operation released the last reference to the node from inside a port core's destructor -/
def lastOwnerWasPort (before after : SWorld) : Bool :=
  nodeCore before && !nodeCore after

def step (s : SWorld) : SOp → SWorld × String
  | .ps op =>
    match op with
    | .cpub _ _ | .csub _ _ _ =>
      if !s.svc then (s, "no-service") else
      let (w', out) := PubSub.step s.w op
      ({ s with w := w' }, out)
    | _ =>
      let (w', out) := PubSub.step s.w op
      let s' := { s with w := w' }
      -- only a port core's destruction can be what happens here
      ({ s' with nodeDirLeft := s.nodeDirLeft || lastOwnerWasPort s s' }, out)
  | .dnode => if s.node then ({ s with node := false }, "ok") else (s, "none")
  | .dsvc => if s.svc then ({ s with svc := false }, "ok") else (s, "none")
  | .ls => (s, showResources (resources s))

def run (s : SWorld) (ops : List SOp) : SWorld := ops.foldl (fun s op => (step s op).1) s

def SWorld.init (c : Cfg) (ipc : Bool) : SWorld := { w := World.init c, ipc := ipc }

/-- every object the application created is gone -/
def AllDropped (s : SWorld) : Prop :=
  s.node = false ∧ s.svc = false ∧
  (∀ e ∈ s.w.pubs, e.2.alive = false ∧ e.2.loans = []) ∧ (∀ e ∈ s.w.subs, e.2.alive = false ∧ e.2.held = [])

inductive Reach (c : Cfg) (ipc : Bool) : SWorld → Prop
  | init : Reach c ipc (SWorld.init c ipc)
  | step {s : SWorld} (op : SOp) : Reach c ipc s → s.w.panicked = false → Reach c ipc (step s op).1

end Iox2.Shutdown
