/-
L2 model of `iceoryx2-bb/lock-free/src/mpmc/container.rs` (`Container<T>`, the port registry):
a `RobustUniqueIndexSet` (model `Iox2.RUIS`, run as a sub-machine), per slot an
`element_generation_counter` (odd = slot holds data) and the data cell (copied word by word:
a torn copy is expressible), and the `change_counter`.  One `PC` constructor per atomic
operation / cell access of `add`, `remove`, `update_state`, `recover`.
-/
import Iox2.Model.RobustIndexSet
namespace Iox2.Container
open Iox2.Sched
open Iox2.RUIS (RSh Mode Res)

structure Sh where
  r      : RSh
  width  : Nat
  egc    : List Nat
  data   : List (List Nat)
  change : Nat
  /-- ghost: per slot, every `(generation, value)` ever published by a completed `add` -/
  published : List (List (Nat × List Nat))
  /-- ghost: `(slot, generation)` of every entry whose removal (`remove` / `recover`) has completed -/
  removedDone : List (Nat × Nat) := []
  /-- ghost: number of threads that can still take a step (not dead, not out of commands) -/
  busy : Nat := 0
deriving Repr

def Sh.init (cap width : Nat) : Sh :=
  { r := RSh.init cap, width := width, egc := List.replicate cap 0, data := List.replicate cap (List.replicate width 0),
    change := 0, published := List.replicate cap [] }

/-- the reader's `ContainerState` -/
structure Snapshot where
  change : Nat
  egc    : List Nat
  data   : List (List Nat)
deriving Repr, DecidableEq

def Snapshot.init (cap width : Nat) : Snapshot :=
  { change := 0, egc := List.replicate cap 0, data := List.replicate cap (List.replicate width 0) }

/-- the entries a snapshot exposes (`for_each`): slots with an odd generation -/
def Snapshot.entries (s : Snapshot) : List (Nat × Nat × List Nat) :=
  (List.range s.egc.length).filterMap fun i =>
    let g := s.egc.getD i 0
    if g % 2 = 1 then some (i, g, s.data.getD i []) else none

/-- the entries currently registered in the shared container -/
def Sh.entries (s : Sh) : List (Nat × Nat × List Nat) :=
  (List.range s.egc.length).filterMap fun i =>
    let g := s.egc.getD i 0
    if g % 2 = 1 then some (i, g, s.data.getD i []) else none

/-- ghost record of one completed `update_state` -/
structure UpdateRec where
  result : Bool
  snap   : Snapshot
  /-- removals that had completed when the update began -/
  removedAtBegin : List (Nat × Nat)
  /-- no other thread could take a step when the update began (all finished, dead or out of commands) -/
  quiet  : Bool
  /-- the registered entries at the moment the update returned -/
  sharedAtEnd : List (Nat × Nat × List Nat)
deriving Repr

inductive Cmd where
  | add (v : List Nat)
  | remove (pos : Nat) (m : Mode)      -- remove the `pos`-th entry this thread added
  | update                             -- `update_state` on the thread's own snapshot
  | recover (dead : Nat) (m : Mode)    -- recover the entries of a dead owner (predicate: all of them)
  | die
deriving Repr, DecidableEq

/-- which container operation an index-set sub-operation belongs to -/
inductive Ctx where
  | add (v : List Nat)
  | remove (idx g : Nat)
  | recover (dead : Nat) (m : Mode)
deriving Repr, DecidableEq

inductive PC where
  | ix (p : RUIS.PC) (c : Ctx)
  -- add, after the index was acquired
  | addEdist (idx : Nat) (v : List Nat) | addLdEgc (idx : Nat) (v : List Nat) | addCasEgc (idx g : Nat) (v : List Nat)
  | addDdist (idx : Nat) (v : List Nat) | addCell (idx : Nat) (v : List Nat) | addWord (idx k : Nat) (v : List Nat)
  | addIncEgc (idx : Nat) (v : List Nat) | addIncChange (idx : Nat) | addRetDist (idx : Nat) | addRetCell (idx : Nat)
  -- remove
  | rmEdist (idx : Nat) (m : Mode) | rmLdEgc (idx : Nat) (m : Mode) | rmCasEgc (g idx : Nat) (locked : Bool) | rmIncChange (g idx : Nat) (locked : Bool)
  -- update_state
  | upLdChange | upEdist | upLdEgc (i : Nat) | upDdist (i g : Nat) | upCell (i g : Nat) | upWord (i g k : Nat)
  | upCas (i g : Nat)
  -- recover: predicate (snapshot of the entry under the slot's sequence lock) and success hook
  | rvEdist (p : RUIS.PC) (dead : Nat) (m : Mode) (n : Nat) | rvLdEgc (p : RUIS.PC) (dead : Nat) (m : Mode) (n : Nat)
  | rvDdist (p : RUIS.PC) (dead : Nat) (m : Mode) (n g : Nat) | rvCell (p : RUIS.PC) (dead : Nat) (m : Mode) (n g : Nat)
  | rvWord (p : RUIS.PC) (dead : Nat) (m : Mode) (n g k : Nat) | rvCas (p : RUIS.PC) (dead : Nat) (m : Mode) (n g : Nat)
  | rvHookDist (p : RUIS.PC) (dead : Nat) (m : Mode) (n g : Nat) | rvHookCas (p : RUIS.PC) (dead : Nat) (m : Mode) (n g : Nat)
  | rvIncChange (locked : Bool)
  | rvSkipDist (p : RUIS.PC) (dead : Nat) (m : Mode)   -- the predicate computes the slot's counter address before it looks at the owner
deriving Repr, DecidableEq

structure Th where
  owner : Nat
  pc    : Option PC := none
  gate  : Option (Nat × Mode) := none
  todo  : List Cmd
  /-- handles of the entries this thread added: (index, generation at which it was published, value) -/
  mine  : List (Nat × Nat × List Nat) := []
  snap  : Snapshot
  dead  : Bool := false
  /-- ghost: the generation seen by the recover predicate for the slot under inspection -/
  rvGen : Nat := 0
  /-- ghost: entries removed by the recovery in progress -/
  rvDone : List (Nat × Nat) := []
  /-- ghost: what was true when the update in progress began -/
  upBegin : List (Nat × Nat) × Bool := ([], false)
  /-- ghost: every completed `update_state` -/
  updates : List UpdateRec := []
deriving Repr

def Th.init (owner cap width : Nat) (prog : List Cmd) : Th :=
  { owner := owner, todo := prog, snap := Snapshot.init cap width }

def enabled (t : Th) : Cmd → Bool
  | .remove pos _ => pos < t.mine.length
  | _ => true

def nextCmd (t : Th) : List Cmd → Option (Cmd × List Cmd)
  | [] => none
  | c :: rest => if enabled t c then some (c, rest) else nextCmd t rest

def settle (s : Sh) (t : Th) : Sh × Th :=
  match nextCmd t t.todo with
  | some (.die, _) => ({ s with r := { s.r with deadOwners := t.owner :: s.r.deadOwners } }, { t with dead := true, todo := [] })
  | _ => (s, t)

def egcVar (i : Nat) : String := s!"egc[{i}]"
def dataVar (i : Nat) : String := s!"data[{i}]"
def lockedStr (b : Bool) : String := if b then "locked" else "unlocked"
def showWords (ws : List Nat) : String := String.intercalate "," (ws.map toString)
def showSnap (s : Snapshot) : String :=
  String.intercalate ";" (s.entries.map fun (i, _, v) => s!"{i}={showWords v}")

/-- an operation of the thread finished: clear the pc, emit the return record, maybe die -/
def retire (s : Sh) (t : Th) : Sh :=
  if t.dead ∨ (nextCmd t t.todo).isNone then { s with busy := s.busy - 1 } else s

def finish (s : Sh) (t : Th) (evs : List Ev) (ret : String) : Sh × Th × List Ev :=
  let (s', t') := settle s { t with pc := none }
  (retire s' t', t', evs ++ [.ret ret])

def setWord (d : List (List Nat)) (i k x : Nat) : List (List Nat) := d.modify i fun ws => ws.set k x

/-- next index of the recover loop, as the index set computes it -/
def rcNext (s : Sh) (m : Mode) (dead n : Nat) : RUIS.PC :=
  if n + 1 < s.r.cap then .rcLoad m dead (n + 1) else .rcFinal dead

/-- continue an index-set sub-operation: run one of its steps and dispatch on what it leaves behind -/
def stepIx (s : Sh) (t : Th) (p : RUIS.PC) (c : Ctx) : Sh × Th × List Ev :=
  let o := RUIS.stepOp s.r p
  let s1 := { s with r := o.sh }
  match o.next with
  | .inl p' =>
      match c, p' with
      -- recover: a cell owned by somebody else: the predicate is entered (address computation) and says no
      | .recover dead m, .rcLoad _ _ _ | .recover dead m, .rcFinal _ =>
          match p with
          | .rcLoad _ _ n =>
              let cur := s.r.cells.getD n RUIS.EMPTY
              if cur ≠ RUIS.EMPTY ∧ cur ≠ dead then (s1, { t with pc := some (.rvSkipDist p' dead m) }, o.evs)
              else (s1, { t with pc := some (.ix p' c) }, o.evs)
          | _ =>
            match o.recovered with
            | (_, n) :: _ => (s1, { t with pc := some (.rvHookDist p' dead m n t.rvGen) }, o.evs)
            | [] => (s1, { t with pc := some (.ix p' c) }, o.evs)
      -- recover: before the index set's CAS of a cell owned by the dead owner, the container's predicate runs
      | .recover dead m, .rcCas _ _ n _ => (s1, { t with pc := some (.rvEdist p' dead m n) }, o.evs)
      | _, _ =>
        -- recover: after a successful cell CAS, the success hook bumps the slot's generation
        match c, o.recovered with
        | .recover dead m, (_, n) :: _ => (s1, { t with pc := some (.rvHookDist p' dead m n t.rvGen) }, o.evs)
        | _, _ => (s1, { t with pc := some (.ix p' c) }, o.evs)
  | .inr r =>
      match c, r with
      | .add v, .acquired idx => (s1, { t with pc := some (.addEdist idx v) }, o.evs)
      | .add _, .errLocked => finish s1 t o.evs "add err:IsLocked"
      | .add _, .errOut => finish s1 t o.evs "add err:OutOfSpace"
      | .remove idx g, .released l => (s1, { t with pc := some (.rmCasEgc g idx l) }, o.evs)
      | .remove _ _, .errNotOwned => finish s1 t o.evs "remove err:NotOwned"
      | .recover _ _, .recovered l => (s1, { t with pc := some (.rvIncChange l) }, o.evs)
      | _, _ => finish s1 t o.evs "internal-error"

def stepPC (s : Sh) (t : Th) : PC → Sh × Th × List Ev
  | .ix p c => stepIx s t p c
  -- add
  | .addEdist idx v => (s, { t with pc := some (.addLdEgc idx v) }, [.load "edist" .rlx 0])
  | .addLdEgc idx v =>
      let g := s.egc.getD idx 0
      (s, { t with pc := some (if g % 2 = 1 then .addCasEgc idx g v else .addDdist idx v) }, [.load (egcVar idx) .acq g])
  | .addCasEgc idx g v =>
      let cur := s.egc.getD idx 0
      if cur = g then ({ s with egc := s.egc.set idx (g + 1) }, { t with pc := some (.addDdist idx v) }, [.cas (egcVar idx) .acqrel .acq g (g + 1) true])
      else (s, { t with pc := some (.addDdist idx v) }, [.cas (egcVar idx) .acqrel .acq cur (g + 1) false])
  | .addDdist idx v => (s, { t with pc := some (.addCell idx v) }, [.load "ddist" .rlx 0])
  | .addCell idx v => (s, { t with pc := some (.addWord idx 0 v) }, [.cell (dataVar idx)])
  | .addWord idx k v =>
      if k < s.width then ({ s with data := setWord s.data idx k (v.getD k 0) }, { t with pc := some (.addWord idx (k + 1) v) }, [])
      else (s, t, [])          -- unreachable: normalised away in `step`
  | .addIncEgc idx v =>
      let g := s.egc.getD idx 0
      ({ s with egc := s.egc.set idx (g + 1),
                published := s.published.modify idx fun l => l ++ [(g + 1, v)] },
       { t with pc := some (.addIncChange idx), mine := t.mine ++ [(idx, g + 1, v)] }, [.rmw "fadd" (egcVar idx) .rel g (g + 1)])
  | .addIncChange idx => ({ s with change := s.change + 1 }, { t with pc := some (.addRetDist idx) }, [.rmw "fadd" "change" .rel s.change (s.change + 1)])
  | .addRetDist idx => (s, { t with pc := some (.addRetCell idx) }, [.load "ddist" .rlx 0])
  | .addRetCell idx => finish s t [.cell (dataVar idx)] s!"add ok:{idx}"
  -- remove
  | .rmEdist idx m => (s, { t with pc := some (.rmLdEgc idx m) }, [.load "edist" .rlx 0])
  | .rmLdEgc idx m =>
      let g := s.egc.getD idx 0
      (s, { t with pc := some (.ix (.rlDist idx t.owner m) (.remove idx g)) }, [.load (egcVar idx) .acq g])
  | .rmCasEgc g idx l =>
      let cur := s.egc.getD idx 0
      if cur = g then ({ s with egc := s.egc.set idx (g + 1) }, { t with pc := some (.rmIncChange g idx l) }, [.cas (egcVar idx) .rlx .rlx g (g + 1) true])
      else (s, { t with pc := some (.rmIncChange g idx l) }, [.cas (egcVar idx) .rlx .rlx cur (g + 1) false])
  | .rmIncChange g idx l =>
      finish { s with change := s.change + 1, removedDone := s.removedDone ++ [(idx, g)] } t
        [.rmw "fadd" "change" .rel s.change (s.change + 1)] s!"remove {lockedStr l}"
  -- update_state
  | .upLdChange =>
      if t.snap.change = s.change then
        finish s { t with updates := t.updates ++ [{ result := false, snap := t.snap, removedAtBegin := t.upBegin.1, quiet := t.upBegin.2, sharedAtEnd := s.entries }] }
          [.load "change" .acq s.change] "update false"
      else (s, { t with pc := some .upEdist, snap := { t.snap with change := s.change } }, [.load "change" .acq s.change])
  | .upEdist =>
      if 0 < s.r.cap then (s, { t with pc := some (.upLdEgc 0) }, [.load "edist" .rlx 0])
      else finish s { t with updates := t.updates ++ [{ result := true, snap := t.snap, removedAtBegin := t.upBegin.1, quiet := t.upBegin.2, sharedAtEnd := s.entries }] }
        [.load "edist" .rlx 0] s!"update true {showSnap t.snap}"
  | .upLdEgc i =>
      let g := s.egc.getD i 0
      upAfterGen s t i g [.load (egcVar i) .acq g]
  | .upDdist i g => (s, { t with pc := some (.upCell i g) }, [.load "ddist" .rlx 0])
  | .upCell i g => (s, { t with pc := some (.upWord i g 0) }, [.cell (dataVar i)])
  | .upWord i g k =>
      if k < s.width then
        (s, { t with pc := some (.upWord i g (k + 1)),
                     snap := { t.snap with data := setWord t.snap.data i k ((s.data.getD i []).getD k 0) } }, [])
      else (s, t, [])
  | .upCas i g =>
      let cur := s.egc.getD i 0
      if cur = g then upNext s t i [.cas (egcVar i) .acqrel .sc g g true]
      else upAfterGen s t i cur [.cas (egcVar i) .acqrel .sc cur g false]
  -- recover predicate: snapshot of the entry under its sequence lock (user predicate: true)
  | .rvEdist p dead m n => (s, { t with pc := some (.rvLdEgc p dead m n) }, [.load "edist" .rlx 0])
  | .rvLdEgc p dead m n =>
      let g := s.egc.getD n 0
      if g % 2 = 1 then (s, { t with pc := some (.rvDdist p dead m n g), rvGen := g }, [.load (egcVar n) .acq g])
      else (s, { t with pc := some (.ix p (.recover dead m)), rvGen := g }, [.load (egcVar n) .acq g])
  | .rvDdist p dead m n g => (s, { t with pc := some (.rvCell p dead m n g) }, [.load "ddist" .rlx 0])
  | .rvCell p dead m n g => (s, { t with pc := some (.rvWord p dead m n g 0) }, [.cell (dataVar n)])
  | .rvWord p dead m n g k =>
      if k < s.width then (s, { t with pc := some (.rvWord p dead m n g (k + 1)) }, []) else (s, t, [])
  | .rvCas p dead m n g =>
      let cur := s.egc.getD n 0
      if cur = g then (s, { t with pc := some (.ix p (.recover dead m)), rvGen := g }, [.cas (egcVar n) .acqrel .acq g g true])
      else if cur % 2 = 1 then (s, { t with pc := some (.rvDdist p dead m n cur), rvGen := cur }, [.cas (egcVar n) .acqrel .acq cur g false])
      else (s, { t with pc := some (.ix p (.recover dead m)), rvGen := cur }, [.cas (egcVar n) .acqrel .acq cur g false])
  | .rvHookDist p dead m n g =>
      -- success hook: nothing to set to empty when the dead owner never published an element
      -- (even generation: it died inside `add`); no memory access happens in that case
      if g % 2 = 1 then (s, { t with pc := some (.rvHookCas p dead m n g) }, [.load "edist" .rlx 0])
      else (s, { t with pc := some (.ix p (.recover dead m)) }, [])
  | .rvHookCas p dead m n g =>
      let cur := s.egc.getD n 0
      if cur = g then ({ s with egc := s.egc.set n (g + 1) }, { t with pc := some (.ix p (.recover dead m)), rvDone := t.rvDone ++ [(n, g)] },
                       [.cas (egcVar n) .rlx .rlx g (g + 1) true])
      else (s, { t with pc := some (.ix p (.recover dead m)), rvDone := t.rvDone ++ [(n, g)] }, [.cas (egcVar n) .rlx .rlx cur (g + 1) false])
  | .rvSkipDist p dead m => (s, { t with pc := some (.ix p (.recover dead m)) }, [.load "edist" .rlx 0])
  | .rvIncChange l =>
      finish { s with change := s.change + 1, removedDone := s.removedDone ++ t.rvDone } { t with rvDone := [] }
        [.rmw "fadd" "change" .rel s.change (s.change + 1)] s!"recover {lockedStr l}"
where
  /-- the slot loop of `update_state` after a generation value `g` was obtained for slot `i` -/
  upAfterGen (s : Sh) (t : Th) (i g : Nat) (evs : List Ev) : Sh × Th × List Ev :=
    if g = t.snap.egc.getD i 0 then upNext s t i evs
    else
      let t' := { t with snap := { t.snap with egc := t.snap.egc.set i g } }
      if g % 2 = 1 then (s, { t' with pc := some (.upDdist i g) }, evs)
      else (s, { t' with pc := some (.upCas i g) }, evs)
  upNext (s : Sh) (t : Th) (i : Nat) (evs : List Ev) : Sh × Th × List Ev :=
    if i + 1 < s.r.cap then (s, { t with pc := some (.upLdEgc (i + 1)) }, evs)
    else finish s { t with updates := t.updates ++ [{ result := true, snap := t.snap, removedAtBegin := t.upBegin.1, quiet := t.upBegin.2, sharedAtEnd := s.entries }] }
      evs s!"update true {showSnap t.snap}"

/-- the word loops end by falling through to the next visible operation -/
def normalize (s : Sh) : PC → PC
  | .addWord idx k v => if k < s.width then .addWord idx k v else .addIncEgc idx v
  | .upWord i g k => if k < s.width then .upWord i g k else .upCas i g
  | .rvWord p dead m n g k => if k < s.width then .rvWord p dead m n g k else .rvCas p dead m n g
  | pc => pc

def start (s : Sh) (t : Th) : Cmd → Th
  | .add v => { t with pc := some (.ix (.acDist t.owner) (.add v)) }
  | .remove pos m =>
      let (idx, _, _) := t.mine.getD pos (0, 0, [])
      { t with pc := some (.rmEdist idx m), mine := t.mine.eraseIdx pos }
  | .update => { t with pc := some .upLdChange, upBegin := (s.removedDone, decide (s.busy = 1)) }
  | .recover dead m => { t with gate := some (dead, m) }
  | .die => { t with dead := true, todo := [] }

def stepGate (s : Sh) (t : Th) : Option (Sh × Th × List Ev) :=
  match t.gate with
  | some (dead, m) =>
      if dead ∈ s.r.deadOwners then some (s, { t with gate := none, pc := some (.ix (.rcIsLocked m dead) (.recover dead m)) }, [.cell "gate"])
      else
        let (s', t') := settle s { t with gate := none }
        some (retire s' t', t', [.cell "gate", .ret "recover skipped"])
  | none => none

def step (s : Sh) (t : Th) : Option (Sh × Th × List Ev) :=
  if t.dead then none else
  match t.pc with
  | some pc => some (stepPC s t (normalize s pc))
  | none =>
    match t.gate with
    | some _ => stepGate s t
    | none =>
      match nextCmd t t.todo with
      | none => none
      | some (.die, _) => none
      | some (c, rest) =>
          let t' := start s { t with todo := rest } c
          match t'.pc with
          | some pc => some (stepPC s t' (normalize s pc))
          | none => stepGate s t'

def sys : Sys Sh Th := { step := step }

/-- initial configuration: threads whose program starts with `die` are dead from the start;
`busy` counts the threads that have something to do -/
def initCfg (cap width : Nat) (ths : List Th) : Cfg Sh Th :=
  let c := ths.foldl (fun (c : Cfg Sh Th) t => let (sh, t') := settle c.sh t; { sh := sh, th := c.th ++ [t'] })
    { sh := Sh.init cap width, th := [] }
  { c with sh := { c.sh with busy := (c.th.filter fun t => !t.dead && (nextCmd t t.todo).isSome).length } }

end Iox2.Container
