/-
Model of `iceoryx2-bb/container/src/slotmap.rs` (`MetaSlotMap`), transcribed as coded:
`idx_to_data`, the doubly linked `idx_to_data_free_list` with its head, `data`, and the FIFO
`data_next_free_index`.  `INVALID = usize::MAX` is `none`.
-/
import Iox2.Model.Vec
namespace Iox2.SlotMap
open Iox2.Vec (Elem)

structure Entry where
  prev : Option Nat
  next : Option Nat
deriving Repr, DecidableEq, Inhabited

inductive Op (α : Type) where
  | insert (e : α)
  | insertAt (k : Nat) (e : α)
  | remove (k : Nat)
  | get (k : Nat)
  | contains (k : Nat)
  | nextFreeKey
  | dump
  | dropAll

inductive Out (α : Type) where
  | tt | ff
  | key (k : Nat)
  | some (e : α)
  | none
  | contents (items : List (Nat × α)) (len cap : Nat)
  | panic

structure St (α : Type) where
  cap       : Nat
  idxToData : List (Option Nat)
  freeList  : List Entry
  head      : Option Nat
  data      : List (Option α)
  dataFree  : List Nat          -- `data_next_free_index` queue, oldest first
  len       : Nat

def initFree (cap : Nat) : List Entry :=
  (List.range cap).map fun n =>
    { prev := if n = 0 then none else some (n - 1), next := if n + 1 < cap then some (n + 1) else none }

/-- `new` / `initialize_data_structures` -/
def init {α : Type} (cap : Nat) : St α :=
  { cap := cap, idxToData := List.replicate cap none, freeList := initFree cap,
    head := if cap = 0 then none else some 0,
    data := List.replicate cap none, dataFree := List.range cap, len := 0 }

def setPrev (fl : List Entry) (i : Nat) (p : Option Nat) : List Entry :=
  fl.modify i fun e => { e with prev := p }
def setNext (fl : List Entry) (i : Nat) (n : Option Nat) : List Entry :=
  fl.modify i fun e => { e with next := n }

variable {α : Type}

/-- `acquire_next_free_index`; `none` result of the outer option = index panic -/
def acquireNextFreeIndex (s : St α) : Option (St α × Option Nat) :=
  match s.head with
  | none => some (s, none)
  | some free =>
    match s.freeList[free]? with
    | none => none                      -- out-of-bounds index: panic
    | some ent =>
      let fl := match ent.next with
        | some nx => setPrev s.freeList nx none
        | none => s.freeList
      some ({ s with freeList := fl, head := ent.next }, some free)

/-- `claim_index` -/
def claimIndex (s : St α) (idx : Nat) : St α :=
  if idx ≥ s.cap then s else
  if (s.idxToData.getD idx none).isSome then s else     -- in use: not part of the free list
  match s.freeList[idx]? with
  | none => s
  | some ent =>
    let s := if s.head = some idx then { s with head := ent.next } else s
    let fl := s.freeList
    let fl := match ent.prev with | some p => setNext fl p ent.next | none => fl
    let fl := match ent.next with | some n => setPrev fl n ent.prev | none => fl
    let fl := setNext fl idx none
    let fl := setPrev fl idx none
    { s with freeList := fl }

/-- `release_free_index` -/
def releaseFreeIndex (s : St α) (idx : Nat) : St α :=
  let fl := match s.head with | some h => setPrev s.freeList h (some idx) | none => s.freeList
  let fl := fl.set idx { prev := none, next := s.head }
  { s with freeList := fl, head := some idx }

/-- `store_value`; `none` = panic -/
def storeValue (s : St α) (k : Nat) (e : α) : Option (St α × Bool × List α) :=
  if k ≥ s.cap then some (s, false, [e]) else
  match s.idxToData[k]? with
  | none => none                         -- `idx_to_data[key]` out of bounds: panic
  | some (some di) =>
      let old := s.data.getD di none
      some ({ s with data := s.data.set di (some e) }, true, old.toList)
  | some none =>
    match s.dataFree with
    | [] => none                         -- `.expect(...)`: panic
    | n :: rest =>
      some ({ s with dataFree := rest, idxToData := s.idxToData.set k (some n),
                     data := s.data.set n (some e), len := s.len + 1 }, true, [])

def items (s : St α) : List (Nat × α) :=
  (List.range s.idxToData.length).filterMap fun k =>
    match s.idxToData.getD k none with
    | none => none
    | some di => (s.data.getD di none).map fun e => (k, e)

/-- returns the new state, the output and the elements dropped by the container during the call -/
def step (s : St α) : Op α → St α × Out α × List α
  | .insert e =>
      match acquireNextFreeIndex s with
      | none => (s, .panic, [])
      | some (s1, none) => (s1, .none, [e])
      | some (s1, some k) =>
        match storeValue s1 k e with
        | none => (s, .panic, [])
        | some (s2, _, d) => (s2, .key k, d)
  | .insertAt k e =>
      let s1 := claimIndex s k
      match storeValue s1 k e with
      | none => (s, .panic, [])
      | some (s2, true, d) => (s2, .tt, d)
      | some (s2, false, d) => (s2, .ff, d)
  | .remove k =>
      if k ≥ s.idxToData.length then (s, .none, []) else
      match s.idxToData[k]? with
      | none => (s, .panic, [])
      | some none => (s, .none, [])
      | some (some di) =>
        let ret := s.data.getD di none
        let s1 := { s with data := s.data.set di none, dataFree := s.dataFree ++ [di] }
        let s2 := releaseFreeIndex s1 k
        let s3 := { s2 with idxToData := s2.idxToData.set k none, len := s2.len - 1 }
        (s3, (match ret with | some e => .some e | none => .none), [])
  | .get k =>
      match s.idxToData[k]? with
      | none => (s, .none, [])
      | some none => (s, .none, [])
      | some (some di) => (s, (match s.data.getD di none with | some e => .some e | none => .panic), [])
  | .contains k =>
      match s.idxToData[k]? with
      | none => (s, .ff, [])
      | some none => (s, .ff, [])
      | some (some _) => (s, .tt, [])
  | .nextFreeKey => (s, (match s.head with | some h => .key h | none => .none), [])
  | .dump => (s, .contents (items s) s.len s.cap, [])
  | .dropAll => ({ s with data := s.data.map fun _ => none }, .tt, s.data.filterMap id)

end Iox2.SlotMap
