/-
Model of `iceoryx2-bb/container/src/vector/mod.rs` (trait `Vector<T>`, shared by `StaticVec`,
`PolymorphicVec`, `RelocatableVec`).  Import-free (core only) so that the driver links.

Elements carry an identity (`id`) so that the model can say which element is dropped when:
the harness' element type logs its `Drop`.
-/
namespace Iox2.Vec

structure Elem where
  id  : Nat
  val : Nat
deriving Repr, DecidableEq, Inhabited

inductive Op where
  | push (e : Elem)
  | pop
  | insert (i : Nat) (e : Elem)
  | remove (i : Nat)
  | clear
  | truncate (n : Nat)
  | resize (n : Nat) (e : Elem)
  | extend (es : List Elem)
  | dump
  | dropAll
deriving Repr

inductive Out where
  | ok
  | errCap
  | errOob
  | some (e : Elem)
  | none
  | contents (items : List Elem) (cap : Nat)
deriving Repr, DecidableEq

structure St where
  cap       : Nat
  items     : List Elem
  nextClone : Nat
deriving Repr

def init (cap : Nat) : St := { cap := cap, items := [], nextClone := 100000 }

/-- `n` clones of `e`, with fresh ids starting at `next` -/
def clones (e : Elem) (next : Nat) : Nat → List Elem
  | 0 => []
  | n+1 => { id := next, val := e.val } :: clones e (next+1) n

def cloneAll (next : Nat) : List Elem → List Elem
  | [] => []
  | e :: es => { id := next, val := e.val } :: cloneAll (next+1) es

/-- result of one operation: new state, output, ids of the elements dropped *by the container*
during the call (an element passed by value to a failing call is dropped by the call) -/
def step (s : St) : Op → St × Out × List Nat
  | .push e =>
      if s.items.length = s.cap then (s, .errCap, [e.id])
      else ({ s with items := s.items ++ [e] }, .ok, [])
  | .pop =>
      match s.items.getLast? with
      | Option.none => (s, .none, [])
      | Option.some e => ({ s with items := s.items.dropLast }, .some e, [])
  | .insert i e =>
      if s.items.length = s.cap then (s, .errCap, [e.id])
      else if i > s.items.length then (s, .errOob, [e.id])
      else ({ s with items := s.items.take i ++ e :: s.items.drop i }, .ok, [])
  | .remove i =>
      match s.items[i]? with
      | Option.none => (s, .none, [])
      | Option.some e => ({ s with items := s.items.eraseIdx i }, .some e, [])
  | .clear => ({ s with items := [] }, .ok, (s.items.map (·.id)).reverse)
  | .truncate n =>
      ({ s with items := s.items.take n }, .ok, ((s.items.drop n).map (·.id)).reverse)
  | .resize n e =>
      if s.cap < n then (s, .errCap, [e.id])
      else if n < s.items.length then
        ({ s with items := s.items.take n }, .ok, ((s.items.drop n).map (·.id)).reverse ++ [e.id])
      else
        let k := n - s.items.length
        ({ s with items := s.items ++ clones e s.nextClone k, nextClone := s.nextClone + k }, .ok, [e.id])
  | .extend es =>
      if s.cap < s.items.length + es.length then (s, .errCap, [])
      else ({ s with items := s.items ++ cloneAll s.nextClone es,
                     nextClone := s.nextClone + es.length }, .ok, [])
  | .dump => (s, .contents s.items s.cap, [])
  | .dropAll => ({ s with items := [] }, .ok, (s.items.map (·.id)).reverse)

end Iox2.Vec
