/-
Arithmetic models of the shared-memory allocators (C15):
  * `iceoryx2-bb/elementary/src/math.rs`            `align`
  * `iceoryx2-bb/memory/src/pool_allocator.rs`      `PoolAllocator::{new_uninit, calc_number_of_buckets, allocate, get_index}`
  * `iceoryx2-bb/elementary/src/bump_allocator.rs`  `BumpAllocator::allocate`
  * `iceoryx2-cal/src/shm_allocator/pointer_offset.rs`  `PointerOffset`
  * `iceoryx2-cal/src/shm_allocator/pool_allocator.rs`  `resize_hint`
Addresses and sizes are `Nat` (`usize` overflow is out of scope, DESIGN §6.7).
-/
namespace Iox2.Alloc

/-- `math::align(value, alignment)` -/
def alignUp (v a : Nat) : Nat := if v % a = 0 then v else v + a - v % a

/-! ### pool allocator -/
structure Pool where
  ptr         : Nat   -- start of the managed memory
  size        : Nat   -- its size
  bucketSize  : Nat   -- bucket_layout.size()
  bucketAlign : Nat   -- bucket_layout.align()
deriving Repr

namespace Pool
def start (p : Pool) : Nat := alignUp p.ptr p.bucketAlign
/-- the stride between buckets (`self.bucket_size` after construction) -/
def stride (p : Pool) : Nat := alignUp p.bucketSize p.bucketAlign
def nBuckets (p : Pool) : Nat := (p.ptr + p.size - p.start) / alignUp p.bucketSize p.bucketAlign
def addr (p : Pool) (idx : Nat) : Nat := p.start + idx * p.stride
def getIndex (p : Pool) (a : Nat) : Nat := (a - p.start) / p.stride
end Pool

inductive AllocErr where
  | sizeTooLarge | alignmentFailure | outOfMemory | sizeIsZero
deriving Repr, DecidableEq

/-- sequential state: the free list of the index set as a stack (`UniqueIndexSet` run by one thread) -/
structure PoolSt where
  p    : Pool
  free : List Nat
deriving Repr

def PoolSt.init (p : Pool) : PoolSt := { p := p, free := List.range p.nBuckets }

def PoolSt.allocate (s : PoolSt) (size align : Nat) : PoolSt × Except AllocErr Nat :=
  if size > s.p.stride then (s, .error .sizeTooLarge)
  else if align > s.p.bucketAlign then (s, .error .alignmentFailure)
  else match s.free with
    | [] => (s, .error .outOfMemory)
    | i :: rest => ({ s with free := rest }, .ok (s.p.addr i))

def PoolSt.deallocate (s : PoolSt) (a : Nat) : PoolSt := { s with free := s.p.getIndex a :: s.free }

/-! ### bump allocator -/
structure Bump where
  start : Nat
  total : Nat
  cur   : Nat     -- `addr_next_free_memory`
deriving Repr

def Bump.allocate (b : Bump) (size align : Nat) : Bump × Except AllocErr Nat :=
  if size = 0 then (b, .error .sizeIsZero)
  else
    let next := alignUp (b.start + b.cur) align - b.start
    if next + size > b.total then (b, .error .outOfMemory)
    else ({ b with cur := next + size }, .ok (b.start + next))

/-! ### pointer offset packing: `(offset << 8) | segment_id` in a `u64` -/
def mkOffset (offset seg : Nat) : Nat := ((offset <<< 8) % 2^64) ||| seg
def offsetOf (v : Nat) : Nat := v >>> 8
def segmentOf (v : Nat) : Nat := v &&& 255
def setSegment (v seg : Nat) : Nat := (v &&& (2^64 - 1 - 255)) ||| seg

/-! ### `resize_hint` of the shm pool allocator -/
inductive Strategy where
  | static | bestFit | powerOfTwo
deriving Repr, DecidableEq

def nextPow2 (n : Nat) : Nat := if n ≤ 1 then 1 else 2 ^ (Nat.log2 (n - 1) + 1)
def nextMultipleOf (n a : Nat) : Nat := if n % a = 0 then n else n + (a - n % a)

structure Hint where
  bucketSize  : Nat
  bucketAlign : Nat
  nBuckets    : Nat
deriving Repr, DecidableEq

/-- `resize_hint(layout, strategy)` given the current layout, bucket count and used buckets -/
def resizeHint (curSize curAlign nBuckets used : Nat) (reqSize reqAlign : Nat) (st : Strategy) : Hint :=
  let n := if used = nBuckets then
      (match st with
       | .bestFit => nBuckets + 1
       | .powerOfTwo => nextPow2 (nBuckets + 1)
       | .static => nBuckets)
    else nBuckets
  let (sz, al) :=
    if curSize < reqSize ∨ curAlign < reqAlign then
      (match st with
       | .static => (curSize, curAlign)
       | .bestFit =>
          let al := max reqAlign curAlign
          (nextMultipleOf (max reqSize curSize) al, al)
       | .powerOfTwo =>
          let al := nextPow2 (max reqAlign curAlign)
          (nextMultipleOf (nextPow2 (max reqSize curSize)) al, al))
    else (curSize, curAlign)
  { bucketSize := sz, bucketAlign := al, nBuckets := n }

end Iox2.Alloc
