/-
Composition models: how a PORT composes the shared-memory steps of one API call, interleaved with
the peer port at the granularity of those steps.  The L1 port models (`Blackboard.lean`,
`ReqRes.lean`) take an API call as one atomic step; the L2 models (`SeqLock.lean`, `ConnState.lean`,
…) are about one lock-free structure through its own API.  In between lies the ORDER in which a
port function calls the lower layer — two seeded changes (C12-m5, C11-m2) only exchanged two such
calls.  The order is not assumed here: `Iox2/Gen/ApiOrder.lean` is regenerated from /repo on every
run by `extract/api_order.py` (the ordered list of the tracked calls in the body of each port
function), the per-call programs below are built from those lists, and the theorems in
`Props/C12Compose.lean` / `Props/C11Compose.lean` are stated about the generated programs.

Core Lean only; everything is executable (`Driver/ComposeSearch.lean` searches the same definitions
for a failing schedule when the generated order is not the proved one).
-/
namespace Iox2.Compose

/-- the tracked calls of the source, as the translator names them -/
inductive Src where
  -- blackboard writer side (writer.rs)
  | getPtr        -- `__internal_get_ptr_to_write_cell`
  | writeValue    -- `ptr.write(value)` / the user's write through `value_mut()` / `write_cell()`
  | publish       -- `__internal_update_write_cell`
  | store         -- `producer.store(value)` (copy-style; atomic at this level, proved in C12.lean)
  -- request-response (client.rs / server.rs)
  | refresh       -- `update_connections`
  | openChannel   -- `prepare_channel_to_receive_responses` (→ `set_channel_state`)
  | count         -- `active_request_counter.fetch_add`
  | deliver       -- `request_sender.deliver_offset`
  | pop           -- `receive_impl`
  | lookup        -- `get_connection_id_of`
  | checkConnected -- `is_connected`
  | giveBack      -- `release_offset`
  -- publisher (publisher.rs `send_sample`)
  | addHistory    -- `add_sample_to_history`
deriving DecidableEq, Repr

/-! ## Blackboard entry: loan-style update ∥ readers -/
namespace BB

inductive WOp where
  | getPtr | wLo | wHi | pub
deriving DecidableEq, Repr

/-- a value is two words; `writeValue` is not atomic -/
def expand : List Src → List WOp
  | [] => []
  | .getPtr :: r => .getPtr :: expand r
  | .writeValue :: r => .wLo :: .wHi :: expand r
  | .publish :: r => .pub :: expand r
  | _ :: r => expand r

/-- the program of one loan-style update: `loan_uninit` (= `EntryValueUninit::new`) then the update call -/
def updateProg (new upd : List Src) : List WOp := expand new ++ expand upd

structure Sh where
  wc : Nat            -- write_cell counter, initially 1
  c0 : Nat × Nat
  c1 : Nat × Nat
deriving Repr, DecidableEq

def Sh.get (s : Sh) (i : Nat) : Nat × Nat := if i % 2 = 0 then s.c0 else s.c1
def Sh.set (s : Sh) (i : Nat) (v : Nat × Nat) : Sh := if i % 2 = 0 then { s with c0 := v } else { s with c1 := v }

structure Wr where
  rem : List WOp      -- what is left of the running update ([] = between two updates)
  tgt : Nat           -- captured cell index
  val : Nat           -- the value of this update (canonical: the counter value it will be published under)
deriving Repr, DecidableEq

inductive RPc where
  | idle | rLo | rHi | chk
deriving DecidableEq, Repr

structure Rd where
  pc : RPc
  w  : Nat
  a  : Nat
  b  : Nat
  got : List (Nat × Nat)   -- ghost: every value returned by `get`, in order
deriving Repr, DecidableEq

structure St where
  sh : Sh
  wr : Wr
  rd : Nat → Rd

def Rd.init : Rd := { pc := .idle, w := 0, a := 0, b := 0, got := [] }
def St.init : St := { sh := { wc := 1, c0 := (0, 0), c1 := (0, 0) }, wr := { rem := [], tgt := 0, val := 0 }, rd := fun _ => Rd.init }

def wexec (sh : Sh) (w : Wr) (op : WOp) (rest : List WOp) : Sh × Wr :=
  match op with
  | .getPtr => (sh, { rem := rest, tgt := sh.wc % 2, val := sh.wc })
  | .wLo => (sh.set w.tgt (w.val, (sh.get w.tgt).2), { w with rem := rest })
  | .wHi => (sh.set w.tgt ((sh.get w.tgt).1, w.val), { w with rem := rest })
  | .pub => ({ sh with wc := sh.wc + 1 }, { w with rem := rest })

/-- one step of the writer: the next operation of the running update, or the first of a new one -/
def wstep (prog : List WOp) (s : St) : St :=
  match (if s.wr.rem = [] then prog else s.wr.rem) with
  | [] => s
  | op :: rest => let (sh, w) := wexec s.sh s.wr op rest; { s with sh := sh, wr := w }

def rexec (sh : Sh) (r : Rd) : Rd :=
  match r.pc with
  | .idle => { r with pc := .rLo, w := sh.wc }
  | .rLo => { r with pc := .rHi, a := (sh.get (r.w - 1)).1 }
  | .rHi => { r with pc := .chk, b := (sh.get (r.w - 1)).2 }
  | .chk => if sh.wc = r.w then { r with pc := .idle, got := r.got ++ [(r.a, r.b)] } else { r with pc := .rLo, w := sh.wc }

def rstep (s : St) (i : Nat) : St := { s with rd := fun j => if j = i then rexec s.sh (s.rd i) else s.rd j }

inductive Reach (prog : List WOp) : St → Prop where
  | init : Reach prog St.init
  | writer {s} : Reach prog s → Reach prog (wstep prog s)
  | reader {s} (i : Nat) : Reach prog s → Reach prog (rstep s i)

/-- what a reader must never return: a mixture, or a value older than one it returned before -/
def badGot : List (Nat × Nat) → Bool
  | [] => false
  | [(a, b)] => a != b
  | (a, b) :: (c, d) :: r => a != b || decide (c < a) || badGot ((c, d) :: r)

end BB

/-! ## Request-response: `send_request` ∥ `Server::receive` ∥ drop of the pending response -/
namespace RR

inductive COp where
  | refresh | openChannel | count | deliver
deriving DecidableEq, Repr

def expand : List Src → List COp
  | [] => []
  | .refresh :: r => .refresh :: expand r
  | .openChannel :: r => .openChannel :: expand r
  | .count :: r => .count :: expand r
  | .deliver :: r => .deliver :: expand r
  | _ :: r => expand r

structure St where
  chan : Nat → Option Nat          -- response channel state: `some r` = open for request r
  queue : List (Nat × Nat)         -- delivered requests (id, channel), oldest first
  next : Nat                       -- next request id
  cur : Option (Nat × Nat × List COp)   -- the running `send_request`: id, channel, what is left
  alive : List (Nat × Nat)         -- living pending responses (id, channel)
  dropped : List Nat               -- ghost: ids whose pending response was dropped
  popped : Option (Nat × Nat)      -- the server holds a popped request and has not judged it yet
  received : List Nat              -- ghost
  discarded : List Nat             -- ghost

def St.init : St :=
  { chan := fun _ => none, queue := [], next := 0, cur := none, alive := [], dropped := [], popped := none, received := [], discarded := [] }

def chanFree (s : St) (c : Nat) : Bool := s.alive.all (fun p => p.2 != c)

/-- the client starts a request on a channel no living pending response uses (the id comes from a pool) -/
def cbegin (prog : List COp) (s : St) (c : Nat) : St :=
  if s.cur.isNone && chanFree s c then { s with cur := some (s.next, c, prog), next := s.next + 1 } else s

def cexec (s : St) (r c : Nat) (op : COp) : St :=
  match op with
  | .refresh => s
  | .count => s
  | .openChannel => { s with chan := fun k => if k = c then some r else s.chan k }
  | .deliver => { s with queue := s.queue ++ [(r, c)] }

/-- next operation of the running `send_request`; after the last one the caller owns the PendingResponse -/
def cstep (s : St) : St :=
  match s.cur with
  | none => s
  | some (r, c, []) => { s with cur := none, alive := s.alive ++ [(r, c)] }
  | some (r, c, op :: rest) => { cexec s r c op with cur := some (r, c, rest) }

/-- the user drops the k-th living pending response: the channel is closed -/
def cdrop (s : St) (k : Nat) : St :=
  match s.alive[k]? with
  | none => s
  | some (r, c) => { s with alive := s.alive.eraseIdx k, dropped := r :: s.dropped,
                            chan := fun j => if j = c ∧ s.chan c = some r then none else s.chan j }

/-- `receive_impl`: pop the oldest request -/
def spop (s : St) : St :=
  match s.popped, s.queue with
  | none, q :: rest => { s with popped := some q, queue := rest }
  | _, _ => s

/-- `is_connected` on the popped request decides: hand it out or drop it silently (no fire-and-forget) -/
def sjudge (s : St) : St :=
  match s.popped with
  | none => s
  | some (r, c) => if s.chan c = some r then { s with popped := none, received := s.received ++ [r] }
                   else { s with popped := none, discarded := s.discarded ++ [r] }

inductive Reach (prog : List COp) : St → Prop where
  | init : Reach prog St.init
  | cbegin {s} (c : Nat) : Reach prog s → Reach prog (cbegin prog s c)
  | cstep {s} : Reach prog s → Reach prog (cstep s)
  | cdrop {s} (k : Nat) : Reach prog s → Reach prog (cdrop s k)
  | spop {s} : Reach prog s → Reach prog (spop s)
  | sjudge {s} : Reach prog s → Reach prog (sjudge s)

end RR
end Iox2.Compose
