/- stub: model `Lifecycle` (to be written) -/
namespace Iox2.Lifecycle
end Iox2.Lifecycle
