/-
Node / monitoring-token / dead-node-cleanup protocol at system-call granularity (C07, C04 file-system part).

Anchors (read + strace of the real binaries, see notes/C07-design.md):
  iceoryx2/src/node/mod.rs            NodeBuilder::create (:1550-1673), SharedNodeState::drop (:1010-1024),
                                      Node::list (:1159-1200), NodeState::new (:395-417),
                                      DeadNodeView::remove_stale_resources_impl (:584-757), remove_node (:825-841)
  iceoryx2-bb/posix/src/process_state.rs   ProcessGuardBuilder::create (:475-562), StateFiles::drop (:698-745),
                                      ProcessMonitor::state (:982-1086), ProcessCleaner::new (:1156-1294)
  iceoryx2-cal/src/monitoring/file_lock.rs  state mapping (:210-235), cleaner error mapping (:313-349)

One process = one thread of a `Sys`; one step = one system call that changes or reads the state of one
of the node's files.  The files of ONE node (its id is unique, names are never reused, so one inode per
role): `ctx` `<id>.node_monitor_context`, `st` `<id>.node_monitor` (the state file, the only one
`Node::list` looks for), `ol` `<id>.node_monitor_owner_lock`, `det` `<id>/…node.details`, the node
directory `dir`, and tag files inside it (`tags` with final permissions, `tagsInit` still with their
creation permissions 0600 — invisible to the static-storage listing).

Permission classes: `init` = 0200 for the three token files (ProcessState::Starting is decided from
exactly this value of the context file), 0600 for details/tags ("locked" static storage); `final` =
anything else.  POSIX record locks: per file at most one write-lock holder (a pid); F_GETLK reports a lock
of ANOTHER process only; closing any descriptor of a file releases the closing process's lock on it, and
so does the death of the process (`onDeath`).  Descriptors themselves are represented by the program
counter of their holder (each program opens and closes its descriptors at fixed places); the only effect
of `close` on the shared state — the lock release — is modelled.  uid 0 (the sandbox): `open` never fails
with EACCES, the monitor's first `open(ctx, O_WRONLY)` always succeeds and the decision is taken by `fstat`
(a non-root user of the same uid gets EACCES exactly when `fstat` would show a final permission: same
verdicts).

Ghost state (never read by a step, proved in `ghost_irrelevant`): `opc` mirrors the owner's progress,
`odead` records the owner's death.
-/
import Iox2.Base.Sched
import Iox2.Base.Crash
namespace Iox2.Lifecycle
open Iox2.Sched

inductive Perm where
  | init | final
deriving Repr, DecidableEq, Inhabited

structure File where
  linked : Bool := false
  perm : Perm := .init
  lock : Option Nat := none
deriving Repr, DecidableEq, Inhabited

structure FS where
  ctx : File := {}
  st : File := {}
  ol : File := {}
  det : File := {}
  /-- content of the context file: the unique process id of the owner -/
  ctxPid : Option Nat := none
  dir : Bool := false
  tags : Nat := 0
  tagsInit : Nat := 0
  /-- ghost: progress of the owner (its program counter, the tag loop 17/18 counted as 17) -/
  opc : Nat := 0
  /-- ghost: the owner process has died -/
  odead : Bool := false
deriving Repr, DecidableEq, Inhabited

/-- F_GETLK: is there a write lock of another process -/
def File.lockedByOther (f : File) (pid : Nat) : Bool :=
  match f.lock with
  | some p => p != pid
  | none => false

/-- close(2) of a descriptor of `f` by `pid` (also: death of `pid`): the process's lock on `f` is gone -/
def File.closeBy (f : File) (pid : Nat) : File :=
  if f.lock = some pid then { f with lock := none } else f

inductive Role where
  | owner | monitor | cleaner
deriving Repr, DecidableEq, Inhabited

/-- `ProcessState` of bb/posix plus the two error results of `state()` that matter here -/
inductive PState where
  | alive | dead | doesNotExist | starting | cleaningUp
  | corrupted        -- ProcessMonitorStateError::CorruptedState
  | ctxUnreadable    -- FailedToAcquireUniqueProcessIdFromContextFile
deriving Repr, DecidableEq, Inhabited

/-- `monitoring::State` of the cal layer (file_lock.rs:210-235) -/
inductive Cal where
  | alive | dead | doesNotExist | internalError
deriving Repr, DecidableEq, Inhabited

def calOf : PState → Cal
  | .alive => .alive
  | .dead => .dead
  | .cleaningUp => .dead
  | .doesNotExist => .doesNotExist
  | .starting => .doesNotExist
  | .corrupted => .internalError
  | .ctxUnreadable => .internalError

/-- what `Node::list` shows for the node (NodeState::new, node/mod.rs:395-417) -/
inductive ListV where
  | notListed      -- no state file in the directory listing
  | skipped        -- State::DoesNotExist: the callback is not called
  | alive | dead | undefined
deriving Repr, DecidableEq, Inhabited

def listOf : Cal → ListV
  | .alive => .alive
  | .dead => .dead
  | .doesNotExist => .skipped
  | .internalError => .undefined

/-- result of `Node::list` + `DeadNodeView::try_remove_stale_resources` for the node -/
inductive CRes where
  | ok
  | notDead            -- not listed / not reported dead: no clean-up attempted
  | alreadyCleanedUp   -- NodeCleanupFailure::ResourcesAlreadyCleanedUp
  | anotherInstance    -- NodeCleanupFailure::AnotherInstanceIsCleaningUpTheNode
  | internalError      -- NodeCleanupFailure::InternalError
  | panicStillAlive    -- fatal_panic in acquire_cleaner_lock (InstanceStillAlive)
deriving Repr, DecidableEq, Inhabited

structure Th where
  pid : Nat
  role : Role
  pc : Nat := 0
  -- owner: plan and bookkeeping
  ntags : Nat := 0          -- tags (ports) it will still create while running
  mtags : Nat := 0          -- tags it has created and removes again in an orderly drop
  doDrop : Bool := false    -- drops the node in an orderly way (otherwise it runs for ever)
  -- monitor / cleaner: registers
  hasDet : Bool := false
  todo : Nat := 0           -- cleaner: listed tags still to remove
  svcFails : Bool := false  -- cleaner: removing the node from a service fails (version mismatch, permissions, …)
  raw : Option PState := none
  listed : Option ListV := none
  res : Option CRes := none
deriving Repr, DecidableEq, Inhabited

/-- program counter of a finished monitor / cleaner -/
def pcDone : Nat := 100

/-! ### `ProcessMonitor::state()` (process_state.rs:982-1086), reads only -/

inductive QOut where
  | next (q : Nat)
  | done (v : PState)
deriving Repr, DecidableEq

/-- names of the query steps, as they appear in a system-call trace -/
def qName : Nat → String
  | 0 => "open ctx" | 1 => "fstat ctx" | 2 => "open ctx" | 3 => "read ctx" | 4 => "open ol"
  | 5 => "getlk ol" | 6 => "open st" | 7 => "access st" | 8 => "getlk st" | _ => "?"

def qstep (fs : FS) (pid : Nat) : Nat → QOut
  | 0 => if fs.ctx.linked then .next 1 else .done .doesNotExist          -- open(ctx, O_WRONLY)
  | 1 => if fs.ctx.perm = .init then .done .starting else .next 2         -- fstat: permission == 0200 ?
  | 2 => if fs.ctx.linked then .next 3 else .done .doesNotExist          -- open(ctx, O_RDONLY)
  | 3 => match fs.ctxPid with                                             -- read the owner's unique process id
         | none => .done .ctxUnreadable
         | some p => if p = pid then .done .alive else .next 4
  | 4 => if fs.ol.linked then .next 5 else .next 7                        -- open(ol, O_WRONLY)
  | 5 => if fs.ol.lockedByOther pid then .done .cleaningUp else .next 6   -- F_GETLK(ol)
  | 6 => if fs.st.linked then .next 8 else .done .cleaningUp              -- open(st, O_WRONLY)
  | 7 => if fs.st.linked then .done .corrupted else .done .cleaningUp     -- access(st, F_OK)
  | 8 => if fs.st.lockedByOther pid then .done .alive else .done .dead    -- F_GETLK(st)
  | _ => .done .corrupted

/-! ### owner: `NodeBuilder::create` … orderly drop -/

/-- progress value of an owner pc (the tag loop 17 ⇄ 18 is one phase) -/
def phaseOf (pc : Nat) : Nat := if pc = 18 then 17 else pc

/-- skips the empty loops of the owner: 17 = "running, creates tags", 19 = "drop: removes its tags",
21 = "removes the listed details" -/
def ownerNorm (t : Th) : Th :=
  let t := if t.pc = 17 ∧ t.ntags = 0 ∧ t.doDrop = true then { t with pc := 19 } else t
  let t := if t.pc = 19 ∧ t.mtags = 0 then { t with pc := 20 } else t
  if t.pc = 21 ∧ t.hasDet = false then { t with pc := 22 } else t

def ownerStep (fs : FS) (t : Th) : Option (FS × Th × String) :=
  let p := t.pid
  match t.pc with
  -- create_node_details_storage (node/mod.rs:1635-1673): static storage `create`, has_ownership(false)
  | 0 => some ({ fs with dir := true }, { t with pc := 1 }, "mkdir dir")
  | 1 => some ({ fs with det := { fs.det with linked := true, perm := .init } }, { t with pc := 2 }, "creat det")
  | 2 => some ({ fs with det := { fs.det with perm := .init } }, { t with pc := 3 }, "fchmod det init")
  | 3 => some (fs, { t with pc := 4 }, "write det")
  | 4 => some (fs, { t with pc := 5 }, "fsync det")
  | 5 => some ({ fs with det := { fs.det with perm := .final } }, { t with pc := 6 }, "fchmod det final")
  -- create_token → ProcessGuardBuilder::create (process_state.rs:475-562)
  | 6 => some ({ fs with ctx := { fs.ctx with linked := true, perm := .init } }, { t with pc := 7 }, "creat ctx")
  | 7 => some ({ fs with ctx := { fs.ctx with perm := .init } }, { t with pc := 8 }, "fchmod ctx init")
  | 8 => some ({ fs with st := { fs.st with linked := true, perm := .init } }, { t with pc := 9 }, "creat st")
  | 9 => some ({ fs with st := { fs.st with perm := .init } }, { t with pc := 10 }, "fchmod st init")
  | 10 => some ({ fs with ol := { fs.ol with linked := true, perm := .init } }, { t with pc := 11 }, "creat ol")
  | 11 => some ({ fs with ol := { fs.ol with perm := .init } }, { t with pc := 12 }, "fchmod ol init")
  | 12 => some ({ fs with ctxPid := some p }, { t with pc := 13 }, "write ctx")
  | 13 => if fs.st.lockedByOther p then some (fs, { t with pc := 90 }, "setlk st")   -- ContractViolation (roll-back not modelled; unreachable)
          else some ({ fs with st := { fs.st with lock := some p } }, { t with pc := 14 }, "setlk st")
  | 14 => some ({ fs with ol := { fs.ol with perm := .final } }, { t with pc := 15 }, "fchmod ol final")
  | 15 => some ({ fs with st := { fs.st with perm := .final } }, { t with pc := 16 }, "fchmod st final")
  | 16 => some ({ fs with ctx := { fs.ctx with perm := .final } }, ownerNorm { t with pc := 17 }, "fchmod ctx final")
  -- running: port creation leaves tags (static storage `create(&[])`: created with 0600, then 0400)
  | 17 => match t.ntags with
          | 0 => none
          | _ + 1 => some ({ fs with tagsInit := fs.tagsInit + 1 }, { t with pc := 18 }, "creat tag")
  | 18 => some ({ fs with tagsInit := fs.tagsInit - 1, tags := fs.tags + 1 },
                ownerNorm { t with pc := 17, ntags := t.ntags - 1, mtags := t.mtags + 1 }, "fchmod tag final")
  -- orderly drop: ports first (their tags), then SharedNodeState::drop → remove_node, then the token
  | 19 => some ({ fs with tags := fs.tags - 1 }, ownerNorm { t with pc := 19, mtags := t.mtags - 1 }, "unlink tag")
  | 20 => some (fs, ownerNorm { t with pc := 21, hasDet := fs.det.linked && fs.det.perm == .final }, "readdir dir")
  | 21 => some ({ fs with det := { fs.det with linked := false } }, { t with pc := 22 }, "unlink det")
  | 22 => some ({ fs with dir := if fs.tags = 0 ∧ fs.tagsInit = 0 ∧ fs.det.linked = false then false else fs.dir },
                { t with pc := 23 }, "rmdir dir")
  -- StateFiles::drop (process_state.rs:698-745): state, owner_lock, context
  | 23 => some ({ fs with st := { fs.st with perm := .final } }, { t with pc := 24 }, "fchmod st final")
  | 24 => some ({ fs with st := { fs.st with linked := false } }, { t with pc := 25 }, "unlink st")
  | 25 => some ({ fs with st := fs.st.closeBy p }, { t with pc := 26 }, "close st")
  | 26 => some ({ fs with ol := { fs.ol with perm := .final } }, { t with pc := 27 }, "fchmod ol final")
  | 27 => some ({ fs with ol := { fs.ol with linked := false } }, { t with pc := 28 }, "unlink ol")
  | 28 => some ({ fs with ol := fs.ol.closeBy p }, { t with pc := 29 }, "close ol")
  | 29 => some ({ fs with ctx := { fs.ctx with perm := .final } }, { t with pc := 30 }, "fchmod ctx final")
  | 30 => some ({ fs with ctx := { fs.ctx with linked := false } }, { t with pc := 31 }, "unlink ctx")
  | 31 => some ({ fs with ctx := fs.ctx.closeBy p }, { t with pc := 32 }, "close ctx")
  | 32 => some ({ fs with det := fs.det.closeBy p }, { t with pc := 33 }, "close det")
  | _ => none

/-! ### monitor: `Node::list` for the node -/

def monitorStep (fs : FS) (t : Th) : Option (FS × Th × String) :=
  match t.pc with
  -- FileLockMonitoring::list_cfg: the node is visible iff its state file is in the directory
  | 0 => if fs.st.linked then some (fs, { t with pc := 50 }, "readdir nodes")
         else some (fs, { t with pc := pcDone, listed := some .notListed }, "readdir nodes")
  -- Directory::contents: scandir, then one stat per entry; an entry that vanished in between is dropped
  | 50 => if fs.st.linked then some (fs, { t with pc := 1 }, "stat st")
          else some (fs, { t with pc := pcDone, listed := some .notListed }, "stat st")
  -- get_node_details: static storage open with timeout 0 (a locked = 0600 file counts as unreadable)
  | 1 => some (fs, { t with pc := 2, hasDet := fs.det.linked && fs.det.perm == .final }, "open det")
  | pc => if 2 ≤ pc ∧ pc ≤ 10 then
            match qstep fs t.pid (pc - 2) with
            | .next q => some (fs, { t with pc := q + 2 }, qName (pc - 2))
            | .done v => some (fs, { t with pc := pcDone, raw := some v, listed := some (listOf (calOf v)) }, qName (pc - 2))
          else none

/-! ### cleaner: `Node::list`, then `DeadNodeView::remove_stale_resources_impl` if reported dead -/

/-- ProcessCleaner::new, first part: the state must be `Dead` (process_state.rs:1165-1193, cal + node mapping) -/
def cleanerRefusal : PState → Option CRes
  | .dead => none
  | .alive => some .panicStillAlive
  | .doesNotExist => some .alreadyCleanedUp
  | .cleaningUp => some .anotherInstance
  | .starting => some .internalError
  | .corrupted => some .internalError
  | .ctxUnreadable => some .internalError

/-- skips the empty loops of the cleaner: 27 = remove the listed tags, 29 = remove the listed details -/
def cleanerNorm (t : Th) : Th :=
  let t := if t.pc = 27 ∧ t.todo = 0 then { t with pc := 28 } else t
  if t.pc = 29 ∧ t.hasDet = false then { t with pc := 30 } else t

def cleanerStep (fs : FS) (t : Th) : Option (FS × Th × String) :=
  let p := t.pid
  let fin (r : CRes) (n : String) : Option (FS × Th × String) := some (fs, { t with pc := pcDone, res := some r }, n)
  match t.pc with
  | 0 => if fs.st.linked then some (fs, { t with pc := 50 }, "readdir nodes")
         else some (fs, { t with pc := pcDone, listed := some .notListed, res := some .notDead }, "readdir nodes")
  | 50 => if fs.st.linked then some (fs, { t with pc := 1 }, "stat st")
          else some (fs, { t with pc := pcDone, listed := some .notListed, res := some .notDead }, "stat st")
  | 1 => some (fs, { t with pc := 2, hasDet := fs.det.linked && fs.det.perm == .final }, "open det")
  -- acquire_cleaner_lock → ProcessCleaner::new (process_state.rs:1195-1294)
  | 20 => if fs.ctx.linked then some (fs, { t with pc := 21 }, "open ctx") else fin .alreadyCleanedUp "open ctx"
  | 21 => if fs.ol.linked then some (fs, { t with pc := 22 }, "open ol") else fin .anotherInstance "open ol"
  | 22 => if fs.st.linked then some (fs, { t with pc := 23 }, "open st") else fin .anotherInstance "open st"
  | 23 => if fs.st.lockedByOther p then fin .panicStillAlive "getlk st" else some (fs, { t with pc := 24 }, "getlk st")
  | 24 => if fs.ol.lockedByOther p then some (fs, { t with pc := 43 }, "setlk ol")               -- EAGAIN: try_lock looks at the link count next
          else some ({ fs with ol := { fs.ol with lock := some p } }, { t with pc := 25 }, "setlk ol")
  -- service tags (none modelled), port tags: listing = the tags with final permissions
  -- a failing service-level removal: `cleanup_failure?` (node/mod.rs:661) returns while the cleaner is a live local: it is DROPPED
  | 25 => some (fs, { t with pc := if t.svcFails then 31 else 26 }, "readdir dir")
  | 26 => some (fs, cleanerNorm { t with pc := 27, todo := fs.tags }, "readdir dir")
  | 27 => some ({ fs with tags := fs.tags - 1 }, cleanerNorm { t with pc := 27, todo := t.todo - 1 }, "unlink tag")
  -- remove_node: listed details (final permission only), directory
  | 28 => some (fs, cleanerNorm { t with pc := 29, hasDet := fs.det.linked && fs.det.perm == .final }, "readdir dir")
  | 29 => some ({ fs with det := { fs.det with linked := false } }, { t with pc := 30 }, "unlink det")
  | 30 => if fs.dir = false then some (fs, { t with pc := 31 }, "rmdir dir")                 -- ENOENT tolerated
          else if fs.tags = 0 ∧ fs.tagsInit = 0 ∧ fs.det.linked = false then some ({ fs with dir := false }, { t with pc := 31 }, "rmdir dir")
          else some (fs, { t with pc := 40 }, "rmdir dir")                                     -- ENOTEMPTY → cleaner.abandon()
  -- drop(cleaner): StateFiles::drop
  | 31 => some ({ fs with st := { fs.st with perm := .final } }, { t with pc := 32 }, "fchmod st final")
  | 32 => some ({ fs with st := { fs.st with linked := false } }, { t with pc := 33 }, "unlink st")
  | 33 => some ({ fs with st := fs.st.closeBy p }, { t with pc := 34 }, "close st")
  | 34 => some ({ fs with ol := { fs.ol with perm := .final } }, { t with pc := 35 }, "fchmod ol final")
  | 35 => some ({ fs with ol := { fs.ol with linked := false } }, { t with pc := 36 }, "unlink ol")
  | 36 => some ({ fs with ol := fs.ol.closeBy p }, { t with pc := 37 }, "close ol")
  | 37 => some ({ fs with ctx := { fs.ctx with perm := .final } }, { t with pc := 38 }, "fchmod ctx final")
  | 38 => some ({ fs with ctx := { fs.ctx with linked := false } }, { t with pc := 39 }, "unlink ctx")
  | 39 => some ({ fs with ctx := fs.ctx.closeBy p }, { t with pc := pcDone, res := some (if t.svcFails then .internalError else .ok) }, "close ctx")
  -- abandon (process_state.rs:672-696): close the three descriptors, remove nothing
  | 40 => some ({ fs with st := fs.st.closeBy p }, { t with pc := 41 }, "close st")
  | 41 => some ({ fs with ol := fs.ol.closeBy p }, { t with pc := 42 }, "close ol")
  | 42 => some ({ fs with ctx := fs.ctx.closeBy p }, { t with pc := pcDone, res := some .internalError }, "close ctx")
  -- file_descriptor.rs:387-392: F_SETLK failed; fstat: nlink == 0 → FileRemovedFromFileSystem → DoesNotExist, else OwnedByAnotherProcess
  | 43 => if fs.ol.linked then fin .anotherInstance "fstat ol" else fin .alreadyCleanedUp "fstat ol"
  | pc =>
    if 2 ≤ pc ∧ pc ≤ 10 then          -- Node::list → NodeState::new → state()
      match qstep fs p (pc - 2) with
      | .next q => some (fs, { t with pc := q + 2 }, qName (pc - 2))
      | .done v =>
        if calOf v = .dead then some (fs, { t with pc := 11, raw := some v, listed := some .dead }, qName (pc - 2))
        else some (fs, { t with pc := pcDone, raw := some v, listed := some (listOf (calOf v)), res := some .notDead }, qName (pc - 2))
    else if 11 ≤ pc ∧ pc ≤ 19 then    -- ProcessCleaner::new → state()
      match qstep fs p (pc - 11) with
      | .next q => some (fs, { t with pc := q + 11 }, qName (pc - 11))
      | .done v =>
        match cleanerRefusal v with
        | none => some (fs, { t with pc := 20, raw := some v }, qName (pc - 11))
        | some r => some (fs, { t with pc := pcDone, raw := some v, res := some r }, qName (pc - 11))
    else none

/-! ### the system -/

def stepL (fs : FS) (t : Th) : Option (FS × Th × String) :=
  match t.role with
  | .owner => (ownerStep fs t).map fun r => ({ r.1 with opc := phaseOf r.2.1.pc }, r.2.1, r.2.2)
  | .monitor => monitorStep fs t
  | .cleaner => cleanerStep fs t

def sys : Sys FS Th :=
  { step := fun fs t => (stepL fs t).map fun r => (r.1, r.2.1, [Ev.cell r.2.2]) }

/-- death of a process: the kernel closes its descriptors, i.e. all its record locks are gone -/
def onDeath (fs : FS) (t : Th) : FS :=
  { fs with ctx := fs.ctx.closeBy t.pid, st := fs.st.closeBy t.pid, ol := fs.ol.closeBy t.pid,
            det := fs.det.closeBy t.pid, odead := fs.odead || (t.role == .owner) }

/-- processes that may die at any step -/
def csys : Sys FS (CTh Th) := sys.withCrash onDeath

/-! ### one process running alone (the survivor of the kill-point experiments) -/

def runSolo : Nat → FS → Th → FS × Th
  | 0, fs, t => (fs, t)
  | n + 1, fs, t =>
    match stepL fs t with
    | none => (fs, t)
    | some (fs', t', _) => runSolo n fs' t'

/-- the step names a process running alone goes through -/
def traceSolo : Nat → FS → Th → List String
  | 0, _, _ => []
  | n + 1, fs, t =>
    match stepL fs t with
    | none => []
    | some (fs', t', s) => s :: traceSolo n fs' t'

/-- more steps than any program has (for a bounded number of tags) -/
def fuel : Nat := 200

/-- `k` steps of a process, then it is killed -/
def runKill (k : Nat) (fs : FS) (t : Th) : FS :=
  let r := runSolo k fs t
  onDeath r.1 r.2

/-- a whole `ProcessMonitor::state()` query of process `pid` running alone -/
def querySolo (fs : FS) (pid : Nat) : Nat → Nat → PState
  | 0, _ => .corrupted
  | n + 1, q => match qstep fs pid q with
    | .next q' => querySolo fs pid n q'
    | .done v => v

/-- roles of the files that exist -/
def leftover (fs : FS) : List String :=
  (if fs.ctx.linked then ["ctx"] else []) ++ (if fs.st.linked then ["st"] else []) ++
  (if fs.ol.linked then ["ol"] else []) ++ (if fs.det.linked then ["det"] else []) ++
  (if fs.dir then ["dir"] else []) ++ (if fs.tags + fs.tagsInit > 0 then ["tag"] else [])

/-- nothing of the node is left -/
def Clean (fs : FS) : Prop :=
  fs.ctx.linked = false ∧ fs.st.linked = false ∧ fs.ol.linked = false ∧ fs.det.linked = false ∧
  fs.dir = false ∧ fs.tags = 0 ∧ fs.tagsInit = 0

instance (fs : FS) : Decidable (Clean fs) := by unfold Clean; infer_instance

def mkOwner (ntags : Nat) (doDrop : Bool) : Th := { pid := 0, role := .owner, ntags := ntags, doDrop := doDrop }
def mkMonitor (pid : Nat) : Th := { pid := pid, role := .monitor }
def mkCleaner (pid : Nat) : Th := { pid := pid, role := .cleaner }

/-- survivor's view after a kill: `Node::list` verdict, raw `ProcessState` (direct query), then a complete
clean-up attempt by another survivor, and what is left afterwards -/
structure Survey where
  listed : Option ListV
  raw : PState
  clean : Option CRes
  left : List String
deriving Repr, DecidableEq

def survey (fs : FS) : Survey :=
  let m := runSolo fuel fs (mkMonitor 1)
  let c := runSolo fuel fs (mkCleaner 2)
  { listed := m.2.listed, raw := querySolo fs 1 20 0, clean := c.2.res, left := leftover c.1 }

end Iox2.Lifecycle
