/- stub: model `EventPorts` (to be written) -/
namespace Iox2.EventPorts
end Iox2.EventPorts
