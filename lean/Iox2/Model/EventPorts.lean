/-
L1 (API-call atomic) model of the EVENT messaging pattern at port level:
`iceoryx2/src/port/{notifier,listener}.rs`, `service/dynamic_config/event.rs` (listener / notifier
registries: `Container` = fixed slots + LIFO free-index list + change counter),
`service/builder/event.rs` + `service/static_config/event.rs` (limits, lifecycle event ids, deadline),
`service/mod.rs` (`ServiceState::drop`, `__internal_remove_node_from_service`, `send_dead_node_signal`),
`node/mod.rs` (dead node cleanup).

What is NOT here: the hand-shake inside one listener's event concept (bit set + trigger), which is
modelled at atomic-step level in `Iox2/Model/EventProto.lean`.  At port level a listener's event
concept is its set of pending ids (`Lis.pending`).

Several nodes ("parts": node handle + service handle) share the service; ports keep the service
state of their node alive, the service state keeps the node alive (reference counting is derived:
a port is referenced by the registry entry it owns).

Ghost fields (`hist`, `Lis.mark`) are written but never read by the transitions.
-/
namespace Iox2.EventPorts

structure Cfg where
  maxNot : Nat
  maxLis : Nat
  maxNodes : Nat
  idMax : Nat                 -- event_id_max_value
  created : Option Nat        -- notifier_created_event
  dropped : Option Nat        -- notifier_dropped_event
  dead : Option Nat           -- notifier_dead_event
  deadline : Nat := 0         -- 0: no deadline, 1: a deadline that is never missed, 2: a deadline that is always missed
  ipc : Bool := true
deriving Repr

/-- `Container<T>` of the dynamic config: slots, the index set's free list (LIFO), change counter.
The payload is the label of the port that owns the entry. -/
structure Reg where
  slots : List (Option Nat)
  free : List Nat
  counter : Nat := 0
deriving Repr

def Reg.init (cap : Nat) : Reg := { slots := List.replicate cap none, free := List.range cap }

/-- `Container::add`: `acquire_raw_index` pops the head of the free list -/
def Reg.add (r : Reg) (a : Nat) : Option (Reg × Nat) :=
  match r.free with
  | [] => none
  | i :: rest => some ({ slots := r.slots.set i (some a), free := rest, counter := r.counter + 1 }, i)

/-- `Container::remove`: `release_raw_index` pushes the index -/
def Reg.remove (r : Reg) (i : Nat) : Reg :=
  { slots := r.slots.set i none, free := i :: r.free, counter := r.counter + 1 }

def Reg.labels (r : Reg) : List Nat := r.slots.filterMap id
def Reg.len (r : Reg) : Nat := r.labels.length

/-- `Container::recover`: every entry that satisfies `p` is released, ascending index order -/
def Reg.removeWhere (r : Reg) (p : Nat → Bool) : Nat → Reg
  | 0 => r
  | i + 1 =>
    let r := Reg.removeWhere r p i
    match r.slots.getD i none with
    | some a => if p a then r.remove i else r
    | none => r

inductive St where
  | alive     -- the port object exists
  | dead      -- abandoned by a node that died; its resources wait for the cleanup
  | gone
deriving DecidableEq, Repr

structure Lis where
  node : Nat
  slot : Nat
  st : St := .alive
  pending : List Nat := []    -- the ids the event concept holds (ascending, no duplicates)
  mark : Nat                  -- ghost: `hist.length` at creation / at the last wait
deriving Repr

structure Noti where
  node : Nat
  slot : Nat
  st : St := .alive
  defId : Nat
  snapCtr : Nat               -- `list_state.current_change_counter`
  snap : List (Option Nat)    -- `list_state`: the listener registry as last seen
  conns : List (Option Nat)   -- `connections`: per listener slot, the listener connected to
deriving Repr

structure Part where
  handle : Bool := true       -- the `Node` object exists (or was abandoned and not yet cleaned up)
  svc : Bool := true          -- the `PortFactory` object, likewise
  dead : Bool := false
  dirLeft : Bool := false     -- the node's directory survived the node
deriving Repr

structure World where
  cfg : Cfg
  lisReg : Reg
  notReg : Reg
  liss : Nat → Option Lis := fun _ => none
  nots : Nat → Option Noti := fun _ => none
  parts : Nat → Option Part := fun _ => none
  partKeys : List Nat := []
  hist : List Nat := []       -- ghost: every id some notify call (or lifecycle emission) sent out, in order

def World.init (c : Cfg) : World :=
  { cfg := c, lisReg := Reg.init c.maxLis, notReg := Reg.init c.maxNot,
    parts := fun k => if k = 0 then some {} else none, partKeys := [0] }

def setL (w : World) (l : Nat) (x : Lis) : World := { w with liss := fun a => if a = l then some x else w.liss a }
def setN (w : World) (n : Nat) (x : Noti) : World := { w with nots := fun a => if a = n then some x else w.nots a }
def setP (w : World) (k : Nat) (x : Part) : World := { w with parts := fun a => if a = k then some x else w.parts a }

/-! ### reference structure: who keeps what alive -/

def lisNode (w : World) (l : Nat) : Option Nat := (w.liss l).map (·.node)
def notNode (w : World) (n : Nat) : Option Nat := (w.nots n).map (·.node)

/-- ports of node `k` that still hold their registry entry -/
def lisOf (w : World) (k : Nat) : List Nat := w.lisReg.labels.filter fun l => lisNode w l = some k
def notOf (w : World) (k : Nat) : List Nat := w.notReg.labels.filter fun n => notNode w n = some k

/-- the `ServiceState` of node `k` exists (kept by the service handle and by every port): the node is registered in the service -/
def svcCore (w : World) (k : Nat) : Bool :=
  match w.parts k with
  | some P => P.svc || !(lisOf w k).isEmpty || !(notOf w k).isEmpty
  | none => false

/-- the `SharedNode` of node `k` exists (kept by the node handle and the service state) -/
def nodeCore (w : World) (k : Nat) : Bool :=
  match w.parts k with
  | some P => P.handle || svcCore w k
  | none => false

def nodeCount (w : World) : Nat := (w.partKeys.filter (svcCore w)).length
def serviceExists (w : World) : Bool := w.partKeys.any (svcCore w)

/-! ### notifier (`notifier.rs`) -/

/-- the listener's event concept can be opened (`NotifierBuilder::open`): the listener lives; the concept of a listener
whose process died can still be opened in the process-local variant, not in the ipc variant (nobody is bound to the socket) -/
def conceptExists (w : World) (l : Nat) : Bool :=
  match w.liss l with
  | some L => L.st = .alive || (!w.cfg.ipc && L.st = .dead)
  | none => false

/-- `ListenerConnections::populate_listener_channels` -/
def populate (w : World) (N : Noti) : Noti :=
  { N with conns := N.snap.mapIdx fun i s =>
      match s with
      | none => none
      | some l => if N.conns.getD i none = some l then some l
                  else if conceptExists w l then some l else none }

/-- `ListenerConnections::update_connections` -/
def updateConns (w : World) (N : Noti) : Noti :=
  if N.snapCtr = w.lisReg.counter then N
  else populate w { N with snapCtr := w.lisReg.counter, snap := w.lisReg.slots }

def insertId (x : Nat) : List Nat → List Nat
  | [] => [x]
  | y :: ys => if x < y then x :: y :: ys else if x = y then y :: ys else y :: insertId x ys

def targets (N : Noti) : List Nat := N.conns.filterMap id

/-- `connection.notifier.notify(value)` returns `Ok`: the listener lives, or it is dead but was left in state
NOTIFIED (a notification was pending when it died: no trigger is sent, nothing can fail) -/
def reaches (w : World) (l : Nat) : Bool :=
  match w.liss l with
  | some L => L.st = .alive || (L.st = .dead && !L.pending.isEmpty)
  | none => false

/-- the id is activated in the event concept of every target (what a dead listener's concept holds is never read again) -/
def deliver (w : World) (ts : List Nat) (id : Nat) : World :=
  { w with liss := fun l =>
      match w.liss l with
      | some L => if l ∈ ts ∧ L.st = .alive then some { L with pending := insertId id L.pending } else some L
      | none => none }

inductive Err where
  | exceedsNotifiers | exceedsListeners | exceedsNodes | doesNotExist | outOfBounds | missedDeadline | invalidKey
deriving DecidableEq, Repr

/-- the trigger of this listener's concept fails: its process died while the concept was idle -/
def deadIdle (w : World) (l : Nat) : Bool :=
  match w.liss l with
  | some L => L.st = .dead && L.pending.isEmpty
  | none => false

/-- `Err(Disconnected) => listener_connections.remove(i)`: the connections (among those notified, `ls`) whose trigger failed are closed;
they are reopened, if possible, when the listener registry changes the next time -/
def prune (w : World) (N : Noti) (ls : List Nat) : Noti :=
  { N with conns := N.conns.map fun c =>
      match c with
      | some l => if l ∈ ls ∧ deadIdle w l = true then none else some l
      | none => none }

/-- `Notifier::__internal_notify` -/
def notifyCore (w : World) (n : Nat) (N : Noti) (id : Nat) : World × Except Err Nat :=
  let N' := updateConns w N
  if w.cfg.idMax < id then (setN w n N', .error .outOfBounds) else
  let ts := targets N'
  let cnt := (ts.filter (reaches w)).length
  let w1 := setN w n (prune w N' ts)
  -- `handle_deadline`: after the delivery
  ({ deliver w1 ts id with hist := w.hist ++ [id] }, if w.cfg.deadline = 2 then .error .missedDeadline else .ok cnt)

/-- the `ListenerKey`s `Notifier::for_each_listener` hands out: (connection index, listener) for every connection -/
def keysOf (N : Noti) : List (Nat × Nat) :=
  (N.conns.zipIdx.filterMap fun (c, i) => c.map fun l => (i, l))

/-- `Notifier::notify_single_listener_with_custom_event_id`: the connections are refreshed, the bounds are checked, then the
key: valid iff the connection in the key's slot is a connection to the key's very listener
(`connection.listener_id == listener_key.listener_id`), else `InvalidListenerKey`; then only that listener is notified;
the deadline is handled after the delivery.  On success the result is `Ok(())` (rendered `ok`). -/
def notifyOneCore (w : World) (n : Nat) (N : Noti) (slot l id : Nat) : World × Except Err Unit :=
  let N' := updateConns w N
  if w.cfg.idMax < id then (setN w n N', .error .outOfBounds) else
  if N'.conns[slot]? = some (some l) then
    ({ deliver (setN w n (prune w N' [l])) [l] id with hist := w.hist ++ [id] },
     if w.cfg.deadline = 2 then .error .missedDeadline else .ok ())
  else (setN w n N', .error .invalidKey)

/-! ### operations -/

inductive Op where
  | «open» (k : Nat)
  | cnot (n : Nat) (defId : Option Nat) (k : Nat)
  | dnot (n : Nat)
  | clis (l k : Nat)
  | dlis (l : Nat)
  | notify (n : Nat)
  | notifyId (n id : Nat)
  | wait (l : Nat)
  | keys (n : Nat)
  | notifyOne (n slot l : Nat) (id : Option Nat)
  | count (k : Nat)
  | dnode (k : Nat)
  | dsvc (k : Nat)
  | kill (k : Nat)
  | cleanup (k : Nat)
  | ls
deriving Repr

inductive Out where
  | ok | dup | none | noNode | noService | dead
  | okN (k : Nat)
  | ids (l : List Nat)
  | keys (k : List (Nat × Nat))
  | cnt (n l : Nat)
  | cleaned (c : Nat)
  | err (e : Err)
  | res (r : List (String × Nat))
deriving DecidableEq, Repr

/-- a port of node `k` was dropped: when its core was the last owner of the node, the node's directory
cannot be removed (the port tag inside it is removed only afterwards) -/
def afterPortDrop (before after : World) (k : Nat) : World :=
  if nodeCore before k && !nodeCore after k then
    match after.parts k with
    | some P => setP after k { P with dirLeft := true }
    | none => after
  else after

/-- `send_dead_node_signal` -/
def deadSignal (w : World) : World :=
  -- a temporary node opens the service
  if w.cfg.maxNodes ≤ nodeCount w then w else
  if w.lisReg.len = 0 then w else
  match w.cfg.dead with
  | none => w
  | some id =>
    -- a temporary notifier (`new_without_auto_event_emission`, nothing on drop) takes a slot and gives it back:
    -- the index returns to the head of the free list, the change counter moved twice
    match w.notReg.free with
    | [] => w
    | _ :: _ =>
      if w.cfg.idMax < id then { w with notReg := { w.notReg with counter := w.notReg.counter + 2 } }
      else { deliver { w with notReg := { w.notReg with counter := w.notReg.counter + 2 } } w.lisReg.labels id with
             hist := w.hist ++ [id] }

/-- `kill`: the process of node `k` dies: its ports turn from alive to dead, everything stays where it is -/
def killPorts (w : World) (k : Nat) : World :=
  { w with
    liss := fun l => match w.liss l with
      | some L => if L.node = k ∧ L.st = .alive then some { L with st := .dead } else some L
      | none => none,
    nots := fun n => match w.nots n with
      | some N => if N.node = k ∧ N.st = .alive then some { N with st := .dead } else some N
      | none => none }

/-- `remove_dead_node_id`: every registry entry owned by node `d` is recovered (`Container::recover`), the listeners'
event concepts are removed (`remove_connection_of_listener`), the port tags too -/
def purge (w : World) (d : Nat) : World :=
  { w with
    lisReg := w.lisReg.removeWhere (fun l => lisNode w l = some d) w.lisReg.slots.length,
    notReg := w.notReg.removeWhere (fun n => notNode w n = some d) w.notReg.slots.length,
    liss := fun l => match w.liss l with
      | some L => if L.node = d then some { L with st := .gone, pending := [] } else some L
      | none => none,
    nots := fun n => match w.nots n with
      | some N => if N.node = d then some { N with st := .gone } else some N
      | none => none }

/-- `__internal_remove_node_from_service` + the removal of the node's own files, for one dead node -/
def cleanNode (acc : World × Nat) (d : Nat) : World × Nat :=
  let w := acc.1
  match w.parts d with
  | none => acc
  | some P =>
    if !(P.dead && nodeCore w d) then acc else
    let hadSvc := svcCore w d
    let nn := (notOf w d).length
    let w2 := setP (purge w d) d { P with handle := false, svc := false, dirLeft := false }
    let w3 := if hadSvc && serviceExists w2 && nn != 0 then deadSignal w2 else w2
    (w3, acc.2 + 1)

/-- the directory of node `k` stayed behind -/
def dirLeftOf (w : World) (k : Nat) : Bool :=
  match w.parts k with
  | some P => P.dirLeft
  | none => false

/-- (kind, count) pairs in the order of the kind names -/
def resources (w : World) : List (String × Nat) :=
  if !w.cfg.ipc then [] else
  let nc := (w.partKeys.filter (nodeCore w)).length
  let dirs := (w.partKeys.filter fun k => nodeCore w k || dirLeftOf w k).length
  let sv := if serviceExists w then 1 else 0
  let all := [("details", nc), ("dynamic", sv), ("event", w.lisReg.len), ("event_mgmt", w.lisReg.len),
              ("node_monitor", nc), ("node_monitor_context", nc), ("node_monitor_owner_lock", nc),
              ("nodedir", dirs), ("port_tag", w.lisReg.len + w.notReg.len), ("service", sv),
              ("service_tag", nodeCount w)]
  all.filter (·.2 ≠ 0)

/-- the part `k` can create ports: its service handle exists -/
def usable (w : World) (k : Nat) : Except Out Part :=
  match w.parts k with
  | none => .error .noNode
  | some P => if P.dead then .error .dead else if !P.svc then .error .noService else .ok P

/-- `Notifier::new_without_auto_event_emission`: the state of the listener registry is copied, a connection to every listener
in it is opened, the registry entry comes last -/
def newNoti (w : World) (k : Nat) (d : Option Nat) (slot : Nat) : Noti :=
  { populate w { node := k, slot := 0, defId := d.getD 0, snapCtr := w.lisReg.counter, snap := w.lisReg.slots,
                 conns := List.replicate w.lisReg.slots.length none } with slot := slot }

def cnotBase (w : World) (n k : Nat) (d : Option Nat) (reg : Reg) (slot : Nat) : World :=
  setN { w with notReg := reg } n (newNoti w k d slot)

/-- `Drop for Notifier`, first part: the notifier_dropped_event (failures are logged only) -/
def dropEmit (w : World) (n : Nat) (N : Noti) : World :=
  match w.cfg.dropped with
  | some c => (notifyCore w n N c).1
  | none => w

/-- `Drop for Notifier`, second part: the registry entry is released, the connections are closed -/
def dnotBase (w1 : World) (n : Nat) (N : Noti) : World :=
  setN { w1 with notReg := w1.notReg.remove N.slot } n
    { (w1.nots n).getD N with st := .gone, conns := ((w1.nots n).getD N).conns.map fun _ => none }

def outOfNotify (r : Except Err Nat) : Out :=
  match r with
  | .ok c => .okN c
  | .error e => .err e

def outOfUnit (r : Except Err Unit) : Out :=
  match r with
  | .ok _ => .ok
  | .error e => .err e

def step (w : World) : Op → World × Out
  | .open k =>
    if (w.parts k).isSome then (w, .dup) else
    -- `Builder::open`: the service must exist, the node registers itself
    if !serviceExists w then (w, .err .doesNotExist) else
    if w.cfg.maxNodes ≤ nodeCount w then (w, .err .exceedsNodes) else
    ({ setP w k {} with partKeys := w.partKeys ++ [k] }, .ok)
  | .cnot n d k =>
    if (w.nots n).isSome then (w, .dup) else
    match usable w k with
    | .error o => (w, o)
    | .ok _ =>
      match w.notReg.add n with
      | none => (w, .err .exceedsNotifiers)
      | some (reg, slot) =>
        let w1 := cnotBase w n k d reg slot
        -- `Notifier::new`: the notifier_created_event, failures are logged only
        match w.cfg.created with
        | some c => ((notifyCore w1 n (newNoti w k d slot) c).1, .ok)
        | none => (w1, .ok)
  | .dnot n =>
    match w.nots n with
    | none => (w, .none)
    | some N =>
      if N.st ≠ .alive then (w, .none) else
      let w1 := dropEmit w n N
      (afterPortDrop w1 (dnotBase w1 n N) N.node, .ok)
  | .clis l k =>
    if (w.liss l).isSome then (w, .dup) else
    match usable w k with
    | .error o => (w, o)
    | .ok _ =>
      -- `Listener::new`: event concept first, registry entry last
      match w.lisReg.add l with
      | none => (w, .err .exceedsListeners)
      | some (reg, slot) =>
        (setL { w with lisReg := reg } l { node := k, slot := slot, mark := w.hist.length }, .ok)
  | .dlis l =>
    match w.liss l with
    | none => (w, .none)
    | some L =>
      if L.st ≠ .alive then (w, .none) else
      let w2 := setL { w with lisReg := w.lisReg.remove L.slot } l { L with st := .gone, pending := [] }
      (afterPortDrop w w2 L.node, .ok)
  | .notify n =>
    match w.nots n with
    | none => (w, .none)
    | some N =>
      if N.st ≠ .alive then (w, .none) else
      let r := notifyCore w n N N.defId
      (r.1, outOfNotify r.2)
  | .notifyId n id =>
    match w.nots n with
    | none => (w, .none)
    | some N =>
      if N.st ≠ .alive then (w, .none) else
      let r := notifyCore w n N id
      (r.1, outOfNotify r.2)
  | .keys n =>
    match w.nots n with
    | none => (w, .none)
    | some N =>
      if N.st ≠ .alive then (w, .none) else
      -- `for_each_listener`: `update_connections`, then every connection
      (setN w n (updateConns w N), .keys (keysOf (updateConns w N)))
  | .notifyOne n slot l id =>
    match w.nots n with
    | none => (w, .none)
    | some N =>
      if N.st ≠ .alive then (w, .none) else
      let r := notifyOneCore w n N slot l (id.getD N.defId)
      (r.1, outOfUnit r.2)
  | .wait l =>
    match w.liss l with
    | none => (w, .none)
    | some L =>
      if L.st ≠ .alive then (w, .none) else
      (setL w l { L with pending := [], mark := w.hist.length }, .ids L.pending)
  | .count k =>
    match usable w k with
    | .error o => (w, o)
    | .ok _ => (w, .cnt w.notReg.len w.lisReg.len)
  | .dnode k =>
    match w.parts k with
    | none => (w, .noNode)
    | some P =>
      if P.dead then (w, .dead) else
      if !P.handle then (w, .none) else (setP w k { P with handle := false }, .ok)
  | .dsvc k =>
    match w.parts k with
    | none => (w, .noNode)
    | some P =>
      if P.dead then (w, .dead) else
      if !P.svc then (w, .none) else (setP w k { P with svc := false }, .ok)
  | .kill k =>
    match w.parts k with
    | none => (w, .noNode)
    | some P =>
      if P.dead then (w, .dead) else
      (killPorts (setP w k { P with dead := true }) k, .ok)
  | .cleanup k =>
    match w.parts k with
    | none => (w, .noNode)
    | some P =>
      if P.dead then (w, .dead) else
      if !P.handle then (w, .none) else
      let r := w.partKeys.foldl cleanNode (w, 0)
      (r.1, .cleaned r.2)
  | .ls => (w, .res (resources w))

/-! ### canonical rendering (the harness prints the same) -/

/-- ascending, for the canonical output -/
def sortIds (l : List Nat) : List Nat := l.foldl (fun acc x => insertId x acc) []

def Err.render : Err → String
  | .exceedsNotifiers => "err:NotifierCreateError::ExceedsMaxSupportedNotifiers"
  | .exceedsListeners => "err:ListenerCreateError::ExceedsMaxSupportedListeners"
  | .exceedsNodes => "err:EventOpenError::ExceedsMaxNumberOfNodes"
  | .doesNotExist => "err:EventOpenError::DoesNotExist"
  | .outOfBounds => "err:NotifierNotifyError::EventIdOutOfBounds"
  | .missedDeadline => "err:NotifierNotifyError::MissedDeadline"
  | .invalidKey => "err:NotifierNotifyError::InvalidListenerKey"

def Out.render : Out → String
  | .ok => "ok" | .dup => "dup" | .none => "none" | .noNode => "no-node" | .noService => "no-service" | .dead => "dead"
  | .okN k => s!"ok:{k}"
  | .ids l => "[" ++ String.intercalate "," (l.map toString) ++ "]"
  | .keys k => "[" ++ String.intercalate "," ((sortIds (k.map (·.2))).map toString) ++ "]"
  | .cnt n l => s!"n={n},l={l}"
  | .cleaned c => s!"c={c},f=0"
  | .err e => e.render
  | .res r => if r.isEmpty then "-" else String.intercalate "," (r.map fun (k, c) => s!"{k}={c}")

/-! ### reachability -/

def run (w : World) (ops : List Op) : World := ops.foldl (fun w op => (step w op).1) w

/-- what the service builder guarantees about a created service (`adjust_attributes_to_meaningful_values`) -/
def Cfg.Sane (c : Cfg) : Prop := 1 ≤ c.maxNot ∧ 1 ≤ c.maxLis ∧ 1 ≤ c.maxNodes

instance (c : Cfg) : Decidable c.Sane := by unfold Cfg.Sane; exact inferInstance

inductive Reach (c : Cfg) : World → Prop
  | init : Reach c (World.init c)
  | step {w : World} (op : Op) : Reach c w → Reach c (step w op).1

end Iox2.EventPorts
