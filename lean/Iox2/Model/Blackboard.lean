/-
L1 model of the blackboard ports (`iceoryx2/src/port/writer.rs`, `reader.rs`, service builder / resources
`service/builder/blackboard.rs`, `service/resource/blackboard.rs`, `service/dynamic_config/blackboard.rs`).
Every public API call is one step (the concurrency inside one entry cell is covered by `Iox2.Model.SeqLock`).

What the code does, and how it is represented:

* A service has a fixed list of entries (keys 0..n-1 here).  An entry is an `UnrestrictedAtomic<T>`:
  `write_cell` counter (starts at 1), two data cells, flag `has_producer`.  `Cell.cur` is the data cell
  `(write_cell-1) % 2` (what `load` returns), `Cell.scratch` the other one (`write_cell % 2`, where the
  next value is prepared; `none` = never written), `Cell.gen` = `write_cell`, `Cell.prod = true` iff the
  producer token is handed out (`has_producer == false` in the code).
  `store v` / `update_with_copy v`: write into scratch, `fetch_add(1)`: the cells change roles.
* `Writer::new` registers a `WriterDetails` in the dynamic config container of capacity `max_writers = 1`
  (`wslots`).  The registration is released by `Drop for WriterSharedState`; that shared state is
  reference counted and held by the `Writer` *and by every `EntryHandleMut` / `EntryValueUninit`* created
  from it.  So the slot is freed when the port and all its write handles are gone (`release`).
* `Writer::entry::<T>(key)`: key lookup → `EntryDoesNotExist`; type comparison → `EntryDoesNotExist`
  (there is no separate type-mismatch error); `acquire_producer` fails → `HandleAlreadyExists`.
  `EntryHandleMut::loan_uninit` *moves* the handle into the `EntryValueUninit` (the producer token stays
  taken); `update_with_copy` / `assume_init_and_update` / `discard` give it back; dropping the
  `EntryValueUninit` drops the handle inside (token released).
* `Reader::new` registers in the container of capacity `max_readers` (0 is adjusted to 1 by the creator);
  `Drop for Reader` releases the registration at once; `EntryHandle`s keep only the service alive and stay
  usable.  `EntryHandle::get` returns the value and remembers `write_cell` (for `is_up_to_date`).
* Labels (`w r h l g`) name objects of the harness; a label is accepted once (`dup` otherwise).  `none` = no
  live object with that label, `moved` = the `EntryHandleMut` is inside an `EntryValueUninit` right now.
-/
namespace Iox2.Blackboard

abbrev Val := Nat

structure Cell where
  ty : Nat
  cur : Val
  gen : Nat
  scratch : Option Val
  prod : Bool
deriving DecidableEq, Repr

/-- an `EntryHandleMut`; `loan = some (l, x)`: it currently lives inside the `EntryValueUninit` labelled `l`,
`x` = the value written last through `value_mut()` during this loan (`none`: nothing yet) -/
structure HMut where
  id : Nat
  writer : Nat
  key : Nat
  loan : Option (Nat × Option Val)
deriving DecidableEq, Repr

/-- an `EntryHandle`; `last` = generation counter of the `BlackboardValue` obtained last -/
structure RHandle where
  id : Nat
  reader : Nat
  key : Nat
  last : Option Nat
deriving DecidableEq, Repr

structure World where
  maxReaders : Nat
  cells : List Cell
  svc : Bool               -- the `PortFactory` object of the harness is alive
  wports : List Nat        -- live `Writer` ports
  wslots : List Nat        -- registered writers (dynamic config, capacity 1), named by the port's label
  rports : List Nat        -- live `Reader` ports = registered readers
  hmuts : List HMut
  rhandles : List RHandle
  usedW : List Nat
  usedR : List Nat
  usedH : List Nat
  usedL : List Nat
  usedG : List Nat
deriving DecidableEq, Repr

inductive Err where
  | ExceedsMaxSupportedWriters | ExceedsMaxSupportedReaders | EntryDoesNotExist | HandleAlreadyExists
deriving DecidableEq, Repr

inductive Out where
  | ok | err (e : Err) | dup | none | moved | noService | unwritten | noval
  | val (v : Val) | bool (b : Bool) | count (w r : Nat)
deriving DecidableEq, Repr

inductive Op where
  | cwriter (w : Nat) | dwriter (w : Nat) | creader (r : Nat) | dreader (r : Nat)
  | hmut (w k h t : Nat) | dhmut (h : Nat) | update (h : Nat) (v : Val) | loan (h l : Nat)
  | lwrite (l : Nat) (v : Val) | lcommit (l : Nat) | commit (l : Nat) (v : Val) | discard (l : Nat) | dloan (l : Nat)
  | hget (r k g t : Nat) | dhget (g : Nat) | get (g : Nat) | fresh (g : Nat)
  | dsvc | count
deriving DecidableEq, Repr

def maxWriters : Nat := 1

/-- `Creator::create`: `max_readers == 0` is adjusted to 1; every entry starts with value 0, `write_cell = 1`,
producer token available -/
def World.init (maxReaders : Nat) (tys : List Nat) : World :=
  { maxReaders := if maxReaders = 0 then 1 else maxReaders,
    cells := tys.map (fun t => { ty := t, cur := 0, gen := 1, scratch := none, prod := false }),
    svc := true, wports := [], wslots := [], rports := [], hmuts := [], rhandles := [],
    usedW := [], usedR := [], usedH := [], usedL := [], usedG := [] }

def modAt {α : Type} : List α → Nat → (α → α) → List α
  | [], _, _ => []
  | a :: as, 0, f => f a :: as
  | a :: as, n + 1, f => a :: modAt as n f

def findH (hs : List HMut) (h : Nat) : Option HMut := hs.find? (fun m => m.id == h)
def loanLabel (m : HMut) : Option Nat := m.loan.map (·.1)
def findL (hs : List HMut) (l : Nat) : Option HMut := hs.find? (fun m => loanLabel m == some l)
def findG (gs : List RHandle) (g : Nat) : Option RHandle := gs.find? (fun m => m.id == g)

def setLoan (hs : List HMut) (id : Nat) (lo : Option (Nat × Option Val)) : List HMut :=
  hs.map (fun m => if m.id == id then { m with loan := lo } else m)

/-- `store` / `fetch_add` on the entry: the prepared value becomes the current one -/
def Cell.store (c : Cell) (v : Val) : Cell := { c with cur := v, scratch := some c.cur, gen := c.gen + 1 }
/-- `__internal_update_write_cell` alone: whatever is in the write cell becomes current -/
def Cell.publish (c : Cell) : Cell := { c with cur := c.scratch.getD 0, scratch := some c.cur, gen := c.gen + 1 }

/-- `Drop for WriterSharedState` runs when the last holder (port or write handle) is gone -/
def release (w : World) (x : Nat) : World :=
  if x ∈ w.wports ∨ w.hmuts.any (fun m => m.writer == x) then w
  else { w with wslots := w.wslots.filter (fun y => y != x) }

/-- the `EntryHandleMut` `m` is dropped: producer token back, shared writer state possibly released -/
def removeH (w : World) (m : HMut) : World :=
  release { w with hmuts := w.hmuts.filter (fun m' => m'.id != m.id),
                   cells := modAt w.cells m.key (fun c => { c with prod := false }) } m.writer

def cwriter (w : World) (x : Nat) : World × Out :=
  if x ∈ w.usedW then (w, .dup)
  else if !w.svc then (w, .noService)
  else if w.wslots.length < maxWriters then
    ({ w with wports := x :: w.wports, wslots := x :: w.wslots, usedW := x :: w.usedW }, .ok)
  else (w, .err .ExceedsMaxSupportedWriters)

def dwriter (w : World) (x : Nat) : World × Out :=
  if x ∈ w.wports then (release { w with wports := w.wports.filter (fun y => y != x) } x, .ok)
  else (w, .none)

def creader (w : World) (r : Nat) : World × Out :=
  if r ∈ w.usedR then (w, .dup)
  else if !w.svc then (w, .noService)
  else if w.rports.length < w.maxReaders then
    ({ w with rports := r :: w.rports, usedR := r :: w.usedR }, .ok)
  else (w, .err .ExceedsMaxSupportedReaders)

def dreader (w : World) (r : Nat) : World × Out :=
  if r ∈ w.rports then ({ w with rports := w.rports.filter (fun y => y != r) }, .ok)
  else (w, .none)

def hmut (w : World) (x k h t : Nat) : World × Out :=
  if h ∈ w.usedH then (w, .dup)
  else if x ∉ w.wports then (w, .none)
  else match w.cells[k]? with
    | none => (w, .err .EntryDoesNotExist)
    | some c =>
      if c.ty ≠ t then (w, .err .EntryDoesNotExist)
      else if c.prod then (w, .err .HandleAlreadyExists)
      else ({ w with cells := modAt w.cells k (fun c => { c with prod := true }),
                     hmuts := { id := h, writer := x, key := k, loan := none } :: w.hmuts,
                     usedH := h :: w.usedH }, .ok)

def dhmut (w : World) (h : Nat) : World × Out :=
  match findH w.hmuts h with
  | none => (w, .none)
  | some m => if m.loan.isSome then (w, .moved) else (removeH w m, .ok)

def update (w : World) (h : Nat) (v : Val) : World × Out :=
  match findH w.hmuts h with
  | none => (w, .none)
  | some m => if m.loan.isSome then (w, .moved)
              else ({ w with cells := modAt w.cells m.key (fun c => c.store v) }, .ok)

def loan (w : World) (h l : Nat) : World × Out :=
  if l ∈ w.usedL then (w, .dup)
  else match findH w.hmuts h with
    | none => (w, .none)
    | some m => if m.loan.isSome then (w, .moved)
                else ({ w with hmuts := setLoan w.hmuts m.id (some (l, none)), usedL := l :: w.usedL }, .ok)

def lwrite (w : World) (l : Nat) (v : Val) : World × Out :=
  match findL w.hmuts l with
  | none => (w, .none)
  | some m => ({ w with hmuts := setLoan w.hmuts m.id (some (l, some v)),
                        cells := modAt w.cells m.key (fun c => { c with scratch := some v }) }, .ok)

def lcommit (w : World) (l : Nat) : World × Out :=
  match findL w.hmuts l with
  | none => (w, .none)
  | some m =>
    match m.loan with
    | some (_, some _) =>
        ({ w with hmuts := setLoan w.hmuts m.id none, cells := modAt w.cells m.key (fun c => c.publish) }, .ok)
    | _ => (w, .unwritten)

def commit (w : World) (l : Nat) (v : Val) : World × Out :=
  match findL w.hmuts l with
  | none => (w, .none)
  | some m => ({ w with hmuts := setLoan w.hmuts m.id none, cells := modAt w.cells m.key (fun c => c.store v) }, .ok)

def discard (w : World) (l : Nat) : World × Out :=
  match findL w.hmuts l with
  | none => (w, .none)
  | some m => ({ w with hmuts := setLoan w.hmuts m.id none }, .ok)

def dloan (w : World) (l : Nat) : World × Out :=
  match findL w.hmuts l with
  | none => (w, .none)
  | some m => (removeH w m, .ok)

def hget (w : World) (r k g t : Nat) : World × Out :=
  if g ∈ w.usedG then (w, .dup)
  else if r ∉ w.rports then (w, .none)
  else match w.cells[k]? with
    | none => (w, .err .EntryDoesNotExist)
    | some c =>
      if c.ty ≠ t then (w, .err .EntryDoesNotExist)
      else ({ w with rhandles := { id := g, reader := r, key := k, last := none } :: w.rhandles,
                     usedG := g :: w.usedG }, .ok)

def dhget (w : World) (g : Nat) : World × Out :=
  match findG w.rhandles g with
  | none => (w, .none)
  | some _ => ({ w with rhandles := w.rhandles.filter (fun m => m.id != g) }, .ok)

def get (w : World) (g : Nat) : World × Out :=
  match findG w.rhandles g with
  | none => (w, .none)
  | some m =>
    match w.cells[m.key]? with
    | none => (w, .none)   -- unreachable: a handle exists only for an existing key
    | some c => ({ w with rhandles := w.rhandles.map (fun m' => if m'.id == g then { m' with last := some c.gen } else m') },
                 .val c.cur)

def fresh (w : World) (g : Nat) : World × Out :=
  match findG w.rhandles g with
  | none => (w, .none)
  | some m =>
    match m.last, w.cells[m.key]? with
    | some n, some c => (w, .bool (n == c.gen))
    | none, _ => (w, .noval)
    | _, none => (w, .none)   -- unreachable

def dsvc (w : World) : World × Out :=
  if w.svc then ({ w with svc := false }, .ok) else (w, .none)

def count (w : World) : World × Out :=
  if w.svc then (w, .count w.wslots.length w.rports.length) else (w, .noService)

def step (w : World) : Op → World × Out
  | .cwriter x => cwriter w x
  | .dwriter x => dwriter w x
  | .creader r => creader w r
  | .dreader r => dreader w r
  | .hmut x k h t => hmut w x k h t
  | .dhmut h => dhmut w h
  | .update h v => update w h v
  | .loan h l => loan w h l
  | .lwrite l v => lwrite w l v
  | .lcommit l => lcommit w l
  | .commit l v => commit w l v
  | .discard l => discard w l
  | .dloan l => dloan w l
  | .hget r k g t => hget w r k g t
  | .dhget g => dhget w g
  | .get g => get w g
  | .fresh g => fresh w g
  | .dsvc => dsvc w
  | .count => count w

def run (w : World) : List Op → World
  | [] => w
  | op :: ops => run (step w op).1 ops

/-- the outputs of a history -/
def outs (w : World) : List Op → List Out
  | [] => []
  | op :: ops => (step w op).2 :: outs (step w op).1 ops

end Iox2.Blackboard
