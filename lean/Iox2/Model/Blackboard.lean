/- stub: model `Blackboard` (to be written) -/
namespace Iox2.Blackboard
end Iox2.Blackboard
