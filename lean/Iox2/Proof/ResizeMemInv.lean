/-
Memory side of the dynamically growing data segment (C15, resize part): the invariant `MInv`
of the owner's segment table together with the chunk table, and its preservation by the building
blocks of `allocate` / `deallocate` / `grow` (`createResized`, allocation in the current segment,
`deallocate`, in-place growth).
-/
import Iox2.Proof.ResizeMemBase

namespace Iox2.ResizeMem
open Iox2.Alloc

/-- a live chunk sits in a bucket of an existing segment: bucket `i` is not on the free list, the
request fits the bucket -/
def ChunkOK (segs : List Seg) (c : Chunk) : Prop :=
  ∃ g, getSeg segs c.seg = some g ∧ ∃ i, c.off = i * g.stride ∧ i < g.nBuckets ∧ i ∉ g.pool.free ∧
    c.size ≤ g.stride ∧ Pow2 c.align ∧ c.align ≤ g.balign

structure SegOK (cur : Nat) (cs : List Chunk) (g : Seg) : Prop where
  size_pos   : 0 < g.pool.p.bucketSize
  align_pow2 : Pow2 g.pool.p.bucketAlign
  free_nodup : g.pool.free.Nodup
  free_lt    : ∀ i ∈ g.pool.free, i < g.nBuckets
  /-- `chunk_count` = number of live chunks of this segment -/
  count      : g.count = liveIn cs g.id
  id_le      : g.id ≤ cur
  /-- `number_of_used_buckets` agrees with `chunk_count`, and with the free list -/
  used_eq    : g.used = g.count
  used_free  : g.used + g.pool.free.length = g.nBuckets

structure MInv (segs : List Seg) (cur : Nat) (cs : List Chunk) : Prop where
  ids       : (segs.map (·.id)).Nodup
  cur_in    : ∃ g, getSeg segs cur = some g
  segs_ok   : ∀ g ∈ segs, SegOK cur cs g
  labels    : (cs.map (·.label)).Nodup
  chunks_ok : ∀ c ∈ cs, c.live = true → ChunkOK segs c
  distinct  : ∀ a ∈ cs, ∀ b ∈ cs, a.live = true → b.live = true → a.seg = b.seg → a.off = b.off → a = b

theorem SegOK.wf {cur : Nat} {cs : List Chunk} {g : Seg} (h : SegOK cur cs g) : Iox2.C15.WF g.pool.p :=
  ⟨h.size_pos, h.align_pow2.pos⟩

theorem SegOK.stride_pos {cur : Nat} {cs : List Chunk} {g : Seg} (h : SegOK cur cs g) : 0 < g.stride :=
  Iox2.C15.stride_pos _ h.wf

theorem mul_stride_inj {st i j : Nat} (hs : 0 < st) (h : i * st = j * st) : i = j :=
  Nat.eq_of_mul_eq_mul_right hs h

/-! ### allocation in the current segment -/
theorem minv_alloc {segs : List Seg} {cur : Nat} {cs : List Chunk} (hinv : MInv segs cur cs)
    {g g' : Seg} (hg : getSeg segs cur = some g) {size align off : Nat}
    (ha : g.allocate size align = (g', .ok off)) (hp : Pow2 align)
    {l : Nat} (hdead : ∀ c ∈ cs, c.label = l → c.live = false) (t : Bool) :
    MInv (setSeg segs { g' with count := g'.count + 1 }) cur
      (putChunk cs { label := l, seg := cur, off := off, size := size, align := align, live := true, tainted := t }) := by
  obtain ⟨i, rest, hfree, hoff, hsz, hal, hg'⟩ := Seg.allocate_ok ha
  obtain ⟨hgm, hgid⟩ := getSeg_some hg
  have hgok := hinv.segs_ok g hgm
  have hnd : (i :: rest).Nodup := hfree ▸ hgok.free_nodup
  have hi_notin : i ∉ rest := (List.nodup_cons.mp hnd).1
  have hi_lt : i < g.nBuckets := hgok.free_lt i (by rw [hfree]; exact List.mem_cons_self)
  subst hg'
  -- abbreviations
  generalize hc0 : ({ label := l, seg := cur, off := off, size := size, align := align, live := true, tainted := t } : Chunk) = c0
  have hc0l : c0.label = l := by subst hc0; rfl
  have hc0s : c0.seg = cur := by subst hc0; rfl
  have hc0o : c0.off = off := by subst hc0; rfl
  have hc0live : c0.live = true := by subst hc0; rfl
  have hc0size : c0.size = size := by subst hc0; rfl
  have hc0align : c0.align = align := by subst hc0; rfl
  generalize hg2 : ({ id := g.id, pool := { p := g.pool.p, free := rest }, used := g.used + 1, count := g.count + 1 } : Seg) = g2
  have hg2id : g2.id = cur := by subst hg2; exact hgid
  have hg2p : g2.pool.p = g.pool.p := by subst hg2; rfl
  have hg2free : g2.pool.free = rest := by subst hg2; rfl
  have hg2count : g2.count = g.count + 1 := by subst hg2; rfl
  have hg2used : g2.used = g.used + 1 := by subst hg2; rfl
  have hg2stride : g2.stride = g.stride := by unfold Seg.stride; rw [hg2p]
  have hg2n : g2.nBuckets = g.nBuckets := by unfold Seg.nBuckets; rw [hg2p]
  have hg2al : g2.balign = g.balign := by unfold Seg.balign; rw [hg2p]
  have hgetcur : getSeg (setSeg segs g2) cur = some g2 := by
    rw [getSeg_setSeg, hg2id]; simp [hg]
  have hgetoth : ∀ id, id ≠ cur → getSeg (setSeg segs g2) id = getSeg segs id := by
    intro id hne; rw [getSeg_setSeg, hg2id]; simp [hne]
  have hwold : ∀ id, oldWt cs c0.label id = 0 := by
    intro id; rw [hc0l]; exact oldWt_dead hdead id
  have hwt0 : ∀ id, wt c0 id = if id = cur then 1 else 0 := by
    intro id; unfold wt; rw [hc0live, hc0s]
    by_cases h : id = cur
    · simp [h]
    · simp [h]; exact fun h' => h h'.symm
  refine ⟨?_, ⟨g2, hgetcur⟩, ?_, putChunk_labels_nodup hinv.labels c0, ?_, ?_⟩
  · rw [setSeg_ids]; exact hinv.ids
  · intro x hx
    rcases mem_setSeg hx with rfl | ⟨hxm, hxid⟩
    · have hcnt := liveIn_putChunk hinv.labels c0 x.id
      rw [hwold, hwt0, hg2id] at hcnt
      simp only [if_true] at hcnt
      refine ⟨hg2p ▸ hgok.size_pos, hg2p ▸ hgok.align_pow2, ?_, ?_, ?_, ?_, ?_, ?_⟩
      · rw [hg2free]; exact (List.nodup_cons.mp hnd).2
      · intro j hj; rw [hg2n]; rw [hg2free] at hj
        exact hgok.free_lt j (by rw [hfree]; exact List.mem_cons_of_mem _ hj)
      · rw [hg2count, hgok.count, hg2id, hgid]; omega
      · rw [hg2id]; exact Nat.le_refl _
      · rw [hg2used, hg2count, hgok.used_eq]
      · have := hgok.used_free
        rw [hfree] at this
        rw [hg2used, hg2free, hg2n]; simp only [List.length_cons] at this; omega
    · have hxok := hinv.segs_ok x hxm
      have hcnt := liveIn_putChunk hinv.labels c0 x.id
      rw [hwold, hwt0] at hcnt
      rw [hg2id] at hxid
      simp only [hxid, if_false] at hcnt
      exact ⟨hxok.size_pos, hxok.align_pow2, hxok.free_nodup, hxok.free_lt, by rw [hxok.count]; omega, hxok.id_le,
        hxok.used_eq, hxok.used_free⟩
  · intro c hc hlive
    rcases mem_putChunk.mp hc with rfl | ⟨hcm, _⟩
    · refine ⟨g2, by rw [hc0s]; exact hgetcur, i, ?_, ?_, ?_, ?_, ?_, ?_⟩
      · rw [hc0o, hg2stride]; exact hoff
      · rw [hg2n]; exact hi_lt
      · rw [hg2free]; exact hi_notin
      · rw [hc0size, hg2stride]; exact hsz
      · rw [hc0align]; exact hp
      · rw [hc0align, hg2al]; exact hal
    · obtain ⟨gc, hgc, j, h1, h2, h3, h4, h5, h6⟩ := hinv.chunks_ok c hcm hlive
      by_cases hseg : c.seg = cur
      · have : gc = g := by rw [hseg, hg] at hgc; exact (Option.some.inj hgc).symm
        subst this
        refine ⟨g2, by rw [hseg]; exact hgetcur, j, by rw [hg2stride]; exact h1, by rw [hg2n]; exact h2, ?_,
          by rw [hg2stride]; exact h4, h5, by rw [hg2al]; exact h6⟩
        rw [hg2free]; intro hj; exact h3 (by rw [hfree]; exact List.mem_cons_of_mem _ hj)
      · exact ⟨gc, by rw [hgetoth _ hseg]; exact hgc, j, h1, h2, h3, h4, h5, h6⟩
  · -- distinctness: the new chunk's bucket was free, every other live chunk's bucket is not
    have hnew : ∀ b ∈ cs, b.live = true → b.seg = cur → b.off = off → False := by
      intro b hb hbl hbs hbo
      obtain ⟨gc, hgc, j, h1, _, h3, _⟩ := hinv.chunks_ok b hb hbl
      have : gc = g := by rw [hbs, hg] at hgc; exact (Option.some.inj hgc).symm
      subst this
      have hij : j = i := mul_stride_inj hgok.stride_pos (by rw [← h1, hbo, hoff])
      exact h3 (by rw [hfree, hij]; exact List.mem_cons_self)
    intro a ha b hb hal' hbl hseg hoff'
    rcases mem_putChunk.mp ha with rfl | ⟨ham, _⟩
    · rcases mem_putChunk.mp hb with rfl | ⟨hbm, _⟩
      · rfl
      · exact (hnew b hbm hbl (by rw [← hseg, hc0s]) (by rw [← hoff', hc0o])).elim
    · rcases mem_putChunk.mp hb with rfl | ⟨hbm, _⟩
      · exact (hnew a ham hal' (by rw [hseg, hc0s]) (by rw [hoff', hc0o])).elim
      · exact hinv.distinct a ham b hbm hal' hbl hseg hoff'

/-! ### a new, larger segment -/
theorem mkSeg_ok {cfg : Cfg} {id : Nat} {h : Hint} {g : Seg} (hm : mkSeg cfg id h = .ok g) :
    g.id = id ∧ g.count = 0 ∧ g.used = 0 ∧ 0 < g.pool.p.bucketSize ∧ g.pool.p.bucketAlign = h.bucketAlign ∧
      g.pool.p.bucketSize = h.bucketSize ∧ g.pool.p.ptr = cfg.base ∧ g.pool.p.size = h.bucketSize * h.nBuckets ∧
      g.pool.free = List.range g.nBuckets ∧ h.bucketAlign ≤ cfg.pageSize := by
  unfold mkSeg at hm
  simp only at hm
  split at hm
  · cases hm
  · split at hm
    · cases hm
    · rename_i h1 h2
      have hg := (Except.ok.inj hm).symm
      subst hg
      refine ⟨rfl, rfl, rfl, ?_, rfl, rfl, rfl, rfl, rfl, by omega⟩
      simp only [PoolSt.init]
      rcases Nat.eq_zero_or_pos h.bucketSize with h0 | h0
      · rw [h0] at h1; simp at h1
      · exact h0

theorem pow2_resizeHint_align {curSize curAlign n used reqSize reqAlign : Nat} {st : Strategy}
    (hc : Pow2 curAlign) (hr : Pow2 reqAlign) :
    Pow2 (resizeHint curSize curAlign n used reqSize reqAlign st).bucketAlign := by
  unfold resizeHint
  simp only
  split
  · cases st
    · exact hc
    · exact Pow2.max hr hc
    · exact pow2_nextPow2 _
  · exact hc

theorem createResized_spec {s s' : St} {g : Seg} {size align : Nat}
    (h : createResized s g size align = some s') :
    ∃ g', mkSeg s.cfg (s.cur + 1)
        (resizeHint g.stride g.balign g.nBuckets g.used size align s.cfg.strategy) = .ok g' ∧
      s.cur + 1 < s.cfg.maxSegs ∧
      s' = { s with segs := (if g.count = 0 then dropSeg s.segs s.cur else s.segs) ++ [g'], cur := s.cur + 1 } := by
  unfold createResized at h
  simp only at h
  split at h
  · rename_i hlt
    split at h
    · cases h
    · rename_i g' hmk
      exact ⟨g', hmk, hlt, (Option.some.inj h).symm⟩
  · cases h

theorem minv_createResized {s s' : St} (hinv : MInv s.segs s.cur s.chunks) {g : Seg}
    (hg : getSeg s.segs s.cur = some g) {size align : Nat} (hp : Pow2 align)
    (h : createResized s g size align = some s') :
    MInv s'.segs s'.cur s'.chunks ∧ s'.chunks = s.chunks ∧ s'.mem = s.mem ∧ s'.views = s.views ∧
      s'.cfg = s.cfg ∧ s'.cur = s.cur + 1 ∧
      (∀ id, id ≤ s.cur → 0 < liveIn s.chunks id → getSeg s'.segs id = getSeg s.segs id) ∧
      (∀ id g0, getSeg s'.segs id = some g0 → id ≤ s.cur → getSeg s.segs id = some g0) := by
  obtain ⟨g', hmk, _, rfl⟩ := createResized_spec h
  obtain ⟨hid, hcnt, hused, hsz, hal, _, _, _, hfree, _⟩ := mkSeg_ok hmk
  obtain ⟨hgm, hgid⟩ := getSeg_some hg
  have hgok := hinv.segs_ok g hgm
  simp only
  -- the segments that are kept
  generalize hkept : (if g.count = 0 then dropSeg s.segs s.cur else s.segs) = kept
  have hkm : ∀ x, x ∈ kept → x ∈ s.segs := by
    intro x hx; subst hkept
    split at hx
    · exact (mem_dropSeg.mp hx).1
    · exact hx
  have hknd : (kept.map (·.id)).Nodup := by
    subst hkept; split
    · exact dropSeg_ids_nodup hinv.ids _
    · exact hinv.ids
  have hkget : ∀ id, getSeg kept id = if g.count = 0 ∧ id = s.cur then none else getSeg s.segs id := by
    intro id; subst hkept
    by_cases hc : g.count = 0
    · simp only [hc, if_true, true_and]; exact getSeg_dropSeg _ _ _
    · simp [hc]
  have hnolive : g.count = 0 → ∀ c ∈ s.chunks, c.live = true → c.seg ≠ s.cur := by
    intro hc c hcm hl hseg
    have := liveIn_pos_of_mem hcm hl
    rw [hseg, ← hgid, ← hgok.count] at this
    omega
  have hlive_le : ∀ c ∈ s.chunks, c.live = true → c.seg ≤ s.cur := by
    intro c hcm hl
    obtain ⟨gc, hgc, _⟩ := hinv.chunks_ok c hcm hl
    obtain ⟨hgcm, hgcid⟩ := getSeg_some hgc
    rw [← hgcid]; exact (hinv.segs_ok gc hgcm).id_le
  have hget_old : ∀ id, id ≤ s.cur → getSeg (kept ++ [g']) id = getSeg kept id := by
    intro id hle
    rw [getSeg_append]
    cases hk : getSeg kept id with
    | some x => rfl
    | none => simp only; rw [if_neg]; omega
  refine ⟨⟨?_, ?_, ?_, hinv.labels, ?_, hinv.distinct⟩, trivial, trivial, trivial, trivial, trivial, ?_, ?_⟩
  · rw [List.map_append, List.nodup_append]
    refine ⟨hknd, by simp, ?_⟩
    intro a ha b hb
    simp only [List.map_cons, List.map_nil, List.mem_singleton] at hb
    obtain ⟨x, hx, rfl⟩ := List.mem_map.mp ha
    have := (hinv.segs_ok x (hkm x hx)).id_le
    omega
  · refine ⟨g', ?_⟩
    rw [getSeg_append]
    cases hk : getSeg kept (s.cur + 1) with
    | some x =>
      have := getSeg_some hk
      have hle := (hinv.segs_ok x (hkm x this.1)).id_le
      omega
    | none => simp [hid]
  · intro x hx
    rcases List.mem_append.mp hx with hx | hx
    · have hxok := hinv.segs_ok x (hkm x hx)
      exact ⟨hxok.size_pos, hxok.align_pow2, hxok.free_nodup, hxok.free_lt, hxok.count, by have := hxok.id_le; omega,
        hxok.used_eq, hxok.used_free⟩
    · simp only [List.mem_singleton] at hx
      subst hx
      refine ⟨hsz, ?_, ?_, ?_, ?_, by omega, by rw [hused, hcnt], by rw [hused, hfree]; simp⟩
      · rw [hal]; exact pow2_resizeHint_align hgok.align_pow2 hp
      · rw [hfree]; exact List.nodup_range
      · intro i hi; rw [hfree] at hi; exact List.mem_range.mp hi
      · rw [hcnt, hid]; symm
        apply liveIn_eq_zero
        intro c hcm hl
        have := hlive_le c hcm hl
        omega
  · intro c hcm hl
    obtain ⟨gc, hgc, rest⟩ := hinv.chunks_ok c hcm hl
    refine ⟨gc, ?_, rest⟩
    rw [hget_old _ (hlive_le c hcm hl), hkget]
    rw [if_neg]
    · exact hgc
    · intro ⟨hc0, hseg⟩
      exact hnolive hc0 c hcm hl hseg
  · intro id hle hpos
    rw [hget_old _ hle, hkget, if_neg]
    intro ⟨hc0, hid'⟩
    rw [hid', ← hgid, ← hgok.count] at hpos
    omega
  · intro id g0 hget hle
    rw [hget_old _ hle, hkget] at hget
    split at hget
    · cases hget
    · exact hget

/-! ### release of a chunk -/
theorem deallocate_frame (s : St) (seg off : Nat) :
    (deallocate s seg off).cur = s.cur ∧ (deallocate s seg off).chunks = s.chunks ∧
      (deallocate s seg off).mem = s.mem ∧ (deallocate s seg off).views = s.views ∧
      (deallocate s seg off).cfg = s.cfg := by
  unfold deallocate
  split
  · exact ⟨rfl, rfl, rfl, rfl, rfl⟩
  · split <;> exact ⟨rfl, rfl, rfl, rfl, rfl⟩

/-- the segments after `perform_deallocation`, as a function of the segment table alone -/
def deallocSegs (segs : List Seg) (cur seg off : Nat) : List Seg :=
  match getSeg segs seg with
  | none => segs
  | some g =>
    if g.count = 1 ∧ seg ≠ cur then dropSeg segs seg
    else setSeg segs { g.deallocate off with count := g.count - 1 }

theorem deallocate_segs (s : St) (seg off : Nat) :
    (deallocate s seg off).segs = deallocSegs s.segs s.cur seg off := by
  unfold deallocate deallocSegs
  cases h : getSeg s.segs seg with
  | none => rfl
  | some g =>
    simp only
    split <;> rfl

theorem minv_dealloc {segs : List Seg} {cur : Nat} {cs : List Chunk} (hinv : MInv segs cur cs)
    {c : Chunk} (hc : c ∈ cs) (hl : c.live = true) :
    MInv (deallocSegs segs cur c.seg c.off) cur (putChunk cs { c with live := false }) := by
  obtain ⟨g, hg, i, hoff, hi_lt, hi_notin, _, _, _⟩ := hinv.chunks_ok c hc hl
  obtain ⟨hgm, hgid⟩ := getSeg_some hg
  have hgok := hinv.segs_ok g hgm
  generalize hcd : ({ c with live := false } : Chunk) = cd
  have hcdl : cd.label = c.label := by subst hcd; rfl
  have hcdlive : cd.live = false := by subst hcd; rfl
  have hwold : ∀ id, oldWt cs cd.label id = wt c id := by
    intro id; rw [hcdl]; exact oldWt_of_mem hinv.labels hc id
  have hwcd : ∀ id, wt cd id = 0 := by intro id; simp [wt, hcdlive]
  have hwc : ∀ id, wt c id = if id = c.seg then 1 else 0 := by
    intro id; unfold wt
    by_cases h : id = c.seg
    · simp [h, hl]
    · simp [h, hl]; exact fun h' => h h'.symm
  have hcount : ∀ id, liveIn (putChunk cs cd) id + (if id = c.seg then 1 else 0) = liveIn cs id := by
    intro id
    have := liveIn_putChunk hinv.labels cd id
    rw [hwold, hwcd, hwc] at this
    omega
  -- live chunks of the new table are live chunks of the old one, other than c
  have hlive_old : ∀ x ∈ putChunk cs cd, x.live = true → x ∈ cs ∧ x.label ≠ c.label := by
    intro x hx hxl
    rcases mem_putChunk.mp hx with rfl | ⟨hxm, hxne⟩
    · rw [hcdlive] at hxl; cases hxl
    · exact ⟨hxm, by rw [← hcdl]; exact hxne⟩
  have hdistinct : ∀ a ∈ putChunk cs cd, ∀ b ∈ putChunk cs cd, a.live = true → b.live = true →
      a.seg = b.seg → a.off = b.off → a = b := by
    intro a ha b hb hal hbl hs ho
    exact hinv.distinct a (hlive_old a ha hal).1 b (hlive_old b hb hbl).1 hal hbl hs ho
  unfold deallocSegs
  rw [hg]
  simp only
  split
  · -- the segment is released: `c` was its only live chunk
    rename_i hdrop
    have hone : liveIn cs c.seg = 1 := by rw [← hgid, ← hgok.count]; exact hdrop.1
    have hnone : ∀ x ∈ putChunk cs cd, x.live = true → x.seg ≠ c.seg := by
      intro x hx hxl hxs
      have h0 : liveIn (putChunk cs cd) c.seg = 0 := by
        have := hcount c.seg; simp only [if_true] at this; omega
      have := liveIn_pos_of_mem hx hxl
      rw [hxs] at this; omega
    refine ⟨dropSeg_ids_nodup hinv.ids _, ?_, ?_, putChunk_labels_nodup hinv.labels cd, ?_, hdistinct⟩
    · obtain ⟨gc, hgc⟩ := hinv.cur_in
      refine ⟨gc, ?_⟩
      rw [getSeg_dropSeg, if_neg (fun h => hdrop.2 h.symm)]; exact hgc
    · intro x hx
      obtain ⟨hxm, hxid⟩ := mem_dropSeg.mp hx
      have hxok := hinv.segs_ok x hxm
      have := hcount x.id
      rw [if_neg hxid] at this
      exact ⟨hxok.size_pos, hxok.align_pow2, hxok.free_nodup, hxok.free_lt, by rw [hxok.count]; omega, hxok.id_le,
        hxok.used_eq, hxok.used_free⟩
    · intro x hx hxl
      obtain ⟨gx, hgx, rest⟩ := hinv.chunks_ok x (hlive_old x hx hxl).1 hxl
      refine ⟨gx, ?_, rest⟩
      rw [getSeg_dropSeg, if_neg (hnone x hx hxl)]; exact hgx
  · rename_i hkeep
    generalize hg2 : ({ g.deallocate c.off with count := g.count - 1 } : Seg) = g2
    have hg2id : g2.id = c.seg := by subst hg2; exact hgid
    have hg2p : g2.pool.p = g.pool.p := by subst hg2; rfl
    have hg2free : g2.pool.free = i :: g.pool.free := by
      subst hg2; simp only; rw [hoff]; exact Seg.deallocate_free g hgok.wf i
    have hg2count : g2.count = g.count - 1 := by subst hg2; rfl
    have hg2used : g2.used = g.used - 1 := by subst hg2; rfl
    have hcpos : 0 < g.count := by
      rw [hgok.count, hgid]; exact liveIn_pos_of_mem hc hl
    have hg2stride : g2.stride = g.stride := by unfold Seg.stride; rw [hg2p]
    have hg2n : g2.nBuckets = g.nBuckets := by unfold Seg.nBuckets; rw [hg2p]
    have hg2al : g2.balign = g.balign := by unfold Seg.balign; rw [hg2p]
    have hgetseg : getSeg (setSeg segs g2) c.seg = some g2 := by
      rw [getSeg_setSeg, hg2id]; simp [hg]
    have hgetoth : ∀ id, id ≠ c.seg → getSeg (setSeg segs g2) id = getSeg segs id := by
      intro id hne; rw [getSeg_setSeg, hg2id]; simp [hne]
    refine ⟨by rw [setSeg_ids]; exact hinv.ids, ?_, ?_, putChunk_labels_nodup hinv.labels cd, ?_, hdistinct⟩
    · obtain ⟨gc, hgc⟩ := hinv.cur_in
      by_cases hcs : cur = c.seg
      · exact ⟨g2, by rw [hcs]; exact hgetseg⟩
      · exact ⟨gc, by rw [hgetoth _ hcs]; exact hgc⟩
    · intro x hx
      rcases mem_setSeg hx with rfl | ⟨hxm, hxid⟩
      · have := hcount x.id
        rw [hg2id] at this
        simp only [if_true] at this
        refine ⟨hg2p ▸ hgok.size_pos, hg2p ▸ hgok.align_pow2, ?_, ?_, ?_, ?_, ?_, ?_⟩
        · rw [hg2free]; exact List.nodup_cons.mpr ⟨hi_notin, hgok.free_nodup⟩
        · intro j hj; rw [hg2n]; rw [hg2free] at hj
          rcases List.mem_cons.mp hj with rfl | hj
          · exact hi_lt
          · exact hgok.free_lt j hj
        · rw [hg2count, hgok.count, hg2id, hgid]; omega
        · rw [hg2id, ← hgid]; exact hgok.id_le
        · rw [hg2used, hg2count, hgok.used_eq]
        · have h1 := hgok.used_free
          have h2 := hgok.used_eq
          rw [hg2used, hg2free, hg2n]; simp only [List.length_cons]; omega
      · have hxok := hinv.segs_ok x hxm
        have := hcount x.id
        rw [hg2id] at hxid
        rw [if_neg hxid] at this
        exact ⟨hxok.size_pos, hxok.align_pow2, hxok.free_nodup, hxok.free_lt, by rw [hxok.count]; omega, hxok.id_le,
          hxok.used_eq, hxok.used_free⟩
    · intro x hx hxl
      obtain ⟨hxm, hxne⟩ := hlive_old x hx hxl
      obtain ⟨gx, hgx, j, h1, h2, h3, h4, h5, h6⟩ := hinv.chunks_ok x hxm hxl
      by_cases hseg : x.seg = c.seg
      · have : gx = g := by rw [hseg, hg] at hgx; exact (Option.some.inj hgx).symm
        subst this
        refine ⟨g2, by rw [hseg]; exact hgetseg, j, by rw [hg2stride]; exact h1, by rw [hg2n]; exact h2, ?_,
          by rw [hg2stride]; exact h4, h5, by rw [hg2al]; exact h6⟩
        rw [hg2free]
        intro hj
        rcases List.mem_cons.mp hj with rfl | hj
        · -- same bucket as c: then x = c
          have := hinv.distinct x hxm c hc hxl hl hseg (by rw [h1, hoff])
          exact hxne (by rw [this])
        · exact h3 hj
      · exact ⟨gx, by rw [hgetoth _ hseg]; exact hgx, j, h1, h2, h3, h4, h5, h6⟩

/-! ### replacing the record of a live chunk that stays in its bucket (growth in place) -/
theorem minv_replace {segs : List Seg} {cur : Nat} {cs : List Chunk} (hinv : MInv segs cur cs)
    {c c' : Chunk} (hc : c ∈ cs) (hl : c.live = true) (hl' : c'.live = true)
    (hlab : c'.label = c.label) (hseg : c'.seg = c.seg) (hoff : c'.off = c.off)
    (hfit : ∀ g, getSeg segs c.seg = some g → c'.size ≤ g.stride ∧ c'.align ≤ g.balign) (hp : Pow2 c'.align) :
    MInv segs cur (putChunk cs c') := by
  have hwold : ∀ id, oldWt cs c'.label id = wt c id := by
    intro id; rw [hlab]; exact oldWt_of_mem hinv.labels hc id
  have hwt : ∀ id, wt c' id = wt c id := by intro id; simp [wt, hl, hl', hseg]
  have hcount : ∀ id, liveIn (putChunk cs c') id = liveIn cs id := by
    intro id
    have := liveIn_putChunk hinv.labels c' id
    rw [hwold, hwt] at this
    omega
  -- every record of the new table corresponds to an old one with the same seg / off / liveness
  have hold : ∀ x ∈ putChunk cs c', ∃ y ∈ cs, y.seg = x.seg ∧ y.off = x.off ∧ y.live = x.live ∧ y.label = x.label := by
    intro x hx
    rcases mem_putChunk.mp hx with rfl | ⟨hxm, _⟩
    · exact ⟨c, hc, hseg.symm, hoff.symm, by rw [hl, hl'], hlab.symm⟩
    · exact ⟨x, hxm, rfl, rfl, rfl, rfl⟩
  refine ⟨hinv.ids, hinv.cur_in, ?_, putChunk_labels_nodup hinv.labels c', ?_, ?_⟩
  · intro g hg
    have hgok := hinv.segs_ok g hg
    exact ⟨hgok.size_pos, hgok.align_pow2, hgok.free_nodup, hgok.free_lt, by rw [hcount]; exact hgok.count, hgok.id_le,
      hgok.used_eq, hgok.used_free⟩
  · intro x hx hxl
    rcases mem_putChunk.mp hx with rfl | ⟨hxm, _⟩
    · obtain ⟨g, hg, i, h1, h2, h3, _, _, _⟩ := hinv.chunks_ok c hc hl
      have := hfit g hg
      exact ⟨g, by rw [hseg]; exact hg, i, by rw [hoff]; exact h1, h2, h3, this.1, hp, this.2⟩
    · exact hinv.chunks_ok x hxm hxl
  · intro a ha b hb hal hbl hs ho
    obtain ⟨a', ha', h1, h2, h3, h4⟩ := hold a ha
    obtain ⟨b', hb', h5, h6, h7, h8⟩ := hold b hb
    have hab : a' = b' := hinv.distinct a' ha' b' hb' (by rw [h3]; exact hal) (by rw [h7]; exact hbl)
      (by rw [h1, h5]; exact hs) (by rw [h2, h6]; exact ho)
    have hlabel : a.label = b.label := by rw [← h4, ← h8, hab]
    exact label_inj (putChunk_labels_nodup hinv.labels c') ha hb hlabel

end Iox2.ResizeMem
