/-
C08 helper: publisher-side actions preserve the invariant (part A: rebuild lemma, retrieve).
-/
import Iox2.Proof.PubSubC08Transfer
set_option linter.unusedSimpArgs false
set_option linter.unusedVariables false
namespace Iox2.PubSub.C08
open Iox2.PubSub
open Iox2.C16.SlotMapP (abs)

theorem SlotsOK.transfer {cfg : Cfg} {w w' : World} {p : Nat} {P : Pub} (h : SlotsOK cfg w p P)
    (hS : ∀ s, getS w' s = getS w s)
    (hC : ∀ s c, getC w p s = some c → c.sAtt = true → ∃ c', getC w' p s = some c' ∧ c'.sAtt = true) :
    SlotsOK cfg w' p P := by
  refine ⟨h.connsLen, ?_, ?_, h.aliveEx⟩
  · intro i s hi
    obtain ⟨c, hc, ha⟩ := h.slotConn i s hi
    exact hC s c hc ha
  · intro i s hi
    rw [hS]; exact h.slotSlot i s hi

theorem MemOK.transfer {cfg : Cfg} {w w' : World} {p : Nat} {P : Pub} {xs : List Nat} {st : Bool}
    (h : MemOK cfg w p P xs st) (hU : ∀ s c, usedAt w' p s c = usedAt w p s c) : MemOK cfg w' p P xs st := by
  refine ⟨h.fr, h.nEq, ?_, h.loanCnt, h.histLen, h.labels, h.loanRc, h.xsRc, h.histNodup⟩
  intro c
  rw [h.rcEq c, slotSum_congr P.conns (fun s _ => hU s c)]

theorem MemOK.nil_strict {cfg : Cfg} {w : World} {p : Nat} {P : Pub} {st st' : Bool}
    (h : MemOK cfg w p P [] st) : MemOK cfg w p P [] st' :=
  ⟨h.fr, h.nEq, h.rcEq, h.loanCnt, h.histLen, h.labels, h.loanRc, fun _ c hc => by simp at hc, h.histNodup⟩

theorem usedAt_congr {w w' : World} {p s : Nat} (h : getC w' p s = getC w p s) (c : Nat) :
    usedAt w' p s c = usedAt w p s c := by
  unfold usedAt; rw [h]

/-- frame facts shared by all publisher-side actions -/
structure PFrame (w w' : World) : Prop where
  cfg : w'.cfg = w.cfg
  pubReg : w'.pubReg = w.pubReg
  subReg : w'.subReg = w.subReg
  subs : ∀ s, getS w' s = getS w s

theorem PFrame.of_PStep {w w' : World} (h : PStep w w') : PFrame w w' := by
  obtain ⟨a, b, c, d, -, -⟩ := h.frame
  exact ⟨a, b, c, fun s => by unfold getS; rw [d]⟩

/-- rebuild the invariant after an action that touched only publisher `p` and connections of `p` -/
theorem InvP.rebuild00 {cfg : Cfg} {w w' : World} {xp : Option Nat} {p0 : Nat} {xs xs' : List Nat} {st st' : Bool}
    (h : InvP cfg w xp p0 xs st) (p : Nat)
    (hfr : PFrame w w')
    (hPo : ∀ q, q ≠ p → getP w' q = getP w q)
    (hCo : ∀ q s, q ≠ p → getC w' q s = getC w q s)
    (hsim : PubsSim00 w w')
    (hu : ConnsUniq w')
    (hx : p ≠ p0 → xs = [] ∧ xs' = [])
    (hR : ∀ s c, getC w p s = some c → c.rAtt = true → ∃ c', getC w' p s = some c' ∧ c'.rAtt = true)
    (hC : ∀ s c', getC w' p s = some c' → ConnInv cfg w' p s c')
    (hP : ∀ P', getP w' p = some P' → SlotsOK cfg w' p P' ∧
      (P'.alive = true → MemOK cfg w' p P' (if p = p0 then xs' else []) st')) :
    InvP cfg w' xp p0 xs' st' := by
  refine ⟨h.r.transferP hfr.cfg hfr.pubReg hfr.subReg hfr.subs hsim, ?_, ?_, ?_, hu⟩
  · intro q s c hc
    by_cases hq : q = p
    · subst hq; exact hC s c hc
    · rw [hCo q s hq] at hc
      exact (h.c q s c hc).transferAt hfr.subs (fun P hP => ⟨P, by rw [hPo q hq]; exact hP, .refl _⟩)
        (fun P' hP' => ⟨P', by rw [← hPo q hq]; exact hP', .refl _⟩)
  · intro q Q hq
    by_cases hqp : q = p
    · subst hqp; exact hP Q hq
    · rw [hPo q hqp] at hq
      obtain ⟨a, b⟩ := h.p q Q hq
      refine ⟨a.transfer hfr.subs (fun s c hc ha => ⟨c, by rw [hCo q s hqp]; exact hc, ha⟩), fun hal => ?_⟩
      have hm := (b hal).transfer (w' := w') (fun s c => usedAt_congr (hCo q s hqp) c)
      by_cases hq0 : q = p0
      · subst hq0
        obtain ⟨e1, e2⟩ := hx (fun e => hqp e.symm)
        subst e1; subst e2
        simp only [if_true] at hm ⊢
        exact hm.nil_strict
      · simp only [hq0, if_false] at hm ⊢
        exact hm.nil_strict
  · intro s S hs
    rw [hfr.subs] at hs
    refine (h.s s S hs).transferP hsim ?_
    intro q c hc hr
    by_cases hq : q = p
    · subst hq; exact hR s c hc hr
    · exact ⟨c, by rw [hCo q s hq]; exact hc, hr⟩

theorem InvP.rebuild {cfg : Cfg} {w w' : World} {xp : Option Nat} {p0 : Nat} {xs xs' : List Nat} {st st' : Bool}
    (h : InvP cfg w xp p0 xs st) (p : Nat)
    (hfr : PFrame w w')
    (hPo : ∀ q, q ≠ p → getP w' q = getP w q)
    (hCo : ∀ q s, q ≠ p → getC w' q s = getC w q s)
    (hsim : PubsSim0 w w')
    (hu : ConnsUniq w')
    (hx : p ≠ p0 → xs = [] ∧ xs' = [])
    (hR : ∀ s c, getC w p s = some c → c.rAtt = true → ∃ c', getC w' p s = some c' ∧ c'.rAtt = true)
    (hC : ∀ s c', getC w' p s = some c' → ConnInv cfg w' p s c')
    (hP : ∀ P', getP w' p = some P' → SlotsOK cfg w' p P' ∧
      (P'.alive = true → MemOK cfg w' p P' (if p = p0 then xs' else []) st')) :
    InvP cfg w' xp p0 xs' st' :=
  h.rebuild00 p hfr hPo hCo hsim.to00 hu hx hR hC hP

/-! ### uniqueness of connection keys -/

theorem ConnsUniq.setC {w : World} (h : ConnsUniq w) (x : Conn) : ConnsUniq (setC w x) := by
  unfold ConnsUniq Iox2.PubSub.setC at *
  simp only
  rw [List.pairwise_map]
  refine h.imp ?_
  intro a b hab
  by_cases ha : a.pid = x.pid ∧ a.sid = x.sid <;> by_cases hb : b.pid = x.pid ∧ b.sid = x.sid
  · exact absurd ⟨ha.1.trans hb.1.symm, ha.2.trans hb.2.symm⟩ hab
  · simp only [ha, hb, and_self, if_true, if_false]
    intro e; exact hb ⟨e.1.symm, e.2.symm⟩
  · simp only [ha, hb, and_self, if_true, if_false]
    exact fun e => e
  · simp only [ha, hb, if_false]; exact hab

theorem ConnsUniq.pushC {w : World} (h : ConnsUniq w) (x : Conn) (hx : getC w x.pid x.sid = none) :
    ConnsUniq (pushC w x) := by
  unfold ConnsUniq Iox2.PubSub.C08.pushC at *
  simp only
  rw [List.pairwise_append]
  refine ⟨h, List.pairwise_singleton _ _, ?_⟩
  intro a ha b hb
  simp at hb; subst hb
  unfold getC at hx
  have := List.find?_eq_none.mp hx a ha
  simpa using this

theorem ConnsUniq.dropC {w : World} (h : ConnsUniq w) (p s : Nat) : ConnsUniq (dropC w p s) := by
  unfold ConnsUniq Iox2.PubSub.C08.dropC at *
  exact h.sublist List.filter_sublist

theorem ConnsUniq.of_conns {w w' : World} (h : ConnsUniq w) (e : w'.conns = w.conns) : ConnsUniq w' := by
  unfold ConnsUniq at *; rw [e]; exact h

theorem getC_of_mem {w : World} (h : ConnsUniq w) {c : Conn} (hc : c ∈ w.conns) :
    getC w c.pid c.sid = some c := by
  unfold ConnsUniq at h
  unfold getC
  generalize w.conns = l at h hc
  induction l with
  | nil => simp at hc
  | cons a l ih =>
    rw [List.pairwise_cons] at h
    rcases List.mem_cons.mp hc with rfl | hm
    · simp
    · have hne := h.1 c hm
      have : ¬ (a.pid = c.pid ∧ a.sid = c.sid) := hne
      rw [List.find?_cons]
      simp only [this, decide_false]
      exact ih h.2 hm

/-! ### actions on one publisher record and one connection -/

theorem getP_setC_setP {w : World} {p : Nat} {P : Pub} (hp : getP w p = some P) (P' : Pub) (x : Conn) (q : Nat) :
    getP (setC (setP w p P') x) q = if q = p then some P' else getP w q := by
  simp only [getP_setC, getP_setP, hp, Option.map_some]

theorem getC_setC_setP {w : World} {p s : Nat} {c : Conn} (hc : getC w p s = some c) (P' : Pub) (x : Conn)
    (hk : x.pid = p ∧ x.sid = s) (a b : Nat) :
    getC (setC (setP w p P') x) a b = if a = p ∧ b = s then some x else getC w a b := by
  rw [getC_setC, getC_setP, hk.1, hk.2]
  by_cases h : a = p ∧ b = s
  · obtain ⟨rfl, rfl⟩ := h
    simp [hc]
  · simp [h]

/-- rebuild after `setC (setP w p P') c'` -/
theorem InvP.rebuild1 {cfg : Cfg} {w : World} {xp : Option Nat} {p0 : Nat} {xs xs' : List Nat} {st st' : Bool}
    (h : InvP cfg w xp p0 xs st) {p s : Nat} {P P' : Pub} {c c' : Conn}
    (hp : getP w p = some P) (hc : getC w p s = some c)
    (hk : c'.pid = p ∧ c'.sid = s) (hsim : PubSim P P') (hr : c.rAtt = true → c'.rAtt = true)
    (hx : p ≠ p0 → xs = [] ∧ xs' = [])
    (hC : ConnInv cfg (setC (setP w p P') c') p s c')
    (hP : SlotsOK cfg (setC (setP w p P') c') p P' ∧
      (P'.alive = true → MemOK cfg (setC (setP w p P') c') p P' (if p = p0 then xs' else []) st')) :
    InvP cfg (setC (setP w p P') c') xp p0 xs' st' := by
  have hfr : PFrame w (setC (setP w p P') c') := ⟨rfl, rfl, rfl, fun _ => rfl⟩
  have hsimW : PubsSim w (setC (setP w p P') c') := by
    have := PubsSim.setP hp hsim
    exact ⟨this.fwd, this.bwd⟩
  refine h.rebuild p hfr ?_ ?_ hsimW.to0 ((h.u.of_conns rfl).setC c') hx ?_ ?_ ?_
  · intro q hq; rw [getP_setC_setP hp]; simp [hq]
  · intro q s' hq; rw [getC_setC_setP hc _ _ hk]; simp [hq]
  · intro s' x hx' hxr
    rw [getC_setC_setP hc _ _ hk]
    by_cases hs : s' = s
    · subst hs
      rw [hc] at hx'; cases hx'
      exact ⟨c', by simp, hr hxr⟩
    · exact ⟨x, by simp [hs, hx'], hxr⟩
  · intro s' x hx'
    rw [getC_setC_setP hc _ _ hk] at hx'
    by_cases hs : s' = s
    · subst hs
      simp at hx'; subst hx'
      exact hC
    · simp [hs] at hx'
      exact (h.c p s' x hx').transferP hfr.subs hsimW
  · intro Q hQ
    rw [getP_setC_setP hp] at hQ
    simp at hQ; subst hQ
    exact hP

end Iox2.PubSub.C08
