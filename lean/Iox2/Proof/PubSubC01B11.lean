/-
Layer B: `update_connections` of the publisher; the shared state of a publisher is dropped.
-/
import Iox2.Proof.PubSubC01B10
namespace Iox2.PubSub.C01P
open Iox2.PubSub

variable {cfg : Cfg} {np ns : Option Nat} {fl : Option (Nat × Nat × Bool)} {w : World}

theorem invAB_pubUpdateSlots (h : InvAB cfg np ns fl w) (p : Nat) (l : List (Option SubEntry)) (i : Nat) (t : List Nat)
    {P : Pub} (hP : getP w p = some P) (hPa : P.alive = true)
    (hreg : ∀ j e, l[j]? = some (some e) → w.subReg.slots[i + j]? = some (some e)) :
    InvAB cfg np ns fl (pubUpdateSlots w p l i t).1 := by
  induction l generalizing w i t P with
  | nil => exact h
  | cons x r ih =>
    have hreg' : ∀ w' : World, w'.subReg = w.subReg →
        ∀ j e, r[j]? = some (some e) → w'.subReg.slots[i + 1 + j]? = some (some e) := by
      intro w' hw' j e hj
      rw [hw']
      have := hreg (j + 1) e (by simpa using hj)
      rw [show i + 1 + j = i + (j + 1) by omega]; exact this
    cases x with
    | none => exact ih h (i + 1) t hP hPa (hreg' w rfl)
    | some e =>
      have hre : w.subReg.slots[i]? = some (some e) := by
        have := hreg 0 e (by simp); simpa using this
      have hilt : i < P.conns.length := by
        rw [(h.a.pconns p P hP).1, ← h.a.sregLen]
        exact (List.getElem?_eq_some_iff.mp hre).1
      unfold pubUpdateSlots
      rw [hP]
      simp only
      cases hs : P.conns.getD i none with
      | none =>
        simp only
        have hslot := getD_eq_none_of hilt hs
        have h1 := invAB_pubCreateConn h hP hPa hslot hre
        have f1 := pubCreateConn_frame w p i e
        obtain ⟨P1, hP1, st1⟩ := f1.psome p P hP
        exact ih h1 (i + 1) (i :: t) hP1 (st1.alive ▸ hPa) (hreg' _ f1.subReg)
      | some s =>
        simp only
        by_cases hse : s = e.sid
        · rw [if_pos hse]
          exact ih h (i + 1) (i :: t) hP hPa (hreg' w rfl)
        · rw [if_neg hse]
          have hslot : P.conns[i]? = some (some s) := getD_eq_some_iff.mp hs
          have h1 := invAB_pubRemoveConn h p i
            (fun Q hQ => by rw [hP] at hQ; cases hQ; exact (h.a.palive p P hP hPa).1)
            (fun P' s' hP' hs' => by
              rw [hP] at hP'; cases hP'
              rw [hslot] at hs'; cases hs'
              exact h.a.dead_of_mismatch hP hslot (fun e' he' => by
                rw [hre] at he'; cases he'; exact fun hh => hse hh.symm))
          have f1 := pubRemoveConn_frame w p i
          obtain ⟨P1, hP1, hc1⟩ := pubRemoveConn_conns w p i hP
          obtain ⟨P1', hP1', st1⟩ := f1.psome p P hP
          rw [hP1] at hP1'; cases hP1'
          have hslot1 : P1.conns[i]? = some none := by
            rw [hc1, List.getElem?_set]; simp [hilt]
          have h2 := invAB_pubCreateConn h1 hP1 (st1.alive ▸ hPa) hslot1 (by rw [f1.subReg]; exact hre)
          have f2 := pubCreateConn_frame (pubRemoveConn w p i) p i e
          obtain ⟨P2, hP2, st2⟩ := f2.psome p P1 hP1
          exact ih h2 (i + 1) (i :: t) hP2 (by rw [st2.alive, st1.alive]; exact hPa)
            (hreg' _ (f2.subReg.trans f1.subReg))

theorem invAB_pubFinish (h : InvAB cfg np ns fl w) (p : Nat) (t : List Nat) (k : Nat)
    (hPa : ∀ P, getP w p = some P → P.alive = true)
    (hreg : ∀ j e, w.subReg.slots[j]? = some (some e) → j ∈ t) :
    InvAB cfg np ns fl (pubFinish w p t k) := by
  induction k with
  | zero => exact h
  | succ k ih =>
    unfold pubFinish
    simp only
    split
    · exact ih
    · rename_i hk
      have f1 := pubFinish_frame w p t k
      refine invAB_pubRemoveConn ih p k (fun Q hQ => ?_) (fun P s hP hs => ?_)
      · obtain ⟨Q0, hQ0, st⟩ := f1.some' hQ
        exact (ih.a.palive p Q hQ (st.alive ▸ hPa Q0 hQ0)).1
      · refine ih.a.dead_of_mismatch hP hs (fun e he => ?_)
        rw [f1.subReg] at he
        have := hreg k e he
        exfalso; apply hk
        simp [this]

theorem invAB_pubForceUpdate (h : InvAB cfg np ns fl w) (p : Nat) {P : Pub} (hP : getP w p = some P)
    (hPa : P.alive = true) (hsnap : P.snap = w.subReg.slots) : InvAB cfg np ns fl (pubForceUpdate w p) := by
  unfold pubForceUpdate
  rw [hP]
  simp only
  have hreg0 : ∀ j e, P.snap[j]? = some (some e) → w.subReg.slots[0 + j]? = some (some e) :=
    fun j e hj => by rw [← hsnap]; simpa using hj
  have h1 := invAB_pubUpdateSlots h p P.snap 0 [] hP hPa hreg0
  have h1t := (h.a.pubUpdateSlots p P.snap 0 [] hP hPa hreg0).2
  have f1 := pubUpdateSlots_frame w p P.snap 0 []
  generalize pubUpdateSlots w p P.snap 0 [] = d at h1 h1t f1
  obtain ⟨w1, tg⟩ := d
  simp only at h1 h1t f1 ⊢
  refine invAB_pubFinish h1 p tg _ (fun Q hQ => ?_) (fun j e hj => ?_)
  · obtain ⟨Q0, hQ0, st⟩ := f1.some' hQ
    rw [hP] at hQ0; cases hQ0
    rw [st.alive]; exact hPa
  · rw [h1t j]
    right
    rw [f1.subReg, ← hsnap] at hj
    exact ⟨j, e, hj, by omega⟩

theorem invAB_pubUpdate (h : InvAB cfg np ns fl w) (p : Nat) (hPa : ∀ P, getP w p = some P → P.alive = true) :
    InvAB cfg np ns fl (pubUpdate w p) := by
  unfold pubUpdate
  cases hP : getP w p with
  | none => exact h
  | some P =>
    simp only
    split
    · exact h
    · have h1 : InvAB cfg np ns fl (setP w p { P with snapCtr := w.subReg.counter, snap := w.subReg.slots }) :=
        ⟨h.a.setP_irrel hP rfl rfl rfl rfl,
         h.b.setP_irrel hP ⟨rfl, rfl, rfl, rfl, rfl, rfl, rfl, rfl, rfl, rfl⟩⟩
      exact invAB_pubForceUpdate h1 p (getP_setP_self _ hP) (hPa P hP) rfl

/-! ### the shared state of a publisher is dropped -/

/-- the publisher's shared state goes away: nothing is claimed about it any more, except the payload
of what live subscribers still have pending -/
theorem InvB.setP_dead (h : InvB fl w) {p : Nat} {P : Pub} (hP : getP w p = some P) (hl : P.loans = [])
    (hfl : ∀ c fr, fl ≠ some (p, c, fr)) : InvB fl (setP w p { P with ex := false }) := by
  have gP : ∀ a Q, getP (setP w p { P with ex := false }) a = some Q →
      (a = p ∧ Q = { P with ex := false }) ∨ (a ≠ p ∧ getP w a = some Q) := by
    intro a Q hq
    rw [getP_setP] at hq
    by_cases hap : a = p
    · subst hap
      simp only [if_true, hP, Option.map_some, Option.some.injEq] at hq
      exact Or.inl ⟨rfl, hq.symm⟩
    · rw [if_neg hap] at hq
      exact Or.inr ⟨hap, hq⟩
  constructor
  · exact h.keys
  · intro a Q hq
    rcases gP a Q hq with ⟨rfl, rfl⟩ | ⟨_, h0⟩
    · exact h.lens a P hP
    · exact h.lens a Q h0
  · intro cn hcn Q hq
    rcases gP _ Q hq with ⟨hap, rfl⟩ | ⟨_, h0⟩
    · exact h.usedLen cn hcn P (hap ▸ hP)
    · exact h.usedLen cn hcn Q h0
  · intro a Q hq hQe
    rcases gP a Q hq with ⟨rfl, rfl⟩ | ⟨_, h0⟩
    · cases hQe
    · exact h.free a Q h0 hQe
  · intro a Q hq hQe
    rcases gP a Q hq with ⟨rfl, rfl⟩ | ⟨_, h0⟩
    · cases hQe
    · exact h.rc a Q h0 hQe
  · intro a Q hq hQe
    rcases gP a Q hq with ⟨rfl, rfl⟩ | ⟨_, h0⟩
    · cases hQe
    · exact h.loans a Q h0 hQe
  · intro a Q hq hQe
    rcases gP a Q hq with ⟨rfl, rfl⟩ | ⟨_, h0⟩
    · exact hl
    · exact h.deadLoans a Q h0 hQe
  · intro a Q hq hQe
    rcases gP a Q hq with ⟨rfl, rfl⟩ | ⟨_, h0⟩
    · cases hQe
    · exact h.histOk a Q h0 hQe
  · intro a c fr hfl'
    obtain ⟨Q0, h0, hQe, hc, hfr⟩ := h.flOk a c fr hfl'
    have hap : a ≠ p := fun hh => hfl c fr (hh ▸ hfl')
    exact ⟨Q0, by rw [getP_setP, if_neg hap]; exact h0, hQe, hc, hfr⟩
  · intro cn hcn hs Q S hq hQe hS
    rcases gP _ Q hq with ⟨_, rfl⟩ | ⟨_, h0⟩
    · cases hQe
    · exact h.inqOk cn hcn hs Q S h0 hQe hS
  · intro cn hcn hs Q hq hQe
    rcases gP _ Q hq with ⟨_, rfl⟩ | ⟨_, h0⟩
    · cases hQe
    · exact h.unatt cn hcn hs Q h0 hQe
  · intro cn hcn Q S hq hS hor ch q hm
    rcases gP _ Q hq with ⟨hap, rfl⟩ | ⟨_, h0⟩
    · exact h.ppi cn hcn P S (hap ▸ hP) hS hor ch q hm
    · exact h.ppi cn hcn Q S h0 hS hor ch q hm

/-- detaching the sender side of a publisher whose shared state is gone -/
theorem InvB.detachSender_dead (h : InvB fl w) {p s : Nat} {P : Pub} (hP : getP w p = some P) (hex : P.ex = false) :
    InvB fl (detachSender w p s) := by
  cases hg : getC w p s with
  | none => rw [detachSender_none hg]; exact h
  | some c =>
    obtain ⟨hcm, hcp, hcs⟩ := getC_some hg
    have hcnt0 : ∀ a, a ≠ p → ∀ y cn, cn.pid = p → ind a y cn = 0 := by
      intro a hap y cn hcn; exact ind_of_ne_pid (by rw [hcn]; exact fun hh => hap hh.symm)
    rcases Bool.eq_false_or_eq_true c.rAtt with hra | hra
    · rw [detachSender_keep hg hra]
      have hgx : getC w ({ c with sAtt := false } : Conn).pid ({ c with sAtt := false } : Conn).sid = some c := by
        show getC w c.pid c.sid = some c
        rw [hcp, hcs]; exact hg
      have hmem : ∀ cn ∈ (setC w { c with sAtt := false }).conns,
          cn = { c with sAtt := false } ∨ (cn ∈ w.conns ∧ ¬ (cn.pid = p ∧ cn.sid = s)) := by
        intro cn hcn
        rcases mem_setC hcn with ⟨rfl, _⟩ | ⟨hm, hne⟩
        · exact Or.inl rfl
        · exact Or.inr ⟨hm, by simpa [hcp, hcs] using hne⟩
      constructor
      · exact h.keys.setC _
      · exact h.lens
      · intro cn hcn Q hq
        rcases hmem cn hcn with rfl | ⟨hm, _⟩
        · exact h.usedLen c hcm Q hq
        · exact h.usedLen cn hm Q hq
      · exact h.free
      · intro a Q hq hQe y hy
        have hq' : getP w a = some Q := hq
        have hap : a ≠ p := by rintro rfl; rw [hP] at hq'; cases hq'; rw [hex] at hQe; cases hQe
        have := usedCnt_setC h.keys hgx a y
        rw [hcnt0 a hap y c hcp, hcnt0 a hap y { c with sAtt := false } hcp] at this
        have h1 := h.rc a Q hq hQe y hy
        omega
      · exact h.loans
      · exact h.deadLoans
      · exact h.histOk
      · exact h.flOk
      · intro cn hcn hs Q S hq hQe hS
        rcases hmem cn hcn with rfl | ⟨hm, _⟩
        · cases hs
        · exact h.inqOk cn hm hs Q S hq hQe hS
      · intro cn hcn hs Q hq hQe
        rcases hmem cn hcn with rfl | ⟨hm, _⟩
        · have hq' : getP w c.pid = some Q := hq
          rw [hcp, hP] at hq'; cases hq'; rw [hex] at hQe; cases hQe
        · exact h.unatt cn hm hs Q hq hQe
      · intro cn hcn Q S hq hS hor ch q hm'
        rcases hmem cn hcn with rfl | ⟨hm, _⟩
        · -- it was attached before, so the payload claim was already there
          by_cases hsa : c.sAtt = true
          · exact h.ppi c hcm Q S hq hS (Or.inl hsa) ch q hm'
          · rcases hor with hf | hf
            · cases hf
            · exact h.ppi c hcm Q S hq hS (Or.inr hf) ch q hm'
        · exact h.ppi cn hm Q S hq hS hor ch q hm'
    · rw [detachSender_drop hg hra]
      have hmem : ∀ cn ∈ (C01P.dropC w p s).conns, cn ∈ w.conns := fun cn hcn => (mem_dropC.mp hcn).1
      constructor
      · exact h.keys.dropC p s
      · exact h.lens
      · intro cn hcn; exact h.usedLen cn (hmem cn hcn)
      · exact h.free
      · intro a Q hq hQe y hy
        have hq' : getP w a = some Q := hq
        have hap : a ≠ p := by rintro rfl; rw [hP] at hq'; cases hq'; rw [hex] at hQe; cases hQe
        have := usedCnt_dropC h.keys hg a y
        rw [hcnt0 a hap y c hcp] at this
        have h1 := h.rc a Q hq hQe y hy
        omega
      · exact h.loans
      · exact h.deadLoans
      · exact h.histOk
      · exact h.flOk
      · intro cn hcn; exact h.inqOk cn (hmem cn hcn)
      · intro cn hcn; exact h.unatt cn (hmem cn hcn)
      · intro cn hcn; exact h.ppi cn (hmem cn hcn)

end Iox2.PubSub.C01P
