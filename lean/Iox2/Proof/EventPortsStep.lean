/-
Equations for the individual calls of the event-port model: which results are possible and what the world is then.
-/
import Iox2.Proof.EventPortsDeliver
namespace Iox2.EventPorts

theorem usable_error {w : World} {k : Nat} {o : Out} (h : usable w k = .error o) : o = .noNode ∨ o = .dead ∨ o = .noService := by
  unfold usable at h
  split at h
  · cases h; simp
  · split at h
    · cases h; simp
    · split at h
      · cases h; simp
      · cases h

theorem usable_ok {w : World} {k : Nat} {P : Part} (h : usable w k = .ok P) : w.parts k = some P ∧ P.dead = false ∧ P.svc = true := by
  unfold usable at h
  split at h
  · cases h
  · rename_i Q hQ
    split at h
    · cases h
    · split at h
      · cases h
      · rename_i h1 h2
        cases h
        refine ⟨hQ, ?_, ?_⟩
        · cases hd : P.dead <;> simp_all
        · cases hs : P.svc <;> simp_all

theorem usable_of {w : World} {k : Nat} {P : Part} (h1 : w.parts k = some P) (h2 : P.dead = false) (h3 : P.svc = true) :
    usable w k = .ok P := by
  simp [usable, h1, h2, h3]

theorem isSome_false {α : Type} {o : Option α} (h : ¬ o.isSome = true) : o = none := by
  cases o <;> simp_all

/-! ### notifier creation -/

theorem newNoti_fields (w : World) (k : Nat) (d : Option Nat) (slot : Nat) :
    (newNoti w k d slot).st = .alive ∧ (newNoti w k d slot).node = k ∧ (newNoti w k d slot).slot = slot ∧
    (newNoti w k d slot).defId = d.getD 0 := by
  simp [newNoti, populate]

theorem step_cnot_ok {w : World} {n k : Nat} {d : Option Nat} {P : Part} {reg : Reg} {slot : Nat}
    (hn : w.nots n = none) (hP : usable w k = .ok P) (e : w.notReg.add n = some (reg, slot)) :
    step w (.cnot n d k) =
      ((match w.cfg.created with
        | some c => (notifyCore (cnotBase w n k d reg slot) n (newNoti w k d slot) c).1
        | none => cnotBase w n k d reg slot), .ok) := by
  simp only [step, hn, hP, e, Option.isSome_none, Bool.false_eq_true, if_false]
  cases w.cfg.created <;> rfl

theorem step_cnot_full {w : World} {n k : Nat} {d : Option Nat} {P : Part}
    (hn : w.nots n = none) (hP : usable w k = .ok P) (e : w.notReg.add n = none) :
    step w (.cnot n d k) = (w, .err .exceedsNotifiers) := by
  simp [step, hn, hP, e]

/-- the possible results of a notifier creation -/
theorem step_cnot_cases (w : World) (n k : Nat) (d : Option Nat) :
    (step w (.cnot n d k) = (w, .dup) ∧ (w.nots n).isSome) ∨
    (∃ o, step w (.cnot n d k) = (w, o) ∧ usable w k = .error o ∧ w.nots n = none) ∨
    (∃ P, step w (.cnot n d k) = (w, .err .exceedsNotifiers) ∧ w.nots n = none ∧ usable w k = .ok P ∧ w.notReg.add n = none) ∨
    (∃ P reg slot, (step w (.cnot n d k)).2 = .ok ∧ w.nots n = none ∧ usable w k = .ok P ∧ w.notReg.add n = some (reg, slot)) := by
  by_cases hn : (w.nots n).isSome = true
  · left; simp [step, hn]
  · have hn0 := isSome_false hn
    right
    cases hP : usable w k with
    | error o => left; exact ⟨o, by simp [step, hn0, hP], rfl, hn0⟩
    | ok P =>
      right
      cases e : w.notReg.add n with
      | none => left; exact ⟨P, step_cnot_full hn0 hP e, hn0, rfl, rfl⟩
      | some rs =>
        right
        obtain ⟨reg, slot⟩ := rs
        exact ⟨P, reg, slot, by rw [step_cnot_ok hn0 hP e], hn0, rfl, rfl⟩

theorem step_cnot_of_ok {w : World} {n k : Nat} {d : Option Nat} (h : (step w (.cnot n d k)).2 = .ok) :
    ∃ P reg slot, w.nots n = none ∧ usable w k = .ok P ∧ w.notReg.add n = some (reg, slot) := by
  rcases step_cnot_cases w n k d with ⟨e, _⟩ | ⟨o, e, ho, _⟩ | ⟨P, e, _⟩ | ⟨P, reg, slot, _, a, b, c⟩
  · rw [e] at h; cases h
  · rw [e] at h
    have h : o = .ok := h
    rcases usable_error ho with x | x | x <;> rw [x] at h <;> cases h
  · rw [e] at h; cases h
  · exact ⟨P, reg, slot, a, b, c⟩

theorem Inv.pres_cnotBase {w : World} (h : Inv w) {n k : Nat} {d : Option Nat} {reg : Reg} {slot : Nat}
    (hn : w.nots n = none) (e : w.notReg.add n = some (reg, slot)) : Inv (cnotBase w n k d reg slot) :=
  h.pres_cnot hn e _ rfl rfl (by simp)

/-! ### listener creation -/

theorem step_clis_ok {w : World} {l k : Nat} {P : Part} {reg : Reg} {slot : Nat}
    (hl : w.liss l = none) (hP : usable w k = .ok P) (e : w.lisReg.add l = some (reg, slot)) :
    step w (.clis l k) = (setL { w with lisReg := reg } l { node := k, slot := slot, mark := w.hist.length }, .ok) := by
  simp [step, hl, hP, e]

theorem step_clis_full {w : World} {l k : Nat} {P : Part}
    (hl : w.liss l = none) (hP : usable w k = .ok P) (e : w.lisReg.add l = none) :
    step w (.clis l k) = (w, .err .exceedsListeners) := by
  simp [step, hl, hP, e]

theorem step_clis_cases (w : World) (l k : Nat) :
    (step w (.clis l k) = (w, .dup) ∧ (w.liss l).isSome) ∨
    (∃ o, step w (.clis l k) = (w, o) ∧ usable w k = .error o ∧ w.liss l = none) ∨
    (∃ P, step w (.clis l k) = (w, .err .exceedsListeners) ∧ w.liss l = none ∧ usable w k = .ok P ∧ w.lisReg.add l = none) ∨
    (∃ P reg slot, (step w (.clis l k)).2 = .ok ∧ w.liss l = none ∧ usable w k = .ok P ∧ w.lisReg.add l = some (reg, slot)) := by
  by_cases hn : (w.liss l).isSome = true
  · left; simp [step, hn]
  · have hn0 := isSome_false hn
    right
    cases hP : usable w k with
    | error o => left; exact ⟨o, by simp [step, hn0, hP], rfl, hn0⟩
    | ok P =>
      right
      cases e : w.lisReg.add l with
      | none => left; exact ⟨P, step_clis_full hn0 hP e, hn0, rfl, rfl⟩
      | some rs =>
        right
        obtain ⟨reg, slot⟩ := rs
        exact ⟨P, reg, slot, by rw [step_clis_ok hn0 hP e], hn0, rfl, rfl⟩

/-! ### drops -/

theorem step_dnot_alive {w : World} {n : Nat} {N : Noti} (hN : w.nots n = some N) (hst : N.st = .alive) :
    step w (.dnot n) = (afterPortDrop (dropEmit w n N) (dnotBase (dropEmit w n N) n N) N.node, .ok) := by
  simp [step, hN, hst]

theorem step_dlis_alive {w : World} {l : Nat} {L : Lis} (hL : w.liss l = some L) (hst : L.st = .alive) :
    step w (.dlis l) =
      (afterPortDrop w (setL { w with lisReg := w.lisReg.remove L.slot } l { L with st := .gone, pending := [] }) L.node, .ok) := by
  simp [step, hL, hst]

/-! ### notify / wait -/

theorem step_notifyId_alive {w : World} {n : Nat} {N : Noti} (hN : w.nots n = some N) (hst : N.st = .alive) (id : Nat) :
    step w (.notifyId n id) = ((notifyCore w n N id).1, outOfNotify (notifyCore w n N id).2) := by
  simp [step, hN, hst]

theorem step_notify_alive {w : World} {n : Nat} {N : Noti} (hN : w.nots n = some N) (hst : N.st = .alive) :
    step w (.notify n) = ((notifyCore w n N N.defId).1, outOfNotify (notifyCore w n N N.defId).2) := by
  simp [step, hN, hst]

/-- `Notifier::notify` is `notify_with_custom_event_id(default_event_id)` -/
theorem notify_is_notifyId_default {w : World} {n : Nat} {N : Noti} (hN : w.nots n = some N) :
    step w (.notify n) = step w (.notifyId n N.defId) := by
  simp [step, hN]

theorem step_wait_alive {w : World} {l : Nat} {L : Lis} (hL : w.liss l = some L) (hst : L.st = .alive) :
    step w (.wait l) = (setL w l { L with pending := [], mark := w.hist.length }, .ids L.pending) := by
  simp [step, hL, hst]


end Iox2.EventPorts
