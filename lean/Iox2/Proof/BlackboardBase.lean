/- list / lookup lemmas for the blackboard port model -/
import Iox2.Model.Blackboard
namespace Iox2.Blackboard

theorem length_modAt {α : Type} (l : List α) (k : Nat) (f : α → α) : (modAt l k f).length = l.length := by
  induction l generalizing k with
  | nil => simp [modAt]
  | cons a as ih => cases k <;> simp [modAt, ih]

theorem getElem?_modAt {α : Type} (l : List α) (k j : Nat) (f : α → α) :
    (modAt l k f)[j]? = if j = k then (l[j]?).map f else l[j]? := by
  induction l generalizing k j with
  | nil => simp [modAt]
  | cons a as ih =>
    cases k with
    | zero => cases j <;> simp [modAt]
    | succ k => cases j <;> simp [modAt, ih]

theorem getElem?_modAt_self {α : Type} (l : List α) (k : Nat) (f : α → α) :
    (modAt l k f)[k]? = (l[k]?).map f := by simp [getElem?_modAt]

theorem getElem?_modAt_ne {α : Type} (l : List α) {k j : Nat} (f : α → α) (h : j ≠ k) :
    (modAt l k f)[j]? = l[j]? := by simp [getElem?_modAt, h]

/-- a modification that does not touch what `g` looks at -/
theorem getElem?_modAt_proj {α β : Type} (l : List α) (k j : Nat) (f : α → α) (g : α → β)
    (hg : ∀ a, g (f a) = g a) : ((modAt l k f)[j]?).map g = (l[j]?).map g := by
  rw [getElem?_modAt]; split
  · cases l[j]? <;> simp [hg]
  · rfl

theorem findH_some {hs : List HMut} {h : Nat} {m : HMut} (e : findH hs h = some m) : m ∈ hs ∧ m.id = h := by
  unfold findH at e
  exact ⟨List.mem_of_find?_eq_some e, by simpa using List.find?_some e⟩

theorem findH_none {hs : List HMut} {h : Nat} (e : findH hs h = none) : ∀ m ∈ hs, m.id ≠ h := by
  unfold findH at e
  intro m hm
  simpa using (List.find?_eq_none.mp e) m hm

theorem findL_some {hs : List HMut} {l : Nat} {m : HMut} (e : findL hs l = some m) :
    m ∈ hs ∧ ∃ x, m.loan = some (l, x) := by
  unfold findL at e
  refine ⟨List.mem_of_find?_eq_some e, ?_⟩
  have := List.find?_some e
  simp [loanLabel] at this
  obtain ⟨a, ha⟩ := this
  exact ⟨a, ha⟩

theorem findL_none {hs : List HMut} {l : Nat} (e : findL hs l = none) :
    ∀ m ∈ hs, ∀ x, m.loan ≠ some (l, x) := by
  unfold findL at e
  intro m hm x hx
  have := (List.find?_eq_none.mp e) m hm
  simp [loanLabel, hx] at this

theorem findG_some {gs : List RHandle} {g : Nat} {m : RHandle} (e : findG gs g = some m) : m ∈ gs ∧ m.id = g := by
  unfold findG at e
  exact ⟨List.mem_of_find?_eq_some e, by simpa using List.find?_some e⟩

theorem findG_none {gs : List RHandle} {g : Nat} (e : findG gs g = none) : ∀ m ∈ gs, m.id ≠ g := by
  unfold findG at e
  intro m hm
  simpa using (List.find?_eq_none.mp e) m hm

/-- with unique ids the lookup finds exactly the member -/
theorem findH_of_mem {hs : List HMut} {m : HMut} (hn : (hs.map (·.id)).Nodup) (hm : m ∈ hs) :
    findH hs m.id = some m := by
  induction hs with
  | nil => cases hm
  | cons a as ih =>
    simp only [List.map_cons, List.nodup_cons] at hn
    rcases List.mem_cons.mp hm with rfl | hm'
    · simp [findH]
    · have hne : a.id ≠ m.id := by
        intro e; exact hn.1 (e ▸ List.mem_map.mpr ⟨m, hm', rfl⟩)
      have := ih hn.2 hm'
      simp only [findH] at this ⊢
      rw [List.find?_cons]
      have hb : (a.id == m.id) = false := by simpa using hne
      simp [hb, this]

theorem map_id_setLoan (hs : List HMut) (id : Nat) (lo) : (setLoan hs id lo).map (·.id) = hs.map (·.id) := by
  unfold setLoan; rw [List.map_map]; apply List.map_congr_left; intro m _; simp only [Function.comp]; split <;> rfl
theorem map_key_setLoan (hs : List HMut) (id : Nat) (lo) : (setLoan hs id lo).map (·.key) = hs.map (·.key) := by
  unfold setLoan; rw [List.map_map]; apply List.map_congr_left; intro m _; simp only [Function.comp]; split <;> rfl
theorem map_writer_setLoan (hs : List HMut) (id : Nat) (lo) : (setLoan hs id lo).map (·.writer) = hs.map (·.writer) := by
  unfold setLoan; rw [List.map_map]; apply List.map_congr_left; intro m _; simp only [Function.comp]; split <;> rfl

theorem mem_setLoan {hs : List HMut} {id : Nat} {lo} {m' : HMut} (h : m' ∈ setLoan hs id lo) :
    ∃ m ∈ hs, m'.id = m.id ∧ m'.key = m.key ∧ m'.writer = m.writer ∧
      ((m.id = id ∧ m'.loan = lo) ∨ (m.id ≠ id ∧ m' = m)) := by
  unfold setLoan at h
  obtain ⟨m, hm, rfl⟩ := List.mem_map.mp h
  refine ⟨m, hm, ?_⟩
  by_cases e : m.id = id
  · simp [e]
  · simp [e]

theorem mem_setLoan_of_mem {hs : List HMut} {id : Nat} {lo} {m : HMut} (h : m ∈ hs) :
    (if m.id == id then { m with loan := lo } else m) ∈ setLoan hs id lo :=
  List.mem_map.mpr ⟨m, h, rfl⟩

/-- membership of projections is not affected by `setLoan` -/
theorem exists_writer_setLoan (hs : List HMut) (id : Nat) (lo) (x : Nat) :
    (∃ m ∈ setLoan hs id lo, m.writer = x) ↔ (∃ m ∈ hs, m.writer = x) := by
  have := map_writer_setLoan hs id lo
  constructor
  · rintro ⟨m, hm, rfl⟩
    have : m.writer ∈ (setLoan hs id lo).map (·.writer) := List.mem_map.mpr ⟨m, hm, rfl⟩
    rw [map_writer_setLoan] at this
    obtain ⟨m0, h0, e0⟩ := List.mem_map.mp this
    exact ⟨m0, h0, e0⟩
  · rintro ⟨m, hm, rfl⟩
    have : m.writer ∈ hs.map (·.writer) := List.mem_map.mpr ⟨m, hm, rfl⟩
    rw [← map_writer_setLoan hs id lo] at this
    obtain ⟨m0, h0, e0⟩ := List.mem_map.mp this
    exact ⟨m0, h0, e0⟩

theorem any_writer_setLoan (hs : List HMut) (id : Nat) (lo) (x : Nat) :
    (setLoan hs id lo).any (fun m => m.writer == x) = hs.any (fun m => m.writer == x) := by
  rw [Bool.eq_iff_iff]
  simp only [List.any_eq_true, beq_iff_eq]
  exact exists_writer_setLoan hs id lo x

end Iox2.Blackboard
