/-
C08 helper: publisher-side actions preserve the invariant (part E: `deliverTo`).
-/
import Iox2.Proof.PubSubC08PubD
set_option linter.unusedSimpArgs false
set_option linter.unusedVariables false
namespace Iox2.PubSub.C08
open Iox2.PubSub
open Iox2.C16.SlotMapP (abs)
attribute [-simp] List.getD_eq_getElem?_getD

/-- the publisher record after a successful `try_send` -/
def afterSend (P : Pub) (ch : Nat) (ev : Option Nat) : Pub :=
  match ev with
  | some old => (P.borrowChunk ch).releaseChunk old
  | none => P.borrowChunk ch

theorem afterSend_pool (P : Pub) (ch : Nat) (ev : Option Nat) : PoolEq P (afterSend P ch ev) := by
  cases ev with
  | none => exact borrowChunk_pool _ _
  | some old => exact (borrowChunk_pool _ _).trans (releaseChunk_pool _ _)

theorem deliverTo_eq {w : World} {p s : Nat} {P : Pub} {c : Conn} (hp : getP w p = some P) (hc : getC w p s = some c)
    (ch seq : Nat) :
    deliverTo w p s ch seq =
      match (c.trySend w.cfg.overflow ch seq).2 with
      | .ok ev => (setP (setC w (c.trySend w.cfg.overflow ch seq).1) p (afterSend P ch ev), true)
      | _ => (setC w (c.trySend w.cfg.overflow ch seq).1, false) := by
  unfold deliverTo afterSend
  rw [hp, hc]
  dsimp only
  generalize c.trySend w.cfg.overflow ch seq = r
  obtain ⟨c', r⟩ := r
  cases r <;> rfl

theorem deliverTo_none {w : World} {p s : Nat} (h : getP w p = none ∨ getC w p s = none) (ch seq : Nat) :
    deliverTo w p s ch seq = (w, false) := by
  unfold deliverTo
  split
  · rename_i hp hc; rcases h with h | h <;> simp_all
  · rfl

/-- core fields and monotonicity of the used bits under `trySend`, without any hypothesis -/
theorem trySend_core (c : Conn) (ov : Bool) (ch seq : Nat) :
    ConnCore c (c.trySend ov ch seq).1 ∧
    (c.trySend ov ch seq).1.used.length = c.used.length ∧
    ∀ x, x ≠ ch → (c.trySend ov ch seq).1.used.getD x false = true → c.used.getD x false = true := by
  have hmono : ∀ x, x ≠ ch → (c.used.set ch true).getD x false = true → c.used.getD x false = true := by
    intro x hx hu
    rw [getD_set_bool] at hu
    simpa [hx] using hu
  unfold Conn.trySend
  split
  · exact ⟨⟨rfl, rfl, rfl, rfl, rfl, rfl, rfl⟩, rfl, fun _ _ h => h⟩
  · dsimp only
    split
    · split
      · exact ⟨⟨rfl, rfl, rfl, rfl, rfl, rfl, rfl⟩, by simp, hmono⟩
      · split
        · refine ⟨⟨rfl, rfl, rfl, rfl, rfl, rfl, rfl⟩, by simp, ?_⟩
          intro x hx hu
          apply hmono x hx
          simp only at hu
          rw [getD_set_bool] at hu
          split at hu
          · cases hu
          · exact hu
        · exact ⟨⟨rfl, rfl, rfl, rfl, rfl, rfl, rfl⟩, by simp, hmono⟩
    · exact ⟨⟨rfl, rfl, rfl, rfl, rfl, rfl, rfl⟩, by simp, hmono⟩

theorem getC_setC_self {w : World} {p s : Nat} {c : Conn} (hc : getC w p s = some c) (x : Conn)
    (hk : x.pid = p ∧ x.sid = s) (a b : Nat) :
    getC (setC w x) a b = if a = p ∧ b = s then some x else getC w a b := by
  rw [getC_setC, hk.1, hk.2]
  by_cases h : a = p ∧ b = s
  · obtain ⟨rfl, rfl⟩ := h
    simp [hc]
  · simp [h]

/-- what `deliverTo` does, without the invariant -/
theorem deliverTo_shape (w : World) (p s ch seq : Nat) :
    (∀ q, q ≠ p → getP (deliverTo w p s ch seq).1 q = getP w q) ∧
    (∀ P, getP w p = some P → ∃ P', getP (deliverTo w p s ch seq).1 p = some P' ∧ PoolEq P P') ∧
    (getP w p = none → getP (deliverTo w p s ch seq).1 p = none) ∧
    (∀ a b c', getC (deliverTo w p s ch seq).1 a b = some c' →
      ∃ c, getC w a b = some c ∧ ConnCore c c' ∧ c'.used.length = c.used.length ∧ (¬ (a = p ∧ b = s) → c' = c) ∧
        (∀ x, x ≠ ch → c'.used.getD x false = true → c.used.getD x false = true)) ∧
    (∀ a b c, getC w a b = some c → ∃ c', getC (deliverTo w p s ch seq).1 a b = some c') := by
  cases hp : getP w p with
  | none =>
    rw [deliverTo_none (.inl hp)]
    exact ⟨fun _ _ => rfl, fun P h => (by cases h), fun _ => hp,
      fun a b c' hc' => ⟨c', hc', .refl _, rfl, fun _ => rfl, fun _ _ h => h⟩, fun a b c hc => ⟨c, hc⟩⟩
  | some P =>
    cases hc : getC w p s with
    | none =>
      rw [deliverTo_none (.inr hc)]
      exact ⟨fun _ _ => rfl, fun P1 h => ⟨P1, (by cases h; exact hp), .refl _⟩, fun h => (by cases h),
        fun a b c' hc' => ⟨c', hc', .refl _, rfl, fun _ => rfl, fun _ _ h => h⟩, fun a b c hc => ⟨c, hc⟩⟩
    | some c =>
      have hkey := getC_key hc
      obtain ⟨t1, t2, t3⟩ := trySend_core c w.cfg.overflow ch seq
      have hk' : (c.trySend w.cfg.overflow ch seq).1.pid = p ∧ (c.trySend w.cfg.overflow ch seq).1.sid = s :=
        ⟨t1.pid.trans hkey.1, t1.sid.trans hkey.2⟩
      have hconn : ∀ (w1 : World), (∀ a b, getC w1 a b = getC (setC w (c.trySend w.cfg.overflow ch seq).1) a b) →
          (∀ a b c', getC w1 a b = some c' →
            ∃ c, getC w a b = some c ∧ ConnCore c c' ∧ c'.used.length = c.used.length ∧ (¬ (a = p ∧ b = s) → c' = c) ∧
              (∀ x, x ≠ ch → c'.used.getD x false = true → c.used.getD x false = true)) ∧
          (∀ a b c, getC w a b = some c → ∃ c', getC w1 a b = some c') := by
        intro w1 hw1
        constructor
        · intro a b c' hc'
          rw [hw1, getC_setC_self hc _ hk'] at hc'
          by_cases hab : a = p ∧ b = s
          · obtain ⟨rfl, rfl⟩ := hab
            simp at hc'; subst hc'
            exact ⟨c, hc, t1, t2, fun h => absurd ⟨rfl, rfl⟩ h, t3⟩
          · simp [hab] at hc'
            exact ⟨c', hc', .refl _, rfl, fun _ => rfl, fun _ _ h => h⟩
        · intro a b c0 hc0
          rw [hw1, getC_setC_self hc _ hk']
          by_cases hab : a = p ∧ b = s
          · exact ⟨(c.trySend w.cfg.overflow ch seq).1, by simp [hab]⟩
          · exact ⟨c0, by simp [hab, hc0]⟩
      rw [deliverTo_eq hp hc]
      have hrest : (∀ q, q ≠ p → getP (setC w (c.trySend w.cfg.overflow ch seq).1) q = getP w q) ∧
          (∀ P_1, some P = some P_1 → ∃ P', getP (setC w (c.trySend w.cfg.overflow ch seq).1) p = some P' ∧ PoolEq P_1 P') ∧
          (some P = none → getP (setC w (c.trySend w.cfg.overflow ch seq).1) p = none) := by
        exact ⟨fun q hq => rfl, fun P1 hp1 => ⟨P1, (by cases hp1; exact hp), .refl _⟩, fun hn => (by cases hn)⟩
      cases hr : (c.trySend w.cfg.overflow ch seq).2 with
      | ok ev =>
        dsimp only
        have hpool := afterSend_pool P ch ev
        generalize afterSend P ch ev = P2 at hpool ⊢
        obtain ⟨k1, k2⟩ := hconn (setP (setC w (c.trySend w.cfg.overflow ch seq).1) p P2) (fun _ _ => rfl)
        refine ⟨fun q hq => by simp [hq], fun P1 hp1 => ?_, fun hn => (by cases hn), k1, k2⟩
        cases hp1
        exact ⟨P2, by simp [hp], hpool⟩
      | full =>
        obtain ⟨k1, k2⟩ := hconn (setC w (c.trySend w.cfg.overflow ch seq).1) (fun _ _ => rfl)
        exact ⟨hrest.1, hrest.2.1, hrest.2.2, k1, k2⟩
      | corrupted =>
        obtain ⟨k1, k2⟩ := hconn (setC w (c.trySend w.cfg.overflow ch seq).1) (fun _ _ => rfl)
        exact ⟨hrest.1, hrest.2.1, hrest.2.2, k1, k2⟩

theorem deliverTo_inv {cfg : Cfg} {w : World} {xp : Option Nat} {p0 : Nat} {xs : List Nat} {st : Bool}
    (h : InvP cfg w xp p0 xs st) {p s i ch : Nat} (seq : Nat) {P : Pub} {c : Conn}
    (hp : getP w p = some P) (hc : getC w p s = some c) (hi : P.conns[i]? = some (some s))
    (hal : P.alive = true) (hx : p ≠ p0 → xs = [])
    (hcomp : c.comp = []) (hun : c.used.getD ch false = false)
    (href : 1 ≤ (if p = p0 then xs else []).count ch + P.hist.count ch)
    (hst : st = true → ch ∉ (if p = p0 then xs else [])) :
    InvP cfg (deliverTo w p s ch seq).1 xp p0 xs st := by
  obtain ⟨hSl, hMem⟩ := h.p p P hp
  have M := hMem hal
  obtain ⟨c0, hc0, hsa⟩ := hSl.slotConn i s hi
  rw [hc] at hc0; cases hc0
  have hCI := h.c p s c hc
  obtain ⟨S, hS⟩ := hCI.hasS
  obtain ⟨hnd, hex⟩ := hCI.exact hsa S hS
  have hkey := getC_key hc
  obtain ⟨t1, t2⟩ := trySend_spec c w.cfg.overflow ch seq hCI.ok.cap1
  have hk' : (c.trySend w.cfg.overflow ch seq).1.pid = p ∧ (c.trySend w.cfg.overflow ch seq).1.sid = s :=
    ⟨t1.pid.trans hkey.1, t1.sid.trans hkey.2⟩
  -- the chunk is valid
  have hrcpos : P.rc.getD ch 0 ≠ 0 := by have := M.rcEq ch; omega
  have hchn : ch < P.rc.length := getD_pos_lt hrcpos
  have hchu : ch < c.used.length := by rw [hCI.usedLen P hp, ← M.fr.rcLen]; exact hchn
  rw [deliverTo_eq hp hc]
  rcases t2 with ⟨r1, r2, r3⟩ | ⟨r1, r2, r3, r4⟩ | ⟨old, oseq, rest, r2, r3, r4⟩
  · -- full
    rw [r1]
    dsimp only
    refine h.rebuild2 (P' := P) (c' := (c.trySend w.cfg.overflow ch seq).1) hp hc ⟨rfl, rfl, rfl, fun _ => rfl⟩
      (h.u.setC _) (fun q => ?_) (getC_setC_self hc _ hk') (.refl _) (fun hr => t1.rAtt ▸ hr)
      (fun hne => ⟨hx hne, hx hne⟩) ?_ ⟨?_, fun _ => ?_⟩
    · by_cases hq : q = p
      · subst hq; simp [hp]
      · simp [hq]
    · exact (hCI.transferP (w' := setC w (c.trySend w.cfg.overflow ch seq).1) (fun _ => rfl)
        (.of_eq fun _ => rfl)).congr t1 r2 r3
    · exact hSl.transfer (fun _ => rfl) (fun s' c1 hc1 ha1 => by
        rw [getC_setC_self hc _ hk']
        by_cases hs : s' = s
        · subst hs; rw [hc] at hc1; cases hc1
          exact ⟨_, by simp, t1.sAtt.trans ha1⟩
        · exact ⟨c1, by simp [hs, hc1], ha1⟩)
    · refine M.transfer (fun s' x => ?_)
      unfold usedAt
      rw [getC_setC_self hc _ hk']
      by_cases hs : s' = s
      · subst hs; simp [hc, r3]
      · simp [hs]
  · -- delivered, nothing evicted
    rw [r1]
    dsimp only
    refine deliver_core h hp hc hi hal hx hcomp hun href hst ⟨rfl, rfl, rfl, fun _ => rfl⟩
      ((h.u.setC _).of_conns rfl) (getP_setC_setP hp _ _) (getC_setC_setP hc _ _ hk') t1
      (afterSend_pool P ch none) (fun hf => freeOK_borrowChunk hf ch hrcpos)
      (c.sub.map (·.1)) [] (by simp) (by rw [r2]; simp) (by rw [r2]; simp; omega) ?_ (by rw [r3]; simp) ?_
    · intro x
      rw [r3, getD_set_bool]
      by_cases hxc : x = ch <;> simp [hxc, hchu]
    · intro x
      show (P.borrowChunk ch).rc.getD x 0 = _
      rw [rc_borrowChunk P ch x hchn]
      by_cases hxc : x = ch <;> simp [hxc]
  · -- eviction
    have hold : c.used.getD old false = true := (hex old).2 (by unfold connChunks; simp [r2])
    have hne : old ≠ ch := by intro e; rw [e, hun] at hold; cases hold
    have holdu : old < c.used.length := by
      by_cases hl : old < c.used.length
      · exact hl
      · rw [List.getD_eq_getElem?_getD, List.getElem?_eq_none (by omega)] at hold; cases hold
    have hset : (c.used.set ch true).getD old false = true := by
      rw [getD_set_bool]; simp [hne, hold]
    rcases r4 with ⟨_, r5, r6⟩ | ⟨r5, _⟩
    · rw [r5]
      dsimp only
      have hsublen : c.sub.length ≤ c.cap := hCI.ok.subLe
      refine deliver_core h hp hc hi hal hx hcomp hun href hst ⟨rfl, rfl, rfl, fun _ => rfl⟩
        ((h.u.setC _).of_conns rfl) (getP_setC_setP hp _ _) (getC_setC_setP hc _ _ hk') t1
        (afterSend_pool P ch (some old))
        (fun hf => freeOK_releaseChunk (freeOK_borrowChunk hf ch hrcpos) old)
        (rest.map (·.1)) [old] (by rw [r2]; simp) (by rw [r3]; simp) ?_ ?_ (by rw [r6]; simp) ?_
      · rw [r3]; rw [r2] at hsublen; simp at hsublen ⊢; omega
      · intro x
        rw [r6, getD_set_bool, getD_set_bool]
        by_cases hxo : x = old
        · subst hxo; simp [holdu]
        · by_cases hxc : x = ch
          · subst hxc; simp [hxo, hchu]
          · simp [hxo, hxc]
      · intro x
        show ((P.borrowChunk ch).releaseChunk old).rc.getD x 0 = _
        rw [rc_releaseChunk, rc_borrowChunk P ch x hchn]
        by_cases hxo : x = old
        · subst hxo; simp [hne]
        · by_cases hxc : x = ch
          · subst hxc; simp [hxo]
          · simp [hxo, hxc]
    · rw [hset] at r5; cases r5

end Iox2.PubSub.C08
