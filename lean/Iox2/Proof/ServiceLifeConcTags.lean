/-
C06 Part B — what a call may return, and who has a service tag (for calls on pairwise distinct nodes).
-/
import Iox2.Proof.ServiceLifeConcInv

namespace Iox2.ServiceLifeConc
open Iox2.Sched

/-- the documented results of the two kinds of call -/
def docRes (t : Local) : Prop :=
  match t.res with
  | none => True
  | some .created => t.role = .creator
  | some (.opened _) => t.role = .opener
  | some (.err e) =>
    match t.role with
    | .creator => e = "AlreadyExists"
    | .opener => e = "DoesNotExist" ∨ e = "HangsInCreation" ∨ e = "Incompatible" ∨ e = "ExceedsMaxNumberOfNodes"

/-- pcs at which a call owns the tag it created -/
def window (t : Local) : Prop :=
  match t.role with
  | .creator => (2 ≤ t.pc ∧ t.pc ≤ 10) ∨ t.pc = 20
  | .opener => t.pc = 4 ∨ t.pc = 5 ∨ t.pc = 6 ∨ t.pc = 30 ∨ t.pc = 31

/-- the call returned the service -/
def holds (t : Local) : Prop := t.res = some .created ∨ ∃ o, t.res = some (.opened o)

/-- per-call part -/
structure TOk (tags : List Nat) (t : Local) : Prop where
  doc : docRes t
  owned : t.tagOwned = true ↔ window t
  tag : t.node ∈ tags ↔ (t.tagOwned = true ∨ holds t)

structure TagInv (c : Cfg Shared Local) : Prop where
  nodup : c.sh.tags.Nodup
  distinct : ∀ (i j : Nat) (ti tj : Local), c.th[i]? = some ti → c.th[j]? = some tj → ti.node = tj.node → i = j
  ok : ∀ (i : Nat) (t : Local), c.th[i]? = some t → TOk c.sh.tags t

/-- effect of one step on the tag list -/
inductive TagEff (n : Nat) (tags tags' : List Nat) : Prop where
  | same : tags' = tags → TagEff n tags tags'
  | add : n ∉ tags → tags' = n :: tags → TagEff n tags tags'
  | del : tags' = tags.erase n → TagEff n tags tags'

theorem TagEff.nodup {n : Nat} {tags tags' : List Nat} (h : TagEff n tags tags') (hn : tags.Nodup) : tags'.Nodup := by
  cases h with
  | same e => rw [e]; exact hn
  | add hnot e => rw [e]; exact List.nodup_cons.2 ⟨hnot, hn⟩
  | del e => rw [e]; exact hn.erase n

theorem TagEff.mem_other {n m : Nat} {tags tags' : List Nat} (h : TagEff n tags tags') (hne : m ≠ n) :
    m ∈ tags' ↔ m ∈ tags := by
  cases h with
  | same e => rw [e]
  | add _ e => rw [e]; simp [hne]
  | del e => rw [e]; exact List.mem_erase_of_ne hne

theorem holds_none {t : Local} (h : t.res = none) : ¬ holds t := by
  rintro (h' | ⟨o, h'⟩) <;> rw [h] at h' <;> cases h'

/-- one step of a creator -/
theorem creator_tok {sh sh' : Shared} {t t' : Local} {evs : List Ev} (hr : t.role = .creator) (hv : validPc t)
    (hres : t.res = none ↔ t.pc ≠ 99) (h5 : t.pc = 5 → sh.dyn = none) (hn : sh.tags.Nodup) (hok : TOk sh.tags t)
    (hst : creatorStep sh t = some (sh', t', evs)) :
    TagEff t.node sh.tags sh'.tags ∧ TOk sh'.tags t' ∧ t'.node = t.node := by
  obtain ⟨hdoc, hown, htag⟩ := hok
  rcases creator_pcs hr hv with hpc | hpc | hpc | hpc | hpc | hpc | hpc | hpc | hpc | hpc | hpc | hpc | hpc
  all_goals (first | (have hres0 : t.res = none := by simpa [hpc] using hres) | skip)
  · -- 0: exists?
    have hno : ¬ t.tagOwned = true := by rw [hown]; simp [window, hr, hpc]
    have hnt : t.node ∉ sh.tags := by rw [htag]; simp [hno, holds_none hres0]
    cases hs : sh.static <;> simp [creatorStep, hpc, hs, finish] at hst <;> obtain ⟨rfl, rfl, -⟩ := hst
    · refine ⟨.same rfl, ⟨by simp [docRes, hres0], by simp [window, hr, hno], by simp [hnt, hno, holds, hres0]⟩, rfl⟩
    · refine ⟨.same rfl, ⟨by simp [docRes, hr], by simp [window, hr, hno], by simp [hnt, hno, holds]⟩, rfl⟩
  · -- 1: tag:create
    have hno : ¬ t.tagOwned = true := by rw [hown]; simp [window, hr, hpc]
    have hnt : t.node ∉ sh.tags := by rw [htag]; simp [hno, holds_none hres0]
    simp [creatorStep, hpc, mkTag, hnt] at hst
    obtain ⟨rfl, rfl, -⟩ := hst
    refine ⟨.add hnt rfl, ⟨by simp [docRes, hres0], by simp [window, hr], by simp⟩, rfl⟩
  · -- 2: static:create_excl
    have hyes : t.tagOwned = true := by rw [hown]; simp [window, hr, hpc]
    have hin : t.node ∈ sh.tags := by rw [htag]; exact Or.inl hyes
    cases hs : sh.static <;> simp [creatorStep, hpc, hs] at hst <;> obtain ⟨rfl, rfl, -⟩ := hst
    · refine ⟨.same rfl, ⟨by simp [docRes, hres0], by simp [window, hr, hyes], by simp [hin, hyes]⟩, rfl⟩
    · refine ⟨.same rfl, ⟨by simp [docRes, hres0], by simp [window, hr, hyes], by simp [hin, hyes]⟩, rfl⟩
  · have hyes : t.tagOwned = true := by rw [hown]; simp [window, hr, hpc]
    have hin : t.node ∈ sh.tags := by rw [htag]; exact Or.inl hyes
    simp [creatorStep, hpc] at hst; obtain ⟨rfl, rfl, -⟩ := hst
    refine ⟨.same rfl, ⟨by simp [docRes, hres0], by simp [window, hr, hyes], by simp [hin, hyes]⟩, rfl⟩
  · have hyes : t.tagOwned = true := by rw [hown]; simp [window, hr, hpc]
    have hin : t.node ∈ sh.tags := by rw [htag]; exact Or.inl hyes
    simp [creatorStep, hpc] at hst; obtain ⟨rfl, rfl, -⟩ := hst
    refine ⟨.same rfl, ⟨by simp [docRes, hres0], by simp [window, hr, hyes], by simp [hin, hyes]⟩, rfl⟩
  · -- 5: dynamic:create_excl (the `some` branch leads to pc 21, excluded afterwards by validPc of the successor; here both are handled)
    have hyes : t.tagOwned = true := by rw [hown]; simp [window, hr, hpc]
    have hin : t.node ∈ sh.tags := by rw [htag]; exact Or.inl hyes
    have hs := h5 hpc
    simp [creatorStep, hpc, hs] at hst; obtain ⟨rfl, rfl, -⟩ := hst
    refine ⟨.same rfl, ⟨by simp [docRes, hres0], by simp [window, hr, hyes], by simp [hin, hyes]⟩, rfl⟩
  · have hyes : t.tagOwned = true := by rw [hown]; simp [window, hr, hpc]
    have hin : t.node ∈ sh.tags := by rw [htag]; exact Or.inl hyes
    simp [creatorStep, hpc] at hst; obtain ⟨rfl, rfl, -⟩ := hst
    refine ⟨.same rfl, ⟨by simp [docRes, hres0], by simp [window, hr, hyes], by simp [hin, hyes]⟩, rfl⟩
  · have hyes : t.tagOwned = true := by rw [hown]; simp [window, hr, hpc]
    have hin : t.node ∈ sh.tags := by rw [htag]; exact Or.inl hyes
    simp [creatorStep, hpc] at hst; obtain ⟨rfl, rfl, -⟩ := hst
    refine ⟨.same rfl, ⟨by simp [docRes, hres0], by simp [window, hr, hyes], by simp [hin, hyes]⟩, rfl⟩
  · have hyes : t.tagOwned = true := by rw [hown]; simp [window, hr, hpc]
    have hin : t.node ∈ sh.tags := by rw [htag]; exact Or.inl hyes
    simp [creatorStep, hpc] at hst; obtain ⟨rfl, rfl, -⟩ := hst
    refine ⟨.same rfl, ⟨by simp [docRes, hres0], by simp [window, hr, hyes], by simp [hin, hyes]⟩, rfl⟩
  · have hyes : t.tagOwned = true := by rw [hown]; simp [window, hr, hpc]
    have hin : t.node ∈ sh.tags := by rw [htag]; exact Or.inl hyes
    simp [creatorStep, hpc] at hst; obtain ⟨rfl, rfl, -⟩ := hst
    refine ⟨.same rfl, ⟨by simp [docRes, hres0], by simp [window, hr, hyes], by simp [hin, hyes]⟩, rfl⟩
  · -- 10: node:add, returns the service
    have hyes : t.tagOwned = true := by rw [hown]; simp [window, hr, hpc]
    have hin : t.node ∈ sh.tags := by rw [htag]; exact Or.inl hyes
    simp [creatorStep, hpc, finish] at hst; obtain ⟨rfl, rfl, -⟩ := hst
    refine ⟨.same (by simp [incRef]; split <;> rfl), ⟨by simp [docRes, hr], by simp [window, hr], ?_⟩, rfl⟩
    have : (incRef sh t.node).tags = sh.tags := by simp [incRef]; split <;> rfl
    simp [this, hin, holds]
  · -- 20: rollback
    have hyes : t.tagOwned = true := by rw [hown]; simp [window, hr, hpc]
    simp [creatorStep, hpc, dropTag, hyes, finish] at hst; obtain ⟨rfl, rfl, -⟩ := hst
    refine ⟨.del rfl, ⟨by simp [docRes, hr], by simp [window, hr], ?_⟩, rfl⟩
    simp [holds, hn.mem_erase_iff]
  · -- 99: no step
    simp [creatorStep, hpc] at hst

theorem incRef_tags (sh : Shared) (n : Nat) : (incRef sh n).tags = sh.tags := by
  simp [incRef]; split <;> rfl

/-- one step of an opener -/
theorem opener_tok {sh sh' : Shared} {t t' : Local} {evs : List Ev} (hr : t.role = .opener) (hv : validPc t)
    (hres : t.res = none ↔ t.pc ≠ 99) (hn : sh.tags.Nodup) (hok : TOk sh.tags t)
    (hst : openerStep sh t = some (sh', t', evs)) :
    TagEff t.node sh.tags sh'.tags ∧ TOk sh'.tags t' ∧ t'.node = t.node := by
  obtain ⟨hdoc, hown, htag⟩ := hok
  rcases opener_pcs hr hv with hpc | hpc | hpc | hpc | hpc | hpc | hpc | hpc | hpc | hpc
  all_goals (first | (have hres0 : t.res = none := by simpa [hpc] using hres) | skip)
  · -- 0: deadnodes:scan
    have hno : ¬ t.tagOwned = true := by rw [hown]; simp [window, hr, hpc]
    have hnt : t.node ∉ sh.tags := by rw [htag]; simp [hno, holds_none hres0]
    simp [openerStep, hpc] at hst; obtain ⟨rfl, rfl, -⟩ := hst
    refine ⟨.same rfl, ⟨by simp [docRes, hres0], by simp [window, hr, hno], by simp [hnt, hno, holds, hres0]⟩, rfl⟩
  · -- 1: static:exists?
    have hno : ¬ t.tagOwned = true := by rw [hown]; simp [window, hr, hpc]
    have hnt : t.node ∉ sh.tags := by rw [htag]; simp [hno, holds_none hres0]
    cases hs : sh.static with
    | none =>
      simp [openerStep, hpc, hs, finish] at hst; obtain ⟨rfl, rfl, -⟩ := hst
      refine ⟨.same rfl, ⟨by simp [docRes, hr], by simp [window, hr, hno], by simp [hnt, hno, holds]⟩, rfl⟩
    | some s =>
      by_cases hu : s.unlocked = true
      · simp [openerStep, hpc, hs, hu] at hst; obtain ⟨rfl, rfl, -⟩ := hst
        refine ⟨.same rfl, ⟨by simp [docRes, hres0], by simp [window, hr, hno], by simp [hnt, hno, holds, hres0]⟩, rfl⟩
      · by_cases hb : t.budget = 0
        · simp [openerStep, hpc, hs, hu, hb, finish] at hst; obtain ⟨rfl, rfl, -⟩ := hst
          refine ⟨.same rfl, ⟨by simp [docRes, hr], by simp [window, hr, hno], by simp [hnt, hno, holds]⟩, rfl⟩
        · simp [openerStep, hpc, hs, hu, hb] at hst; obtain ⟨rfl, rfl, -⟩ := hst
          refine ⟨.same rfl, ⟨by simp [docRes, hres0], by simp [window, hr, hno, hpc], by simp [hnt, hno, holds, hres0]⟩, rfl⟩
  · -- 2: static:read
    have hno : ¬ t.tagOwned = true := by rw [hown]; simp [window, hr, hpc]
    have hnt : t.node ∉ sh.tags := by rw [htag]; simp [hno, holds_none hres0]
    cases hs : sh.static with
    | none =>
      simp [openerStep, hpc, hs, finish] at hst; obtain ⟨rfl, rfl, -⟩ := hst
      refine ⟨.same rfl, ⟨by simp [docRes, hr], by simp [window, hr, hno], by simp [hnt, hno, holds]⟩, rfl⟩
    | some s =>
      by_cases hcomp : t.compatible = true
      · simp [openerStep, hpc, hs, hcomp] at hst; obtain ⟨rfl, rfl, -⟩ := hst
        refine ⟨.same rfl, ⟨by simp [docRes, hres0], by simp [window, hr, hno], by simp [hnt, hno, holds, hres0]⟩, rfl⟩
      · simp [openerStep, hpc, hs, hcomp, finish] at hst; obtain ⟨rfl, rfl, -⟩ := hst
        refine ⟨.same rfl, ⟨by simp [docRes, hr], by simp [window, hr, hno], by simp [hnt, hno, holds]⟩, rfl⟩
  · -- 3: tag:create
    have hno : ¬ t.tagOwned = true := by rw [hown]; simp [window, hr, hpc]
    have hnt : t.node ∉ sh.tags := by rw [htag]; simp [hno, holds_none hres0]
    simp [openerStep, hpc, mkTag, hnt] at hst
    obtain ⟨rfl, rfl, -⟩ := hst
    refine ⟨.add hnt rfl, ⟨by simp [docRes, hres0], by simp [window, hr], by simp⟩, rfl⟩
  · -- 4: dynamic:open
    have hyes : t.tagOwned = true := by rw [hown]; simp [window, hr, hpc]
    have hin : t.node ∈ sh.tags := by rw [htag]; exact Or.inl hyes
    by_cases hd : dynReady sh (t.seen.getD 0) = true
    · simp [openerStep, hpc, hd] at hst; obtain ⟨rfl, rfl, -⟩ := hst
      refine ⟨.same rfl, ⟨by simp [docRes, hres0], by simp [window, hr, hyes], by simp [hin, hyes]⟩, rfl⟩
    · simp [openerStep, hpc, hd] at hst; obtain ⟨rfl, rfl, -⟩ := hst
      refine ⟨.same rfl, ⟨by simp [docRes, hres0], by simp [window, hr, hyes], by simp [hin, hyes]⟩, rfl⟩
  · -- 5: node:add_or
    have hyes : t.tagOwned = true := by rw [hown]; simp [window, hr, hpc]
    have hin : t.node ∈ sh.tags := by rw [htag]; exact Or.inl hyes
    by_cases hrf : refOf sh t.node = 0
    · cases hdy : sh.dyn with
      | none =>
        simp [openerStep, hpc, hrf, hdy] at hst; obtain ⟨rfl, rfl, -⟩ := hst
        refine ⟨.same rfl, ⟨by simp [docRes, hres0], by simp [window, hr, hyes], by simp [hin, hyes]⟩, rfl⟩
      | some d =>
        by_cases hm : sh.maxNodes ≤ d.regs.length
        · simp [openerStep, hpc, hrf, hdy, hm] at hst; obtain ⟨rfl, rfl, -⟩ := hst
          refine ⟨.same rfl, ⟨by simp [docRes, hres0], by simp [window, hr, hyes], by simp [hin, hyes]⟩, rfl⟩
        · simp [openerStep, hpc, hrf, hdy, hm] at hst; obtain ⟨rfl, rfl, -⟩ := hst
          refine ⟨.same (by rw [incRef_tags]), ⟨by simp [docRes, hres0], by simp [window, hr, hyes], ?_⟩, rfl⟩
          rw [incRef_tags]; simp [hin, hyes]
    · simp [openerStep, hpc, hrf] at hst; obtain ⟨rfl, rfl, -⟩ := hst
      refine ⟨.same (by rw [incRef_tags]), ⟨by simp [docRes, hres0], by simp [window, hr, hyes], ?_⟩, rfl⟩
      rw [incRef_tags]; simp [hin, hyes]
  · -- 6: tag:release, returns the service
    have hyes : t.tagOwned = true := by rw [hown]; simp [window, hr, hpc]
    have hin : t.node ∈ sh.tags := by rw [htag]; exact Or.inl hyes
    simp [openerStep, hpc, finish] at hst; obtain ⟨rfl, rfl, -⟩ := hst
    refine ⟨.same rfl, ⟨by simp [docRes, hr], by simp [window, hr], by simp [hin, holds]⟩, rfl⟩
  · -- 30: retry, the tag of this round is dropped
    have hyes : t.tagOwned = true := by rw [hown]; simp [window, hr, hpc]
    by_cases hb : t.budget = 0
    · simp [openerStep, hpc, dropTag, hyes, hb, finish] at hst; obtain ⟨rfl, rfl, -⟩ := hst
      refine ⟨.del rfl, ⟨by simp [docRes, hr], by simp [window, hr], ?_⟩, rfl⟩
      simp [holds, hn.mem_erase_iff]
    · simp [openerStep, hpc, dropTag, hyes, hb] at hst; obtain ⟨rfl, rfl, -⟩ := hst
      refine ⟨.del rfl, ⟨by simp [docRes, hres0], by simp [window, hr], ?_⟩, rfl⟩
      simp [holds, hres0, hn.mem_erase_iff]
  · -- 31: node limit, the tag is dropped
    have hyes : t.tagOwned = true := by rw [hown]; simp [window, hr, hpc]
    simp [openerStep, hpc, dropTag, hyes, finish] at hst; obtain ⟨rfl, rfl, -⟩ := hst
    refine ⟨.del rfl, ⟨by simp [docRes, hr], by simp [window, hr], ?_⟩, rfl⟩
    simp [holds, hn.mem_erase_iff]
  · simp [openerStep, hpc] at hst

/-! ## the results alone (any assignment of calls to nodes) -/

theorem mkTag_res_role (sh : Shared) (t : Local) : (mkTag sh t).2.res = t.res ∧ (mkTag sh t).2.role = t.role := by
  unfold mkTag; split <;> simp

theorem dropTag_res_role (sh : Shared) (t : Local) : (dropTag sh t).2.res = t.res ∧ (dropTag sh t).2.role = t.role := by
  unfold dropTag; split <;> simp

theorem docRes_of {t t' : Local} (hres : t'.res = t.res) (hrole : t'.role = t.role) (h : docRes t) : docRes t' := by
  unfold docRes at *; rw [hres, hrole]; exact h

theorem docRes_none {t : Local} (h : t.res = none) : docRes t := by simp [docRes, h]

theorem creator_doc {sh sh' : Shared} {t t' : Local} {evs : List Ev} (hr : t.role = .creator) (hv : validPc t)
    (h5 : t.pc = 5 → sh.dyn = none) (hdoc : docRes t)
    (hst : creatorStep sh t = some (sh', t', evs)) : docRes t' := by
  rcases creator_pcs hr hv with hpc | hpc | hpc | hpc | hpc | hpc | hpc | hpc | hpc | hpc | hpc | hpc | hpc
  · cases hs : sh.static <;> simp [creatorStep, hpc, hs, finish] at hst <;> obtain ⟨-, rfl, -⟩ := hst
    · exact docRes_of rfl rfl hdoc
    · simp [docRes, hr]
  · simp only [creatorStep, hpc] at hst
    have := mkTag_res_role sh t
    generalize mkTag sh t = x at hst this
    obtain ⟨a, b⟩ := x
    simp at hst; obtain ⟨-, rfl, -⟩ := hst
    exact docRes_of this.1 this.2 hdoc
  · cases hs : sh.static <;> simp [creatorStep, hpc, hs] at hst <;> obtain ⟨-, rfl, -⟩ := hst <;>
      exact docRes_of rfl rfl hdoc
  · simp [creatorStep, hpc] at hst; obtain ⟨-, rfl, -⟩ := hst; exact docRes_of rfl rfl hdoc
  · simp [creatorStep, hpc] at hst; obtain ⟨-, rfl, -⟩ := hst; exact docRes_of rfl rfl hdoc
  · simp [creatorStep, hpc, h5 hpc] at hst; obtain ⟨-, rfl, -⟩ := hst; exact docRes_of rfl rfl hdoc
  · simp [creatorStep, hpc] at hst; obtain ⟨-, rfl, -⟩ := hst; exact docRes_of rfl rfl hdoc
  · simp [creatorStep, hpc] at hst; obtain ⟨-, rfl, -⟩ := hst; exact docRes_of rfl rfl hdoc
  · simp [creatorStep, hpc] at hst; obtain ⟨-, rfl, -⟩ := hst; exact docRes_of rfl rfl hdoc
  · simp [creatorStep, hpc] at hst; obtain ⟨-, rfl, -⟩ := hst; exact docRes_of rfl rfl hdoc
  · simp [creatorStep, hpc, finish] at hst; obtain ⟨-, rfl, -⟩ := hst; simp [docRes, hr]
  · simp only [creatorStep, hpc] at hst
    have := dropTag_res_role sh t
    generalize dropTag sh t = x at hst this
    obtain ⟨a, b⟩ := x
    simp [finish] at hst; obtain ⟨-, rfl, -⟩ := hst
    have h2 : b.role = t.role := this.2
    simp [docRes, h2, hr]
  · simp [creatorStep, hpc] at hst

theorem opener_doc {sh sh' : Shared} {t t' : Local} {evs : List Ev} (hr : t.role = .opener) (hv : validPc t)
    (hdoc : docRes t) (hst : openerStep sh t = some (sh', t', evs)) : docRes t' := by
  rcases opener_pcs hr hv with hpc | hpc | hpc | hpc | hpc | hpc | hpc | hpc | hpc | hpc
  · simp [openerStep, hpc] at hst; obtain ⟨-, rfl, -⟩ := hst; exact docRes_of rfl rfl hdoc
  · cases hs : sh.static with
    | none => simp [openerStep, hpc, hs, finish] at hst; obtain ⟨-, rfl, -⟩ := hst; simp [docRes, hr]
    | some s =>
      by_cases hu : s.unlocked = true
      · simp [openerStep, hpc, hs, hu] at hst; obtain ⟨-, rfl, -⟩ := hst; exact docRes_of rfl rfl hdoc
      · by_cases hb : t.budget = 0
        · simp [openerStep, hpc, hs, hu, hb, finish] at hst; obtain ⟨-, rfl, -⟩ := hst; simp [docRes, hr]
        · simp [openerStep, hpc, hs, hu, hb] at hst; obtain ⟨-, rfl, -⟩ := hst; exact docRes_of rfl rfl hdoc
  · cases hs : sh.static with
    | none => simp [openerStep, hpc, hs, finish] at hst; obtain ⟨-, rfl, -⟩ := hst; simp [docRes, hr]
    | some s =>
      by_cases hcomp : t.compatible = true
      · simp [openerStep, hpc, hs, hcomp] at hst; obtain ⟨-, rfl, -⟩ := hst; exact docRes_of rfl rfl hdoc
      · simp [openerStep, hpc, hs, hcomp, finish] at hst; obtain ⟨-, rfl, -⟩ := hst; simp [docRes, hr]
  · simp only [openerStep, hpc] at hst
    have := mkTag_res_role sh t
    generalize mkTag sh t = x at hst this
    obtain ⟨a, b⟩ := x
    simp at hst; obtain ⟨-, rfl, -⟩ := hst
    exact docRes_of this.1 this.2 hdoc
  · by_cases hd : dynReady sh (t.seen.getD 0) = true
    · simp [openerStep, hpc, hd] at hst; obtain ⟨-, rfl, -⟩ := hst; exact docRes_of rfl rfl hdoc
    · simp [openerStep, hpc, hd] at hst; obtain ⟨-, rfl, -⟩ := hst; exact docRes_of rfl rfl hdoc
  · by_cases hrf : refOf sh t.node = 0
    · cases hdy : sh.dyn with
      | none => simp [openerStep, hpc, hrf, hdy] at hst; obtain ⟨-, rfl, -⟩ := hst; exact docRes_of rfl rfl hdoc
      | some d =>
        by_cases hm : sh.maxNodes ≤ d.regs.length
        · simp [openerStep, hpc, hrf, hdy, hm] at hst; obtain ⟨-, rfl, -⟩ := hst; exact docRes_of rfl rfl hdoc
        · simp [openerStep, hpc, hrf, hdy, hm] at hst; obtain ⟨-, rfl, -⟩ := hst; exact docRes_of rfl rfl hdoc
    · simp [openerStep, hpc, hrf] at hst; obtain ⟨-, rfl, -⟩ := hst; exact docRes_of rfl rfl hdoc
  · simp [openerStep, hpc, finish] at hst; obtain ⟨-, rfl, -⟩ := hst; simp [docRes, hr]
  · simp only [openerStep, hpc] at hst
    have := dropTag_res_role sh t
    generalize dropTag sh t = x at hst this
    obtain ⟨a, b⟩ := x
    by_cases hb : t.budget = 0
    · simp [hb, finish] at hst; obtain ⟨-, rfl, -⟩ := hst
      have h2 : b.role = t.role := this.2
      simp [docRes, h2, hr]
    · simp [hb] at hst; obtain ⟨-, rfl, -⟩ := hst
      exact docRes_of (t := t) this.1 this.2 hdoc
  · simp only [openerStep, hpc] at hst
    have := dropTag_res_role sh t
    generalize dropTag sh t = x at hst this
    obtain ⟨a, b⟩ := x
    simp [finish] at hst; obtain ⟨-, rfl, -⟩ := hst
    have h2 : b.role = t.role := this.2
    simp [docRes, h2, hr]
  · simp [openerStep, hpc] at hst

/-- every call that returned ended with the service or a documented error of its kind -/
theorem reachable_doc {c0 c : Cfg Shared Local} (h0 : Initial c0) (hr : Reachable sys c0 c) :
    ∀ (i : Nat) (t : Local), c.th[i]? = some t → docRes t := by
  induction hr with
  | init =>
    intro i t ht
    exact docRes_none (h0.2 i t ht).2.2.2.2
  | @step c c' j evs hr' hs ih =>
    have hi := reachable_inv h0 hr'
    obtain ⟨t, sh', t', ht, hst, rfl⟩ := stepAt_unfold hs
    have hst : stepT c.sh t = some (sh', t', evs) := hst
    have hv := (hi.pcs j t ht).1
    intro i ti hti
    rw [getElem?_set_of_some t' ht] at hti
    by_cases hij : i = j
    · simp only [hij, if_true] at hti
      cases hti
      unfold stepT at hst
      cases hro : t.role with
      | creator =>
        rw [hro] at hst
        refine creator_doc hro hv ?_ (ih j t ht) hst
        intro hpc
        exact hi.dyn_none ht (by simp [stage, hro, hpc]) (by simp [stage, hro, hpc])
      | opener =>
        rw [hro] at hst
        exact opener_doc hro hv (ih j t ht) hst
    · simp only [hij, if_false] at hti
      exact ih i ti hti

/-- calls on pairwise distinct nodes -/
def DistinctNodes (c : Cfg Shared Local) : Prop :=
  ∀ (i j : Nat) (ti tj : Local), c.th[i]? = some ti → c.th[j]? = some tj → ti.node = tj.node → i = j

theorem taginv_initial {c : Cfg Shared Local} (h : Initial c) (hd : DistinctNodes c) : TagInv c := by
  obtain ⟨⟨m, hm⟩, hth⟩ := h
  refine ⟨by simp [hm, Shared.init], hd, ?_⟩
  intro i t ht
  obtain ⟨-, hpc, hto, -, hres⟩ := hth i t ht
  refine ⟨by simp [docRes, hres], ?_, ?_⟩
  · simp only [hto, Bool.false_eq_true, false_iff]
    unfold window
    cases t.role <;> simp [hpc]
  · simp [hm, Shared.init, hto, holds, hres]

theorem taginv_step {c c' : Cfg Shared Local} {i : Nat} {evs : List Ev} (hi : Inv c) (h : TagInv c)
    (hs : sys.stepAt c i = some (c', evs)) : TagInv c' := by
  obtain ⟨t, sh', t', ht, hst, rfl⟩ := stepAt_unfold hs
  have hst : stepT c.sh t = some (sh', t', evs) := hst
  obtain ⟨hv, hres, -, -⟩ := hi.pcs i t ht
  have key : TagEff t.node c.sh.tags sh'.tags ∧ TOk sh'.tags t' ∧ t'.node = t.node := by
    unfold stepT at hst
    cases hr : t.role with
    | creator =>
      rw [hr] at hst
      refine creator_tok hr hv hres ?_ h.nodup (h.ok i t ht) hst
      intro hpc
      exact hi.dyn_none ht (by simp [stage, hr, hpc]) (by simp [stage, hr, hpc])
    | opener =>
      rw [hr] at hst
      exact opener_tok hr hv hres h.nodup (h.ok i t ht) hst
  obtain ⟨heff, hok', hnode⟩ := key
  have hget : ∀ j, (c.th.set i t')[j]? = if j = i then some t' else c.th[j]? := getElem?_set_of_some t' ht
  refine ⟨heff.nodup h.nodup, ?_, ?_⟩
  · intro a b ta tb ha hb hab
    simp only [hget] at ha hb
    by_cases hai : a = i <;> by_cases hbi : b = i
    · rw [hai, hbi]
    · simp only [hai, if_true, hbi, if_false] at ha hb
      cases ha
      rw [hai]
      exact h.distinct i b t tb ht hb (by rw [← hnode]; exact hab)
    · simp only [hai, if_false, hbi, if_true] at ha hb
      cases hb
      rw [hbi]
      exact h.distinct a i ta t ha ht (by rw [hab, hnode])
    · simp only [hai, hbi, if_false] at ha hb
      exact h.distinct a b ta tb ha hb hab
  · intro j tj hj
    simp only [hget] at hj
    by_cases hji : j = i
    · simp only [hji, if_true] at hj
      cases hj
      exact hok'
    · simp only [hji, if_false] at hj
      have hne : tj.node ≠ t.node := fun e => hji (h.distinct j i tj t hj ht e)
      obtain ⟨d1, d2, d3⟩ := h.ok j tj hj
      exact ⟨d1, d2, by rw [heff.mem_other hne]; exact d3⟩

theorem reachable_taginv {c0 c : Cfg Shared Local} (h0 : Initial c0) (hd : DistinctNodes c0)
    (hr : Reachable sys c0 c) : TagInv c := by
  induction hr with
  | init => exact taginv_initial h0 hd
  | step hr' hs ih => exact taginv_step (reachable_inv h0 hr') ih hs

end Iox2.ServiceLifeConc
