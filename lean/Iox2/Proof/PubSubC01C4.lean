/-
Layer C: `Sender::create` — the publisher attaches to a connection and delivers the history.
-/
import Iox2.Proof.PubSubC01C3
namespace Iox2.PubSub.C01P
open Iox2.PubSub

variable {cfg : Cfg} {np ns : Option Nat} {fq : Option (Nat × Nat)} {w : World}

/-- the history delivery loop: `gh` = the send numbers to deliver, `done` = those already delivered -/
theorem InvK.deliverHistory (p s seq0 : Nat) (cs gh : List Nat) (hgh : gh.Pairwise (· < ·))
    (hlt : ∀ x ∈ gh, x < seq0) (rem : List Nat) {w : World} (done : List Nat)
    (hA : InvA cfg np ns w) (hK : InvK fq (some (p, s)) w)
    (hsplit : gh = done ++ rem.map (fun ch => cs.getD ch 0))
    (hpub : ∀ P', getP w p = some P' → P'.seq = seq0 ∧ P'.chunkSeq = cs)
    (hcon : ∀ cn, getC w p s = some cn → cn.sAtt = true →
      cn.gFirst = seq0 ∧ cn.gHist = gh ∧ cn.gDelivered = done ∧ gh.length ≤ cn.cap)
    {i : Nat} {P : Pub} (hP : getP w p = some P) (hex : P.ex = true) (hi : P.conns[i]? = some (some s)) :
    InvK fq none (Iox2.PubSub.deliverHistory w p s rem) := by
  induction rem generalizing w done P with
  | nil =>
    show InvK fq none w
    refine ⟨hK.hmono, hK.dlt, fun a b cn hcn hsa _ Q hQ => ?_, hK.nlost, hK.smono⟩
    by_cases hk : a = p ∧ b = s
    · obtain ⟨rfl, rfl⟩ := hk
      obtain ⟨e1, e2, e3, e4⟩ := hcon cn hcn hsa
      obtain ⟨e5, _⟩ := hpub Q hQ
      simp only [List.map_nil, List.append_nil] at hsplit
      unfold HFirst
      rw [e1, e2, e3, e5, ← hsplit]
      exact ⟨Nat.le_refl _, List.prefix_refl _, hlt, fun q hq _ => hq, e4⟩
    · refine hK.hfirst a b cn hcn hsa (fun h => hk ?_) Q hQ
      simp only [Option.some.injEq, Prod.mk.injEq] at h
      exact h
  | cons ch r ih =>
    rw [deliverHistory_cons]
    obtain ⟨f1, c1⟩ := retrieveReturned_frame w p
    have hA1 := hA.retrieveReturned p
    have g1 := retrieveReturned_cframe w p
    generalize Iox2.PubSub.retrieveReturned w p = w1 at f1 c1 hA1 g1 ⊢
    obtain ⟨P1, hP1, st1⟩ := f1.psome p P hP
    have hi1 : P1.conns[i]? = some (some s) := by rw [c1 P P1 hP hP1]; exact hi
    have hex1 : P1.ex = true := by rw [st1.ex]; exact hex
    have hK1 := hK.of_frame g1
    have hpub1 : ∀ P', getP w1 p = some P' → P'.seq = seq0 ∧ P'.chunkSeq = cs := by
      intro P' hP'
      obtain ⟨P0, hP0, sm⟩ := g1.pubs p P' hP'
      obtain ⟨a, b⟩ := hpub P0 hP0
      exact ⟨sm.seq.trans a, sm.chunkSeq.trans b⟩
    have hcon1 : ∀ cn, getC w1 p s = some cn → cn.sAtt = true →
        cn.gFirst = seq0 ∧ cn.gHist = gh ∧ cn.gDelivered = done ∧ gh.length ≤ cn.cap := by
      intro cn hcn hsa
      rcases g1.getc p s cn hcn with ⟨c0, hc0, sc⟩ | hf
      · obtain ⟨a, b, c, d⟩ := hcon c0 hc0 (sc.sAtt hsa)
        exact ⟨sc.gFirst.trans a, sc.gHist.trans b, sc.gDelivered.trans c, sc.cap ▸ d⟩
      · rw [hf.1] at hsa; cases hsa
    have hq : histSeq w1 p ch = cs.getD ch 0 := by
      unfold histSeq; rw [hP1]; simp only; rw [(hpub1 P1 hP1).2]
    rw [hq]
    generalize hqd : cs.getD ch 0 = q
    obtain ⟨cn, hcn, hsa⟩ := hA1.a2c p P1 hP1 hex1 i s hi1
    obtain ⟨hcm, _, _⟩ := getC_some hcn
    obtain ⟨e1, e2, e3, e4⟩ := hcon1 cn hcn hsa
    have hsplit' : gh = done ++ q :: r.map (fun ch => cs.getD ch 0) := by
      rw [hsplit, List.map_cons, hqd]
    have hqlt : q < seq0 := hlt q (by rw [hsplit']; simp)
    have hdq : ∀ y ∈ done, y < q := by
      have := hgh
      rw [hsplit', List.pairwise_append] at this
      exact fun y hy => this.2.2 y hy q (by simp)
    have hA2 := hA1.deliverTo p s ch q (hA1.attached hP1 hex1 hi1)
    have hK2 := hK1.deliverTo p s ch q (fun cn' P' hcn' hP' => by
      rw [hcn] at hcn'; cases hcn'
      exact ⟨(hpub1 P' hP').1 ▸ hqlt, e3 ▸ hdq, fun _ hne => absurd rfl hne⟩)
    obtain ⟨f2, c2⟩ := deliverTo_frame w1 p s ch q
    obtain ⟨P2, hP2, st2⟩ := f2.psome p P1 hP1
    refine ih (done ++ [q]) hA2 hK2 (by rw [hsplit']; simp) ?_ ?_ hP2 (by rw [st2.ex]; exact hex1)
      (by rw [c2 P1 P2 hP1 hP2]; exact hi1)
    · intro P' hP'
      obtain ⟨P0, hP0, st⟩ := f2.some' hP'
      obtain ⟨a, b⟩ := hpub1 P0 hP0
      exact ⟨st.seq.trans a, st.chunkSeq.trans b⟩
    · intro cn' hcn' _
      rw [deliverTo_getC w1 p s ch q hP1 hcn] at hcn'
      cases hcn'
      have hroom : cn.sub.length < cn.cap := by
        obtain ⟨l, _, hl⟩ := (hA1.clog cn hcm).split
        have h1 : (pend cn).length = cn.sub.length := by simp [pend]
        have h2 : cn.gDelivered.length = l.length + (pend cn).length := by rw [hl]; simp
        have h3 : gh.length = done.length + (r.length + 1) := by rw [hsplit']; simp
        rw [e3] at h2
        omega
      exact ⟨(trySend_gFirst ..).trans e1, (trySend_gHist ..).trans e2,
        (trySend_room _ _ _ _ hroom).trans (by rw [e3]), by rw [trySend_cap]; exact e4⟩

/-- the world right after `create_sender` (before the history is delivered) -/
theorem InvK.attach (hK : InvK fq none w) {W0 : World} {x : Conn} {p s slot : Nat} {P P' : Pub}
    (hgP : ∀ a, getP W0 a = getP w a) (hgS : ∀ a, getS W0 a = getS w a)
    (hgC : ∀ a b, getC W0 a b = if a = p ∧ b = s then some x else getC w a b)
    (hP : getP w p = some P) (hd : x.gDelivered = []) (hf : x.gFirst = P.seq)
    (h1 : P'.seq = P.seq) (h2 : P'.hist = P.hist) (h3 : P'.chunkSeq = P.chunkSeq) (h4 : P'.ex = P.ex)
    (hc : P'.conns = P.conns.set slot (some s)) :
    InvK fq (some (p, s)) (setP W0 p P') := by
  have hQ : ∀ a Q, getP (setP W0 p P') a = some Q →
      (a = p ∧ Q = P') ∨ (a ≠ p ∧ getP w a = some Q) := by
    intro a Q h
    rw [getP_setP] at h
    by_cases hap : a = p
    · subst hap
      rw [if_pos rfl, hgP, hP] at h
      simp only [Option.map_some, Option.some.injEq] at h
      exact Or.inl ⟨rfl, h.symm⟩
    · rw [if_neg hap, hgP] at h
      exact Or.inr ⟨hap, h⟩
  have hQ' : ∀ a Q, getP (setP W0 p P') a = some Q →
      ∃ Q0, getP w a = some Q0 ∧ Q.seq = Q0.seq ∧ Q.hist = Q0.hist ∧ Q.chunkSeq = Q0.chunkSeq := by
    intro a Q h
    rcases hQ a Q h with ⟨rfl, rfl⟩ | ⟨_, h0⟩
    · exact ⟨P, hP, h1, h2, h3⟩
    · exact ⟨Q, h0, rfl, rfl, rfl⟩
  refine ⟨fun a Q h => ?_, fun a b cn hcn Q h => ?_, fun a b cn hcn hsa hne Q h => ?_,
    fun a Q h hex i b hi cn hcn hsa q g1 g2 g3 => ?_, fun a S h => hK.smono a S (by rw [← hgS]; exact h)⟩
  · obtain ⟨Q0, h0, e1, e2, e3⟩ := hQ' a Q h
    rw [e1, e2, e3]; exact hK.hmono a Q0 h0
  · obtain ⟨Q0, h0, e1, _, _⟩ := hQ' a Q h
    rw [getC_setP, hgC] at hcn
    by_cases hk : a = p ∧ b = s
    · rw [if_pos hk] at hcn; cases hcn
      rw [hd]; exact ⟨fun q hq => (by cases hq), List.Pairwise.nil⟩
    · rw [if_neg hk] at hcn
      rw [e1]; exact hK.dlt a b cn hcn Q0 h0
  · obtain ⟨Q0, h0, e1, _, _⟩ := hQ' a Q h
    rw [getC_setP, hgC] at hcn
    by_cases hk : a = p ∧ b = s
    · obtain ⟨rfl, rfl⟩ := hk; exact absurd rfl hne
    · rw [if_neg hk] at hcn
      rw [e1]; exact hK.hfirst a b cn hcn hsa (by simp) Q0 h0
  · rw [getC_setP, hgC] at hcn
    rcases hQ a Q h with ⟨rfl, rfl⟩ | ⟨hap, h0⟩
    · by_cases hb : b = s
      · subst hb
        rw [if_pos ⟨rfl, rfl⟩] at hcn; cases hcn
        rw [hf] at g1; rw [h1] at g2; omega
      · rw [if_neg (fun hh => hb hh.2)] at hcn
        rw [hc] at hi
        rcases set_getElem?_some hi with ⟨_, hbs, _⟩ | ⟨_, hi'⟩
        · exact absurd hbs hb
        · exact hK.nlost a P hP (h4 ▸ hex) i b hi' cn hcn hsa q g1 (h1 ▸ g2) g3
    · rw [if_neg (fun hh => hap hh.1)] at hcn
      exact hK.nlost a Q h0 hex i b hi cn hcn hsa q g1 g2 g3

theorem histToDeliver_len_some {e : SubEntry} {p : Nat} {P : Pub} {c : Conn} (hC : getC w p e.sid = some c) :
    (histToDeliver w p e P).length ≤ c.cap := by
  unfold histToDeliver; rw [hC]; simp only [List.length_drop]; omega

theorem histToDeliver_len_none {e : SubEntry} {p : Nat} {P : Pub} (hC : getC w p e.sid = none) :
    (histToDeliver w p e P).length ≤ e.buffer := by
  unfold histToDeliver; rw [hC]; simp only [List.length_drop]; omega

theorem histToDeliver_sub (w : World) (p : Nat) (e : SubEntry) (P : Pub) :
    (histToDeliver w p e P).Sublist P.hist := List.drop_sublist _ _

theorem InvK.pubCreateConn (hA : InvA cfg np ns w) (hK : InvK fq none w) {p slot : Nat} {e : SubEntry} {P : Pub}
    (hP : getP w p = some P) (hPa : P.alive = true) (hslot : P.conns[slot]? = some none)
    (hreg : w.subReg.slots[slot]? = some (some e)) :
    InvK fq none (Iox2.PubSub.pubCreateConn w p slot e) := by
  rw [pubCreateConn_eq, hP]
  simp only
  have hslt : slot < P.conns.length := (List.getElem?_eq_some_iff.mp hslot).1
  have hex : P.ex = true := (hA.palive p P hP hPa).1
  have hsub := histToDeliver_sub w p e P
  obtain ⟨hm1, hm2⟩ := hK.hmono p P hP
  have hgh : ((histToDeliver w p e P).map fun ch => P.chunkSeq.getD ch 0).Pairwise (· < ·) :=
    hm1.sublist (hsub.map _)
  have hlt : ∀ x ∈ (histToDeliver w p e P).map (fun ch => P.chunkSeq.getD ch 0), x < P.seq := by
    intro x hx
    obtain ⟨ch, hch, rfl⟩ := List.mem_map.mp hx
    exact hm2 ch (hsub.subset hch)
  have hatt : InvA cfg np ns (pubAttach w p slot e P) ∧
      getP (pubAttach w p slot e P) p = some { P with conns := P.conns.set slot (some e.sid) } ∧
      InvK fq (some (p, e.sid)) (pubAttach w p slot e P) ∧
      ∀ cn, getC (pubAttach w p slot e P) p e.sid = some cn →
        cn.gFirst = P.seq ∧ cn.gHist = (histToDeliver w p e P).map (fun ch => P.chunkSeq.getD ch 0) ∧
        cn.gDelivered = [] ∧ (histToDeliver w p e P).length ≤ cn.cap := by
    unfold pubAttach
    simp only
    cases hC : getC w p e.sid with
    | none =>
      simp only
      have hl := histToDeliver_len_none (P := P) hC
      generalize histToDeliver w p e P = L at hl
      generalize hx : ({ pid := p, sid := e.sid, cap := e.buffer, used := List.replicate P.n false, sAtt := true, gFirst := P.seq, gHist := L.map fun ch => P.chunkSeq.getD ch 0 } : Conn) = x
      have hxp : x.pid = p := by rw [← hx]
      have hxs : x.sid = e.sid := by rw [← hx]
      have hgC : ∀ a b, getC (addC w x) a b = if a = p ∧ b = e.sid then some x else getC w a b := by
        intro a b
        rw [getC_addC, hxp, hxs]
        by_cases hab : a = p ∧ b = e.sid
        · obtain ⟨rfl, rfl⟩ := hab; simp [hC]
        · rw [if_neg hab]
          have : ¬ (p = a ∧ e.sid = b) := fun hh => hab ⟨hh.1.symm, hh.2.symm⟩
          simp [this]
      refine ⟨?_, getP_setP_self _ (by rw [getP_addC]; exact hP), ?_, ?_⟩
      · rw [← hx]; exact hA.attachP_new hP hPa hslot hreg hC rfl rfl rfl rfl
      · exact hK.attach (fun _ => rfl) (fun _ => rfl) hgC hP (by rw [← hx]) (by rw [← hx]) rfl rfl rfl rfl rfl
      · intro cn hcn
        rw [getC_setP, hgC, if_pos ⟨rfl, rfl⟩] at hcn
        cases hcn
        rw [← hx]; exact ⟨rfl, rfl, rfl, hl⟩
    | some c =>
      simp only
      obtain ⟨hcm, hcp, hcs⟩ := getC_some hC
      have hl := histToDeliver_len_some (P := P) hC
      generalize histToDeliver w p e P = L at hl
      -- the existing connection object has not been used yet
      obtain ⟨_, S2, hS2, hS2a, hsl2, _⟩ := hA.sreg slot e hreg
      have hns : c.sAtt = false := by
        cases hsa : c.sAtt with
        | false => rfl
        | true =>
          obtain ⟨Q, hQ, i, hi⟩ := hA.a2 c hcm hsa
          rw [hcp, hP] at hQ; cases hQ
          rw [hcs] at hi
          obtain ⟨_, S1, hS1, hsl1⟩ := (hA.pconns p P hP).2 i e.sid hi
          rw [hS2] at hS1; cases hS1
          rw [hsl2] at hsl1
          subst hsl1
          rw [hslot] at hi; cases hi
      have hv : Virgin c := hA.virg c hcm hns P S2 (hcp ▸ hP) (hcs ▸ hS2) hex hS2a
      generalize hx : ({ c with sAtt := true, gFirst := P.seq, gHist := L.map fun ch => P.chunkSeq.getD ch 0 } : Conn) = x
      have hxp : x.pid = p := by rw [← hx]; exact hcp
      have hxs : x.sid = e.sid := by rw [← hx]; exact hcs
      have hgC : ∀ a b, getC (setC w x) a b = if a = p ∧ b = e.sid then some x else getC w a b := by
        intro a b
        rw [getC_setC, hxp, hxs]
        by_cases hab : a = p ∧ b = e.sid
        · obtain ⟨rfl, rfl⟩ := hab; simp [hC]
        · rw [if_neg hab, if_neg hab]
      refine ⟨?_, getP_setP_self _ (by rw [getP_setC]; exact hP), ?_, ?_⟩
      · rw [← hx]; exact hA.attachP_old hP hslot hreg hC rfl rfl rfl rfl
      · exact hK.attach (fun _ => rfl) (fun _ => rfl) hgC hP (by rw [← hx]; exact hv.del) (by rw [← hx])
          rfl rfl rfl rfl rfl
      · intro cn hcn
        rw [getC_setP, hgC, if_pos ⟨rfl, rfl⟩] at hcn
        cases hcn
        rw [← hx]; exact ⟨rfl, rfl, hv.del, hl⟩
  obtain ⟨hA1, hP1, hK1, hcon⟩ := hatt
  refine InvK.deliverHistory p e.sid P.seq P.chunkSeq _ hgh hlt (histToDeliver w p e P) [] hA1 hK1 rfl ?_ ?_
    (i := slot) hP1 hex (by simp only [List.getElem?_set]; simp [hslt])
  · intro P' hP'
    rw [hP1] at hP'; cases hP'; exact ⟨rfl, rfl⟩
  · intro cn hcn _
    obtain ⟨a, b, c, d⟩ := hcon cn hcn
    exact ⟨a, b, c, by rw [List.length_map]; exact d⟩

end Iox2.PubSub.C01P
