/-
C08 helper: publisher-side actions preserve the invariant (part J: `pubCreateConn`).
-/
import Iox2.Proof.PubSubC08PubI
set_option linter.unusedSimpArgs false
set_option linter.unusedVariables false
namespace Iox2.PubSub.C08
open Iox2.PubSub
open Iox2.C16.SlotMapP (abs)
attribute [-simp] List.getD_eq_getElem?_getD

theorem getD_replicate_false (n x : Nat) : (List.replicate n false).getD x false = false := by
  rw [List.getD_eq_getElem?_getD, List.getElem?_replicate]
  split <;> rfl

theorem pubAttach_inv {cfg : Cfg} {w : World} {xp : Option Nat} {p0 : Nat} {xs : List Nat} {st : Bool}
    (h : InvP cfg w xp p0 xs st) (p slot : Nat) (e : SubEntry) (gh : List Nat) {P : Pub}
    (hp : getP w p = some P) (hal : P.alive = true) (hi0 : P.conns[slot]? = some none)
    (hx : p ≠ p0 → xs = [])
    (hreg : w.subReg.slots[slot]? = some (some e)) :
    InvP cfg (pubAttach w p slot e P gh) xp p0 xs st ∧
    getP (pubAttach w p slot e P gh) p = some { P with conns := P.conns.set slot (some e.sid) } ∧
    (∀ x, usedAt (pubAttach w p slot e P gh) p e.sid x = false) := by
  obtain ⟨S, hS, hSal, hSslot, hbuf⟩ := h.r.rs1 slot e hreg
  obtain ⟨hSl, hMem⟩ := h.p p P hp
  have hSO := h.s e.sid S hS
  unfold pubAttach
  cases hc : getC w p e.sid with
  | some c =>
    dsimp only
    have hkey := getC_key hc
    have hCI := h.c p e.sid c hc
    have hnsa : c.sAtt = false := by
      cases hsa : c.sAtt with
      | false => rfl
      | true =>
        obtain ⟨P1, hp1, _, j, hj⟩ := hCI.inSlot hsa
        rw [hp] at hp1; cases hp1
        obtain ⟨S', hS', h2⟩ := hSl.slotSlot j e.sid hj
        rw [hS] at hS'; cases hS'
        rw [hSslot] at h2; subst h2
        rw [hi0] at hj; cases hj
    obtain ⟨k1, k2, k3, k4⟩ := hCI.fresh hnsa P S hp hS (hSl.aliveEx hal) hSal
    have hk1 : ({ c with sAtt := true, gFirst := P.seq, gHist := gh } : Conn).pid = p ∧
        ({ c with sAtt := true, gFirst := P.seq, gHist := gh } : Conn).sid = e.sid := hkey
    have hgC : ∀ a b, getC (setP (setC w { c with sAtt := true, gFirst := P.seq, gHist := gh }) p
          { P with conns := P.conns.set slot (some e.sid) }) a b =
        if a = p ∧ b = e.sid then some { c with sAtt := true, gFirst := P.seq, gHist := gh } else getC w a b := by
      intro a b; rw [getC_setP, getC_setC_self hc _ hk1]
    refine ⟨attach_core h { c with sAtt := true, gFirst := P.seq, gHist := gh } hp hal hi0 hx hS hSslot
      ⟨rfl, rfl, rfl, fun _ => rfl⟩ ((h.u.setC _).of_conns rfl) (fun q => ?_) hgC
      k1 k2 k3 rfl k4 (hCI.usedLen P hp) hCI.ok.cap1 hCI.ok.capM (fun c1 hc1 hr => ?_) ?_, ?_, ?_⟩
    · simp only [getP_setP, getP_setC, hp, Option.map_some]
    · rw [hc] at hc1; cases hc1; exact hr
    · rw [← hCI.held S hS]; exact k3
    · simp only [getP_setP, getP_setC, hp, Option.map_some, if_true]
    · intro x
      rw [usedAt_of_getC (c := { c with sAtt := true, gFirst := P.seq, gHist := gh }) (by rw [hgC]; simp)]
      exact k4 x
  | none =>
    dsimp only
    have hgC : ∀ a b, getC (setP (pushC w (newConnP p e P gh)) p
          { P with conns := P.conns.set slot (some e.sid) }) a b =
        if a = p ∧ b = e.sid then some (newConnP p e P gh) else getC w a b := by
      intro a b; rw [getC_setP, getC_pushC _ _ _ _ hc]; rfl
    refine ⟨attach_core h (newConnP p e P gh) hp hal hi0 hx hS hSslot
      ⟨rfl, rfl, rfl, fun _ => rfl⟩ ((h.u.pushC _ hc).of_conns rfl) (fun q => ?_) hgC
      rfl rfl rfl rfl (fun x => getD_replicate_false _ _) (by simp [newConnP]) (by show 1 ≤ e.buffer; rw [hbuf]; exact hSO.buf1)
      (by show e.buffer ≤ _; rw [hbuf]; exact hSO.bufM) (fun c1 hc1 hr => ?_) ?_, ?_, ?_⟩
    · show getP (setP (pushC w _) p _) q = _
      simp only [getP_setP, getP_pushC, hp, Option.map_some]
    · rw [hc] at hc1; cases hc1
    · rw [List.length_eq_zero_iff, List.filter_eq_nil_iff]
      intro hd hhd hpid
      simp at hpid
      obtain ⟨c1, hc1, _⟩ := hSO.hasConn hd.key hd.pid (hSO.heldKey hd hhd)
      rw [hpid, hc] at hc1; cases hc1
    · show getP (setP (pushC w _) p _) p = _
      simp only [getP_setP, getP_pushC, hp, Option.map_some, if_true]
    · intro x
      rw [usedAt_of_getC (c := newConnP p e P gh) (by rw [hgC]; simp)]
      exact getD_replicate_false _ _

theorem pubCreateConn_inv {cfg : Cfg} {w : World} {xp : Option Nat} {p0 : Nat} {xs : List Nat} {st : Bool}
    (h : InvP cfg w xp p0 xs st) (p slot : Nat) (e : SubEntry) {P : Pub}
    (hp : getP w p = some P) (hal : P.alive = true) (hi0 : P.conns[slot]? = some none)
    (hx : p ≠ p0 → xs = [])
    (hreg : w.subReg.slots[slot]? = some (some e)) :
    InvP cfg (pubCreateConn w p slot e) xp p0 xs st ∧
    ∃ P', getP (pubCreateConn w p slot e) p = some P' ∧
      PoolEq { P with conns := P.conns.set slot (some e.sid) } P' := by
  rw [pubCreateConn_eq, hp]
  dsimp only
  obtain ⟨a1, a2, a3⟩ := pubAttach_inv h p slot e
    ((P.hist.drop (P.hist.length - histCount w p e)).map fun ch => P.chunkSeq.getD ch 0) hp hal hi0 hx hreg
  have M := (h.p p P hp).2 hal
  have hslotlt : slot < P.conns.length := (List.getElem?_eq_some_iff.mp hi0).1
  exact deliverHistory_inv a1 (i := slot) _ a2 (by simp [hslotlt]) hal hx
    (fun x hx' => List.mem_of_mem_drop hx') (M.histNodup.sublist (List.drop_sublist _ _)) (fun x _ => a3 x)

end Iox2.PubSub.C08
