/-
C06 — every API call preserves the regrouped invariant `WF` and keeps the incarnations (`step_pres`).
-/
import Iox2.Proof.ServiceLifeInvOps

namespace Iox2.ServiceLife

theorem drop_pres (w : World) (h : Nat) (hw : WF w) :
    PresS w (updState w (fun st => st.factory == some h) (fun st => { st with factory := none })) := by
  refine updState_pres w _ _ hw (fun st => ⟨rfl, rfl, rfl, rfl⟩) ?_ ?_
  · intro l1 st l2 hs hsel
    have hst := hw.st
    rw [hs] at hst
    exact hst.fac_unique (by simpa using hsel)
  · intro l1 st l2 hs hsel hcond
    have hst := hw.st
    rw [hs] at hst
    refine hst.replace_drop _ rfl rfl ?_
    intro e
    apply hcond
    show ((none : Option Nat).isNone && st.ports.isEmpty) = true
    have e' : st.ports = [] := e
    rw [e']; rfl

theorem port_pres (w : World) (h pl kind : Nat) (hw : WF w) (hp : portUsed w pl = false) :
    PresS w (updState w (fun x => x.factory == some h) (fun x => { x with ports := (pl, kind) :: x.ports })) := by
  refine updState_pres w _ _ hw (fun st => ⟨rfl, rfl, rfl, rfl⟩) ?_ ?_
  · intro l1 st l2 hs hsel
    have hst := hw.st
    rw [hs] at hst
    exact hst.fac_unique (by simpa using hsel)
  · intro l1 st l2 hs hsel _
    have hst := hw.st
    have hp' := portUsed_false_iff.1 hp
    rw [hs] at hst hp'
    exact hst.replace_port _ rfl rfl hp'

theorem dport_pres (w : World) (pl : Nat) (hw : WF w) :
    PresS w (updState w (fun st => st.ports.any (fun q => q.1 == pl))
      (fun st => { st with ports := st.ports.filter (fun q => !(q.1 == pl)) })) := by
  refine updState_pres w _ _ hw (fun st => ⟨rfl, rfl, rfl, rfl⟩) ?_ ?_
  · intro l1 st l2 hs hsel
    have hst := hw.st
    rw [hs] at hst
    exact hst.port_unique hsel
  · intro l1 st l2 hs hsel hcond
    have hst := hw.st
    rw [hs] at hst
    refine hst.replace_dport _ rfl _ rfl ?_
    show st.factory.isSome = true ∨ st.ports.filter (fun q => !(q.1 == pl)) ≠ []
    have hcond' : ¬(st.factory.isNone && (st.ports.filter (fun q => !(q.1 == pl))).isEmpty) = true := hcond
    cases hfa : st.factory with
    | some x => exact Or.inl rfl
    | none =>
      right
      intro e
      apply hcond'
      rw [hfa, e]; rfl

theorem pres_nodes (w : World) (hw : WF w) (ns : List (Nat × Bool)) : Pres w { w with nodes := ns } :=
  ⟨⟨hw.svc, hw.ref, hw.st⟩, SvcStab.refl _⟩

theorem step_pres (w : World) (o : Op) (hw : WF w) : Pres w (step w o).1 := by
  have hrefl : Pres w w := (PresS.refl hw).pres
  cases o with
  | node n =>
    simp only [step]
    split
    · exact hrefl
    · exact pres_nodes w hw _
  | dnode n =>
    simp only [step]
    split
    · exact pres_nodes w hw _
    · exact hrefl
  | create n s h p r =>
    simp only [step]
    split
    · exact hrefl
    · rename_i hl
      split
      · exact hrefl
      · exact createCore_pres w n h ⟨s, p⟩ r hw (by simpa using hl)
  | open_ n s h p r =>
    simp only [step]
    split
    · exact hrefl
    · rename_i hl
      split
      · exact hrefl
      · exact (openCore_pres w n h ⟨s, p⟩ r hw (by simpa using hl)).pres
  | ooc n s h p r =>
    simp only [step]
    split
    · exact hrefl
    · rename_i hl
      split
      · exact hrefl
      · split
        · exact hrefl
        · exact oocCore_pres w n h ⟨s, p⟩ r hw (by simpa using hl)
  | drop h =>
    simp only [step]
    split
    · exact (drop_pres w h hw).pres
    · exact hrefl
  | port h pl code =>
    simp only [step]
    split
    · exact hrefl
    · rename_i hp
      split
      · exact hrefl
      · split
        · exact hrefl
        · split
          · exact hrefl
          · exact (port_pres w h pl _ hw (by simpa using hp)).pres
  | dport pl =>
    simp only [step]
    split
    · exact (dport_pres w pl hw).pres
    · exact hrefl
  | settings h =>
    simp only [step]
    split <;> exact hrefl
  | regs h =>
    simp only [step]
    split <;> exact hrefl
  | exists_ s p => exact hrefl
  | list => exact hrefl
  | ls => exact hrefl
  | end_ =>
    have hd := dropAll_pres w.states.length w hw
    exact ⟨⟨hd.1.svc, hd.1.ref, hd.1.st⟩, hd.2.stab⟩

end Iox2.ServiceLife
