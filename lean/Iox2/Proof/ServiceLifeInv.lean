/-
C06 — global invariant of the L1 service-lifetime model (`Iox2/Model/ServiceLife.lean`) and its
preservation by every API call (`reachable_inv`).
-/
import Iox2.Model.ServiceLife
import Iox2.Proof.ServiceLifeInvStep

namespace Iox2.ServiceLife

structure Inv (w : World) : Prop where
  /-- at most one incarnation per (name, pattern) -/
  keysNodup : (w.svcs.map (·.key)).Nodup
  /-- every ServiceState belongs to the existing incarnation of its service, its node is registered -/
  stSvc : ∀ st ∈ w.states, ∃ svc ∈ w.svcs, svc.key = st.key ∧ st.node ∈ svc.regs ∧ svc.uid = st.uid ∧ svc.cfg = st.cfg
  /-- every existing service has a registered node, every registered node holds a ServiceState -/
  svcSt : ∀ svc ∈ w.svcs, svc.regs ≠ [] ∧ svc.regs.Nodup ∧ ∀ n ∈ svc.regs, ∃ st ∈ w.states, st.node = n ∧ st.key = svc.key
  /-- the static config is what the creator asked for -/
  svcCfg : ∀ svc ∈ w.svcs, svc.cfg = mkSettings svc.key.p svc.creq ∧ svc.uid < w.nextUid
  refsNodup : (w.refs.map (fun r => (r.1, r.2.1))).Nodup
  /-- `registered_services` counts the live ServiceStates of the node -/
  refsCount : ∀ r ∈ w.refs, r.2.2 = stateCount w r.1 r.2.1 ∧ 1 ≤ r.2.2
  stRef : ∀ st ∈ w.states, 1 ≤ refCount w st.node st.key
  facNodup : (w.states.filterMap (·.factory)).Nodup
  portNodup : (w.states.flatMap (fun st => st.ports.map (·.1))).Nodup
  /-- a ServiceState lives exactly as long as its port factory or one of its ports -/
  live : ∀ st ∈ w.states, st.factory.isSome ∨ st.ports ≠ []

/-- `Inv` regrouped into its service / reference-count / state parts (`ServiceLifeInvBase.lean`) -/
theorem Inv.wf {w : World} (h : Inv w) : WF w where
  svc := ⟨h.keysNodup, h.stSvc, h.svcSt, h.svcCfg⟩
  ref := by
    refine ⟨h.refsNodup, fun r hr => (h.refsCount r hr).2, ?_⟩
    intro n k
    by_cases h0 : refCountL w.refs n k = 0
    · rw [h0]
      symm
      apply stateCountL_zero_iff.2
      intro st hst e
      have := h.stRef st hst
      rw [refCount_eq, e.1, e.2, h0] at this
      omega
    · have := (h.refsCount _ (mem_of_refCountL_ne_zero h0)).1
      exact this
  st := ⟨h.facNodup, h.portNodup, h.live⟩

theorem WF.inv {w : World} (h : WF w) : Inv w where
  keysNodup := h.svc.keysNodup
  stSvc := h.svc.stSvc
  svcSt := h.svc.svcSt
  svcCfg := h.svc.svcCfg
  refsNodup := h.ref.nodup
  refsCount := by
    intro r hr
    refine ⟨?_, h.ref.pos r hr⟩
    rw [stateCount_eq, ← h.ref.cnt, refCountL_of_mem h.ref.nodup hr]
  stRef := by
    intro st hst
    rw [refCount_eq, h.ref.cnt]
    exact stateCountL_pos_iff.2 ⟨st, hst, rfl, rfl⟩
  facNodup := h.st.facNodup
  portNodup := h.st.portNodup
  live := h.st.live

theorem inv_iff_wf {w : World} : Inv w ↔ WF w := ⟨Inv.wf, WF.inv⟩

theorem inv_init : Inv World.init := by
  refine ⟨List.nodup_nil, ?_, ?_, ?_, List.nodup_nil, ?_, ?_, List.nodup_nil, List.nodup_nil, ?_⟩ <;>
    intro x hx <;> cases hx

theorem step_inv (w : World) (o : Op) (h : Inv w) : Inv (step w o).1 :=
  (step_pres w o h.wf).1.inv

theorem reachable_inv {w : World} (hr : Reachable w) : Inv w := by
  induction hr with
  | init => exact inv_init
  | step o _ ih => exact step_inv _ o ih

/-- a service exists iff somebody holds a ServiceState (port factory or port) of it -/
theorem exists_iff_user {w : World} (h : Inv w) (k : Key) :
    (findSvc w k).isSome ↔ ∃ st ∈ w.states, st.key = k := by
  constructor
  · intro hs
    cases hf : findSvc w k with
    | none => rw [hf] at hs; cases hs
    | some svc =>
      have hm := findL_some hf
      rcases h.svcSt svc hm.1 with ⟨hne, -, hall⟩
      rcases List.exists_mem_of_ne_nil _ hne with ⟨n, hn⟩
      rcases hall n hn with ⟨st, hst, -, e⟩
      exact ⟨st, hst, e.trans hm.2⟩
  · rintro ⟨st, hst, e⟩
    rcases h.stSvc st hst with ⟨svc, hs, e0, -⟩
    have := findL_isSome_of_mem hs
    rw [e0, e] at this
    exact this

/-- one API call never replaces an existing incarnation by another one, and never changes its settings -/
theorem step_svc_stable (w : World) (o : Op) (h : Inv w) (k : Key) (s s' : Svc)
    (h1 : findSvc w k = some s) (h2 : findSvc (step w o).1 k = some s') :
    s'.uid = s.uid ∧ s'.cfg = s.cfg ∧ s'.key = s.key :=
  (step_pres w o h.wf).2 k s s' h1 h2

end Iox2.ServiceLife
