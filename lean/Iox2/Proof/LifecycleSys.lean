/-
The invariant of the whole system: every step of every process and every death keeps `G`, the stepping
process's `L`, and (through the guarantee) everybody else's `L` — in all interleavings, at all crash points.
-/
import Iox2.Proof.LifecycleOwner
import Iox2.Proof.LifecycleCleanerStep
import Iox2.Proof.LifecycleCleanerQuery
namespace Iox2.Lifecycle
open Iox2.Sched

theorem cleaner_step {fs fs' : FS} {t t' : Th} {s : String} (hG : G fs) (hL : L fs t) (hr : t.role = .cleaner)
    (h : cleanerStep fs t = some (fs', t', s)) :
    G fs' ∧ L fs' t' ∧ Guar fs fs' t.pid ∧ fs'.opc = fs.opc ∧ fs'.odead = fs.odead ∧ t'.pid = t.pid ∧ t'.role = t.role := by
  by_cases hq : 2 ≤ t.pc ∧ t.pc ≤ 19
  · obtain ⟨rfl, h2, h3, h4⟩ := cleaner_step_query hG hL hr hq.1 hq.2 h
    exact ⟨hG, h2, Guar.refl _ _, rfl, rfl, h3, h4⟩
  · exact cleaner_step_explicit hG hL hr (by omega) h

/-- one step of any process -/
theorem stepL_sound {fs fs' : FS} {t t' : Th} {s : String} (hG : G fs) (hL : L fs t)
    (h : stepL fs t = some (fs', t', s)) :
    G fs' ∧ L fs' t' ∧ Guar fs fs' t.pid ∧ (t.role ≠ .owner → fs'.opc = fs.opc ∧ fs'.odead = fs.odead) ∧
    t'.pid = t.pid ∧ t'.role = t.role := by
  unfold stepL at h
  split at h
  · rename_i hr
    cases ho : ownerStep fs t with
    | none => rw [ho] at h; cases h
    | some r =>
      obtain ⟨fs0, t0, s0⟩ := r
      rw [ho] at h
      simp only [Option.map_some, Option.some.injEq, Prod.mk.injEq] at h
      obtain ⟨rfl, rfl, _⟩ := h
      obtain ⟨h1, h2, h3, h4, h5⟩ := owner_step hG hL hr ho
      exact ⟨h1, h2, h3, fun hne => absurd hr hne, h4, h5⟩
  · rename_i hr
    obtain ⟨rfl, h2, h3, h4⟩ := monitor_step hG hL hr h
    exact ⟨hG, h2, Guar.refl _ _, fun _ => ⟨rfl, rfl⟩, h3, h4⟩
  · rename_i hr
    obtain ⟨h1, h2, h3, h4, h5, h6, h7⟩ := cleaner_step hG hL hr h
    exact ⟨h1, h2, h3, fun _ => ⟨h4, h5⟩, h6, h7⟩

/-- the death of a process -/
theorem onDeath_sound {fs : FS} {t : Th} (hG : G fs) (hL : L fs t) :
    G (onDeath fs t) ∧ Guar fs (onDeath fs t) t.pid ∧
    (t.role ≠ .owner → (onDeath fs t).opc = fs.opc ∧ (onDeath fs t).odead = fs.odead) := by
  refine ⟨?_, ⟨Nat.le_refl _, ?_, ?_, ?_, ?_, ?_⟩, ?_⟩
  · by_cases hr : t.role = .owner
    · -- the owner dies
      have hp : t.pid = 0 := hL.role.1 hr
      have hd := hL.oAlive hr
      have hol : fs.ol.lock = none := by
        cases hl : fs.ol.lock with
        | none => rfl
        | some p => have := (hG.olLock p hl).1; rw [hd] at this; cases this
      have hst : (fs.st.closeBy 0).lock = none := by
        rcases File.closeBy_lock_cases fs.st 0 with h | h
        · exact h.1
        · rw [h.1]; rcases hG.stLock with h' | h'
          · exact h'
          · exact absurd h' h.2
      have holc : (fs.ol.closeBy 0).lock = none := by
        unfold File.closeBy; rw [hol]; simp [hol]
      obtain ⟨g1, g2, g3, g4, g5, g6, g7, g8, g9, g10, g11, g12, g13, g14, g15, g16, g17, g18, g19⟩ := hG
      unfold onDeath
      rw [hp, hr]
      refine ⟨?_, ?_, ?_, ?_, ?_, ?_, ?_, ?_, ?_, ?_, ?_, ?_, ?_, ?_, ?_, ?_, ?_, ?_, ?_⟩
      all_goals first
        | (intros; assumption)
        | (simp_all [File.closeBy_linked, File.closeBy_perm]; done)
    · -- a monitor or a cleaner dies
      have hp := hL.pid_ne_zero hr
      have hcs := closeBy_st_other hG hp
      have hro : (t.role == Role.owner) = false := by
        cases hrr : t.role <;> simp_all
      have holc : ∀ p, (fs.ol.closeBy t.pid).lock = some p → fs.ol.lock = some p := by
        intro p hpp
        rcases File.closeBy_lock_cases fs.ol t.pid with h | h
        · rw [h.1] at hpp; cases hpp
        · rw [h.1] at hpp; exact hpp
      obtain ⟨g1, g2, g3, g4, g5, g6, g7, g8, g9, g10, g11, g12, g13, g14, g15, g16, g17, g18, g19⟩ := hG
      unfold onDeath
      rw [hcs, hro]
      refine ⟨?_, ?_, ?_, ?_, ?_, ?_, ?_, ?_, ?_, ?_, ?_, ?_, ?_, ?_, ?_, ?_, ?_, ?_, ?_⟩
      case refine_14 => intro p hpp; simpa using g14 p (holc p hpp)
      all_goals first
        | (intros; assumption)
        | (simp_all [File.closeBy_linked, File.closeBy_perm]; done)
  · intro h; simp [onDeath, h]
  · intro p hne hl; simp only [onDeath]; exact File.closeBy_lock_ne hne hl
  · intro h _; simp only [onDeath, File.closeBy_linked]; exact h
  · intro h _; simp only [onDeath, File.closeBy_linked]; exact h
  · intro p hp
    simp only [onDeath] at hp
    rcases File.closeBy_lock_cases fs.ol t.pid with h1 | h1
    · rw [h1.1] at hp; cases hp
    · rw [h1.1] at hp; exact Or.inr hp
  · intro hr
    have hro : (t.role == Role.owner) = false := by
      cases hrr : t.role <;> simp_all
    simp [onDeath, hro]

end Iox2.Lifecycle
