/-
C08 helper: subscriber-side actions preserve the invariant (part G: the connection update cycle).
-/
import Iox2.Proof.PubSubC08SubF
set_option linter.unusedSimpArgs false
set_option linter.unusedVariables false
namespace Iox2.PubSub.C08
open Iox2.PubSub
open Iox2.C16.SlotMapP (abs)
attribute [-simp] List.getD_eq_getElem?_getD

/-- subscriber records that differ only in the storage, the `to_be_removed` list and the slots -/
def SubUpd (S S' : Sub) : Prop := ∃ st tb cs, S' = { S with storage := st, tbr := tb, conns := cs }

theorem SubUpd.refl (S : Sub) : SubUpd S S := ⟨S.storage, S.tbr, S.conns, rfl⟩
theorem SubUpd.trans {a b c : Sub} (h1 : SubUpd a b) (h2 : SubUpd b c) : SubUpd a c := by
  obtain ⟨s1, t1, c1, rfl⟩ := h1
  obtain ⟨s2, t2, c2, rfl⟩ := h2
  exact ⟨s2, t2, c2, rfl⟩
theorem SubKeep.upd {S S' : Sub} (h : SubKeep S S') : SubUpd S S' := by
  obtain ⟨s1, t1, rfl⟩ := h; exact ⟨s1, t1, S.conns, rfl⟩
theorem SubUpd.fields {S S' : Sub} (h : SubUpd S S') :
    S'.alive = S.alive ∧ S'.ex = S.ex ∧ S'.slot = S.slot ∧ S'.buffer = S.buffer ∧ S'.histReq = S.histReq ∧
    S'.tbrCap = S.tbrCap ∧ S'.snapCtr = S.snapCtr ∧ S'.snap = S.snap ∧
    S'.held = S.held ∧ S'.ghostRecv = S.ghostRecv := by
  obtain ⟨s1, t1, c1, rfl⟩ := h
  exact ⟨rfl, rfl, rfl, rfl, rfl, rfl, rfl, rfl, rfl, rfl⟩

theorem SStep.panicked_mono {w w' : World} (h : SStep w w') (hp : w'.panicked = false) : w.panicked = false := by
  cases hw : w.panicked with
  | false => rfl
  | true => rw [h.frame.2.2.2.2.1 hw] at hp; cases hp

theorem drop_cons_getElem? {α : Type} {l : List α} {i : Nat} {a : α} {r : List α} (h : a :: r = l.drop i) :
    l[i]? = some a ∧ r = l.drop (i + 1) := by
  have h1 : (l.drop i)[0]? = some a := by rw [← h]; rfl
  rw [List.getElem?_drop] at h1
  refine ⟨by simpa using h1, ?_⟩
  have : (l.drop i).drop 1 = r := by rw [← h]; rfl
  rw [← this, List.drop_drop]

theorem subUpdateSlots_inv {cfg : Cfg} {xs : Option Nat} (s : Nat) (l : List (Option Nat)) :
    ∀ {w : World} (h : InvS cfg w xs s none) (i : Nat) (tagged : List Nat) {S : Sub}
      (hS : getS w s = some S) (hal : S.alive = true)
      (hreg : l = w.pubReg.slots.drop i)
      (hcovr : ∀ j p, j < i → w.pubReg.slots[j]? = some (some p) →
        ∃ k, S.conns[j]? = some (some k) ∧ k ∈ tagged),
    ((subUpdateSlots w s l i tagged).1.panicked = false →
      InvS cfg (subUpdateSlots w s l i tagged).1 xs s none ∧
      ∃ S', getS (subUpdateSlots w s l i tagged).1 s = some S' ∧ SubUpd S S' ∧
        (∀ j p, j < i + l.length → w.pubReg.slots[j]? = some (some p) →
          ∃ k, S'.conns[j]? = some (some k) ∧ k ∈ (subUpdateSlots w s l i tagged).2)) ∧
    (w.panicked = false → S.held.length ≤ cfg.borrowMax →
      (subUpdateSlots w s l i tagged).1.panicked = false) := by
  induction l with
  | nil =>
    intro w h i tagged S hS hal hreg hcovr
    exact ⟨fun _ => ⟨h, S, hS, .refl _, fun j p hj => hcovr j p (by simpa using hj)⟩, fun hp _ => hp⟩
  | cons a r ih =>
    intro w h i tagged S hS hal hreg hcovr
    obtain ⟨hregi, hregr⟩ := drop_cons_getElem? hreg
    have hlen : i + (a :: r).length = i + 1 + r.length := by simp; omega
    have hSO : SubOK cfg w s S none := by simpa using h.s s S hS
    cases a with
    | none =>
      rw [subUpdateSlots]
      have hcovr' : ∀ j p, j < i + 1 → w.pubReg.slots[j]? = some (some p) →
          ∃ k, S.conns[j]? = some (some k) ∧ k ∈ tagged := by
        intro j p hj hjp
        by_cases hji : j < i
        · exact hcovr j p hji hjp
        · have : j = i := by omega
          subst this
          rw [hregi] at hjp; cases hjp
      obtain ⟨k1, k2⟩ := ih h (i + 1) tagged hS hal hregr hcovr'
      rw [hlen]
      exact ⟨k1, k2⟩
    | some p =>
      rw [subUpdateSlots_cons_some, hS]
      dsimp only
      cases hconn : subConnected S i p with
      | some key =>
        dsimp only
        have hkey : S.conns[i]? = some (some key) := by
          unfold subConnected at hconn
          cases hg : S.conns.getD i none with
          | none => rw [hg] at hconn; cases hconn
          | some k =>
            rw [hg] at hconn
            dsimp only at hconn
            split at hconn
            · split at hconn
              · cases hconn; exact getD_some_iff.mp hg
              · cases hconn
            · cases hconn
        have hcovr' : ∀ j q, j < i + 1 → w.pubReg.slots[j]? = some (some q) →
            ∃ k, S.conns[j]? = some (some k) ∧ k ∈ key :: tagged := by
          intro j q hj hjq
          by_cases hji : j < i
          · obtain ⟨k, a1, a2⟩ := hcovr j q hji hjq
            exact ⟨k, a1, List.mem_cons_of_mem _ a2⟩
          · have : j = i := by omega
            subst this
            exact ⟨key, hkey, by simp⟩
        obtain ⟨k1, k2⟩ := ih h (i + 1) (key :: tagged) hS hal hregr hcovr'
        rw [hlen]
        exact ⟨k1, k2⟩
      | none =>
        dsimp only
        have hilt : i < S.conns.length := by
          rw [hSO.connsLen, ← h.r.pubLen]; exact (List.getElem?_eq_some_iff.mp hregi).1
        have hdead : ∀ key q Q, S.conns[i]? = some (some key) → abs S.storage key = some q →
            getP w q = some Q → Q.alive = false := by
          intro key q Q hk hkq hQ
          cases hQal : Q.alive with
          | false => rfl
          | true =>
            exfalso
            obtain ⟨Q', hQ', hsl⟩ := hSO.connSlot i key q (by simp) hk hkq
            rw [hQ] at hQ'; cases hQ'
            have := h.r.rp2 q Q hQ hQal (by simp)
            rw [hsl, hregi] at this
            cases this
            unfold subConnected at hconn
            rw [getD_some_iff.mpr hk] at hconn
            dsimp only at hconn
            rw [smGet_eq hSO.stI, hkq] at hconn
            simp at hconn
        obtain ⟨a1, a2, S1, hS1, keep1⟩ := subPrepareRemoval_inv h hS i hdead
        have hfr1 := SFrame.of_SStep (subPrepareRemoval_S w s i)
        obtain ⟨f1, _, _, _, _, f6, _, _, _, f10, _⟩ := keep1.fields
        have hS1al : S1.alive = true := f1.trans hal
        have hregi1 : (subPrepareRemoval w s i).pubReg.slots[i]? = some (some p) := by rw [hfr1.pubReg]; exact hregi
        have step2 : (subPrepareRemoval w s i).panicked = false →
            ((subUpdateSlots (subCreateConn (subPrepareRemoval w s i) s i p) s r (i + 1)
                (tagAfter (subCreateConn (subPrepareRemoval w s i) s i p) s i tagged)).1.panicked = false →
              InvS cfg (subUpdateSlots (subCreateConn (subPrepareRemoval w s i) s i p) s r (i + 1)
                (tagAfter (subCreateConn (subPrepareRemoval w s i) s i p) s i tagged)).1 xs s none ∧
              ∃ S', getS (subUpdateSlots (subCreateConn (subPrepareRemoval w s i) s i p) s r (i + 1)
                (tagAfter (subCreateConn (subPrepareRemoval w s i) s i p) s i tagged)).1 s = some S' ∧ SubUpd S S' ∧
                (∀ j q, j < i + 1 + r.length → w.pubReg.slots[j]? = some (some q) →
                  ∃ k, S'.conns[j]? = some (some k) ∧
                    k ∈ (subUpdateSlots (subCreateConn (subPrepareRemoval w s i) s i p) s r (i + 1)
                      (tagAfter (subCreateConn (subPrepareRemoval w s i) s i p) s i tagged)).2)) ∧
            (S.held.length ≤ cfg.borrowMax →
              (subUpdateSlots (subCreateConn (subPrepareRemoval w s i) s i p) s r (i + 1)
                (tagAfter (subCreateConn (subPrepareRemoval w s i) s i p) s i tagged)).1.panicked = false) := by
          intro hnp1
          have h1 := a1 hnp1
          obtain ⟨b1, b2, S2, key, hS2, eS2, habs2⟩ := subCreateConn_inv h1 hS1 hS1al hregi1
          have hfr2 := SFrame.of_SStep (subCreateConn_S (subPrepareRemoval w s i) s i p)
          have hconns2 : S2.conns = S1.conns.set i (some key) := by rw [eS2]
          have hupd2 : SubUpd S1 S2 := ⟨S2.storage, S1.tbr, S1.conns.set i (some key), by
            rw [eS2]⟩
          have hi2 : S2.conns[i]? = some (some key) := by
            rw [hconns2, f6]; simp [hilt]
          have htag : tagAfter (subCreateConn (subPrepareRemoval w s i) s i p) s i tagged = key :: tagged := by
            unfold tagAfter
            rw [hS2]
            dsimp only
            rw [getD_some_iff.mpr hi2]
          rw [htag]
          have hpr2 : (subCreateConn (subPrepareRemoval w s i) s i p).pubReg = w.pubReg :=
            hfr2.pubReg.trans hfr1.pubReg
          have hcov2 : ∀ j q, j < i + 1 → (subCreateConn (subPrepareRemoval w s i) s i p).pubReg.slots[j]? = some (some q) →
              ∃ k, S2.conns[j]? = some (some k) ∧ k ∈ key :: tagged := by
            intro j q hj hjq
            rw [hpr2] at hjq
            by_cases hji : j < i
            · obtain ⟨k, c1, c2⟩ := hcovr j q hji hjq
              refine ⟨k, ?_, List.mem_cons_of_mem _ c2⟩
              rw [hconns2, f6, List.getElem?_set]
              have : ¬ i = j := by omega
              simp [this, c1]
            · have : j = i := by omega
              subst this
              exact ⟨key, hi2, by simp⟩
          obtain ⟨k1, k2⟩ := ih b1 (i + 1) (key :: tagged) hS2 (hupd2.fields.1.trans hS1al)
            (by rw [hpr2]; exact hregr) hcov2
          refine ⟨fun hnp => ?_, fun hdisc => ?_⟩
          · obtain ⟨m1, S', m2, m3, m4⟩ := k1 hnp
            refine ⟨m1, S', m2, (keep1.upd.trans hupd2).trans m3, ?_⟩
            intro j q hj hjq
            exact m4 j q hj (by rw [hpr2]; exact hjq)
          · apply k2
            · rw [b2]; exact hnp1
            · rw [hupd2.fields.2.2.2.2.2.2.2.2.1, f10]; exact hdisc
        rw [hlen]
        constructor
        · intro hnp
          have hnp2 := (subUpdateSlots_S _ s r (i + 1) _).panicked_mono hnp
          have hnp1 := (subCreateConn_S _ s i p).panicked_mono hnp2
          exact (step2 hnp1).1 hnp
        · intro hp hdisc
          exact (step2 (a2 hp hal hdisc)).2 hdisc

end Iox2.PubSub.C08
