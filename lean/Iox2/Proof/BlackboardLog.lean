/- what readers can see: the entry view `(current value, generation)` changes only by completed updates -/
import Iox2.Proof.BlackboardInv
namespace Iox2.Blackboard

/-- what a reader can observe of entry `k`: the value `load` returns and the generation counter -/
def view (w : World) (k : Nat) : Option (Val × Nat) := (w.cells[k]?).map (fun c => (c.cur, c.gen))

/-- the update (key, value) that the call `op` completes in state `w`, by the writer's intention:
`update_with_copy` on a handle, `update_with_copy` on a loan, or `assume_init_and_update` on a loan into which
`v` was written last -/
def completes (w : World) : Op → Option (Nat × Val)
  | .update h v => match findH w.hmuts h with
      | some m => if m.loan.isSome then none else some (m.key, v)
      | none => none
  | .commit l v => match findL w.hmuts l with
      | some m => some (m.key, v)
      | none => none
  | .lcommit l => match findL w.hmuts l with
      | some m => match m.loan with
          | some (_, some v) => some (m.key, v)
          | _ => none
      | none => none
  | _ => none

/-- values of the completed updates of key `k` along a history, oldest first -/
def logOf (w : World) : List Op → Nat → List Val
  | [], _ => []
  | op :: ops, k =>
    (match completes w op with
     | some (k', v) => if k' = k then [v] else []
     | none => []) ++ logOf (step w op).1 ops k

/-- last element, `d` for the empty list -/
def lastOr (d : Val) : List Val → Val
  | [] => d
  | x :: xs => lastOr x xs

theorem lastOr_append (d : Val) (a b : List Val) : lastOr d (a ++ b) = lastOr (lastOr d a) b := by
  induction a generalizing d with
  | nil => rfl
  | cons x xs ih => simp [lastOr, ih]

theorem getElem?_lastOr (d : Val) (a b : List Val) : (d :: (a ++ b))[a.length]? = some (lastOr d a) := by
  induction a generalizing d with
  | nil => simp [lastOr]
  | cons x xs ih => simp only [List.cons_append, List.length_cons, List.getElem?_cons_succ, lastOr]; exact ih x

theorem logOf_append (w : World) (a b : List Op) (k : Nat) :
    logOf w (a ++ b) k = logOf w a k ++ logOf (run w a) b k := by
  induction a generalizing w with
  | nil => simp [logOf, run]
  | cons op ops ih => simp [logOf, run, ih, List.append_assoc]

theorem run_append (w : World) (a b : List Op) : run w (a ++ b) = run (run w a) b := by
  induction a generalizing w with
  | nil => rfl
  | cons op ops ih => simp [run, ih]

/-! ### one call -/

theorem view_modAt_other {w : World} {k j : Nat} {f : Cell → Cell} (hf : ∀ c, ((f c).cur, (f c).gen) = (c.cur, c.gen)) :
    ((modAt w.cells j f)[k]?).map (fun c => (c.cur, c.gen)) = view w k :=
  getElem?_modAt_proj w.cells j k f (fun c => (c.cur, c.gen)) hf

theorem view_release (w : World) (x k : Nat) : view (release w x) k = view w k := by
  unfold release; split <;> rfl

theorem view_removeH (w : World) (m : HMut) (k : Nat) : view (removeH w m) k = view w k := by
  unfold removeH; rw [view_release]
  exact view_modAt_other (w := w) (fun c => rfl)

def bump (v : Val) : Option (Val × Nat) → Option (Val × Nat) := Option.map (fun p => (v, p.2 + 1))

theorem view_store (w : World) (j k : Nat) (v : Val) (f : Cell → Cell)
    (hf : ∀ c, ((f c).cur, (f c).gen) = (v, c.gen + 1)) :
    ((modAt w.cells j f)[k]?).map (fun c => (c.cur, c.gen)) = if j = k then bump v (view w k) else view w k := by
  rw [getElem?_modAt]
  by_cases e : k = j
  · subst e; simp only [if_true, view, bump]
    cases w.cells[k]? <;> simp [hf]
  · rw [if_neg e, if_neg (fun e' => e e'.symm)]; rfl

/-- the observable part of an entry changes exactly when an update completes -/
theorem view_step {w : World} (h : Inv w) (op : Op) (k : Nat) :
    view (step w op).1 k =
      match completes w op with
      | some (k', v) => if k' = k then bump v (view w k) else view w k
      | none => view w k := by
  cases op with
  | cwriter x => simp only [step, completes, cwriter]; split; rfl; split; rfl; split <;> rfl
  | dwriter x => simp only [step, completes, dwriter]; split; exact view_release _ _ _; rfl
  | creader r => simp only [step, completes, creader]; split; rfl; split; rfl; split <;> rfl
  | dreader r => simp only [step, completes, dreader]; split <;> rfl
  | hmut x k' id t =>
    simp only [step, completes, hmut]
    split; rfl
    split; rfl
    split; rfl
    split; rfl
    split; rfl
    exact view_modAt_other (w := w) (fun c => rfl)
  | dhmut id =>
    simp only [step, completes, dhmut]
    split; rfl
    split; rfl
    exact view_removeH _ _ _
  | update id v =>
    simp only [step, completes, update]
    cases hm : findH w.hmuts id with
    | none => rfl
    | some m =>
      dsimp only
      by_cases hl : m.loan.isSome = true
      · simp only [hl, if_true]
      · simp only [hl]
        exact view_store w _ k v _ (fun c => by simp [Cell.store])
  | loan id l =>
    simp only [step, completes, loan]
    split; rfl
    split; rfl
    split <;> rfl
  | lwrite l v =>
    simp only [step, completes, lwrite]
    split; rfl
    exact view_modAt_other (w := w) (fun c => rfl)
  | lcommit l =>
    simp only [step, completes, lcommit]
    cases hm : findL w.hmuts l with
    | none => rfl
    | some m =>
      dsimp only
      have hm0 := (findL_some hm).1
      cases hl : m.loan with
      | none => rfl
      | some p =>
        obtain ⟨l', x⟩ := p
        cases x with
        | none => rfl
        | some v' =>
          dsimp only
          -- the write cell holds what was written last through the loan
          obtain ⟨c, hc, hs⟩ := h.H.scratch_ok m hm0 l' v' hl
          simp only [view]
          rw [getElem?_modAt]
          by_cases e : k = m.key
          · subst e; simp [hc, bump, Cell.publish, hs]
          · rw [if_neg e, if_neg (fun e' => e e'.symm)]
  | commit l v =>
    simp only [step, completes, commit]
    cases hm : findL w.hmuts l with
    | none => rfl
    | some m =>
      dsimp only
      exact view_store w _ k v _ (fun c => by simp [Cell.store])
  | discard l => simp only [step, completes, discard]; split <;> rfl
  | dloan l =>
    simp only [step, completes, dloan]
    split; rfl
    exact view_removeH _ _ _
  | hget r k' g t =>
    simp only [step, completes, hget]
    split; rfl
    split; rfl
    split; rfl
    split <;> rfl
  | dhget g => simp only [step, completes, dhget]; split <;> rfl
  | get g =>
    simp only [step, completes, get]
    split; rfl
    split <;> rfl
  | fresh g =>
    simp only [step, completes, fresh]
    split; rfl
    split <;> rfl
  | dsvc => simp only [step, completes, dsvc]; split <;> rfl
  | count => simp only [step, completes, count]; split <;> rfl

/-! ### histories -/

/-- after a history the current value of entry `k` is the value of its last completed update (the value it had
before if there was none), and the generation counter has advanced once per completed update -/
theorem view_run {w : World} (h : Inv w) (ops : List Op) (k : Nat) :
    view (run w ops) k =
      (view w k).map (fun p => (lastOr p.1 (logOf w ops k), p.2 + (logOf w ops k).length)) := by
  induction ops generalizing w with
  | nil => simp [run, logOf, lastOr]
  | cons op ops ih =>
    simp only [run, logOf]
    rw [ih (step_inv h op), view_step h op k]
    cases hc : completes w op with
    | none => simp
    | some p =>
      obtain ⟨k', v⟩ := p
      by_cases e : k' = k
      · simp only [e, if_true, bump]
        cases view w k <;> simp [lastOr]; omega
      · simp [e]

theorem view_init {mr : Nat} {tys : List Nat} {k : Nat} {p : Val × Nat}
    (h : view (World.init mr tys) k = some p) : p = (0, 1) := by
  simp only [view, World.init, List.getElem?_map] at h
  cases ht : tys[k]? with
  | none => simp [ht] at h
  | some t => simp [ht] at h; exact h.symm

/-! ### a read handle keeps its key; labels are never reused -/

/-- label `g` has been given out and every live read handle with that label is for key `k` -/
def KeyOf (g k : Nat) (w : World) : Prop := g ∈ w.usedG ∧ ∀ m ∈ w.rhandles, m.id = g → m.key = k

theorem keyOf_step {g k : Nat} {w : World} (h : KeyOf g k w) (op : Op) : KeyOf g k (step w op).1 := by
  have hrel : ∀ (w : World) x, (release w x).usedG = w.usedG ∧ (release w x).rhandles = w.rhandles := by
    intro w x; unfold release; split <;> exact ⟨rfl, rfl⟩
  cases op with
  | hget r k' g' t =>
    simp only [step, hget]
    split; exact h
    next hg' =>
    split; exact h
    split; exact h
    split; exact h
    refine ⟨List.mem_cons_of_mem _ h.1, ?_⟩
    intro m hm e
    rcases List.mem_cons.mp hm with rfl | hm
    · simp only at e; subst e; exact absurd h.1 hg'
    · exact h.2 m hm e
  | dhget g' =>
    simp only [step, dhget]
    split; exact h
    exact ⟨h.1, fun m hm e => h.2 m (List.mem_filter.mp hm).1 e⟩
  | get g' =>
    simp only [step, get]
    split; exact h
    split; exact h
    refine ⟨h.1, ?_⟩
    intro m hm e
    obtain ⟨m0, h0, rfl⟩ := List.mem_map.mp hm
    have := h.2 m0 h0
    split at e <;> split <;> exact this e
  | dhmut id =>
    simp only [step, dhmut]
    split; exact h
    split; exact h
    unfold removeH; exact ⟨by rw [(hrel _ _).1]; exact h.1, by rw [(hrel _ _).2]; exact h.2⟩
  | dloan l =>
    simp only [step, dloan]
    split; exact h
    unfold removeH; exact ⟨by rw [(hrel _ _).1]; exact h.1, by rw [(hrel _ _).2]; exact h.2⟩
  | dwriter x =>
    simp only [step, dwriter]
    split
    · exact ⟨by rw [(hrel _ _).1]; exact h.1, by rw [(hrel _ _).2]; exact h.2⟩
    · exact h
  | cwriter x => simp only [step, cwriter]; split; exact h; split; exact h; split <;> exact h
  | creader r => simp only [step, creader]; split; exact h; split; exact h; split <;> exact h
  | dreader r => simp only [step, dreader]; split <;> exact h
  | hmut x k' id t =>
    simp only [step, hmut]
    split; exact h
    split; exact h
    split; exact h
    split; exact h
    split <;> exact h
  | update id v => simp only [step, update]; split; exact h; split <;> exact h
  | loan id l => simp only [step, loan]; split; exact h; split; exact h; split <;> exact h
  | lwrite l v => simp only [step, lwrite]; split <;> exact h
  | lcommit l => simp only [step, lcommit]; split; exact h; split <;> exact h
  | commit l v => simp only [step, commit]; split <;> exact h
  | discard l => simp only [step, discard]; split <;> exact h
  | fresh g' => simp only [step, fresh]; split; exact h; split <;> exact h
  | dsvc => simp only [step, dsvc]; split <;> exact h
  | count => simp only [step, count]; split <;> exact h

theorem keyOf_run {g k : Nat} {w : World} (h : KeyOf g k w) (ops : List Op) : KeyOf g k (run w ops) := by
  induction ops generalizing w with
  | nil => exact h
  | cons op ops ih => exact ih (keyOf_step h op)

theorem keyOf_of_mem {w : World} (h : Inv w) {m : RHandle} (hm : m ∈ w.rhandles) : KeyOf m.id m.key w :=
  ⟨h.R.gids_used m hm, fun m' hm' e => by rw [eq_of_map_eq h.R.gids_nodup hm' hm e]⟩

/-- what `get` answers -/
theorem get_val {w w' : World} {g : Nat} {v : Val} (h : step w (.get g) = (w', .val v)) :
    ∃ m ∈ w.rhandles, m.id = g ∧ ∃ n, view w m.key = some (v, n) := by
  simp only [step, get] at h
  split at h
  · cases h
  next m hm =>
    split at h
    · cases h
    next c hc =>
      injection h with _ h2
      injection h2 with h2
      exact ⟨m, (findG_some hm).1, (findG_some hm).2, c.gen, by simp [view, hc, h2]⟩

end Iox2.Blackboard

namespace Iox2.Blackboard

/-! ### `is_up_to_date`: the generation remembered by a read handle -/

/-- label `g` has been given out and every live read handle with that label remembers generation `n` -/
def LastOf (g : Nat) (n : Option Nat) (w : World) : Prop := g ∈ w.usedG ∧ ∀ m ∈ w.rhandles, m.id = g → m.last = n

theorem lastOf_step {g : Nat} {n : Option Nat} {w : World} (h : LastOf g n w) (op : Op) (hop : op ≠ .get g) :
    LastOf g n (step w op).1 := by
  have hrel : ∀ (w : World) x, (release w x).usedG = w.usedG ∧ (release w x).rhandles = w.rhandles := by
    intro w x; unfold release; split <;> exact ⟨rfl, rfl⟩
  cases op with
  | hget r k' g' t =>
    simp only [step, hget]
    split; exact h
    next hg' =>
    split; exact h
    split; exact h
    split; exact h
    refine ⟨List.mem_cons_of_mem _ h.1, ?_⟩
    intro m hm e
    rcases List.mem_cons.mp hm with rfl | hm
    · simp only at e; subst e; exact absurd h.1 hg'
    · exact h.2 m hm e
  | dhget g' =>
    simp only [step, dhget]
    split; exact h
    exact ⟨h.1, fun m hm e => h.2 m (List.mem_filter.mp hm).1 e⟩
  | get g' =>
    have hne : g' ≠ g := fun e => hop (by rw [e])
    simp only [step, get]
    split; exact h
    split; exact h
    refine ⟨h.1, ?_⟩
    intro m hm e
    obtain ⟨m0, h0, rfl⟩ := List.mem_map.mp hm
    by_cases e0 : m0.id = g'
    · simp only [e0, beq_self_eq_true, if_true] at e; exact absurd e hne
    · have hb : (m0.id == g') = false := by simpa using e0
      simp only [hb] at e ⊢
      exact h.2 m0 h0 e
  | dhmut id =>
    simp only [step, dhmut]
    split; exact h
    split; exact h
    unfold removeH; exact ⟨by rw [(hrel _ _).1]; exact h.1, by rw [(hrel _ _).2]; exact h.2⟩
  | dloan l =>
    simp only [step, dloan]
    split; exact h
    unfold removeH; exact ⟨by rw [(hrel _ _).1]; exact h.1, by rw [(hrel _ _).2]; exact h.2⟩
  | dwriter x =>
    simp only [step, dwriter]
    split
    · exact ⟨by rw [(hrel _ _).1]; exact h.1, by rw [(hrel _ _).2]; exact h.2⟩
    · exact h
  | cwriter x => simp only [step, cwriter]; split; exact h; split; exact h; split <;> exact h
  | creader r => simp only [step, creader]; split; exact h; split; exact h; split <;> exact h
  | dreader r => simp only [step, dreader]; split <;> exact h
  | hmut x k' id t =>
    simp only [step, hmut]
    split; exact h
    split; exact h
    split; exact h
    split; exact h
    split <;> exact h
  | update id v => simp only [step, update]; split; exact h; split <;> exact h
  | loan id l => simp only [step, loan]; split; exact h; split; exact h; split <;> exact h
  | lwrite l v => simp only [step, lwrite]; split <;> exact h
  | lcommit l => simp only [step, lcommit]; split; exact h; split <;> exact h
  | commit l v => simp only [step, commit]; split <;> exact h
  | discard l => simp only [step, discard]; split <;> exact h
  | fresh g' => simp only [step, fresh]; split; exact h; split <;> exact h
  | dsvc => simp only [step, dsvc]; split <;> exact h
  | count => simp only [step, count]; split <;> exact h

theorem lastOf_run {g : Nat} {n : Option Nat} {w : World} (h : LastOf g n w) (ops : List Op)
    (hops : ∀ op ∈ ops, op ≠ .get g) : LastOf g n (run w ops) := by
  induction ops generalizing w with
  | nil => exact h
  | cons op ops ih =>
    exact ih (lastOf_step h op (hops op List.mem_cons_self)) (fun o ho => hops o (List.mem_cons_of_mem _ ho))

/-- `get g` stores the generation it saw in the handle -/
theorem get_sets_last {w w' : World} (hi : Inv w) {g : Nat} {v : Val} (h : step w (.get g) = (w', .val v)) :
    ∃ m ∈ w.rhandles, m.id = g ∧ ∃ n, view w m.key = some (v, n) ∧ LastOf g (some n) w' := by
  simp only [step, get] at h
  split at h
  · cases h
  next m hm =>
    split at h
    · cases h
    next c hc =>
      injection h with h1 h2
      injection h2 with h2
      obtain ⟨hm0, hid⟩ := findG_some hm
      refine ⟨m, hm0, hid, c.gen, by simp [view, hc, h2], ?_⟩
      subst h1
      refine ⟨hid ▸ hi.R.gids_used m hm0, ?_⟩
      intro m' hm' e
      obtain ⟨m0, h0, rfl⟩ := List.mem_map.mp hm'
      by_cases e0 : m0.id = g
      · simp [e0]
      · have hb : (m0.id == g) = false := by simpa using e0
        simp only [hb] at e
        exact absurd e e0

/-- what `fresh` answers -/
theorem fresh_bool {w : World} {g : Nat} {b : Bool} (h : (step w (.fresh g)).2 = .bool b) :
    ∃ m ∈ w.rhandles, m.id = g ∧ ∃ n v n', m.last = some n ∧ view w m.key = some (v, n') ∧ b = (n == n') := by
  simp only [step, fresh] at h
  split at h
  · cases h
  next m hm =>
    obtain ⟨hm0, hid⟩ := findG_some hm
    split at h
    next n c hl hc =>
      injection h with h
      exact ⟨m, hm0, hid, n, c.cur, c.gen, hl, by simp [view, hc], h.symm⟩
    · cases h
    · cases h

end Iox2.Blackboard
