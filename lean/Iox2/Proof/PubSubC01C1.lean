/-
Layer C (send numbering): the working form `InvK` of `InvC` (connections are addressed through
`getC`, `nlost` only speaks about sender-attached connections), its equivalence with `InvC` under
`InvA`, and the frame relation `CFrame` ("nothing that `InvK` talks about changed, things may have
disappeared, fresh unattached connections may have appeared") with its primitives.
-/
import Iox2.Proof.PubSubC01A12
namespace Iox2.PubSub.C01P
open Iox2.PubSub

/-- the `hfirst` clause for one connection; `seq` = the publisher's send counter -/
def HFirst (cn : Conn) (seq : Nat) : Prop :=
  cn.gFirst ≤ seq ∧ cn.gHist <+: cn.gDelivered ∧ (∀ q ∈ cn.gHist, q < cn.gFirst) ∧
    (∀ q ∈ cn.gDelivered, q < cn.gFirst → q ∈ cn.gHist) ∧ cn.gHist.length ≤ cn.cap

structure InvK (fq : Option (Nat × Nat)) (hx : Option (Nat × Nat)) (w : World) : Prop where
  hmono : ∀ p P, getP w p = some P → (P.hist.map fun c => P.chunkSeq.getD c 0).Pairwise (· < ·) ∧
    ∀ c ∈ P.hist, P.chunkSeq.getD c 0 < P.seq
  dlt : ∀ p s cn, getC w p s = some cn → ∀ P, getP w p = some P →
    (∀ q ∈ cn.gDelivered, q < P.seq) ∧ cn.gDelivered.Pairwise (· < ·)
  hfirst : ∀ p s cn, getC w p s = some cn → cn.sAtt = true → some (p, s) ≠ hx → ∀ P, getP w p = some P →
    HFirst cn P.seq
  nlost : ∀ p P, getP w p = some P → P.ex = true → ∀ (i : Nat) s, P.conns[i]? = some (some s) →
    ∀ cn, getC w p s = some cn → cn.sAtt = true → ∀ q, cn.gFirst ≤ q → q < P.seq → fq ≠ some (p, q) →
    q ∈ cn.gDelivered ∨ q ∈ cn.gSkipped
  smono : ∀ s S, getS w s = some S → ∀ p, ((S.ghostRecv.filter (·.1 = p)).map (·.2)).Pairwise (· < ·)

variable {cfg : Cfg} {np ns : Option Nat} {fq hx : Option (Nat × Nat)} {w w' w'' : World}

theorem InvK.of_invC (h : InvC fq hx w) : InvK fq hx w := by
  refine ⟨h.hmono, ?_, ?_, ?_, h.smono⟩
  · intro p s cn hc P hP
    obtain ⟨hm, rfl, rfl⟩ := getC_some hc
    exact h.dlt cn hm P hP
  · intro p s cn hc hsa hne P hP
    obtain ⟨hm, rfl, rfl⟩ := getC_some hc
    exact h.hfirst cn hm hsa hne P hP
  · intro p P hP hex i s hi cn hc _ q h1 h2 h3
    exact h.nlost p P hP hex i s hi cn hc q h1 h2 h3

theorem InvK.to_invC (hA : InvA cfg np ns w) (h : InvK fq hx w) : InvC fq hx w := by
  refine ⟨h.hmono, ?_, ?_, ?_, h.smono⟩
  · intro cn hm P hP
    exact h.dlt cn.pid cn.sid cn (hA.uniqC cn hm) P hP
  · intro cn hm hsa hne P hP
    exact h.hfirst cn.pid cn.sid cn (hA.uniqC cn hm) hsa hne P hP
  · intro p P hP hex i s hi cn hc q h1 h2 h3
    exact h.nlost p P hP hex i s hi cn hc (hA.attached hP hex hi cn hc) q h1 h2 h3

theorem InvK.weaken_fq (h : InvK none hx w) : InvK fq hx w :=
  ⟨h.hmono, h.dlt, h.hfirst,
    fun p P hP hex i s hi cn hc hsa q h1 h2 _ => h.nlost p P hP hex i s hi cn hc hsa q h1 h2 (by simp), h.smono⟩

/-! ### the frame relation -/

/-- `c` (before) and `c'` (after): the send-numbering data of a connection is unchanged -/
structure CSame (c c' : Conn) : Prop where
  gDelivered : c'.gDelivered = c.gDelivered
  gSkipped : c'.gSkipped = c.gSkipped
  gFirst : c'.gFirst = c.gFirst
  gHist : c'.gHist = c.gHist
  cap : c'.cap = c.cap
  sAtt : c'.sAtt = true → c.sAtt = true

theorem CSame.refl (c : Conn) : CSame c c := ⟨rfl, rfl, rfl, rfl, rfl, id⟩
theorem CSame.trans {c c' c'' : Conn} (a : CSame c c') (b : CSame c' c'') : CSame c c'' :=
  ⟨b.gDelivered.trans a.gDelivered, b.gSkipped.trans a.gSkipped, b.gFirst.trans a.gFirst,
   b.gHist.trans a.gHist, b.cap.trans a.cap, fun h => a.sAtt (b.sAtt h)⟩

/-- a connection object that the sender has not attached to and that carries nothing -/
def Fresh (c : Conn) : Prop := c.sAtt = false ∧ c.gDelivered = []

theorem Fresh.same {c c' : Conn} (h : Fresh c) (a : CSame c c') : Fresh c' := by
  refine ⟨?_, a.gDelivered.trans h.2⟩
  cases hs : c'.sAtt with
  | false => rfl
  | true => have := a.sAtt hs; rw [h.1] at this; cases this

structure PSame (P P' : Pub) : Prop where
  seq : P'.seq = P.seq
  hist : P'.hist = P.hist
  chunkSeq : P'.chunkSeq = P.chunkSeq
  ex : P'.ex = true → P.ex = true
  conns : ∀ (i : Nat) s, P'.conns[i]? = some (some s) → ∃ j : Nat, P.conns[j]? = some (some s)

theorem PSame.refl (P : Pub) : PSame P P := ⟨rfl, rfl, rfl, id, fun i _ h => ⟨i, h⟩⟩
theorem PSame.trans {P P' P'' : Pub} (a : PSame P P') (b : PSame P' P'') : PSame P P'' :=
  ⟨b.seq.trans a.seq, b.hist.trans a.hist, b.chunkSeq.trans a.chunkSeq, fun h => a.ex (b.ex h),
   fun i s h => by obtain ⟨j, hj⟩ := b.conns i s h; exact a.conns j s hj⟩

theorem PSame.of_stable {P P' : Pub} (st : PStable P P') (hc : P'.conns = P.conns) : PSame P P' :=
  ⟨st.seq, st.hist, st.chunkSeq, fun h => st.ex ▸ h, fun i _ h => ⟨i, hc ▸ h⟩⟩

structure CFrame (w w' : World) : Prop where
  pubs : ∀ p P', getP w' p = some P' → ∃ P, getP w p = some P ∧ PSame P P'
  getc : ∀ p s c', getC w' p s = some c' → (∃ c, getC w p s = some c ∧ CSame c c') ∨ Fresh c'
  subs : ∀ s S', getS w' s = some S' → ∃ S, getS w s = some S ∧ S'.ghostRecv = S.ghostRecv

theorem CFrame.refl (w : World) : CFrame w w :=
  ⟨fun _ P h => ⟨P, h, PSame.refl P⟩, fun _ _ c h => Or.inl ⟨c, h, CSame.refl c⟩, fun _ S h => ⟨S, h, rfl⟩⟩

theorem CFrame.trans (a : CFrame w w') (b : CFrame w' w'') : CFrame w w'' := by
  refine ⟨fun p P'' h => ?_, fun p s c'' h => ?_, fun s S'' h => ?_⟩
  · obtain ⟨P', h1, s1⟩ := b.pubs p P'' h
    obtain ⟨P, h2, s2⟩ := a.pubs p P' h1
    exact ⟨P, h2, s2.trans s1⟩
  · rcases b.getc p s c'' h with ⟨c', h1, s1⟩ | hf
    · rcases a.getc p s c' h1 with ⟨c, h2, s2⟩ | hf
      · exact Or.inl ⟨c, h2, s2.trans s1⟩
      · exact Or.inr (hf.same s1)
    · exact Or.inr hf
  · obtain ⟨S', h1, s1⟩ := b.subs s S'' h
    obtain ⟨S, h2, s2⟩ := a.subs s S' h1
    exact ⟨S, h2, s1.trans s2⟩

theorem InvK.of_frame (f : CFrame w w') (h : InvK fq hx w) : InvK fq hx w' := by
  refine ⟨fun p P' hP' => ?_, fun p s c' hc' P' hP' => ?_, fun p s c' hc' hsa hne P' hP' => ?_,
    fun p P' hP' hex i s hi c' hc' hsa q h1 h2 h3 => ?_, fun s S' hS' p => ?_⟩
  · obtain ⟨P, hP, sm⟩ := f.pubs p P' hP'
    rw [sm.hist, sm.chunkSeq, sm.seq]; exact h.hmono p P hP
  · obtain ⟨P, hP, sm⟩ := f.pubs p P' hP'
    rcases f.getc p s c' hc' with ⟨c, hc, sc⟩ | hf
    · rw [sc.gDelivered, sm.seq]; exact h.dlt p s c hc P hP
    · rw [hf.2]; exact ⟨fun q hq => (by cases hq), List.Pairwise.nil⟩
  · obtain ⟨P, hP, sm⟩ := f.pubs p P' hP'
    rcases f.getc p s c' hc' with ⟨c, hc, sc⟩ | hf
    · have := h.hfirst p s c hc (sc.sAtt hsa) hne P hP
      unfold HFirst at this ⊢
      rw [sc.gFirst, sc.gHist, sc.gDelivered, sc.cap, sm.seq]; exact this
    · rw [hf.1] at hsa; cases hsa
  · obtain ⟨P, hP, sm⟩ := f.pubs p P' hP'
    obtain ⟨j, hj⟩ := sm.conns i s hi
    rcases f.getc p s c' hc' with ⟨c, hc, sc⟩ | hf
    · rw [sc.gDelivered, sc.gSkipped]
      exact h.nlost p P hP (sm.ex hex) j s hj c hc (sc.sAtt hsa) q (sc.gFirst ▸ h1) (sm.seq ▸ h2) h3
    · rw [hf.1] at hsa; cases hsa
  · obtain ⟨S, hS, e⟩ := f.subs s S' hS'
    rw [e]; exact h.smono s S hS p

/-! ### primitives -/

theorem CFrame.of_eq (hp : w'.pubs = w.pubs) (hs : w'.subs = w.subs) (hc : w'.conns = w.conns) : CFrame w w' := by
  have e1 : ∀ a, getP w' a = getP w a := fun a => by unfold getP; rw [hp]
  have e2 : ∀ a, getS w' a = getS w a := fun a => by unfold getS; rw [hs]
  have e3 : ∀ a b, getC w' a b = getC w a b := fun a b => by unfold getC; rw [hc]
  exact ⟨fun p P h => ⟨P, (e1 p) ▸ h, PSame.refl P⟩, fun p s c h => Or.inl ⟨c, (e3 p s) ▸ h, CSame.refl c⟩,
    fun s S h => ⟨S, (e2 s) ▸ h, rfl⟩⟩

theorem CFrame.panic (w : World) : CFrame w { w with panicked := true } := CFrame.of_eq rfl rfl rfl

theorem CFrame.setC {c x : Conn} (hg : getC w x.pid x.sid = some c) (hs : CSame c x) : CFrame w (setC w x) := by
  refine ⟨fun p P h => ⟨P, h, PSame.refl P⟩, fun p s c' h => ?_, fun s S h => ⟨S, h, rfl⟩⟩
  rw [getC_setC] at h
  by_cases hk : p = x.pid ∧ s = x.sid
  · obtain ⟨rfl, rfl⟩ := hk
    rw [if_pos ⟨rfl, rfl⟩, hg] at h
    simp only [Option.map_some, Option.some.injEq] at h
    subst h
    exact Or.inl ⟨c, hg, hs⟩
  · rw [if_neg hk] at h
    exact Or.inl ⟨c', h, CSame.refl c'⟩

theorem CFrame.dropC (w : World) (p s : Nat) : CFrame w (dropC w p s) := by
  refine ⟨fun p P h => ⟨P, h, PSame.refl P⟩, fun a b c' h => ?_, fun s S h => ⟨S, h, rfl⟩⟩
  rw [getC_dropC] at h
  split at h
  · cases h
  · exact Or.inl ⟨c', h, CSame.refl c'⟩

theorem CFrame.addC (w : World) {x : Conn} (hx : Fresh x) : CFrame w (addC w x) := by
  refine ⟨fun p P h => ⟨P, h, PSame.refl P⟩, fun a b c' h => ?_, fun s S h => ⟨S, h, rfl⟩⟩
  rw [getC_addC] at h
  cases hg : getC w a b with
  | some c =>
    rw [hg] at h
    have h' : c = c' := Option.some.inj h
    subst h'
    exact Or.inl ⟨c, rfl, CSame.refl c⟩
  | none =>
    rw [hg] at h
    change (if x.pid = a ∧ x.sid = b then some x else none) = some c' at h
    split at h
    · cases h; exact Or.inr hx
    · cases h

theorem CFrame.setP {p : Nat} {P P' : Pub} (hp : getP w p = some P) (hs : PSame P P') : CFrame w (setP w p P') := by
  refine ⟨fun a Q h => ?_, fun a b c h => Or.inl ⟨c, h, CSame.refl c⟩, fun s S h => ⟨S, h, rfl⟩⟩
  rw [getP_setP] at h
  by_cases hap : a = p
  · subst hap
    rw [if_pos rfl, hp] at h
    simp only [Option.map_some, Option.some.injEq] at h
    subst h
    exact ⟨P, hp, hs⟩
  · rw [if_neg hap] at h
    exact ⟨Q, h, PSame.refl Q⟩

theorem CFrame.setS {s : Nat} {S S' : Sub} (hp : getS w s = some S) (hs : S'.ghostRecv = S.ghostRecv) :
    CFrame w (setS w s S') := by
  refine ⟨fun p P h => ⟨P, h, PSame.refl P⟩, fun a b c h => Or.inl ⟨c, h, CSame.refl c⟩, fun a Q h => ?_⟩
  rw [getS_setS] at h
  by_cases hap : a = s
  · subst hap
    rw [if_pos rfl, hp] at h
    simp only [Option.map_some, Option.some.injEq] at h
    subst h
    exact ⟨S, hp, hs⟩
  · rw [if_neg hap] at h
    exact ⟨Q, h, rfl⟩

theorem CFrame.detachSender (w : World) (p s : Nat) : CFrame w (detachSender w p s) := by
  cases hg : getC w p s with
  | none => rw [detachSender_none hg]; exact CFrame.refl w
  | some c =>
    obtain ⟨_, hcp, hcs⟩ := getC_some hg
    cases hr : c.rAtt with
    | true =>
      rw [detachSender_keep hg hr]
      exact CFrame.setC (c := c) (by simp only [hcp, hcs]; exact hg) ⟨rfl, rfl, rfl, rfl, rfl, fun h => by cases h⟩
    | false => rw [detachSender_drop hg hr]; exact CFrame.dropC w p s

theorem CFrame.detachReceiver (w : World) (p s : Nat) : CFrame w (detachReceiver w p s) := by
  cases hg : getC w p s with
  | none => rw [detachReceiver_none hg]; exact CFrame.refl w
  | some c =>
    obtain ⟨_, hcp, hcs⟩ := getC_some hg
    cases hr : c.sAtt with
    | true =>
      rw [detachReceiver_keep hg hr]
      exact CFrame.setC (c := c) (by simp only [hcp, hcs]; exact hg) ⟨rfl, rfl, rfl, rfl, rfl, id⟩
    | false => rw [detachReceiver_drop hg hr]; exact CFrame.dropC w p s

theorem CFrame.delP (w : World) (p : Nat) : CFrame w (delP w p) := by
  refine ⟨fun a Q h => ?_, fun a b c h => Or.inl ⟨c, h, CSame.refl c⟩, fun s S h => ⟨S, h, rfl⟩⟩
  rw [getP_delP] at h
  split at h
  · cases h
  · exact ⟨Q, h, PSame.refl Q⟩

theorem CFrame.delS (w : World) (s : Nat) : CFrame w (delS w s) := by
  refine ⟨fun p P h => ⟨P, h, PSame.refl P⟩, fun a b c h => Or.inl ⟨c, h, CSame.refl c⟩, fun a Q h => ?_⟩
  rw [getS_delS] at h
  split at h
  · cases h
  · exact ⟨Q, h, rfl⟩

/-- the step result after a possible panic -/
theorem InvK.finishPanic' {w0 : World} (h0 : InvK fq hx w0) (r : World × String) (hr : InvK fq hx r.1) :
    InvK fq hx (finishPanic w0 r).1 := by
  unfold finishPanic
  split
  · exact h0.of_frame (CFrame.panic w0)
  · exact hr

end Iox2.PubSub.C01P
