/-
C08 helper: subscriber-side actions preserve the invariant (part L: destroying a subscriber).
-/
import Iox2.Proof.PubSubC08SubK
set_option linter.unusedSimpArgs false
set_option linter.unusedVariables false
namespace Iox2.PubSub.C08
open Iox2.PubSub
open Iox2.C16.SlotMapP (abs)
attribute [-simp] List.getD_eq_getElem?_getD

theorem detR_idem (o : Option Conn) : (o.bind detR).bind detR = o.bind detR := by
  cases o with
  | none => rfl
  | some c =>
    simp only [Option.bind_some]
    unfold detR
    by_cases h : c.sAtt = true
    · simp [h]
    · simp [h]

theorem subDestroyKeys_shape (w : World) (s : Nat) (l : List (Nat × Nat)) :
    (∀ a b, getC (subDestroyKeys w s l) a b =
      if b = s ∧ a ∈ l.map (·.2) then (getC w a b).bind detR else getC w a b) ∧
    (ConnsUniq w → ConnsUniq (subDestroyKeys w s l)) ∧
    (subDestroyKeys w s l).subs = w.subs ∧ (subDestroyKeys w s l).panicked = w.panicked := by
  induction l generalizing w with
  | nil => exact ⟨fun a b => by simp [subDestroyKeys], fun h => h, rfl, rfl⟩
  | cons e r ih =>
    obtain ⟨k, p⟩ := e
    rw [subDestroyKeys]
    obtain ⟨i1, i2, i3, i4⟩ := ih (detachReceiver w p s)
    refine ⟨fun a b => ?_, fun h => i2 (detachReceiver_uniq h p s), i3.trans (detachReceiver_subs _ _ _),
      i4.trans (detachReceiver_panicked _ _ _)⟩
    rw [i1, detachReceiver_getC]
    by_cases hb : b = s
    · subst hb
      by_cases hap : a = p
      · subst hap
        by_cases har : a ∈ r.map (·.2)
        · simp [har, detR_idem]
        · simp [har]
      · by_cases har : a ∈ r.map (·.2)
        · simp [har, hap]
        · simp [har, hap]
    · simp [hb]

/-- the record of a destroyed subscriber -/
def destroyedSub (S : Sub) : Sub :=
  { S with ex := false, storage := SlotMap.init 0, tbr := [], conns := S.conns.map fun _ => none }

theorem subDestroy_inv {cfg : Cfg} {w : World} {xs : Option Nat} {s : Nat} (h : InvS cfg w xs s none) :
    InvS cfg (subDestroyIfUnreferenced w s) xs s none := by
  unfold subDestroyIfUnreferenced
  cases hS : getS w s with
  | none => exact h
  | some S =>
    dsimp only
    split
    · exact h
    next hcond =>
      have hal : S.alive = false := by
        cases ha : S.alive with
        | false => rfl
        | true => simp [ha] at hcond
      have hheld : S.held = [] := by
        cases hh : S.held with
        | nil => rfl
        | cons a r => simp [hh] at hcond
      have hSO : SubOK cfg w s S none := by simpa using h.s s S hS
      obtain ⟨s1, s2, s3, s4⟩ := subDestroyKeys_shape w s (SlotMap.items S.storage)
      have hpid : ∀ a, a ∈ (SlotMap.items S.storage).map (·.2) ↔ ∃ k, abs S.storage k = some a := by
        intro a
        rw [List.mem_map]
        constructor
        · rintro ⟨⟨k, p⟩, hm, rfl⟩
          exact ⟨k, (mem_items_iff hSO.stI).1 hm⟩
        · rintro ⟨k, hk⟩
          exact ⟨(k, a), (mem_items_iff hSO.stI).2 hk, rfl⟩
      have hfr : SFrame w (setS (subDestroyKeys w s (SlotMap.items S.storage)) s
          (destroyedSub S)) :=
        SFrame.of_SStep (.trans (subDestroyKeys_S _ _ _) (.setS _ _ _))
      have hgS : ∀ q, getS (setS (subDestroyKeys w s (SlotMap.items S.storage)) s
          (destroyedSub S)) q =
          if q = s then some (destroyedSub S)
          else getS w q := by
        intro q
        rw [getS_setS, getS_of_subs s3, getS_of_subs s3, hS]; rfl
      have hgC : ∀ a b, getC (setS (subDestroyKeys w s (SlotMap.items S.storage)) s
          (destroyedSub S)) a b =
          if b = s ∧ a ∈ (SlotMap.items S.storage).map (·.2) then (getC w a b).bind detR else getC w a b := by
        intro a b; rw [getC_setS]; exact s1 a b
      have hnone : ∀ (i k : Nat), (S.conns.map fun _ => (none : Option Nat))[i]? ≠ some (some k) := by
        intro i k hi
        rw [List.getElem?_map] at hi
        cases hv : S.conns[i]? <;> simp [hv] at hi
      show InvS cfg (setS (subDestroyKeys w s (SlotMap.items S.storage)) s (destroyedSub S)) xs s none
      refine h.rebuild s hfr (fun q hq => by rw [hgS]; simp [hq]) (fun a b hb => by rw [hgC]; simp [hb]) ?_
        ((s2 h.u).of_conns rfl) (fun hne => absurd rfl hne) ?_ ?_ ?_
      · constructor
        · intro q Q hq
          rw [hgS]
          by_cases hqs : q = s
          · subst hqs; rw [hS] at hq; cases hq; exact ⟨destroyedSub S, by simp, ⟨rfl, rfl, rfl⟩⟩
          · exact ⟨Q, by simp [hqs, hq], ⟨rfl, rfl, rfl⟩⟩
        · intro q Q' hq
          rw [hgS] at hq
          by_cases hqs : q = s
          · subst hqs; simp at hq; subst hq; exact ⟨S, hS, ⟨rfl, rfl, rfl⟩⟩
          · simp [hqs] at hq; exact ⟨Q', hq, ⟨rfl, rfl, rfl⟩⟩
      · intro a c hc ha
        rw [hgC]
        by_cases hm : a ∈ (SlotMap.items S.storage).map (·.2)
        · exact ⟨{ c with rAtt := false }, by simp [hm, hc, detR, ha], ha, rfl⟩
        · exact ⟨c, by simp [hm, hc], ha, rfl⟩
      · intro a c' hc'
        rw [hgC] at hc'
        have key : ∃ c, getC w a s = some c ∧ ConnInv cfg w a s c' := by
          by_cases hm : a ∈ (SlotMap.items S.storage).map (·.2)
          · simp only [hm, and_self, if_true] at hc'
            cases hc : getC w a s with
            | none => rw [hc] at hc'; cases hc'
            | some c =>
              rw [hc] at hc'
              exact ⟨c, rfl, (h.c a s c hc).detR hc'⟩
          · simp only [hm, and_false, if_false] at hc'
            exact ⟨c', hc', h.c a s c' hc'⟩
        obtain ⟨c, hc, hCI⟩ := key
        have hpidc : c'.pid = a := by
          have := getC_key (w := setS (subDestroyKeys w s (SlotMap.items S.storage)) s
            (destroyedSub S))
            (p := a) (s := s) (c := c') (by rw [hgC]; exact hc')
          exact this.1
        exact hCI.transferS2 (S' := destroyedSub S) hpidc hfr.pubs hS (by rw [hgS]; simp) rfl rfl
      · intro Q hQ
        rw [hgS] at hQ; simp at hQ; subst hQ
        simp only [if_true]
        have habs : ∀ k, abs (destroyedSub S).storage k = none := fun k => abs_init 0 k
        refine ⟨smInv_init 0, by simp [destroyedSub, hSO.connsLen], fun ha => (by have ha' : S.alive = true := ha; rw [hal] at ha'; cases ha'),
          hSO.buf1, hSO.bufM, List.nodup_nil, Nat.zero_le _, fun k hk => (by cases hk),
          fun i k _ hi => absurd hi (hnone i k), fun i j k _ _ hi _ => absurd hi (hnone i k),
          fun k hk => absurd (habs k) hk, fun k p hk => (by rw [habs] at hk; cases hk),
          fun k1 k2 p hk => (by rw [habs] at hk; cases hk), fun hd hhd => (by have hhd' : hd ∈ S.held := hhd; rw [hheld] at hhd'; cases hhd'),
          fun k hk => (by cases hk), fun i k p _ hi => absurd hi (hnone i k),
          fun ha => (by have ha' : S.alive = true := ha; rw [hal] at ha'; cases ha')⟩

end Iox2.PubSub.C08
