/-
C08 helper: the API operations preserve the invariant (part C: creating a subscriber).
-/
import Iox2.Proof.PubSubC08A2
set_option linter.unusedSimpArgs false
set_option linter.unusedVariables false
namespace Iox2.PubSub.C08
open Iox2.PubSub
open Iox2.C16.SlotMapP (abs)
attribute [-simp] List.getD_eq_getElem?_getD

def tbrCapOf (c : Cfg) : Nat := if c.expired ≥ c.borrowMax then c.expired else c.borrowMax

/-- the fresh subscriber record of `csub` -/
def newSub (w : World) (buffer histReq : Nat) : Sub :=
  { buffer := buffer, histReq := histReq, conns := List.replicate w.cfg.maxPubs none,
    storage := SlotMap.init (tbrCapOf w.cfg + w.cfg.maxPubs), tbrCap := tbrCapOf w.cfg,
    snapCtr := w.pubReg.counter, snap := w.pubReg.slots }

/-- the world in which the creation of subscriber `s` failed -/
def csubFail (w1 : World) (s : Nat) : World :=
  { (match getS w1 s with
      | some S1 => subDestroyKeys w1 s (SlotMap.items S1.storage)
      | none => w1) with
    subs := (match getS w1 s with
      | some S1 => subDestroyKeys w1 s (SlotMap.items S1.storage)
      | none => w1).subs.filter fun e => e.1 ≠ s }

/-- the part of `csub` after the QoS checks -/
def csubCore (w : World) (s buffer histReq : Nat) : World × String :=
  match (subForceUpdate { w with subs := w.subs ++ [(s, newSub w buffer histReq)] } s).subReg.add
      { sid := s, buffer := buffer, histReq := histReq },
    getS (subForceUpdate { w with subs := w.subs ++ [(s, newSub w buffer histReq)] } s) s with
  | some (reg, slot), some S1 =>
    finishPanic w ({ setS (subForceUpdate { w with subs := w.subs ++ [(s, newSub w buffer histReq)] } s) s
      { S1 with slot := slot } with subReg := reg }, "ok")
  | _, _ =>
    finishPanic w (csubFail (subForceUpdate { w with subs := w.subs ++ [(s, newSub w buffer histReq)] } s) s,
      "err:ExceedsMaxSupportedSubscribers")

theorem step_csub_eq (w : World) (s : Nat) (b h : Option Nat) :
    step w (.csub s b h) =
      if (getS w s).isSome then (w, "dup") else
      match (match b with
             | some b => if w.cfg.bufMax < b then none else some (clamp1 b)
             | none => some w.cfg.bufMax) with
      | none => (w, "err:BufferSizeExceedsMaxSupportedBufferSizeOfService")
      | some buffer =>
        match (match h with
               | some h => if h > w.cfg.hist then Except.error "err:HistoryRequestExceedsHistorySizeOfService"
                           else if h > buffer then Except.error "err:HistoryRequestExceedsBufferSizeOfSubscriber"
                           else Except.ok h
               | none => Except.ok (min w.cfg.hist buffer)) with
        | .error e => (w, e)
        | .ok histReq => csubCore w s buffer histReq := by
  simp only [step]
  rfl

theorem getS_push {w : World} {s : Nat} (S : Sub) (hs : getS w s = none) (q : Nat) :
    getS { w with subs := w.subs ++ [(s, S)] } q = if q = s then some S else getS w q := by
  unfold getS at *
  simp only [List.find?_append]
  by_cases hq : q = s
  · subst hq
    have : w.subs.find? (fun x => decide (x.1 = q)) = none := by
      cases h : w.subs.find? (fun x => decide (x.1 = q)) with
      | none => rfl
      | some e => rw [h] at hs; cases hs
    simp [this]
  · simp only [hq, if_false]
    have : ¬ s = q := fun e => hq e.symm
    cases h : w.subs.find? (fun x => decide (x.1 = q)) with
    | none => simp [this]
    | some e => simp

theorem add_sub_inv {cfg : Cfg} {w : World} (h : Inv cfg w) {s : Nat} (hs : getS w s = none) (buffer histReq : Nat)
    (hb1 : 1 ≤ buffer) (hbM : buffer ≤ cfg.bufMax) :
    InvS cfg { w with subs := w.subs ++ [(s, newSub w buffer histReq)] } (some s) s none := by
  have hgS := getS_push (newSub w buffer histReq) hs
  have hnoconn : ∀ p, getC w p s = none := by
    intro p
    cases hc : getC w p s with
    | none => rfl
    | some c =>
      obtain ⟨S, hS⟩ := (h.c p s c hc).hasS
      rw [hs] at hS; cases hS
  refine ⟨⟨h.r.cfgEq, h.r.pubLen, h.r.subLen, h.r.rp1, h.r.rp2, ?_, ?_⟩, ?_, ?_, ?_, h.u⟩
  · intro i e hi
    obtain ⟨S, hS, a, b, c⟩ := h.r.rs1 i e hi
    have hes : e.sid ≠ s := by intro e'; rw [e', hs] at hS; cases hS
    exact ⟨S, by rw [hgS]; simp [hes, hS], a, b, c⟩
  · intro q Q hQ hal hne
    rw [hgS] at hQ
    have hqs : q ≠ s := fun e => hne (by rw [e])
    simp [hqs] at hQ
    exact h.r.rs2 q Q hQ hal (by simp)
  · intro a b c hc
    have hc' : getC w a b = some c := hc
    have hbs : b ≠ s := by intro e; subst e; rw [hnoconn] at hc'; cases hc'
    refine (h.c a b c hc').transferG (getC_key hc').1 (fun Q hQ => ⟨Q, hQ, rfl, rfl, rfl⟩)
      (fun Q' hQ' => ⟨Q', hQ', rfl, rfl⟩) (fun S hS => ⟨S, by rw [hgS]; simp [hbs, hS], rfl⟩) (fun S' hS' => ?_)
    rw [hgS] at hS'; simp [hbs] at hS'
    exact ⟨S', hS', rfl, id⟩
  · intro q Q hQ
    have hQ' : getP w q = some Q := hQ
    obtain ⟨a, b⟩ := h.p q Q hQ'
    refine ⟨⟨a.connsLen, a.slotConn, ?_, a.aliveEx⟩, fun ha => (b ha).transfer (fun _ _ => rfl)⟩
    intro i s' hi
    obtain ⟨S', hS', hsl⟩ := a.slotSlot i s' hi
    have hss : s' ≠ s := by intro e; rw [e, hs] at hS'; cases hS'
    exact ⟨S', by rw [hgS]; simp [hss, hS'], hsl⟩
  · intro q Q hQ
    rw [hgS] at hQ
    by_cases hqs : q = s
    · subst hqs
      simp at hQ; subst hQ
      simp only [if_true]
      have hnone : ∀ (i k : Nat), (newSub w buffer histReq).conns[i]? ≠ some (some k) := by
        intro i k hi
        simp [newSub, List.getElem?_replicate] at hi
      have habs : ∀ k, abs (newSub w buffer histReq).storage k = none := fun k => abs_init _ k
      refine ⟨smInv_init _, by simp [newSub, h.r.cfgEq], fun _ => ?_, hb1, hbM, List.nodup_nil, Nat.zero_le _,
        fun k hk => (by cases hk), fun i k _ hi => absurd hi (hnone i k), fun i j k _ _ hi _ => absurd hi (hnone i k),
        fun k hk => absurd (habs k) hk, fun k p hk => (by rw [habs] at hk; cases hk),
        fun k1 k2 p hk => (by rw [habs] at hk; cases hk), fun hd hhd => (by cases hhd),
        fun k hk => (by cases hk), fun i k p _ hi => absurd hi (hnone i k), fun _ => rfl⟩
      constructor
      · show (SlotMap.init (α := Nat) _).cap = _
        simp [newSub, SlotMap.init, h.r.cfgEq]
      · show cfg.borrowMax ≤ tbrCapOf w.cfg
        rw [h.r.cfgEq]; unfold tbrCapOf; split <;> omega
    · simp [hqs] at hQ
      simp only [hqs, if_false]
      exact (h.s q Q hQ).transferS (fun _ => rfl) (fun _ => rfl)

end Iox2.PubSub.C08
