/-
C08 helper: list lemmas and the slot map seen through `abs` (wrappers around C16SlotMap).
-/
import Iox2.Model.PubSub
import Iox2.Props.C16SlotMap
set_option linter.unusedSimpArgs false
namespace Iox2.PubSub.C08
open Iox2.PubSub
open Iox2.C16.SlotMapP (abs)

abbrev SmInv (m : SlotMap.St Nat) : Prop := Iox2.C16.SlotMapP.Inv m

/-! ### lists -/

theorem nodup_subset_length {α : Type} [DecidableEq α] :
    ∀ (l1 l2 : List α), l1.Nodup → (∀ x ∈ l1, x ∈ l2) → l1.length ≤ l2.length
  | [], _, _, _ => Nat.zero_le _
  | a :: t, l2, hn, hs => by
    have ha : a ∈ l2 := hs a (by simp)
    have hn' := List.nodup_cons.mp hn
    have ht : ∀ x ∈ t, x ∈ l2.erase a := by
      intro x hx
      have hne : x ≠ a := by intro h; subst h; exact hn'.1 hx
      exact (List.mem_erase_of_ne hne).2 (hs x (by simp [hx]))
    have ih := nodup_subset_length t (l2.erase a) hn'.2 ht
    have hl := List.length_erase_of_mem ha
    have hpos : 0 < l2.length := List.length_pos_of_mem ha
    simp only [List.length_cons]
    omega

def trueIdx (l : List Bool) : List Nat := (List.range l.length).filter fun i => l.getD i false

theorem mem_trueIdx {l : List Bool} {i : Nat} : i ∈ trueIdx l ↔ l.getD i false = true := by
  unfold trueIdx
  simp only [List.mem_filter, List.mem_range]
  constructor
  · exact fun h => h.2
  · intro h
    refine ⟨?_, h⟩
    by_cases hi : i < l.length
    · exact hi
    · rw [List.getD_eq_getElem?_getD, List.getElem?_eq_none (by omega)] at h
      simp at h

theorem trueIdx_nodup (l : List Bool) : (trueIdx l).Nodup := by
  unfold trueIdx
  exact List.Nodup.sublist List.filter_sublist List.nodup_range

/-! ### slot map -/

theorem smGet_eq {m : SlotMap.St Nat} (h : SmInv m) (k : Nat) : smGet m k = abs m k := by
  have := (Iox2.C16.SlotMapP.get_spec m k h).1
  unfold smGet
  rw [this]
  cases abs m k <;> rfl

theorem smRemove_spec {m : SlotMap.St Nat} (h : SmInv m) (k : Nat) :
    SmInv (smRemove m k) ∧ (smRemove m k).cap = m.cap ∧
      ∀ k', abs (smRemove m k) k' = if k' = k then none else abs m k' := by
  obtain ⟨s', hst, hcap, hw, ha, hd, -⟩ := Iox2.C16.SlotMapP.remove_w m k h.toWInv
  unfold smRemove
  rw [hst]
  exact ⟨⟨hw, hd h.dataSome⟩, hcap, ha⟩

theorem smInsert_spec {m : SlotMap.St Nat} (h : SmInv m) (e : Nat) :
    (∃ k m', smInsert m e = (m', some k) ∧ abs m k = none ∧ k < m.cap ∧ SmInv m' ∧ m'.cap = m.cap ∧
        ∀ k', abs m' k' = if k' = k then some e else abs m k') ∨
    ((smInsert m e).2 = none ∧ ∀ k, k < m.cap → (abs m k).isSome = true) := by
  rcases Iox2.C16.SlotMapP.insert_w m e h.toWInv with ⟨k, s', hst, hh, hk, -, hcap, hw, ha, hd⟩ | ⟨hh, hst, -⟩
  · left
    refine ⟨k, s', ?_, Iox2.C16.SlotMapP.abs_unused hk, Iox2.C16.SlotMapP.unused_lt h.core hk,
      ⟨hw, hd h.dataSome⟩, hcap, ha⟩
    unfold smInsert; rw [hst]
  · right
    refine ⟨?_, fun k hk => ?_⟩
    · unfold smInsert; rw [hst]
    · obtain ⟨di, hdi⟩ := (Iox2.C16.SlotMapP.head_none_full h.toWInv hh).2 k hk
      exact Iox2.C16.SlotMapP.abs_isSome_of_inv h hdi

theorem abs_lt_cap {m : SlotMap.St Nat} (h : SmInv m) {k e : Nat} (hk : abs m k = some e) : k < m.cap := by
  unfold Iox2.C16.SlotMapP.abs at hk
  rw [← h.core.lenIdx]
  by_cases hl : k < m.idxToData.length
  · exact hl
  · rw [List.getD_eq_getElem?_getD, List.getElem?_eq_none (by omega)] at hk
    simp at hk

theorem mem_items_iff {m : SlotMap.St Nat} (h : SmInv m) {k e : Nat} :
    (k, e) ∈ SlotMap.items m ↔ abs m k = some e := by
  rw [Iox2.C16.SlotMapP.mem_items]
  constructor
  · exact fun h => h.2
  · intro hk
    exact ⟨by rw [h.core.lenIdx]; exact abs_lt_cap h hk, hk⟩

theorem smInv_init (cap : Nat) : SmInv (SlotMap.init (α := Nat) cap) := Iox2.C16.SlotMapP.inv_init cap
theorem abs_init (cap k : Nat) : abs (SlotMap.init (α := Nat) cap) k = none := Iox2.C16.SlotMapP.abs_init cap k

/-- a full slot map has at most as many keys as any list covering its keys -/
theorem full_le_cover {m : SlotMap.St Nat} (hfull : ∀ k, k < m.cap → (abs m k).isSome = true)
    (L : List Nat) (hcov : ∀ k, (abs m k).isSome = true → k ∈ L) : m.cap ≤ L.length := by
  have := nodup_subset_length (List.range m.cap) L List.nodup_range
    (fun x hx => hcov x (hfull x (List.mem_range.mp hx)))
  simpa using this

end Iox2.PubSub.C08
