/-
Every reachable world of the event-port model satisfies the invariant; the configuration never changes.
-/
import Iox2.Proof.EventPortsInv
namespace Iox2.EventPorts

theorem Inv.pres_afterPortDrop {before after : World} (h : Inv after) (k : Nat) : Inv (afterPortDrop before after k) := by
  unfold afterPortDrop
  split
  · split
    · exact h.pres_setP _ _
    · exact h
  · exact h

theorem afterPortDrop_frame (before after : World) (k : Nat) :
    (afterPortDrop before after k).cfg = after.cfg ∧ (afterPortDrop before after k).lisReg = after.lisReg ∧
    (afterPortDrop before after k).notReg = after.notReg ∧ (afterPortDrop before after k).liss = after.liss ∧
    (afterPortDrop before after k).nots = after.nots ∧ (afterPortDrop before after k).hist = after.hist ∧
    (afterPortDrop before after k).partKeys = after.partKeys := by
  unfold afterPortDrop
  split
  · split <;> simp
  · simp

theorem dropEmit_cfg (w : World) (n : Nat) (N : Noti) : (dropEmit w n N).cfg = w.cfg := by
  unfold dropEmit
  split
  · exact (notifyCore_frame _ _ _ _).1
  · rfl

theorem Inv.pres_dropEmit {w : World} (h : Inv w) {n : Nat} {N : Noti} (hN : w.nots n = some N) (hst : N.st = .alive) :
    Inv (dropEmit w n N) := by
  unfold dropEmit
  split
  · exact h.pres_notifyCore hN hst _
  · exact h

/-- after the dropped-event emission the notifier is still registered in its slot -/
theorem dropEmit_nots {w : World} {n : Nat} {N : Noti} (hN : w.nots n = some N) (hst : N.st = .alive) :
    ∃ N1, (dropEmit w n N).nots n = some N1 ∧ N1.slot = N.slot ∧ N1.st = .alive ∧ N1.node = N.node := by
  unfold dropEmit
  split
  · obtain ⟨N', e, a, b, c, _⟩ := (notifyCore_frame w n N _).2.2.2.2.2
    exact ⟨N', by rw [e]; simp, b, by rw [a]; exact hst, c⟩
  · exact ⟨N, hN, rfl, hst, rfl⟩

theorem Inv.pres_dnotFull {w : World} (h : Inv w) {n : Nat} {N : Noti} (hN : w.nots n = some N) (hst : N.st = .alive) :
    Inv (dnotBase (dropEmit w n N) n N) := by
  have h1 := h.pres_dropEmit hN hst
  obtain ⟨N1, hN1, hs1, hst1, _⟩ := dropEmit_nots hN hst
  have := h1.pres_dnot hN1 (by rw [hst1]; simp) { N1 with st := .gone, conns := N1.conns.map fun _ => none } rfl
  unfold dnotBase
  rw [hN1, ← hs1]
  exact this

theorem deadSignal_cfg (w : World) : (deadSignal w).cfg = w.cfg := by
  unfold deadSignal
  repeat' split
  all_goals rfl

/-- the node record after its cleanup -/
def cleanedPart (P : Part) : Part := { P with handle := false, svc := false, dirLeft := false }

theorem cleanNode_eq (acc : World × Nat) (d : Nat) :
    cleanNode acc d =
      match acc.1.parts d with
      | none => acc
      | some P =>
        if !(P.dead && nodeCore acc.1 d) then acc
        else ((if svcCore acc.1 d && serviceExists (setP (purge acc.1 d) d (cleanedPart P)) && (notOf acc.1 d).length != 0
               then deadSignal (setP (purge acc.1 d) d (cleanedPart P)) else setP (purge acc.1 d) d (cleanedPart P)), acc.2 + 1) := rfl

theorem cleanNode_cfg (acc : World × Nat) (d : Nat) : (cleanNode acc d).1.cfg = acc.1.cfg := by
  rw [cleanNode_eq]
  split
  · rfl
  · split
    · rfl
    · simp only []
      split
      · rw [deadSignal_cfg]; rfl
      · rfl

theorem Inv.pres_cleanNode {acc : World × Nat} (h : Inv acc.1) (d : Nat) : Inv (cleanNode acc d).1 := by
  rw [cleanNode_eq]
  split
  · exact h
  · split
    · exact h
    · simp only []
      split
      · exact ((h.pres_purge d).pres_setP _ _).pres_deadSignal
      · exact (h.pres_purge d).pres_setP _ _

theorem foldl_cleanNode_inv (ks : List Nat) (acc : World × Nat) (h : Inv acc.1) : Inv (ks.foldl cleanNode acc).1 := by
  induction ks generalizing acc with
  | nil => exact h
  | cons k ks ih => exact ih _ (h.pres_cleanNode k)

theorem foldl_cleanNode_cfg (ks : List Nat) (acc : World × Nat) : (ks.foldl cleanNode acc).1.cfg = acc.1.cfg := by
  induction ks generalizing acc with
  | nil => rfl
  | cons k ks ih => rw [List.foldl_cons, ih, cleanNode_cfg]

theorem step_cfg (w : World) (op : Op) : (step w op).1.cfg = w.cfg := by
  cases op with
  | «open» k => simp only [step]; repeat' split
                all_goals rfl
  | cnot n d k =>
    simp only [step]
    repeat' split
    all_goals first | rfl | (rw [(notifyCore_frame _ _ _ _).1]; rfl)
  | dnot n =>
    simp only [step]
    split
    · rfl
    · split
      · rfl
      · rw [(afterPortDrop_frame _ _ _).1]
        exact dropEmit_cfg _ _ _
  | clis l k => simp only [step]; repeat' split
                all_goals rfl
  | dlis l =>
    simp only [step]
    split
    · rfl
    · split
      · rfl
      · rw [(afterPortDrop_frame _ _ _).1]; rfl
  | notify n =>
    simp only [step]
    split
    · rfl
    · split
      · rfl
      · exact (notifyCore_frame _ _ _ _).1
  | notifyId n id =>
    simp only [step]
    split
    · rfl
    · split
      · rfl
      · exact (notifyCore_frame _ _ _ _).1
  | wait l => simp only [step]; repeat' split
              all_goals rfl
  | keys n => simp only [step]; repeat' split
              all_goals rfl
  | notifyOne n slot l id =>
    simp only [step]
    split
    · rfl
    · split
      · rfl
      · exact (notifyOneCore_frame _ _ _ _ _ _).1
  | count k => simp only [step]; repeat' split
               all_goals rfl
  | dnode k => simp only [step]; repeat' split
               all_goals rfl
  | dsvc k => simp only [step]; repeat' split
              all_goals rfl
  | kill k => simp only [step]; repeat' split
              all_goals rfl
  | cleanup k =>
    simp only [step]
    split
    · rfl
    · split
      · rfl
      · split
        · rfl
        · exact foldl_cleanNode_cfg _ _
  | ls => rfl

theorem Inv.step {w : World} (h : Inv w) (op : Op) : Inv (step w op).1 := by
  cases op with
  | «open» k =>
    simp only [EventPorts.step]
    split
    · exact h
    · split
      · exact h
      · split
        · exact h
        · exact (h.pres_setP k {}).of_fields rfl rfl rfl rfl rfl rfl
  | cnot n d k =>
    simp only [EventPorts.step]
    split
    · exact h
    · rename_i hn
      have hn : w.nots n = none := by
        cases hx : w.nots n with
        | none => rfl
        | some x => rw [hx] at hn; simp at hn
      split
      · exact h
      · split
        · exact h
        · rename_i reg slot e
          have h1 : Inv (cnotBase w n k d reg slot) := h.pres_cnot hn e
            { node := k, slot := 0, defId := d.getD 0, snapCtr := w.lisReg.counter, snap := w.lisReg.slots,
              conns := List.replicate w.lisReg.slots.length none } rfl rfl (by simp)
          split
          · exact h1.pres_notifyCore (by simp [cnotBase]) (by simp [newNoti, populate]) _
          · exact h1
  | dnot n =>
    simp only [EventPorts.step]
    split
    · exact h
    · rename_i N hN
      split
      · exact h
      · rename_i hst
        have hst : N.st = .alive := by
          cases hx : N.st <;> simp [hx] at hst ⊢
        apply Inv.pres_afterPortDrop
        exact h.pres_dnotFull hN hst
  | clis l k =>
    simp only [EventPorts.step]
    split
    · exact h
    · rename_i hl
      have hl : w.liss l = none := by
        cases hx : w.liss l with
        | none => rfl
        | some x => rw [hx] at hl; simp at hl
      split
      · exact h
      · split
        · exact h
        · rename_i reg slot e
          exact h.pres_clis hl e
  | dlis l =>
    simp only [EventPorts.step]
    split
    · exact h
    · rename_i L hL
      split
      · exact h
      · rename_i hst
        have hst : L.st = .alive := by
          cases hx : L.st <;> simp [hx] at hst ⊢
        exact (h.pres_dlis hL hst).pres_afterPortDrop _
  | notify n =>
    simp only [EventPorts.step]
    split
    · exact h
    · rename_i N hN
      split
      · exact h
      · rename_i hst
        have hst : N.st = .alive := by
          cases hx : N.st <;> simp [hx] at hst ⊢
        exact h.pres_notifyCore hN hst _
  | notifyId n id =>
    simp only [EventPorts.step]
    split
    · exact h
    · rename_i N hN
      split
      · exact h
      · rename_i hst
        have hst : N.st = .alive := by
          cases hx : N.st <;> simp [hx] at hst ⊢
        exact h.pres_notifyCore hN hst _
  | wait l =>
    simp only [EventPorts.step]
    split
    · exact h
    · rename_i L hL
      split
      · exact h
      · exact h.pres_wait hL
  | keys n =>
    simp only [EventPorts.step]
    split
    · exact h
    · rename_i N hN
      split
      · exact h
      · rename_i hst
        have hst : N.st = .alive := by
          cases hx : N.st <;> simp [hx] at hst ⊢
        exact h.pres_setN_update hN hst
  | notifyOne n slot l id =>
    simp only [EventPorts.step]
    split
    · exact h
    · rename_i N hN
      split
      · exact h
      · rename_i hst
        have hst : N.st = .alive := by
          cases hx : N.st <;> simp [hx] at hst ⊢
        exact h.pres_notifyOneCore hN hst _ _ _
  | count k => simp only [EventPorts.step]; repeat' split
               all_goals exact h
  | dnode k =>
    simp only [EventPorts.step]
    repeat' split
    all_goals first | exact h | exact h.pres_setP _ _
  | dsvc k =>
    simp only [EventPorts.step]
    repeat' split
    all_goals first | exact h | exact h.pres_setP _ _
  | kill k =>
    simp only [EventPorts.step]
    repeat' split
    all_goals first | exact h | exact (h.pres_setP _ _).pres_killPorts _
  | cleanup k =>
    simp only [EventPorts.step]
    split
    · exact h
    · split
      · exact h
      · split
        · exact h
        · exact foldl_cleanNode_inv _ _ h
  | ls => exact h

theorem Inv.init (c : Cfg) : Inv (World.init c) := by
  refine ⟨?_, ?_, ?_, ?_, ?_, ?_⟩
  · exact (RegOK.init c.maxLis).congr (fun a => by simp [lisOwn, World.init])
  · simp [World.init, Reg.init]
  · exact (RegOK.init c.maxNot).congr (fun a => by simp [notOwn, World.init])
  · simp [World.init, Reg.init]
  · intro n N hN; simp [World.init] at hN
  · intro l L hL; simp [World.init] at hL

theorem Reach.inv {c : Cfg} {w : World} (r : Reach c w) : Inv w ∧ w.cfg = c := by
  induction r with
  | init => exact ⟨Inv.init c, rfl⟩
  | step op _ ih => exact ⟨ih.1.step op, by rw [step_cfg]; exact ih.2⟩

end Iox2.EventPorts
