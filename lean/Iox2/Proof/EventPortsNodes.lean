/-
The node registry of the event service: how many nodes hold a service state (`nodeCount`) never exceeds `max_nodes`.
Only `open` registers a node; every other call can only release registrations (`Shrinks`).
-/
import Iox2.Proof.EventPortsStep
namespace Iox2.EventPorts

/-- node `j` owns a port that still holds its registry entry -/
def hasPort (w : World) (j : Nat) : Prop :=
  (∃ l L, w.liss l = some L ∧ L.st ≠ .gone ∧ L.node = j) ∨ (∃ n N, w.nots n = some N ∧ N.st ≠ .gone ∧ N.node = j)

theorem not_isEmpty_iff {l : List Nat} : (!l.isEmpty) = true ↔ ∃ x, x ∈ l := by
  cases l with
  | nil => simp
  | cons a t => simp

theorem mem_lisOf {w : World} (inv : Inv w) {j l : Nat} :
    l ∈ lisOf w j ↔ ∃ L, w.liss l = some L ∧ L.st ≠ .gone ∧ L.node = j := by
  unfold lisOf
  rw [List.mem_filter, Reg.mem_labels]
  constructor
  · rintro ⟨⟨i, hi⟩, hn⟩
    have own := inv.lis.slot i l hi
    have hn' : lisNode w l = some j := of_decide_eq_true hn
    cases hL : w.liss l with
    | none => simp [lisOwn, hL] at own
    | some L =>
      simp [lisNode, hL] at hn'
      refine ⟨L, rfl, fun e => ?_, hn'⟩
      simp [lisOwn, hL, e] at own
  · rintro ⟨L, hL, hst, hn⟩
    have hown : lisOwn w l = some L.slot := by simp [lisOwn, hL, hst]
    refine ⟨⟨L.slot, inv.lis.owner l L.slot hown⟩, decide_eq_true ?_⟩
    simp [lisNode, hL, hn]

theorem mem_notOf {w : World} (inv : Inv w) {j n : Nat} :
    n ∈ notOf w j ↔ ∃ N, w.nots n = some N ∧ N.st ≠ .gone ∧ N.node = j := by
  unfold notOf
  rw [List.mem_filter, Reg.mem_labels]
  constructor
  · rintro ⟨⟨i, hi⟩, hn⟩
    have own := inv.nots.slot i n hi
    have hn' : notNode w n = some j := of_decide_eq_true hn
    cases hN : w.nots n with
    | none => simp [notOwn, hN] at own
    | some N =>
      simp [notNode, hN] at hn'
      refine ⟨N, rfl, fun e => ?_, hn'⟩
      simp [notOwn, hN, e] at own
  · rintro ⟨N, hN, hst, hn⟩
    have hown : notOwn w n = some N.slot := by simp [notOwn, hN, hst]
    refine ⟨⟨N.slot, inv.nots.owner n N.slot hown⟩, decide_eq_true ?_⟩
    simp [notNode, hN, hn]

/-- a node is registered in the service iff its service handle exists or one of its ports does -/
theorem svcCore_iff {w : World} (inv : Inv w) (j : Nat) :
    svcCore w j = true ↔ ∃ P, w.parts j = some P ∧ (P.svc = true ∨ hasPort w j) := by
  simp only [svcCore]
  cases hP : w.parts j with
  | none => simp
  | some P =>
    simp only [Bool.or_eq_true, not_isEmpty_iff]
    constructor
    · rintro ((h | ⟨l, hl⟩) | ⟨n, hn⟩)
      · exact ⟨P, rfl, Or.inl h⟩
      · obtain ⟨L, a, b, c⟩ := (mem_lisOf inv).mp hl
        exact ⟨P, rfl, Or.inr (Or.inl ⟨l, L, a, b, c⟩)⟩
      · obtain ⟨N, a, b, c⟩ := (mem_notOf inv).mp hn
        exact ⟨P, rfl, Or.inr (Or.inr ⟨n, N, a, b, c⟩)⟩
    · rintro ⟨Q, hQ, h⟩
      cases hQ
      rcases h with h | ⟨l, L, a, b, c⟩ | ⟨n, N, a, b, c⟩
      · exact Or.inl (Or.inl h)
      · exact Or.inl (Or.inr ⟨l, (mem_lisOf inv).mpr ⟨L, a, b, c⟩⟩)
      · exact Or.inr ⟨n, (mem_notOf inv).mpr ⟨N, a, b, c⟩⟩

/-- from `w` to `w'` no node gains a registration: the node records persist, a service handle does not reappear, every port
that holds a registry entry afterwards held it before — or was created through a node whose service handle existed -/
structure Shrinks (w w' : World) : Prop where
  keys : w'.partKeys = w.partKeys
  keep : ∀ j, (w.parts j).isSome → (w'.parts j).isSome
  parts : ∀ j P', w'.parts j = some P' → ∃ P, w.parts j = some P ∧ (P'.svc = true → P.svc = true)
  lis : ∀ l L', w'.liss l = some L' → L'.st ≠ .gone →
    (∃ L, w.liss l = some L ∧ L.st ≠ .gone ∧ L.node = L'.node) ∨ (∃ P, w.parts L'.node = some P ∧ P.svc = true)
  nots : ∀ n N', w'.nots n = some N' → N'.st ≠ .gone →
    (∃ N, w.nots n = some N ∧ N.st ≠ .gone ∧ N.node = N'.node) ∨ (∃ P, w.parts N'.node = some P ∧ P.svc = true)

theorem Shrinks.refl (w : World) : Shrinks w w :=
  ⟨rfl, fun _ h => h, fun _ P h => ⟨P, h, fun x => x⟩, fun _ L h hs => Or.inl ⟨L, h, hs, rfl⟩, fun _ N h hs => Or.inl ⟨N, h, hs, rfl⟩⟩

theorem Shrinks.trans {a b c : World} (h1 : Shrinks a b) (h2 : Shrinks b c) : Shrinks a c := by
  refine ⟨by rw [h2.keys, h1.keys], fun j h => h2.keep j (h1.keep j h), ?_, ?_, ?_⟩
  · intro j P'' h
    obtain ⟨P', hP', i2⟩ := h2.parts j P'' h
    obtain ⟨P, hP, i1⟩ := h1.parts j P' hP'
    exact ⟨P, hP, fun x => i1 (i2 x)⟩
  · intro l L'' h hs
    rcases h2.lis l L'' h hs with ⟨L', hL', hs', hn'⟩ | ⟨P', hP', hsv⟩
    · rcases h1.lis l L' hL' hs' with ⟨L, hL, hs0, hn⟩ | ⟨P, hP, hsv⟩
      · exact Or.inl ⟨L, hL, hs0, by rw [hn, hn']⟩
      · exact Or.inr ⟨P, by rw [← hn']; exact hP, hsv⟩
    · obtain ⟨P, hP, i1⟩ := h1.parts _ P' hP'
      exact Or.inr ⟨P, hP, i1 hsv⟩
  · intro n N'' h hs
    rcases h2.nots n N'' h hs with ⟨N', hN', hs', hn'⟩ | ⟨P', hP', hsv⟩
    · rcases h1.nots n N' hN' hs' with ⟨N, hN, hs0, hn⟩ | ⟨P, hP, hsv⟩
      · exact Or.inl ⟨N, hN, hs0, by rw [hn, hn']⟩
      · exact Or.inr ⟨P, by rw [← hn']; exact hP, hsv⟩
    · obtain ⟨P, hP, i1⟩ := h1.parts _ P' hP'
      exact Or.inr ⟨P, hP, i1 hsv⟩

theorem Shrinks.of_same {w w' : World} (hk : w'.partKeys = w.partKeys) (hp : w'.parts = w.parts) (hl : w'.liss = w.liss)
    (hn : w'.nots = w.nots) : Shrinks w w' :=
  ⟨hk, fun _ h => by rw [hp]; exact h, fun _ P h => ⟨P, by rw [← hp]; exact h, fun x => x⟩,
   fun _ L h hs => Or.inl ⟨L, by rw [← hl]; exact h, hs, rfl⟩, fun _ N h hs => Or.inl ⟨N, by rw [← hn]; exact h, hs, rfl⟩⟩

theorem Shrinks.by_setP {w : World} {k : Nat} {P Q : Part} (hP : w.parts k = some P) (hs : Q.svc = true → P.svc = true) :
    Shrinks w (setP w k Q) := by
  refine ⟨rfl, ?_, ?_, fun _ L h hs => Or.inl ⟨L, h, hs, rfl⟩, fun _ N h hs => Or.inl ⟨N, h, hs, rfl⟩⟩
  · intro j h
    simp only [setP_parts]
    by_cases hj : j = k <;> simp [hj, h]
  · intro j P' h
    simp only [setP_parts] at h
    by_cases hj : j = k
    · subst hj; simp at h; subst h; exact ⟨P, hP, hs⟩
    · simp [hj] at h; exact ⟨P', h, fun x => x⟩

/-- listener records change without changing status or node; notifier records likewise -/
theorem Shrinks.of_fields {w w' : World} (hk : w'.partKeys = w.partKeys) (hp : w'.parts = w.parts)
    (hl : ∀ l L', w'.liss l = some L' → ∃ L, w.liss l = some L ∧ (L'.st ≠ .gone → L.st ≠ .gone) ∧ L.node = L'.node)
    (hn : ∀ n N', w'.nots n = some N' → ∃ N, w.nots n = some N ∧ (N'.st ≠ .gone → N.st ≠ .gone) ∧ N.node = N'.node) :
    Shrinks w w' :=
  ⟨hk, fun _ h => by rw [hp]; exact h, fun _ P h => ⟨P, by rw [← hp]; exact h, fun x => x⟩,
   fun l L' h hs => by
     obtain ⟨L, a, b, c⟩ := hl l L' h
     exact Or.inl ⟨L, a, b hs, c⟩,
   fun n N' h hs => by
     obtain ⟨N, a, b, c⟩ := hn n N' h
     exact Or.inl ⟨N, a, b hs, c⟩⟩

theorem Shrinks.by_deliver' {w w' : World} (ts : List Nat) (id : Nat) (hk : w'.partKeys = w.partKeys) (hp : w'.parts = w.parts)
    (hl : w'.liss = (deliver w ts id).liss) (hn : w'.nots = w.nots) : Shrinks w w' := by
  refine Shrinks.of_fields hk hp ?_ ?_
  · intro l L' h
    rw [hl, deliver_liss] at h
    cases hL : w.liss l with
    | none => rw [hL] at h; cases h
    | some L =>
      rw [hL] at h
      dsimp only at h
      by_cases hc : l ∈ ts ∧ L.st = .alive
      · rw [if_pos hc] at h; cases h; exact ⟨_, rfl, fun x => x, rfl⟩
      · rw [if_neg hc] at h; cases h; exact ⟨_, rfl, fun x => x, rfl⟩
  · intro n N' h; rw [hn] at h; exact ⟨N', h, fun x => x, rfl⟩

theorem Shrinks.by_deliver (w : World) (ts : List Nat) (id : Nat) (hist : List Nat) :
    Shrinks w { deliver w ts id with hist := hist } :=
  Shrinks.by_deliver' ts id rfl rfl rfl rfl

theorem Shrinks.by_setN_same {w : World} {n : Nat} {N N' : Noti} (hN : w.nots n = some N) (hs : N'.st ≠ .gone → N.st ≠ .gone)
    (hn : N.node = N'.node) : Shrinks w (setN w n N') := by
  refine Shrinks.of_fields ?_ ?_ ?_ ?_
  · rfl
  · rfl
  · intro l L' h; exact ⟨L', h, fun x => x, rfl⟩
  · intro a A h
    simp only [setN_nots] at h
    by_cases ha : a = n
    · subst ha; simp at h; subst h; exact ⟨N, hN, hs, hn⟩
    · simp [ha] at h; exact ⟨A, h, fun x => x, rfl⟩

theorem Shrinks.by_notifyCore {w : World} {n : Nat} {N : Noti} (hN : w.nots n = some N) (id : Nat) :
    Shrinks w (notifyCore w n N id).1 := by
  rw [notifyCore_eq]
  have hf := updateConns_fields w N
  split
  · exact Shrinks.by_setN_same hN (fun x => by rw [hf.1] at x; exact x) hf.2.2.1.symm
  · have pf := prune_fields w (updateConns w N) (targets (updateConns w N))
    have h1 : Shrinks w (setN w n (prune w (updateConns w N) (targets (updateConns w N)))) :=
      Shrinks.by_setN_same hN (fun x => by rw [pf.1, hf.1] at x; exact x) (by rw [pf.2.2.1, hf.2.2.1])
    exact h1.trans (Shrinks.by_deliver _ _ _ _)

theorem Shrinks.by_notifyOneCore {w : World} {n : Nat} {N : Noti} (hN : w.nots n = some N) (slot l id : Nat) :
    Shrinks w (notifyOneCore w n N slot l id).1 := by
  rw [notifyOneCore_eq]
  have hf := updateConns_fields w N
  have h0 : Shrinks w (setN w n (updateConns w N)) :=
    Shrinks.by_setN_same hN (fun x => by rw [hf.1] at x; exact x) hf.2.2.1.symm
  split
  · exact h0
  · split
    · have pf := prune_fields w (updateConns w N) [l]
      have h1 : Shrinks w (setN w n (prune w (updateConns w N) [l])) :=
        Shrinks.by_setN_same hN (fun x => by rw [pf.1, hf.1] at x; exact x) (by rw [pf.2.2.1, hf.2.2.1])
      exact h1.trans (Shrinks.by_deliver _ _ _ _)
    · exact h0

theorem Shrinks.by_dropEmit {w : World} {n : Nat} {N : Noti} (hN : w.nots n = some N) : Shrinks w (dropEmit w n N) := by
  unfold EventPorts.dropEmit
  split
  · exact Shrinks.by_notifyCore hN _
  · exact Shrinks.refl _

theorem Shrinks.by_afterPortDrop {w before after : World} (k : Nat) (h : Shrinks w after) :
    Shrinks w (afterPortDrop before after k) := by
  unfold EventPorts.afterPortDrop
  split
  · split
    · rename_i P hP
      exact h.trans (Shrinks.by_setP hP (fun x => x))
    · exact h
  · exact h

theorem Shrinks.by_killPorts (w : World) (k : Nat) : Shrinks w (killPorts w k) := by
  refine Shrinks.of_fields ?_ ?_ ?_ ?_
  · rfl
  · rfl
  · intro l L' h
    simp only [EventPorts.killPorts] at h
    cases hL : w.liss l with
    | none => rw [hL] at h; cases h
    | some L =>
      rw [hL] at h
      dsimp only at h
      by_cases hc : L.node = k ∧ L.st = .alive
      · rw [if_pos hc] at h; cases h; exact ⟨_, rfl, fun _ => by rw [hc.2]; simp, rfl⟩
      · rw [if_neg hc] at h; cases h; exact ⟨_, rfl, fun x => x, rfl⟩
  · intro n N' h
    simp only [EventPorts.killPorts] at h
    cases hN : w.nots n with
    | none => rw [hN] at h; cases h
    | some N =>
      rw [hN] at h
      dsimp only at h
      by_cases hc : N.node = k ∧ N.st = .alive
      · rw [if_pos hc] at h; cases h; exact ⟨_, rfl, fun _ => by rw [hc.2]; simp, rfl⟩
      · rw [if_neg hc] at h; cases h; exact ⟨_, rfl, fun x => x, rfl⟩

theorem Shrinks.by_purge (w : World) (d : Nat) : Shrinks w (purge w d) := by
  refine Shrinks.of_fields ?_ ?_ ?_ ?_
  · rfl
  · rfl
  · intro l L' h
    simp only [EventPorts.purge] at h
    cases hL : w.liss l with
    | none => rw [hL] at h; cases h
    | some L =>
      rw [hL] at h
      dsimp only at h
      by_cases hc : L.node = d
      · rw [if_pos hc] at h; cases h; exact ⟨_, rfl, fun x => absurd rfl x, rfl⟩
      · rw [if_neg hc] at h; cases h; exact ⟨_, rfl, fun x => x, rfl⟩
  · intro n N' h
    simp only [EventPorts.purge] at h
    cases hN : w.nots n with
    | none => rw [hN] at h; cases h
    | some N =>
      rw [hN] at h
      dsimp only at h
      by_cases hc : N.node = d
      · rw [if_pos hc] at h; cases h; exact ⟨_, rfl, fun x => absurd rfl x, rfl⟩
      · rw [if_neg hc] at h; cases h; exact ⟨_, rfl, fun x => x, rfl⟩

theorem Shrinks.by_deadSignal (w : World) : Shrinks w (deadSignal w) := by
  unfold EventPorts.deadSignal
  split
  · exact Shrinks.refl w
  · split
    · exact Shrinks.refl w
    · split
      · exact Shrinks.refl w
      · split
        · exact Shrinks.refl w
        · split
          · exact Shrinks.of_same rfl rfl rfl rfl
          · exact Shrinks.by_deliver' w.lisReg.labels _ rfl rfl rfl rfl

theorem Shrinks.by_cleanNode (acc : World × Nat) (d : Nat) : Shrinks acc.1 (cleanNode acc d).1 := by
  rw [cleanNode_eq]
  split
  · exact Shrinks.refl _
  · rename_i P hP
    split
    · exact Shrinks.refl _
    · simp only []
      have h1 : Shrinks acc.1 (setP (EventPorts.purge acc.1 d) d (cleanedPart P)) :=
        (Shrinks.by_purge acc.1 d).trans (Shrinks.by_setP (P := P) (by simpa [EventPorts.purge] using hP) (by simp [cleanedPart]))
      split
      · exact h1.trans (Shrinks.by_deadSignal _)
      · exact h1

theorem Shrinks.by_foldl_cleanNode (ks : List Nat) (acc : World × Nat) : Shrinks acc.1 (ks.foldl EventPorts.cleanNode acc).1 := by
  induction ks generalizing acc with
  | nil => exact Shrinks.refl _
  | cons k ks ih => exact (Shrinks.by_cleanNode acc k).trans (ih _)

/-- a new port on a node whose service handle exists -/
theorem Shrinks.by_cnotBase {w : World} {n k : Nat} {d : Option Nat} {reg : Reg} {slot : Nat} {P : Part}
    (hP : usable w k = .ok P) : Shrinks w (cnotBase w n k d reg slot) := by
  obtain ⟨hp, _, hs⟩ := usable_ok hP
  refine ⟨rfl, fun _ h => h, fun _ Q h => ⟨Q, h, fun x => x⟩, fun _ L h hs => Or.inl ⟨L, h, hs, rfl⟩, ?_⟩
  intro a A h hst
  simp only [EventPorts.cnotBase, setN_nots] at h
  by_cases ha : a = n
  · subst ha; simp at h; subst h
    exact Or.inr ⟨P, by rw [(newNoti_fields w k d slot).2.1]; exact hp, hs⟩
  · simp [ha] at h; exact Or.inl ⟨A, h, hst, rfl⟩

/-- every call except `open` -/
theorem Shrinks.by_step (w : World) (op : Op) (hop : ∀ k, op ≠ .open k) : Shrinks w (step w op).1 := by
  cases op with
  | «open» k => exact absurd rfl (hop k)
  | cnot n d k =>
    rcases step_cnot_cases w n k d with ⟨e, _⟩ | ⟨o, e, _, _⟩ | ⟨P, e, _⟩ | ⟨P, reg, slot, _, hn, hP, e⟩
    · rw [e]; exact Shrinks.refl _
    · rw [e]; exact Shrinks.refl _
    · rw [e]; exact Shrinks.refl _
    · rw [step_cnot_ok hn hP e]
      have h1 : Shrinks w (cnotBase w n k d reg slot) := Shrinks.by_cnotBase hP
      cases hcr : w.cfg.created with
      | none => exact h1
      | some cid => exact h1.trans (Shrinks.by_notifyCore (by simp [EventPorts.cnotBase]) cid)
  | dnot n =>
    simp only [EventPorts.step]
    split
    · exact Shrinks.refl _
    · rename_i N hN
      split
      · exact Shrinks.refl _
      · rename_i hst
        have hst : N.st = .alive := by
          cases hx : N.st <;> simp [hx] at hst ⊢
        apply Shrinks.by_afterPortDrop
        obtain ⟨N1, hN1, _, hst1, hnode⟩ := dropEmit_nots hN hst
        refine (Shrinks.by_dropEmit hN).trans ?_
        unfold dnotBase
        rw [hN1]
        exact (Shrinks.by_setN_same (N' := { N1 with st := .gone, conns := N1.conns.map fun _ => none }) hN1
          (fun x => absurd rfl x) rfl).trans (Shrinks.of_same rfl rfl rfl (by rfl))
  | clis l k =>
    rcases step_clis_cases w l k with ⟨e, _⟩ | ⟨o, e, _, _⟩ | ⟨P, e, _⟩ | ⟨P, reg, slot, _, hl, hP, e⟩
    · rw [e]; exact Shrinks.refl _
    · rw [e]; exact Shrinks.refl _
    · rw [e]; exact Shrinks.refl _
    · rw [step_clis_ok hl hP e]
      obtain ⟨hp, _, hs⟩ := usable_ok hP
      refine ⟨rfl, fun _ h => h, fun _ Q h => ⟨Q, h, fun x => x⟩, ?_, fun _ N h hs => Or.inl ⟨N, h, hs, rfl⟩⟩
      intro a A h hst
      simp only [setL_liss] at h
      by_cases ha : a = l
      · subst ha; simp at h; subst h; exact Or.inr ⟨P, hp, hs⟩
      · simp [ha] at h; exact Or.inl ⟨A, h, hst, rfl⟩
  | dlis l =>
    simp only [EventPorts.step]
    split
    · exact Shrinks.refl _
    · rename_i L hL
      split
      · exact Shrinks.refl _
      · apply Shrinks.by_afterPortDrop
        refine Shrinks.of_fields ?_ ?_ ?_ ?_
        · rfl
        · rfl
        · intro a A h
          simp only [setL_liss] at h
          by_cases ha : a = l
          · subst ha; simp at h; subst h; exact ⟨L, hL, fun x => absurd rfl x, rfl⟩
          · simp [ha] at h; exact ⟨A, h, fun x => x, rfl⟩
        · intro n N h; exact ⟨N, h, fun x => x, rfl⟩
  | notify n =>
    simp only [EventPorts.step]
    split
    · exact Shrinks.refl _
    · rename_i N hN
      split
      · exact Shrinks.refl _
      · exact Shrinks.by_notifyCore hN _
  | notifyId n id =>
    simp only [EventPorts.step]
    split
    · exact Shrinks.refl _
    · rename_i N hN
      split
      · exact Shrinks.refl _
      · exact Shrinks.by_notifyCore hN _
  | keys n =>
    simp only [EventPorts.step]
    split
    · exact Shrinks.refl _
    · rename_i N hN
      split
      · exact Shrinks.refl _
      · have hf := updateConns_fields w N
        exact Shrinks.by_setN_same hN (fun x => by rw [hf.1] at x; exact x) hf.2.2.1.symm
  | notifyOne n slot l id =>
    simp only [EventPorts.step]
    split
    · exact Shrinks.refl _
    · rename_i N hN
      split
      · exact Shrinks.refl _
      · exact Shrinks.by_notifyOneCore hN _ _ _
  | wait l =>
    simp only [EventPorts.step]
    split
    · exact Shrinks.refl _
    · rename_i L hL
      split
      · exact Shrinks.refl _
      · refine Shrinks.of_fields ?_ ?_ ?_ ?_
        · rfl
        · rfl
        · intro a A h
          simp only [setL_liss] at h
          by_cases ha : a = l
          · subst ha; simp at h; subst h; exact ⟨L, hL, fun x => x, rfl⟩
          · simp [ha] at h; exact ⟨A, h, fun x => x, rfl⟩
        · intro n N h; exact ⟨N, h, fun x => x, rfl⟩
  | count k =>
    simp only [EventPorts.step]
    repeat' split
    all_goals exact Shrinks.refl _
  | dnode k =>
    simp only [EventPorts.step]
    split
    · exact Shrinks.refl _
    · rename_i P hP
      repeat' split
      all_goals first | exact Shrinks.refl _ | exact Shrinks.by_setP hP (fun x => x)
  | dsvc k =>
    simp only [EventPorts.step]
    split
    · exact Shrinks.refl _
    · rename_i P hP
      repeat' split
      all_goals first | exact Shrinks.refl _ | exact Shrinks.by_setP hP (by simp)
  | kill k =>
    simp only [EventPorts.step]
    split
    · exact Shrinks.refl _
    · rename_i P hP
      repeat' split
      all_goals first
        | exact Shrinks.refl _
        | exact (Shrinks.by_setP (Q := { P with dead := true }) hP (fun x => x)).trans (Shrinks.by_killPorts _ k)
  | cleanup k =>
    simp only [EventPorts.step]
    repeat' split
    all_goals first | exact Shrinks.refl _ | exact Shrinks.by_foldl_cleanNode _ (w, 0)
  | ls => exact Shrinks.refl _

/-- no node gains a registration -/
theorem Shrinks.by_svcCore {w w' : World} (s : Shrinks w w') (inv : Inv w) (inv' : Inv w') (j : Nat) (h : svcCore w' j = true) :
    svcCore w j = true := by
  obtain ⟨P', hP', hc⟩ := (svcCore_iff inv' j).mp h
  obtain ⟨P, hP, imp⟩ := s.parts j P' hP'
  apply (svcCore_iff inv j).mpr
  refine ⟨P, hP, ?_⟩
  rcases hc with hc | ⟨l, L', a, b, c⟩ | ⟨n, N', a, b, c⟩
  · exact Or.inl (imp hc)
  · rcases s.lis l L' a b with ⟨L, x, y, z⟩ | ⟨Q, hQ, hs⟩
    · exact Or.inr (Or.inl ⟨l, L, x, y, by rw [z, c]⟩)
    · rw [c, hP] at hQ; cases hQ; exact Or.inl hs
  · rcases s.nots n N' a b with ⟨N, x, y, z⟩ | ⟨Q, hQ, hs⟩
    · exact Or.inr (Or.inr ⟨n, N, x, y, by rw [z, c]⟩)
    · rw [c, hP] at hQ; cases hQ; exact Or.inl hs

theorem filter_length_le_of_imp {p q : Nat → Bool} : ∀ (l : List Nat), (∀ x ∈ l, p x = true → q x = true) →
    (l.filter p).length ≤ (l.filter q).length
  | [], _ => by simp
  | a :: l, h => by
    have ih := filter_length_le_of_imp l (fun x hx => h x (by simp [hx]))
    have ha := h a (by simp)
    simp only [List.filter_cons]
    cases hp : p a with
    | false => cases hq : q a <;> simp <;> omega
    | true => simp [ha hp]; exact ih

theorem filter_length_lt_of_imp {p q : Nat → Bool} : ∀ (l : List Nat), (∀ x ∈ l, p x = true → q x = true) →
    (∃ a ∈ l, q a = true ∧ p a = false) → (l.filter p).length < (l.filter q).length
  | [], _, h => by obtain ⟨a, ha, _⟩ := h; cases ha
  | b :: l, h, hex => by
    have hl : ∀ x ∈ l, p x = true → q x = true := fun x hx => h x (by simp [hx])
    have hb := h b (by simp)
    simp only [List.filter_cons]
    obtain ⟨a, ha, hq, hp⟩ := hex
    rcases List.mem_cons.mp ha with rfl | ha
    · have := filter_length_le_of_imp l hl
      simp [hq, hp]; omega
    · have ih := filter_length_lt_of_imp l hl ⟨a, ha, hq, hp⟩
      cases hpb : p b with
      | false => cases hqb : q b <;> simp <;> omega
      | true => simp [hb hpb]; exact ih

theorem Shrinks.by_nodeCount {w w' : World} (s : Shrinks w w') (inv : Inv w) (inv' : Inv w') : nodeCount w' ≤ nodeCount w := by
  simp only [EventPorts.nodeCount, s.keys]
  exact filter_length_le_of_imp _ (fun j _ h => s.by_svcCore inv inv' j h)

/-- node records exist for every key, and the node registry is within its limit -/
structure NodeInv (w : World) : Prop where
  keys : ∀ j ∈ w.partKeys, (w.parts j).isSome
  mem : ∀ j, (w.parts j).isSome → j ∈ w.partKeys
  limit : nodeCount w ≤ w.cfg.maxNodes

theorem NodeInv.step {c : Cfg} {w : World} (r : Reach c w) (h : NodeInv w) (op : Op) : NodeInv (step w op).1 := by
  have inv := r.inv.1
  have inv' := (Reach.step op r).inv.1
  by_cases hop : ∀ k, op ≠ .open k
  · have s := Shrinks.by_step w op hop
    refine ⟨fun j hj => s.keep j (h.keys j (by rw [← s.keys]; exact hj)), ?_, ?_⟩
    · intro j hj
      rw [s.keys]
      apply h.mem
      cases hp : (EventPorts.step w op).1.parts j with
      | none => rw [hp] at hj; cases hj
      | some P' =>
        obtain ⟨P, hP, _⟩ := s.parts j P' hp
        rw [hP]; rfl
    rw [step_cfg]
    exact Nat.le_trans (s.by_nodeCount inv inv') h.limit
  · have : ∃ k, op = .open k := by
      rcases Classical.not_forall.mp hop with ⟨k, hk⟩
      exact ⟨k, Classical.not_not.mp hk⟩
    obtain ⟨k, rfl⟩ := this
    simp only [EventPorts.step]
    split
    · exact h
    · rename_i hk
      have hk := isSome_false hk
      split
      · exact h
      · split
        · exact h
        · rename_i hlim
          have hnot : k ∉ w.partKeys := fun hm => by
            have := h.keys k hm; rw [hk] at this; cases this
          have same : ∀ j ∈ w.partKeys, svcCore { setP w k {} with partKeys := w.partKeys ++ [k] } j = svcCore w j := by
            intro j hj
            have hjk : j ≠ k := fun e => hnot (e ▸ hj)
            simp [EventPorts.svcCore, lisOf, notOf, lisNode, notNode, hjk]
          refine ⟨?_, ?_, ?_⟩
          · intro j hj
            have hj : j ∈ w.partKeys ++ [k] := hj
            simp only [setP_parts]
            rcases List.mem_append.mp hj with hj | hj
            · have hjk : j ≠ k := fun e => hnot (e ▸ hj)
              simp [hjk, h.keys j hj]
            · simp at hj; simp [hj]
          · intro j hj
            show j ∈ w.partKeys ++ [k]
            simp only [setP_parts] at hj
            by_cases hjk : j = k
            · simp [hjk]
            · simp [hjk] at hj; exact List.mem_append.mpr (Or.inl (h.mem j hj))
          · show (List.filter _ (w.partKeys ++ [k])).length ≤ w.cfg.maxNodes
            rw [List.filter_append, List.length_append]
            have e1 : (w.partKeys.filter (EventPorts.svcCore { setP w k {} with partKeys := w.partKeys ++ [k] })) =
                w.partKeys.filter (EventPorts.svcCore w) := List.filter_congr same
            rw [e1]
            have e2 : ∀ p : Nat → Bool, ([k].filter p).length ≤ 1 :=
              fun p => Nat.le_trans (List.length_filter_le _ _) (by simp)
            have hlt : (w.partKeys.filter (EventPorts.svcCore w)).length < w.cfg.maxNodes := by
              have : EventPorts.nodeCount w < w.cfg.maxNodes := by omega
              simpa [EventPorts.nodeCount] using this
            refine Nat.le_trans (Nat.add_le_add_left (e2 _) _) ?_
            omega

theorem NodeInv.init {c : Cfg} (hc : c.Sane) : NodeInv (World.init c) := by
  refine ⟨?_, ?_, ?_⟩
  · intro j hj; simp [World.init] at hj ⊢; simp [hj]
  · intro j hj
    simp only [World.init] at hj ⊢
    by_cases h0 : j = 0
    · simp [h0]
    · simp [h0] at hj
  · have : nodeCount (World.init c) ≤ 1 := by
      simp only [nodeCount, World.init]
      exact Nat.le_trans (List.length_filter_le _ _) (by simp)
    exact Nat.le_trans this hc.2.2

theorem Reach.nodeInv {c : Cfg} (hc : c.Sane) {w : World} (r : Reach c w) : NodeInv w := by
  induction r with
  | init => exact NodeInv.init hc
  | step op r ih => exact ih.step r op

end Iox2.EventPorts
