/-
C08 helper: the model's helper functions cut into named pieces (all equations hold by `rfl`).
-/
import Iox2.Proof.PubSubC08Base
set_option linter.unusedSimpArgs false
namespace Iox2.PubSub.C08
open Iox2.PubSub

/-! publisher side -/

/-- one iteration of `retrieveFrom` -/
def retrieveOne (w : World) (p s : Nat) : World :=
  match getP w p, getC w p s with
  | some P, some c =>
    setC (setP w p (drainComp P c.used c.comp).1) { c with comp := [], used := (drainComp P c.used c.comp).2 }
  | _, _ => w

theorem retrieveFrom_cons_some (w : World) (p s : Nat) (r : List (Option Nat)) :
    retrieveFrom w p (some s :: r) = retrieveFrom (retrieveOne w p s) p r := by
  rw [retrieveFrom, retrieveOne]
  split <;> simp_all

theorem retrieveFrom_cons_none (w : World) (p : Nat) (r : List (Option Nat)) :
    retrieveFrom w p (none :: r) = retrieveFrom w p r := by
  rw [retrieveFrom]

/-- the release part of `pubRemoveConn` -/
def pubRelease (w : World) (p s : Nat) (P : Pub) : World × Pub :=
  match getC w p s with
  | some c => (setC w { c with used := c.used.map fun _ => false }, releaseAllUsed P c.used c.used.length)
  | none => (w, P)

theorem pubRemoveConn_eq (w : World) (p slot : Nat) :
    pubRemoveConn w p slot =
      match getP w p with
      | none => w
      | some P =>
        match P.conns.getD slot none with
        | none => w
        | some s =>
          detachSender (setP (pubRelease w p s P).1 p
            { (pubRelease w p s P).2 with conns := (pubRelease w p s P).2.conns.set slot none }) p s := by
  unfold pubRemoveConn pubRelease
  cases getP w p with
  | none => rfl
  | some P =>
    dsimp only
    cases P.conns.getD slot none with
    | none => rfl
    | some s =>
      dsimp only
      cases getC w p s <;> rfl

/-- the connection created by the publisher -/
def newConnP (p : Nat) (e : SubEntry) (P : Pub) (gh : List Nat) : Conn :=
  { pid := p, sid := e.sid, cap := e.buffer, used := List.replicate P.n false, sAtt := true,
    gFirst := P.seq, gHist := gh }

/-- the attach part of `pubCreateConn` -/
def pubAttach (w : World) (p slot : Nat) (e : SubEntry) (P : Pub) (gh : List Nat) : World :=
  setP (match getC w p e.sid with
      | some c => setC w { c with sAtt := true, gFirst := P.seq, gHist := gh }
      | none => pushC w (newConnP p e P gh)) p
    { P with conns := P.conns.set slot (some e.sid) }

def histCount (w : World) (p : Nat) (e : SubEntry) : Nat :=
  min e.histReq (match getC w p e.sid with | some c => c.cap | none => e.buffer)

theorem pubCreateConn_eq (w : World) (p slot : Nat) (e : SubEntry) :
    pubCreateConn w p slot e =
      match getP w p with
      | none => w
      | some P =>
        deliverHistory (pubAttach w p slot e P
            ((P.hist.drop (P.hist.length - histCount w p e)).map fun ch => P.chunkSeq.getD ch 0))
          p e.sid (P.hist.drop (P.hist.length - histCount w p e)) := by
  unfold pubCreateConn pubAttach histCount pushC newConnP
  cases getP w p <;> rfl

/-! subscriber side -/

def connBorrow (w : World) (p s : Nat) : Nat :=
  match getC w p s with | some c => c.borrow | none => 0

def prepEvict (w : World) (s : Nat) (S : Sub) (hasBorrows : Bool) : World :=
  match findTbr w s S (fun d b => !(d || b)) S.tbr 0 with
  | some (i, k) => subDropConn (setS w s { S with tbr := S.tbr.eraseIdx i }) s k
  | none =>
    if hasBorrows then
      match findTbr w s S (fun _ b => !b) S.tbr 0 with
      | some (i, k) => subDropConn (setS w s { S with tbr := S.tbr.eraseIdx i }) s k
      | none => w
    else w

def prepRetry (w : World) (s key : Nat) (hasBorrows : Bool) : World :=
  match getS w s with
  | none => w
  | some S =>
    if S.tbr.length < S.tbrCap then setS w s { S with tbr := S.tbr ++ [key] }
    else if hasBorrows then { w with panicked := true }
    else subDropConn w s key

theorem subPrepareRemoval_eq (w : World) (s slot : Nat) :
    subPrepareRemoval w s slot =
      match getS w s with
      | none => w
      | some S =>
        match S.conns.getD slot none with
        | none => w
        | some key =>
          match connFlags w s S key with
          | none => w
          | some (hasData, hasBorrows) =>
            if hasData || hasBorrows then
              if S.tbr.length < S.tbrCap then setS w s { S with tbr := S.tbr ++ [key] }
              else prepRetry (prepEvict w s S hasBorrows) s key hasBorrows
            else subDropConn w s key := by
  unfold subPrepareRemoval prepRetry prepEvict
  rfl

/-- the connection created by the subscriber -/
def newConnS (w : World) (s p : Nat) (S : Sub) : Conn :=
  { pid := p, sid := s, cap := S.buffer,
    used := List.replicate (match getP w p with | some P => P.n | none => 0) false, rAtt := true }

/-- the `create_receiver` part of `subCreateConn` -/
def subAttach (w : World) (s p : Nat) (S : Sub) : World :=
  match getC w p s with
  | some c => setC w { c with rAtt := true }
  | none => pushC w (newConnS w s p S)

theorem subCreateConn_eq (w : World) (s slot p : Nat) :
    subCreateConn w s slot p =
      match getS w s with
      | none => w
      | some S =>
        match smInsert S.storage p with
        | (m, some key) => setS (subAttach w s p S) s { S with storage := m, conns := S.conns.set slot (some key) }
        | (_, none) => { subAttach w s p S with panicked := true } := by
  unfold subCreateConn subAttach pushC newConnS
  rfl

/-- the tag computed in `subUpdateSlots` -/
def subConnected (S : Sub) (i p : Nat) : Option Nat :=
  match S.conns.getD i none with
  | none => none
  | some key => match smGet S.storage key with
    | some p' => if p' = p then some key else none
    | none => none

def tagAfter (w : World) (s i : Nat) (tagged : List Nat) : List Nat :=
  match getS w s with
  | some S' => match S'.conns.getD i none with | some k => k :: tagged | none => tagged
  | none => tagged

theorem subUpdateSlots_cons_some (w : World) (s p : Nat) (r : List (Option Nat)) (i : Nat) (tagged : List Nat) :
    subUpdateSlots w s (some p :: r) i tagged =
      match getS w s with
      | none => (w, tagged)
      | some S =>
        match subConnected S i p with
        | some key => subUpdateSlots w s r (i + 1) (key :: tagged)
        | none =>
          subUpdateSlots (subCreateConn (subPrepareRemoval w s i) s i p) s r (i + 1)
            (tagAfter (subCreateConn (subPrepareRemoval w s i) s i p) s i tagged) := by
  rw [subUpdateSlots]; rfl

/-- one iteration of `subFinish` -/
def subFinishOne (w : World) (s : Nat) (S : Sub) (tagged : List Nat) (n : Nat) : World :=
  match S.conns.getD n none with
  | none => w
  | some key =>
    if (smGet S.storage key).isSome && !tagged.contains key then
      match getS (subPrepareRemoval w s n) s with
      | some S' => setS (subPrepareRemoval w s n) s { S' with conns := S'.conns.set n none }
      | none => subPrepareRemoval w s n
    else w

theorem subFinish_succ (w : World) (s : Nat) (tagged : List Nat) (fuel n : Nat) :
    subFinish w s tagged (fuel + 1) n =
      match getS w s with
      | none => w
      | some S =>
        if n ≥ S.conns.length then w else subFinish (subFinishOne w s S tagged n) s tagged fuel (n + 1) := by
  rw [subFinish]; rfl

theorem recvTbr_succ (w : World) (s fuel i : Nat) :
    recvTbr w s (fuel + 1) i =
      match getS w s with
      | none => (w, .none)
      | some S =>
        match S.tbr[i]? with
        | none => (w, .none)
        | some key =>
          match smGet S.storage key with
          | none => recvTbr (setS w s { S with tbr := S.tbr.eraseIdx i }) s fuel i
          | some p =>
            if connBorrow w p s = w.cfg.borrowMax then recvTbr w s fuel (i + 1)
            else
              match recvFromConn w s S key with
              | (w', .some k p ch q) => (w', .some k p ch q)
              | (w', .maxBorrow) => (w', .maxBorrow)
              | (w', .none) =>
                if connBorrow w p s > 0 then recvTbr w' s fuel (i + 1)
                else recvTbr (subDropConn (setS w' s { S with tbr := S.tbr.eraseIdx i }) s key) s fuel i := by
  rw [recvTbr]; rfl

end Iox2.PubSub.C08
