/-
Layer A: attach / detach of connection ends.
-/
import Iox2.Proof.PubSubC01A2
namespace Iox2.PubSub.C01P
open Iox2.PubSub
open Iox2.C16.SlotMapP (abs WInv)

variable {cfg : Cfg} {np ns : Option Nat} {w : World}

theorem filter_map_nil_of_virgin {S : Sub} {p : Nat} {e : Nat × Nat}
    (h : (S.ghostRecv.filter (·.1 = p)).map (·.2) = []) (he : e ∈ S.ghostRecv) : e.1 ≠ p := by
  intro hp
  have : e ∈ S.ghostRecv.filter (·.1 = p) := by
    rw [List.mem_filter]; exact ⟨he, by simpa using hp⟩
  simp only [List.map_eq_nil_iff] at h
  rw [h] at this
  cases this

/-- the receiver side of a connection goes away -/
theorem InvA.detachReceiver (h : InvA cfg np ns w) (p s : Nat) : InvA cfg np ns (detachReceiver w p s) := by
  cases hg : getC w p s with
  | none => rw [detachReceiver_none hg]; exact h
  | some c =>
    obtain ⟨hcm, hcp, hcs⟩ := getC_some hg
    have hmem : ∀ cn ∈ (Iox2.PubSub.detachReceiver w p s |>.conns),
        (cn ∈ w.conns ∧ ¬ (cn.pid = p ∧ cn.sid = s)) ∨ (c.sAtt = true ∧ cn = { c with rAtt := false }) := by
      intro cn hcn
      rcases mem_detachReceiver hcn with h1 | ⟨c', h1, h2, h3⟩ | ⟨_, h1⟩
      · exact Or.inl h1
      · rw [hg] at h1; cases h1; exact Or.inr ⟨h2, h3⟩
      · rw [hg] at h1; cases h1
    have hget : ∀ a b cn0, getC w a b = some cn0 → ¬ (a = p ∧ b = s ∧ c.sAtt = false) →
        ∃ cn, getC (Iox2.PubSub.detachReceiver w p s) a b = some cn ∧ cn.sAtt = cn0.sAtt := by
      intro a b cn0 h0 hne
      rw [getC_detachReceiver]
      by_cases hab : a = p ∧ b = s
      · obtain ⟨rfl, rfl⟩ := hab
        rw [hg] at h0; cases h0
        have : c.sAtt = true := by
          cases hsa : c.sAtt with
          | true => rfl
          | false => exact absurd ⟨rfl, rfl, hsa⟩ hne
        simp [hg, this]
      · rw [if_neg hab]; exact ⟨cn0, h0, rfl⟩
    constructor
    · simp only [detachReceiver_cfg]; exact h.cfgEq
    · exact h.uniqC.detachReceiver p s
    · simp only [detachReceiver_subReg]; exact h.sregLen
    · simpa using h.preg
    · simpa using h.sreg
    · simpa using h.palive
    · simpa using h.salive
    · simpa using h.sbuf
    · simpa using h.pconns
    · intro cn hcn
      simp only [getP_detachReceiver, getS_detachReceiver]
      rcases hmem cn hcn with ⟨hm, _⟩ | ⟨_, rfl⟩
      · exact h.ends cn hm
      · exact h.ends c hcm
    · intro cn hcn hra
      simp only [getS_detachReceiver]
      rcases hmem cn hcn with ⟨hm, _⟩ | ⟨_, rfl⟩
      · exact h.a1 cn hm hra
      · cases hra
    · simpa using h.stor
    · intro cn hcn hsa
      simp only [getP_detachReceiver]
      rcases hmem cn hcn with ⟨hm, _⟩ | ⟨_, rfl⟩
      · exact h.a2 cn hm hsa
      · exact h.a2 c hcm hsa
    · intro a P hP hex i b hi
      simp only [getP_detachReceiver] at hP
      obtain ⟨cn0, h0, h1⟩ := h.a2c a P hP hex i b hi
      obtain ⟨cn, h2, h3⟩ := hget a b cn0 h0 (by
        rintro ⟨rfl, rfl, hsa⟩
        rw [hg] at h0; cases h0; rw [hsa] at h1; cases h1)
      exact ⟨cn, h2, h3 ▸ h1⟩
    · intro cn hcn
      rcases hmem cn hcn with ⟨hm, _⟩ | ⟨hsa, rfl⟩
      · exact h.a3 cn hm
      · exact Or.inl hsa
    · intro cn hcn hsa P S hP hS hex hal
      simp only [getP_detachReceiver, getS_detachReceiver] at hP hS
      rcases hmem cn hcn with ⟨hm, _⟩ | ⟨hsa', rfl⟩
      · exact h.virg cn hm hsa P S hP hS hex hal
      · simp only at hsa; rw [hsa'] at hsa; cases hsa
    · intro b S hS hal e he P hP hPa
      simp only [getP_detachReceiver, getS_detachReceiver] at hP hS
      obtain ⟨cn0, h0⟩ := h.k2 b S hS hal e he P hP hPa
      obtain ⟨cn, h2, _⟩ := hget e.1 b cn0 h0 (by
        rintro ⟨h1, rfl, hsa⟩
        have hv := h.virg c hcm hsa P S (by rw [hcp, ← h1]; exact hP) (by rw [hcs]; exact hS)
          (h.palive _ P hP hPa).1 hal
        have hl := h.l3 c hcm S (by rw [hcs]; exact hS)
        rw [hv.recv, hcp] at hl
        exact filter_map_nil_of_virgin hl he h1)
      exact ⟨cn, h2⟩
    · intro cn hcn S hS
      simp only [getS_detachReceiver] at hS
      rcases hmem cn hcn with ⟨hm, _⟩ | ⟨_, rfl⟩
      · exact h.l3 cn hm S hS
      · exact h.l3 c hcm S hS
    · simpa using h.l4
    · intro cn hcn
      rcases hmem cn hcn with ⟨hm, _⟩ | ⟨_, rfl⟩
      · exact h.clog cn hm
      · exact (h.clog c hcm).congr rfl rfl rfl rfl rfl rfl
    · simpa using h.gr

/-- the sender side of a connection goes away; the publisher's record `P'` no longer lists the
subscriber.  Either the publisher's shared state is gone, or the subscriber port was dropped. -/
theorem InvA.detachSender (h : InvA cfg np ns w) {p s : Nat} {P P' : Pub} (hP : getP w p = some P)
    (ha : P'.alive = P.alive) (he : P'.ex = P.ex) (hsl : P'.slot = P.slot)
    (hlen : P'.conns.length = P.conns.length)
    (hsub : ∀ (i : Nat) b, P'.conns[i]? = some (some b) → P.conns[i]? = some (some b) ∧ (P.ex = true → b ≠ s))
    (hkeep : ∀ (i : Nat) b, P.conns[i]? = some (some b) → b ≠ s → P'.conns[i]? = some (some b))
    (hdead : P.ex = true → ∀ S, getS w s = some S → S.alive = false) :
    InvA cfg np ns (setP (detachSender w p s) p P') := by
  have hgP : ∀ a Q, getP (setP (Iox2.PubSub.detachSender w p s) p P') a = some Q →
      (a = p ∧ Q = P') ∨ (a ≠ p ∧ getP w a = some Q) := by
    intro a Q hq
    rw [getP_setP] at hq
    by_cases hap : a = p
    · subst hap
      simp only [if_true, getP_detachSender, hP, Option.map_some, Option.some.injEq] at hq
      exact Or.inl ⟨rfl, hq.symm⟩
    · rw [if_neg hap, getP_detachSender] at hq
      exact Or.inr ⟨hap, hq⟩
  have hgP2 : ∀ a Q0, getP w a = some Q0 → ∃ Q, getP (setP (Iox2.PubSub.detachSender w p s) p P') a = some Q ∧
      Q.alive = Q0.alive ∧ Q.ex = Q0.ex ∧ Q.slot = Q0.slot := by
    intro a Q0 hq
    rw [getP_setP]
    by_cases hap : a = p
    · subst hap
      rw [hP] at hq; cases hq
      exact ⟨P', by simp [hP], ha, he, hsl⟩
    · rw [if_neg hap, getP_detachSender]
      exact ⟨Q0, hq, rfl, rfl, rfl⟩
  cases hg : getC w p s with
  | none =>
    -- nothing to detach: only the record changes
    rw [detachSender_none hg]
    have hgP' : ∀ a Q, getP (setP w p P') a = some Q → (a = p ∧ Q = P') ∨ (a ≠ p ∧ getP w a = some Q) := by
      intro a Q hq; have := hgP a Q; rw [detachSender_none hg] at this; exact this hq
    have hgP2' : ∀ a Q0, getP w a = some Q0 → ∃ Q, getP (setP w p P') a = some Q ∧
        Q.alive = Q0.alive ∧ Q.ex = Q0.ex ∧ Q.slot = Q0.slot := by
      intro a Q0 hq; have := hgP2 a Q0 hq; rw [detachSender_none hg] at this; exact this
    constructor
    · exact h.cfgEq
    · exact h.uniqC
    · exact h.sregLen
    · intro i a hi
      obtain ⟨h1, Q0, h2, h3, h4⟩ := h.preg i a hi
      obtain ⟨Q, hq, e1, e2, e3⟩ := hgP2' a Q0 h2
      exact ⟨h1, Q, hq, e1 ▸ h3, e3 ▸ h4⟩
    · exact h.sreg
    · intro a Q hq hal
      rcases hgP' a Q hq with ⟨rfl, rfl⟩ | ⟨_, h0⟩
      · rw [he, hsl]; exact h.palive a P hP (ha ▸ hal)
      · exact h.palive a Q h0 hal
    · exact h.salive
    · exact h.sbuf
    · intro a Q hq
      rcases hgP' a Q hq with ⟨rfl, rfl⟩ | ⟨_, h0⟩
      · obtain ⟨h1, h2⟩ := h.pconns a P hP
        exact ⟨hlen ▸ h1, fun i b hi => h2 i b (hsub i b hi).1⟩
      · exact h.pconns a Q h0
    · intro cn hcn
      obtain ⟨⟨Q0, h0⟩, hS⟩ := h.ends cn hcn
      obtain ⟨Q, hq, _⟩ := hgP2' _ Q0 h0
      exact ⟨⟨Q, hq⟩, hS⟩
    · exact h.a1
    · intro b S hS
      obtain ⟨h1, h2⟩ := h.stor b S hS
      refine ⟨h1, fun k a hk => ?_⟩
      obtain ⟨h3, Q0, h0⟩ := h2 k a hk
      obtain ⟨Q, hq, _⟩ := hgP2' _ Q0 h0
      exact ⟨h3, Q, hq⟩
    · intro cn hcn hsa
      obtain ⟨Q0, h0, i, hi⟩ := h.a2 cn hcn hsa
      by_cases hap : cn.pid = p
      · rw [hap] at h0 ⊢
        rw [hP] at h0; cases h0
        refine ⟨P', by simp [getP_setP, hP], i, hkeep i _ hi ?_⟩
        rintro rfl
        exact getC_none hg cn hcn ⟨hap, rfl⟩
      · refine ⟨Q0, ?_, i, hi⟩
        rw [getP_setP, if_neg hap]; exact h0
    · intro a Q hq hex i b hi
      rcases hgP' a Q hq with ⟨rfl, rfl⟩ | ⟨_, h0⟩
      · exact h.a2c a P hP (he ▸ hex) i b (hsub i b hi).1
      · exact h.a2c a Q h0 hex i b hi
    · exact h.a3
    · intro cn hcn hsa Q S hq hS hex hal
      rcases hgP' _ Q hq with ⟨hap, rfl⟩ | ⟨_, h0⟩
      · exact h.virg cn hcn hsa P S (hap ▸ hP) hS (he ▸ hex) hal
      · exact h.virg cn hcn hsa Q S h0 hS hex hal
    · intro b S hS hal e hemem Q hq hqa
      rcases hgP' _ Q hq with ⟨hap, rfl⟩ | ⟨_, h0⟩
      · exact h.k2 b S hS hal e hemem P (hap ▸ hP) (ha ▸ hqa)
      · exact h.k2 b S hS hal e hemem Q h0 hqa
    · exact h.l3
    · exact h.l4
    · exact h.clog
    · intro b S hS e he'
      obtain ⟨h1, Q0, h0⟩ := h.gr b S hS e he'
      obtain ⟨Q, hq, _⟩ := hgP2' _ Q0 h0
      exact ⟨h1, Q, hq⟩
  | some c =>
    obtain ⟨hcm, hcp, hcs⟩ := getC_some hg
    have hmem : ∀ cn ∈ (Iox2.PubSub.detachSender w p s |>.conns),
        (cn ∈ w.conns ∧ ¬ (cn.pid = p ∧ cn.sid = s)) ∨ (c.rAtt = true ∧ cn = { c with sAtt := false }) := by
      intro cn hcn
      rcases mem_detachSender hcn with h1 | ⟨c', h1, h2, h3⟩ | ⟨_, h1⟩
      · exact Or.inl h1
      · rw [hg] at h1; cases h1; exact Or.inr ⟨h2, h3⟩
      · rw [hg] at h1; cases h1
    have hget : ∀ a b cn0, getC w a b = some cn0 → ¬ (a = p ∧ b = s) →
        getC (setP (Iox2.PubSub.detachSender w p s) p P') a b = some cn0 := by
      intro a b cn0 h0 hne
      rw [getC_setP, getC_detachSender, if_neg hne]; exact h0
    constructor
    · simp only [setP_cfg, detachSender_cfg]; exact h.cfgEq
    · exact h.uniqC.detachSender p s
    · simp only [setP_subReg, detachSender_subReg]; exact h.sregLen
    · intro i a hi
      simp only [setP_pubReg, detachSender_pubReg] at hi
      obtain ⟨h1, Q0, h2, h3, h4⟩ := h.preg i a hi
      obtain ⟨Q, hq, e1, e2, e3⟩ := hgP2 a Q0 h2
      exact ⟨h1, Q, hq, e1 ▸ h3, e3 ▸ h4⟩
    · simpa using h.sreg
    · intro a Q hq hal
      simp only [setP_pubReg, detachSender_pubReg]
      rcases hgP a Q hq with ⟨rfl, rfl⟩ | ⟨_, h0⟩
      · rw [he, hsl]; exact h.palive a P hP (ha ▸ hal)
      · exact h.palive a Q h0 hal
    · simpa using h.salive
    · simpa using h.sbuf
    · intro a Q hq
      simp only [getS_setP, getS_detachSender]
      rcases hgP a Q hq with ⟨rfl, rfl⟩ | ⟨_, h0⟩
      · obtain ⟨h1, h2⟩ := h.pconns a P hP
        exact ⟨hlen ▸ h1, fun i b hi => h2 i b (hsub i b hi).1⟩
      · exact h.pconns a Q h0
    · intro cn hcn
      simp only [setP_conns] at hcn
      simp only [getS_setP, getS_detachSender]
      have : (∃ Q0, getP w cn.pid = some Q0) ∧ ∃ S, getS w cn.sid = some S := by
        rcases hmem cn hcn with ⟨hm, _⟩ | ⟨_, rfl⟩
        · exact h.ends cn hm
        · exact h.ends c hcm
      obtain ⟨⟨Q0, h0⟩, hS⟩ := this
      obtain ⟨Q, hq, _⟩ := hgP2 _ Q0 h0
      exact ⟨⟨Q, hq⟩, hS⟩
    · intro cn hcn hra
      simp only [setP_conns] at hcn
      simp only [getS_setP, getS_detachSender]
      rcases hmem cn hcn with ⟨hm, _⟩ | ⟨_, rfl⟩
      · exact h.a1 cn hm hra
      · exact h.a1 c hcm hra
    · intro b S hS
      simp only [getS_setP, getS_detachSender] at hS
      obtain ⟨h1, h2⟩ := h.stor b S hS
      refine ⟨h1, fun k a hk => ?_⟩
      obtain ⟨h3, Q0, h0⟩ := h2 k a hk
      obtain ⟨Q, hq, _⟩ := hgP2 _ Q0 h0
      exact ⟨h3, Q, hq⟩
    · intro cn hcn hsa
      simp only [setP_conns] at hcn
      rcases hmem cn hcn with ⟨hm, hne⟩ | ⟨_, rfl⟩
      · obtain ⟨Q0, h0, i, hi⟩ := h.a2 cn hm hsa
        by_cases hap : cn.pid = p
        · rw [hap] at h0 ⊢
          rw [hP] at h0; cases h0
          refine ⟨P', by simp [getP_setP, hP], i, hkeep i _ hi ?_⟩
          intro hb; exact hne ⟨hap, hb⟩
        · refine ⟨Q0, ?_, i, hi⟩
          rw [getP_setP, if_neg hap, getP_detachSender]; exact h0
      · cases hsa
    · intro a Q hq hex i b hi
      rcases hgP a Q hq with ⟨rfl, rfl⟩ | ⟨hap, h0⟩
      · obtain ⟨h1, h2⟩ := hsub i b hi
        obtain ⟨cn0, h3, h4⟩ := h.a2c a P hP (he ▸ hex) i b h1
        exact ⟨cn0, hget a b cn0 h3 (fun hh => h2 (he ▸ hex) hh.2), h4⟩
      · obtain ⟨cn0, h3, h4⟩ := h.a2c a Q h0 hex i b hi
        exact ⟨cn0, hget a b cn0 h3 (fun hh => hap hh.1), h4⟩
    · intro cn hcn
      simp only [setP_conns] at hcn
      rcases hmem cn hcn with ⟨hm, _⟩ | ⟨hra, rfl⟩
      · exact h.a3 cn hm
      · exact Or.inr hra
    · intro cn hcn hsa Q S hq hS hex hal
      simp only [setP_conns] at hcn
      simp only [getS_setP, getS_detachSender] at hS
      rcases hmem cn hcn with ⟨hm, hne⟩ | ⟨hra, rfl⟩
      · rcases hgP _ Q hq with ⟨hap, rfl⟩ | ⟨_, h0⟩
        · exact h.virg cn hm hsa P S (hap ▸ hP) hS (he ▸ hex) hal
        · exact h.virg cn hm hsa Q S h0 hS hex hal
      · exfalso
        simp only at hq hS
        rcases hgP _ Q hq with ⟨_, rfl⟩ | ⟨hap, _⟩
        · have := hdead (he ▸ hex) S (hcs ▸ hS)
          rw [this] at hal; cases hal
        · exact hap hcp
    · intro b S hS hal e hemem Q hq hqa
      simp only [getS_setP, getS_detachSender] at hS
      have hQ : ∃ Q0, getP w e.1 = some Q0 ∧ Q0.alive = true ∧ (e.1 = p → Q0 = P) := by
        rcases hgP _ Q hq with ⟨hap, rfl⟩ | ⟨hap, h0⟩
        · exact ⟨P, hap ▸ hP, ha ▸ hqa, fun _ => rfl⟩
        · exact ⟨Q, h0, hqa, fun h => absurd h hap⟩
      obtain ⟨Q0, h0, h0a, h0p⟩ := hQ
      obtain ⟨cn0, h1⟩ := h.k2 b S hS hal e hemem Q0 h0 h0a
      refine ⟨cn0, hget _ _ cn0 h1 ?_⟩
      rintro ⟨h2, rfl⟩
      have := h0p h2; subst this
      have := hdead (h.palive _ _ h0 h0a).1 S hS
      rw [this] at hal; cases hal
    · intro cn hcn S hS
      simp only [setP_conns] at hcn
      simp only [getS_setP, getS_detachSender] at hS
      rcases hmem cn hcn with ⟨hm, _⟩ | ⟨_, rfl⟩
      · exact h.l3 cn hm S hS
      · exact h.l3 c hcm S hS
    · simpa using h.l4
    · intro cn hcn
      simp only [setP_conns] at hcn
      rcases hmem cn hcn with ⟨hm, _⟩ | ⟨_, rfl⟩
      · exact h.clog cn hm
      · exact (h.clog c hcm).congr rfl rfl rfl rfl rfl rfl
    · intro b S hS e he'
      simp only [getS_setP, getS_detachSender] at hS
      obtain ⟨h1, Q0, h0⟩ := h.gr b S hS e he'
      obtain ⟨Q, hq, _⟩ := hgP2 _ Q0 h0
      exact ⟨h1, Q, hq⟩

end Iox2.PubSub.C01P
